//! C11, probes with a lock killed by user code while it is held: `RawLock::poison` is a safe public method, so user code
//! may call it on a lock (or collection) it currently holds; the hold must still end like any other - every member
//! released exactly once, in its own mode, the key back, a panic propagated.  The history vocabulary of the model has no
//! such call; the probes are judged by the property's own clause (`Monitors.c11_kill_probe_ok`).  One case = one line
//! `kq <id> <root> <mode ex|sh> <flavour guard|try|scoped|scopedtry> <kill 0|1> <panic 0|1>`:
//!   root: m = Mutex, r = RwLock, b = BoxedLockCollection<(Mutex, RwLock)>, t = RetryingLockCollection<[Mutex; 2]>,
//!         o = OwnedLockCollection<Vec<RwLock>> (two members)
//! output `kobs <id> ok <acquisitions> <exclusive releases> <shared releases> <flagged releases> <key back> <panicked>`.

use happylock::collection::{BoxedLockCollection, OwnedLockCollection, RetryingLockCollection};
use happylock::lockable::RawLock;
use happylock::ThreadKey;
use std::cell::Cell;
use std::panic::{catch_unwind, resume_unwind, AssertUnwindSafe};
use std::sync::atomic::Ordering::SeqCst;
use std::sync::atomic::{AtomicBool, AtomicIsize, AtomicUsize};

static ACQ: AtomicUsize = AtomicUsize::new(0);
static REL_EX: AtomicUsize = AtomicUsize::new(0);
static REL_SH: AtomicUsize = AtomicUsize::new(0);
static BAD: AtomicUsize = AtomicUsize::new(0);

/// a counting mutex (the probes are single-threaded: nothing ever waits)
pub struct CM(AtomicBool);
unsafe impl lock_api::RawMutex for CM {
	#[allow(clippy::declare_interior_mutable_const)]
	const INIT: Self = CM(AtomicBool::new(false));
	type GuardMarker = lock_api::GuardSend;
	fn lock(&self) {
		assert!(self.try_lock(), "a probe would wait");
	}
	fn try_lock(&self) -> bool {
		let ok = self.0.compare_exchange(false, true, SeqCst, SeqCst).is_ok();
		if ok {
			ACQ.fetch_add(1, SeqCst);
		}
		ok
	}
	unsafe fn unlock(&self) {
		if self.0.swap(false, SeqCst) {
			REL_EX.fetch_add(1, SeqCst);
		} else {
			BAD.fetch_add(1, SeqCst);
		}
	}
}
/// a counting reader-writer lock: -1 = held exclusively, n > 0 = n readers
pub struct CR(AtomicIsize);
unsafe impl lock_api::RawRwLock for CR {
	#[allow(clippy::declare_interior_mutable_const)]
	const INIT: Self = CR(AtomicIsize::new(0));
	type GuardMarker = lock_api::GuardSend;
	fn lock_shared(&self) {
		assert!(self.try_lock_shared(), "a probe would wait");
	}
	fn try_lock_shared(&self) -> bool {
		let n = self.0.load(SeqCst);
		let ok = n >= 0 && self.0.compare_exchange(n, n + 1, SeqCst, SeqCst).is_ok();
		if ok {
			ACQ.fetch_add(1, SeqCst);
		}
		ok
	}
	unsafe fn unlock_shared(&self) {
		if self.0.load(SeqCst) > 0 {
			self.0.fetch_sub(1, SeqCst);
			REL_SH.fetch_add(1, SeqCst);
		} else {
			BAD.fetch_add(1, SeqCst);
		}
	}
	fn lock_exclusive(&self) {
		assert!(self.try_lock_exclusive(), "a probe would wait");
	}
	fn try_lock_exclusive(&self) -> bool {
		let ok = self.0.compare_exchange(0, -1, SeqCst, SeqCst).is_ok();
		if ok {
			ACQ.fetch_add(1, SeqCst);
		}
		ok
	}
	unsafe fn unlock_exclusive(&self) {
		if self.0.compare_exchange(-1, 0, SeqCst, SeqCst).is_ok() {
			REL_EX.fetch_add(1, SeqCst);
		} else {
			BAD.fetch_add(1, SeqCst);
		}
	}
}
type M = happylock::mutex::Mutex<i32, CM>;
type R = happylock::rwlock::RwLock<i32, CR>;

thread_local! {
	static REFUSED: Cell<bool> = const { Cell::new(false) };
}
fn quiet_panic() -> ! {
	resume_unwind(Box::new(0u8))
}
fn refused() -> ! {
	REFUSED.with(|c| c.set(true));
	quiet_panic()
}

/// one hold on `$root` through the four flavours; user code kills the root while the hold is live, then ends the hold
macro_rules! probe {
	($root:expr, $flavour:expr, $kill:expr, $panic:expr, $lock:ident, $try:ident, $scoped:ident, $scoped_try:ident) => {{
		let root = &$root;
		let (kill, panic): (bool, bool) = ($kill, $panic);
		let r = catch_unwind(AssertUnwindSafe(|| match $flavour {
			"guard" | "try" => {
				let key = ThreadKey::get().unwrap();
				let g = if $flavour == "guard" {
					root.$lock(key)
				} else {
					match root.$try(key) {
						Ok(g) => g,
						Err(_) => refused(),
					}
				};
				if kill {
					RawLock::poison(root);
				}
				if panic {
					let _g = g;
					quiet_panic();
				}
				drop(g);
			}
			"scoped" => {
				let mut key = ThreadKey::get().unwrap();
				root.$scoped(&mut key, |_| {
					if kill {
						RawLock::poison(root);
					}
					if panic {
						quiet_panic();
					}
				});
			}
			"scopedtry" => {
				let mut key = ThreadKey::get().unwrap();
				let r = root.$scoped_try(&mut key, |_| {
					if kill {
						RawLock::poison(root);
					}
					if panic {
						quiet_panic();
					}
				});
				if r.is_err() {
					refused();
				}
			}
			f => panic!("flavour {f}"),
		}));
		r.is_err()
	}};
}

pub fn run(line: &str) -> String {
	let t: Vec<&str> = line.split_whitespace().collect();
	let (id, root, mode, flavour, kill, panic) = (t[1], t[2], t[3], t[4], t[5] == "1", t[6] == "1");
	for c in [&ACQ, &REL_EX, &REL_SH, &BAD] {
		c.store(0, SeqCst);
	}
	REFUSED.with(|c| c.set(false));
	let outer = catch_unwind(AssertUnwindSafe(|| match (root, mode) {
		("m", "ex") => probe!(M::new(1), flavour, kill, panic, lock, try_lock, scoped_lock, scoped_try_lock),
		("r", "ex") => probe!(R::new(1), flavour, kill, panic, write, try_write, scoped_write, scoped_try_write),
		("r", "sh") => probe!(R::new(1), flavour, kill, panic, read, try_read, scoped_read, scoped_try_read),
		("b", "ex") => {
			probe!(BoxedLockCollection::new((M::new(1), R::new(2))), flavour, kill, panic, lock, try_lock, scoped_lock, scoped_try_lock)
		}
		("t", "ex") => {
			probe!(RetryingLockCollection::new([M::new(1), M::new(2)]), flavour, kill, panic, lock, try_lock, scoped_lock, scoped_try_lock)
		}
		("o", "ex") => {
			probe!(OwnedLockCollection::new(vec![R::new(1), R::new(2)]), flavour, kill, panic, lock, try_lock, scoped_lock, scoped_try_lock)
		}
		("o", "sh") => {
			probe!(OwnedLockCollection::new(vec![R::new(1), R::new(2)]), flavour, kill, panic, read, try_read, scoped_read, scoped_try_read)
		}
		(r, m) => panic!("root {r} mode {m}"),
	}));
	let key_back = ThreadKey::get().is_some();
	match outer {
		Ok(panicked) if !REFUSED.with(|c| c.get()) => format!(
			"kobs {} ok {} {} {} {} {} {}",
			id,
			ACQ.load(SeqCst),
			REL_EX.load(SeqCst),
			REL_SH.load(SeqCst),
			BAD.load(SeqCst),
			key_back,
			panicked
		),
		Ok(_) => format!("kobs {} refused", id),
		Err(e) => {
			let msg = e.downcast_ref::<String>().cloned().or_else(|| e.downcast_ref::<&str>().map(|s| s.to_string())).unwrap_or_default();
			format!("kobs {} error {}", id, msg)
		}
	}
}
