//! C17, accessors: operations that need exclusive or by-value access to the lock object (get_mut, as_mut, child_mut,
//! iter_mut, into_child, into_inner) or only read its structure (child, as_ref, iter, Debug), run on an object whose locks
//! are currently held — the guard was leaked with mem::forget, the only way to have `&mut` to a held lock in safe code.
//! One scenario = one line `a <id> <owner> <n> <held: none|ex|sh> <accessor>`; output `vobs <id> ok [before] [after]`:
//! which member locks are held (seen by try-locking from another thread) before and after the accessor.

use happylock::collection::{BoxedLockCollection, OwnedLockCollection, RefLockCollection, RetryingLockCollection};
use happylock::lockable::{LockableGetMut, LockableIntoInner};
use happylock::poisonable::{Poisonable, TryLockPoisonableError};
use happylock::{Mutex, RwLock, ThreadKey};

/// is this lock held (in any mode), as another thread sees it; the probe undoes itself
fn held_m(m: &Mutex<u32>) -> bool {
	std::thread::scope(|s| {
		s.spawn(|| {
			let key = ThreadKey::get().unwrap();
			match m.try_lock(key) {
				Ok(g) => {
					drop(g);
					false
				}
				Err(_) => true,
			}
		})
		.join()
		.unwrap()
	})
}
fn held_r(m: &RwLock<u32>) -> bool {
	std::thread::scope(|s| {
		s.spawn(|| {
			let key = ThreadKey::get().unwrap();
			match m.try_write(key) {
				Ok(g) => {
					drop(g);
					false
				}
				Err(_) => true,
			}
		})
		.join()
		.unwrap()
	})
}
fn held_vec(v: &[Mutex<u32>]) -> Vec<bool> {
	v.iter().map(held_m).collect()
}
fn show(v: &[bool]) -> String {
	let s: Vec<&str> = v.iter().map(|b| if *b { "true" } else { "false" }).collect();
	format!("[{}]", s.join("; "))
}
fn mk(n: usize) -> Vec<Mutex<u32>> {
	(0..n as u32).map(Mutex::new).collect()
}

/// runs in its own thread: the key of that thread is leaked together with the guard
fn case(owner: &str, n: usize, held: &str, acc: &str) -> (Vec<bool>, Vec<bool>) {
	let key = ThreadKey::get().unwrap();
	let take = held != "none";
	match owner {
		"mutex" => {
			let mut m = Mutex::new(7u32);
			if take {
				std::mem::forget(m.lock(key));
			}
			let before = vec![held_m(&m)];
			match acc {
				"get_mut" => *m.get_mut() += 1,
				"as_mut" => *AsMut::<u32>::as_mut(&mut m) += 1,
				"fmt" => drop(format!("{m:?}")),
				"into_inner" => {
					// consuming: the hold state cannot be observed afterwards; the call itself must not wait
					let _ = m.into_inner();
					return (before.clone(), before);
				}
				a => panic!("accessor {a}"),
			}
			(before, vec![held_m(&m)])
		}
		"rwlock" => {
			let mut m = RwLock::new(7u32);
			match held {
				"ex" => std::mem::forget(m.write(key)),
				"sh" => std::mem::forget(m.read(key)),
				_ => {}
			}
			let before = vec![held_r(&m)];
			match acc {
				"get_mut" => *m.get_mut() += 1,
				"as_mut" => *AsMut::<u32>::as_mut(&mut m) += 1,
				"fmt" => drop(format!("{m:?}")),
				a => panic!("accessor {a}"),
			}
			(before, vec![held_r(&m)])
		}
		"poison" => {
			let mut p = Poisonable::new(Mutex::new(7u32));
			if take {
				match p.lock(key) {
					Ok(g) => std::mem::forget(g),
					Err(e) => std::mem::forget(e.into_inner()),
				}
			}
			// the wrapped mutex is private: the whole wrapper is probed
			let probe = |p: &Poisonable<Mutex<u32>>| {
				std::thread::scope(|s| {
					s.spawn(|| {
						let key = ThreadKey::get().unwrap();
						match p.try_lock(key) {
							Ok(g) => {
								drop(g);
								false
							}
							Err(TryLockPoisonableError::Poisoned(e)) => {
								drop(e.into_inner());
								false
							}
							Err(TryLockPoisonableError::WouldBlock(_)) => true,
						}
					})
					.join()
					.unwrap()
				})
			};
			let before = vec![probe(&p)];
			match acc {
				"get_mut" => {
					let _ = p.get_mut().map(|x| *x += 1);
				}
				"is_poisoned" => drop(p.is_poisoned()),
				"clear_poison" => p.clear_poison(),
				"fmt" => drop(format!("{p:?}")),
				a => panic!("accessor {a}"),
			}
			(before, vec![probe(&p)])
		}
		"owned" => {
			let mut c = OwnedLockCollection::new(mk(n));
			if take {
				std::mem::forget(c.lock(key));
			}
			// an owned collection gives no shared access to its members: before = what into_child would show is not
			// available without consuming; the members are reached through child_mut (a plain field projection)
			let before = {
				let v: &mut Vec<Mutex<u32>> = c.child_mut();
				held_vec(v)
			};
			match acc {
				"get_mut" => {
					for x in c.get_mut().iter_mut() {
						**x += 1;
					}
				}
				"as_mut" => drop(AsMut::<Vec<Mutex<u32>>>::as_mut(&mut c).len()),
				"fmt" => drop(format!("{c:?}")),
				"into_child" => {
					let v = c.into_child();
					return (before, held_vec(&v));
				}
				"into_inner" => {
					let _ = LockableIntoInner::into_inner(c);
					return (before.clone(), before);
				}
				a => panic!("accessor {a}"),
			}
			let after = held_vec(c.child_mut());
			(before, after)
		}
		"retry" => {
			let mut c = RetryingLockCollection::new(mk(n));
			if take {
				std::mem::forget(c.lock(key));
			}
			let before = held_vec(c.child());
			match acc {
				"get_mut" => {
					for x in LockableGetMut::get_mut(&mut c).iter_mut() {
						**x += 1;
					}
				}
				"child_mut" => drop(c.child_mut().len()),
				"as_mut" => drop(AsMut::<Vec<Mutex<u32>>>::as_mut(&mut c).len()),
				"as_ref" => drop(AsRef::<Vec<Mutex<u32>>>::as_ref(&c).len()),
				"iter" => drop(c.iter().count()),
				"iter_mut" => drop(c.iter_mut().count()),
				"fmt" => drop(format!("{c:?}")),
				"into_child" => {
					let v = c.into_child();
					return (before, held_vec(&v));
				}
				a => panic!("accessor {a}"),
			}
			let after = held_vec(c.child());
			(before, after)
		}
		"boxed" => {
			let c = BoxedLockCollection::new(mk(n));
			if take {
				std::mem::forget(c.lock(key));
			}
			let before = held_vec(c.child());
			match acc {
				"child" => drop(c.child().len()),
				"as_ref" => drop(AsRef::<Vec<Mutex<u32>>>::as_ref(&c).len()),
				"iter" => drop(c.iter().count()),
				"fmt" => drop(format!("{c:?}")),
				"into_child" => {
					let v = c.into_child();
					return (before, held_vec(&v));
				}
				a => panic!("accessor {a}"),
			}
			let after = held_vec(c.child());
			(before, after)
		}
		"ref" => {
			let data = mk(n);
			let c = RefLockCollection::new(&data);
			if take {
				std::mem::forget(c.lock(key));
			}
			let before = held_vec(&data);
			match acc {
				"as_ref" => drop(AsRef::<Vec<Mutex<u32>>>::as_ref(&c).len()),
				"iter" => drop(c.iter().count()),
				"fmt" => drop(format!("{c:?}")),
				a => panic!("accessor {a}"),
			}
			(before, held_vec(&data))
		}
		o => panic!("owner {o}"),
	}
}

/// operations on a LIVE guard that are not acquisitions (Debug, Display, Hash, Deref, DerefMut, AsRef, AsMut): the member
/// locks must stay held exactly as they were while the guard lives, the call must not wait, and dropping the guard
/// afterwards must free everything.  `probe` sees the member locks from another thread.
macro_rules! guard_ops {
	($g:ident, $acc:expr, display = $disp:expr, mutable = $mutable:expr) => {{
		use std::hash::{Hash, Hasher};
		match $acc {
			"g_fmt" => drop(format!("{:?}", $g)),
			"g_hash" => {
				let mut h = std::collections::hash_map::DefaultHasher::new();
				$g.hash(&mut h);
				let _ = h.finish();
			}
			"g_deref" => drop(format!("{:?}", &*$g)),
			"g_as_ref" => drop(format!("{:?}", $g.as_ref())),
			a => panic!("guard accessor {a}"),
		}
	}};
}

fn guard_case(owner: &str, n: usize, held: &str, acc: &str) -> (Vec<bool>, Vec<bool>) {
	let key = ThreadKey::get().unwrap();
	let free_after = |held_after: Vec<bool>| held_after.into_iter().map(|b| !b).collect::<Vec<bool>>();
	match owner {
		"mutex" => {
			let m = Mutex::new(7u32);
			let mut g = m.lock(key);
			let mut before = vec![held_m(&m)];
			match acc {
				"g_display" => drop(format!("{}", g)),
				"g_deref_mut" => *g += 1,
				"g_as_mut" => *g.as_mut() += 1,
				a => guard_ops!(g, a, display = true, mutable = true),
			}
			let mut after = vec![held_m(&m)];
			drop(g);
			before.push(true);
			after.extend(free_after(vec![held_m(&m)]));
			(before, after)
		}
		"rwlock" => {
			let m = RwLock::new(7u32);
			let mut before;
			let mut after;
			if held == "gsh" {
				let g = m.read(key);
				before = vec![held_r(&m)];
				match acc {
					"g_display" => drop(format!("{}", g)),
					a => guard_ops!(g, a, display = true, mutable = false),
				}
				after = vec![held_r(&m)];
				drop(g);
			} else {
				let mut g = m.write(key);
				before = vec![held_r(&m)];
				match acc {
					"g_display" => drop(format!("{}", g)),
					"g_deref_mut" => *g += 1,
					"g_as_mut" => *g.as_mut() += 1,
					a => guard_ops!(g, a, display = true, mutable = true),
				}
				after = vec![held_r(&m)];
				drop(g);
			}
			before.push(true);
			after.extend(free_after(vec![held_r(&m)]));
			(before, after)
		}
		"poison" => {
			let p = Poisonable::new(Mutex::new(7u32));
			let probe = |p: &Poisonable<Mutex<u32>>| {
				std::thread::scope(|s| {
					s.spawn(|| {
						let key = ThreadKey::get().unwrap();
						match p.try_lock(key) {
							Ok(g) => {
								drop(g);
								false
							}
							Err(TryLockPoisonableError::Poisoned(e)) => {
								drop(e.into_inner());
								false
							}
							Err(TryLockPoisonableError::WouldBlock(_)) => true,
						}
					})
					.join()
					.unwrap()
				})
			};
			let mut g = match p.lock(key) {
				Ok(g) => g,
				Err(e) => e.into_inner(),
			};
			let mut before = vec![probe(&p)];
			match acc {
				"g_display" => drop(format!("{}", g)),
				"g_deref_mut" => *g += 1,
				"g_as_mut" => **g.as_mut() += 1,
				a => guard_ops!(g, a, display = true, mutable = true),
			}
			let mut after = vec![probe(&p)];
			drop(g);
			before.push(true);
			after.extend(free_after(vec![probe(&p)]));
			(before, after)
		}
		"boxed" | "retry" | "ref" | "owned" => {
			macro_rules! coll_guard {
				($c:expr, $probe:expr) => {{
					let c = $c;
					let mut g = c.lock(key);
					let mut before: Vec<bool> = $probe(&c);
					match acc {
						"g_deref_mut" => {
							for x in g.iter_mut() {
								**x += 1;
							}
						}
						"g_as_mut" => {
							for x in g.as_mut().iter_mut() {
								**x += 1;
							}
						}
						a => guard_ops!(g, a, display = false, mutable = true),
					}
					let mut after: Vec<bool> = $probe(&c);
					drop(g);
					before.extend(std::iter::repeat(true).take(before.len()));
					after.extend(free_after($probe(&c)));
					(before, after)
				}};
			}
			match owner {
				"boxed" => coll_guard!(BoxedLockCollection::new(mk(n)), |c: &BoxedLockCollection<Vec<Mutex<u32>>>| held_vec(c.child())),
				"retry" => coll_guard!(RetryingLockCollection::new(mk(n)), |c: &RetryingLockCollection<Vec<Mutex<u32>>>| held_vec(c.child())),
				"ref" => {
					let data = mk(n);
					coll_guard!(RefLockCollection::new(&data), |_c: &RefLockCollection<Vec<Mutex<u32>>>| held_vec(&data))
				}
				_ => {
					// no shared access to the members of an owned collection: the whole collection is probed
					let probe = |c: &OwnedLockCollection<Vec<Mutex<u32>>>| {
						vec![std::thread::scope(|s| {
							s.spawn(|| {
								let key = ThreadKey::get().unwrap();
								match c.try_lock(key) {
									Ok(g) => {
										drop(g);
										false
									}
									Err(_) => true,
								}
							})
							.join()
							.unwrap()
						})]
					};
					coll_guard!(OwnedLockCollection::new(mk(n)), probe)
				}
			}
		}
		o => panic!("owner {o}"),
	}
}

pub fn run(line: &str) -> String {
	let t: Vec<String> = line.split_whitespace().map(|x| x.to_string()).collect();
	// a <id> <owner> <n> <held> <accessor>
	let id = t[1].clone();
	let (owner, n, held, acc) = (t[2].clone(), t[3].parse::<usize>().unwrap(), t[4].clone(), t[5].clone());
	let (tx, rx) = std::sync::mpsc::channel();
	// own thread (its key is leaked with the guard); a watchdog turns "the accessor waits" into a result
	std::thread::spawn(move || {
		let r = std::panic::catch_unwind(std::panic::AssertUnwindSafe(|| if held.starts_with('g') { guard_case(&owner, n, &held, &acc) } else { case(&owner, n, &held, &acc) }));
		let _ = tx.send(r.map_err(|e| {
			e.downcast_ref::<String>().cloned().or_else(|| e.downcast_ref::<&str>().map(|s| s.to_string())).unwrap_or_default()
		}));
	});
	match rx.recv_timeout(std::time::Duration::from_secs(10)) {
		Ok(Ok((b, a))) => format!("vobs {} ok {} {}", id, show(&b), show(&a)),
		Ok(Err(msg)) => format!("vobs {} panic {}", id, msg),
		Err(_) => format!("vobs {} waits", id),
	}
}
