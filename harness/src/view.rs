//! Payload type, a uniform *view* of every guard / data structure happylock hands out (GView), and the
//! dynamically-shaped member type `Node`, whose Lockable impl only delegates to the crate's own impls.

use std::fmt::Debug;

use happylock::collection::LockGuard;
use happylock::lockable::{Lockable, OwnedLockable, RawLock, Sharable};
use happylock::mutex::{Mutex, MutexGuard, MutexRef};
use happylock::poisonable::{PoisonError, PoisonGuard, PoisonRef};
use happylock::rwlock::{RwLock, RwLockReadGuard, RwLockReadRef, RwLockWriteGuard, RwLockWriteRef};

use crate::vlock::{self, VMutex, VRwLock};

/// protected value: `tag` = id of the lock it was created in (never changes), `ver` is bumped by writes
pub struct P {
	pub tag: u32,
	pub ver: u32,
}

thread_local! {
	/// the payload with this tag reports a formatting error from its Debug impl (as a sink that fails would)
	pub static FAIL_TAG: std::cell::Cell<Option<u32>> = const { std::cell::Cell::new(None) };
	/// the payload with this tag panics in its Debug impl (user code running inside the lock's Debug impl)
	pub static PANIC_TAG: std::cell::Cell<Option<u32>> = const { std::cell::Cell::new(None) };
}

impl Debug for P {
	fn fmt(&self, f: &mut std::fmt::Formatter<'_>) -> std::fmt::Result {
		// formatting a lock's payload is a read of it (Debug for Mutex/RwLock try-locks first)
		vlock::data_event(false, 0, self.tag, self.ver);
		if FAIL_TAG.with(|x| x.get()) == Some(self.tag) {
			return Err(std::fmt::Error);
		}
		if PANIC_TAG.with(|x| x.get()) == Some(self.tag) {
			std::panic::resume_unwind(Box::new(0u8));
		}
		write!(f, "P({},{})", self.tag, self.ver)
	}
}

pub type M = Mutex<P, VMutex>;
pub type R = RwLock<P, VRwLock>;

pub enum Item<'a> {
	Mut(&'a mut P),
	Ro(&'a P),
	Poison(bool), // an Ok/Err wrapper of a Poisonable; true = Err
}

/// walk a guard / DataMut / DataRef structure in declared order
pub trait GView {
	fn visit<'a>(&'a mut self, out: &mut Vec<Item<'a>>);
}

impl GView for MutexRef<'_, P, VMutex> {
	fn visit<'a>(&'a mut self, out: &mut Vec<Item<'a>>) {
		out.push(Item::Mut(&mut **self));
	}
}
impl GView for MutexGuard<'_, P, VMutex> {
	fn visit<'a>(&'a mut self, out: &mut Vec<Item<'a>>) {
		out.push(Item::Mut(&mut **self));
	}
}
impl GView for RwLockWriteRef<'_, P, VRwLock> {
	fn visit<'a>(&'a mut self, out: &mut Vec<Item<'a>>) {
		out.push(Item::Mut(&mut **self));
	}
}
impl GView for RwLockWriteGuard<'_, P, VRwLock> {
	fn visit<'a>(&'a mut self, out: &mut Vec<Item<'a>>) {
		out.push(Item::Mut(&mut **self));
	}
}
impl GView for RwLockReadRef<'_, P, VRwLock> {
	fn visit<'a>(&'a mut self, out: &mut Vec<Item<'a>>) {
		out.push(Item::Ro(&**self));
	}
}
impl GView for RwLockReadGuard<'_, P, VRwLock> {
	fn visit<'a>(&'a mut self, out: &mut Vec<Item<'a>>) {
		out.push(Item::Ro(&**self));
	}
}
impl GView for &mut P {
	fn visit<'a>(&'a mut self, out: &mut Vec<Item<'a>>) {
		out.push(Item::Mut(&mut **self));
	}
}
impl GView for &P {
	fn visit<'a>(&'a mut self, out: &mut Vec<Item<'a>>) {
		out.push(Item::Ro(&**self));
	}
}
impl<G: GView + ?Sized> GView for Box<G> {
	fn visit<'a>(&'a mut self, out: &mut Vec<Item<'a>>) {
		(**self).visit(out)
	}
}
impl<G: GView> GView for [G] {
	fn visit<'a>(&'a mut self, out: &mut Vec<Item<'a>>) {
		for g in self.iter_mut() {
			g.visit(out);
		}
	}
}
impl<G: GView, const N: usize> GView for [G; N] {
	fn visit<'a>(&'a mut self, out: &mut Vec<Item<'a>>) {
		for g in self.iter_mut() {
			g.visit(out);
		}
	}
}
macro_rules! tuple_view {
	($($g:ident $i:tt),*) => {
		impl<$($g: GView),*> GView for ($($g,)*) {
			fn visit<'a>(&'a mut self, out: &mut Vec<Item<'a>>) {
				$( self.$i.visit(out); )*
			}
		}
	};
}
tuple_view!(A 0);
tuple_view!(A 0, B 1);
tuple_view!(A 0, B 1, C 2);
tuple_view!(A 0, B 1, C 2, D 3);
tuple_view!(A 0, B 1, C 2, D 3, E 4);
tuple_view!(A 0, B 1, C 2, D 3, E 4, F 5);
tuple_view!(A 0, B 1, C 2, D 3, E 4, F 5, G 6);

impl<G: GView> GView for LockGuard<G> {
	fn visit<'a>(&'a mut self, out: &mut Vec<Item<'a>>) {
		(**self).visit(out)
	}
}
impl<G: GView> GView for PoisonRef<'_, G> {
	fn visit<'a>(&'a mut self, out: &mut Vec<Item<'a>>) {
		AsMut::<G>::as_mut(self).visit(out)
	}
}
impl<G: GView> GView for PoisonGuard<'_, G> {
	fn visit<'a>(&'a mut self, out: &mut Vec<Item<'a>>) {
		AsMut::<G>::as_mut(self).visit(out)
	}
}
// PoisonResult<T> = Result<T, PoisonError<T>>
impl<G: GView> GView for Result<G, PoisonError<G>> {
	fn visit<'a>(&'a mut self, out: &mut Vec<Item<'a>>) {
		match self {
			Ok(g) => {
				out.push(Item::Poison(false));
				g.visit(out)
			}
			Err(e) => {
				out.push(Item::Poison(true));
				e.get_mut().visit(out)
			}
		}
	}
}

pub type BView<'g> = Box<dyn GView + 'g>;

/// object-safe mirror of Lockable + Sharable + Debug for the building blocks a Node can refer to
pub trait DynL: Sync {
	fn ptrs<'a>(&'a self, ptrs: &mut Vec<&'a dyn RawLock>);
	unsafe fn dguard(&self) -> BView<'_>;
	unsafe fn ddata_mut(&self) -> BView<'_>;
	unsafe fn dread_guard(&self) -> BView<'_>;
	unsafe fn ddata_ref(&self) -> BView<'_>;
	fn dfmt(&self, f: &mut std::fmt::Formatter<'_>) -> std::fmt::Result;
}

/// sharable building blocks (RwLock, every collection over nodes, Poisonable of those)
#[repr(transparent)]
pub struct Shr<L>(pub L);
/// exclusive-only building blocks (Mutex, Poisonable<Mutex>)
#[repr(transparent)]
pub struct Exc<L>(pub L);

pub fn as_shr<L>(l: &'static L) -> &'static Shr<L> {
	// repr(transparent)
	unsafe { &*(l as *const L as *const Shr<L>) }
}
pub fn as_exc<L>(l: &'static L) -> &'static Exc<L> {
	unsafe { &*(l as *const L as *const Exc<L>) }
}

impl<L> DynL for Shr<L>
where
	L: Sharable + Debug + Sync,
	for<'g> L::Guard<'g>: GView,
	for<'g> L::DataMut<'g>: GView,
	for<'g> L::ReadGuard<'g>: GView,
	for<'g> L::DataRef<'g>: GView,
{
	fn ptrs<'a>(&'a self, ptrs: &mut Vec<&'a dyn RawLock>) {
		self.0.get_ptrs(ptrs)
	}
	unsafe fn dguard(&self) -> BView<'_> {
		Box::new(self.0.guard())
	}
	unsafe fn ddata_mut(&self) -> BView<'_> {
		Box::new(self.0.data_mut())
	}
	unsafe fn dread_guard(&self) -> BView<'_> {
		Box::new(self.0.read_guard())
	}
	unsafe fn ddata_ref(&self) -> BView<'_> {
		Box::new(self.0.data_ref())
	}
	fn dfmt(&self, f: &mut std::fmt::Formatter<'_>) -> std::fmt::Result {
		self.0.fmt(f)
	}
}

impl<L> DynL for Exc<L>
where
	L: Lockable + Debug + Sync,
	for<'g> L::Guard<'g>: GView,
	for<'g> L::DataMut<'g>: GView,
{
	fn ptrs<'a>(&'a self, ptrs: &mut Vec<&'a dyn RawLock>) {
		self.0.get_ptrs(ptrs)
	}
	unsafe fn dguard(&self) -> BView<'_> {
		Box::new(self.0.guard())
	}
	unsafe fn ddata_mut(&self) -> BView<'_> {
		Box::new(self.0.data_mut())
	}
	unsafe fn dread_guard(&self) -> BView<'_> {
		unreachable!("harness: shared access to a shape containing a Mutex")
	}
	unsafe fn ddata_ref(&self) -> BView<'_> {
		unreachable!("harness: shared access to a shape containing a Mutex")
	}
	fn dfmt(&self, f: &mut std::fmt::Formatter<'_>) -> std::fmt::Result {
		self.0.fmt(f)
	}
}

/// a member of a container: a reference to a lock, collection or wrapper built by the scenario
#[derive(Clone, Copy)]
pub struct Node(pub &'static dyn DynL);

impl Debug for Node {
	fn fmt(&self, f: &mut std::fmt::Formatter<'_>) -> std::fmt::Result {
		self.0.dfmt(f)
	}
}

unsafe impl Lockable for Node {
	type Guard<'g>
		= BView<'g>
	where
		Self: 'g;
	type DataMut<'a>
		= BView<'a>
	where
		Self: 'a;

	fn get_ptrs<'a>(&'a self, ptrs: &mut Vec<&'a dyn RawLock>) {
		self.0.ptrs(ptrs)
	}
	unsafe fn guard(&self) -> Self::Guard<'_> {
		self.0.dguard()
	}
	unsafe fn data_mut(&self) -> Self::DataMut<'_> {
		self.0.ddata_mut()
	}
}

unsafe impl Sharable for Node {
	type ReadGuard<'g>
		= BView<'g>
	where
		Self: 'g;
	type DataRef<'a>
		= BView<'a>
	where
		Self: 'a;

	unsafe fn read_guard(&self) -> Self::ReadGuard<'_> {
		self.0.dread_guard()
	}
	unsafe fn data_ref(&self) -> Self::DataRef<'_> {
		self.0.ddata_ref()
	}
}

// The scenario builder promises: a Node placed in an owned context (OwnedLockCollection, `new`,
// `new_ref`) refers to something no other Node, collection or thread refers to.
unsafe impl OwnedLockable for Node {}

/// `format!("{:?}", x)` that does not panic when a Debug impl reports an error
pub fn dbg_string<T: Debug + ?Sized>(x: &T) -> String {
	use std::fmt::Write as _;
	let mut s = String::new();
	let _ = write!(s, "{:?}", x);
	s
}
