//! Auditing raw locks (the `R` type parameter of happylock's Mutex / RwLock) and the controller that
//! owns their state, records every operation, injects faults and hands the baton between threads.
//!
//! The state machine of a lock is `raw_apply` of coq/Model.v, line for line.

use std::cell::Cell;
use std::fmt::Write as _;
use std::sync::{Condvar, Mutex as StdMutex};

#[derive(Clone, Copy, PartialEq, Eq, Debug)]
pub enum Rop {
	Lock,
	Try,
	Unlock,
	LockSh,
	TrySh,
	UnlockSh,
}

impl Rop {
	pub fn name(self) -> &'static str {
		match self {
			Rop::Lock => "OLock",
			Rop::Try => "OTry",
			Rop::Unlock => "OUnlock",
			Rop::LockSh => "OLockSh",
			Rop::TrySh => "OTrySh",
			Rop::UnlockSh => "OUnlockSh",
		}
	}
	pub fn parse(s: &str) -> Rop {
		match s {
			"OLock" => Rop::Lock,
			"OTry" => Rop::Try,
			"OUnlock" => Rop::Unlock,
			"OLockSh" => Rop::LockSh,
			"OTrySh" => Rop::TrySh,
			"OUnlockSh" => Rop::UnlockSh,
			_ => panic!("bad rop {s}"),
		}
	}
	pub fn blocking(self) -> bool {
		matches!(self, Rop::Lock | Rop::LockSh)
	}
}

#[derive(Clone, Default, Debug)]
pub struct RawSt {
	pub writer: Option<usize>,
	pub readers: Vec<usize>, // newest first, as in the model
}

impl RawSt {
	fn is_free(&self) -> bool {
		self.writer.is_none() && self.readers.is_empty()
	}
	pub fn show(&self) -> String {
		let w = match self.writer {
			None => "None".to_string(),
			Some(t) => format!("(Some {t})"),
		};
		let r: Vec<String> = self.readers.iter().map(|x| x.to_string()).collect();
		format!("mkraw {} [{}]", w, r.join("; "))
	}
}

pub enum Ans {
	Ok,
	Bool(bool),
	Block,
	Bad,
}

/// `raw_apply` of Model.v; mutates on success
pub fn raw_apply(t: usize, k: Rop, s: &mut RawSt, pendw: bool) -> Ans {
	match k {
		Rop::Lock => {
			if s.is_free() {
				s.writer = Some(t);
				Ans::Ok
			} else {
				Ans::Block
			}
		}
		Rop::Try => {
			if s.is_free() {
				s.writer = Some(t);
				Ans::Bool(true)
			} else {
				Ans::Bool(false)
			}
		}
		Rop::Unlock => {
			if s.writer == Some(t) {
				s.writer = None;
				Ans::Ok
			} else {
				Ans::Bad
			}
		}
		Rop::LockSh => {
			if s.writer.is_none() && !pendw {
				s.readers.insert(0, t);
				Ans::Ok
			} else {
				Ans::Block
			}
		}
		Rop::TrySh => {
			if s.writer.is_none() && !pendw {
				s.readers.insert(0, t);
				Ans::Bool(true)
			} else {
				Ans::Bool(false)
			}
		}
		Rop::UnlockSh => {
			if let Some(i) = s.readers.iter().position(|&x| x == t) {
				s.readers.remove(i);
				Ans::Ok
			} else {
				Ans::Bad
			}
		}
	}
}

pub fn grantable(k: Rop, s: &RawSt, pendw: bool) -> bool {
	match k {
		Rop::Lock => s.is_free(),
		Rop::LockSh => s.writer.is_none() && !pendw,
		_ => true,
	}
}

/// what a thread is about to do when it yields to the scheduler (Level B)
#[derive(Clone, Copy, Debug)]
pub enum Pending {
	None,
	Raw(Rop, usize),
	Data,
	Done,
}

pub struct LockInfo {
	pub lo: usize,
	pub hi: usize,
	pub st: RawSt,
}

pub struct Ctl {
	pub locks: Vec<LockInfo>,
	pub events: String, // events of the current call, Gallina syntax, "; "-separated
	pub opc: usize,
	pub f1: Vec<usize>,
	pub fp: Vec<(usize, Rop)>,
	pub stopped: bool,    // a call blocked (sequential mode) / the run was cut: ignore everything afterwards
	pub sched: bool,      // Level B: every raw op / data access is a scheduling point
	pub wp: bool,         // writer-preferring grant policy
	pub turn: Option<usize>,
	pub pending: Vec<Pending>,
	pub kill_all: bool,   // scheduler ended the run (deadlock): parked threads unwind
	pub nevents: usize,
	pub yr: bool,           // yield after release: a thread that has just released pauses (an extra scheduling point)
	pub ra: bool,           // release-atomic: a release directly after a release of the same thread is no scheduling point
	pub lastrel: Vec<bool>, // per thread: its last scheduling-point operation was a release
}

impl Ctl {
	pub const fn new() -> Self {
		Ctl {
			locks: Vec::new(),
			events: String::new(),
			opc: 0,
			f1: Vec::new(),
			fp: Vec::new(),
			stopped: false,
			sched: false,
			wp: false,
			turn: None,
			pending: Vec::new(),
			kill_all: false,
			nevents: 0,
			yr: false,
			ra: false,
			lastrel: Vec::new(),
		}
	}
	pub fn reset(&mut self) {
		*self = Ctl::new();
	}
	pub fn push_event(&mut self, e: &str) {
		if self.sched {
			// Level B: one global list of bev (coq/Conc.v)
			let w = format!("BE ({e})");
			self.push_bev(&w);
		} else {
			self.push_bev(e);
		}
	}
	pub fn push_bev(&mut self, e: &str) {
		if !self.events.is_empty() {
			self.events.push_str("; ");
		}
		self.events.push_str(e);
		self.nevents += 1;
	}
	pub fn held_by(&self, t: usize) -> Vec<usize> {
		(0..self.locks.len()).filter(|&l| self.locks[l].st.writer == Some(t) || self.locks[l].st.readers.contains(&t)).collect()
	}
	pub fn take_events(&mut self) -> String {
		std::mem::take(&mut self.events)
	}
	pub fn lock_of_addr(&self, a: usize) -> usize {
		for (i, l) in self.locks.iter().enumerate() {
			if l.lo <= a && a < l.hi {
				return i;
			}
		}
		panic!("harness: raw lock at {a:#x} is not registered");
	}
	/// some *other* thread is parked on an exclusive acquire of lock l
	pub fn pend_writer(&self, me: usize, l: usize) -> bool {
		if !self.wp {
			return false;
		}
		self.pending.iter().enumerate().any(|(t, p)| t != me && matches!(p, Pending::Raw(Rop::Lock, x) if *x == l))
	}
	pub fn holds_show(&self) -> String {
		let v: Vec<String> = self.locks.iter().map(|l| l.st.show()).collect();
		format!("[{}]", v.join("; "))
	}
}

pub static CTL: StdMutex<Ctl> = StdMutex::new(Ctl::new());
pub static CV: Condvar = Condvar::new();

thread_local! {
	pub static TID: Cell<usize> = const { Cell::new(usize::MAX) };
}

pub fn tid() -> usize {
	TID.with(|t| t.get())
}

/// payload of the panic used to cut a run short (blocked call in sequential mode, scheduler kill)
pub struct Sentinel;
/// payload of an injected raw-lock fault
pub struct Fault;

pub fn ctl() -> std::sync::MutexGuard<'static, Ctl> {
	CTL.lock().unwrap_or_else(|e| e.into_inner())
}

/// Level B: announce the next operation, give the baton back and wait until it is granted.
/// Returns with the controller locked.  Unwinds with Sentinel if the scheduler ended the run.
pub fn yield_point(me: usize, p: Pending) -> std::sync::MutexGuard<'static, Ctl> {
	let mut c = ctl();
	if !c.sched || c.stopped {
		return c;
	}
	if c.pending.len() <= me {
		c.pending.resize(me + 1, Pending::None);
	}
	c.pending[me] = p;
	c.turn = None;
	CV.notify_all();
	loop {
		if c.kill_all {
			c.pending[me] = Pending::Done;
			drop(c);
			std::panic::resume_unwind(Box::new(Sentinel));
		}
		if c.turn == Some(me) {
			c.pending[me] = Pending::None;
			return c;
		}
		c = CV.wait(c).unwrap_or_else(|e| e.into_inner());
	}
}

fn raw_op(addr: usize, k: Rop) -> bool {
	let me = tid();
	if me == usize::MAX {
		// an operation from a thread the harness does not know: registration / setup code
		return true;
	}
	let l = { ctl().lock_of_addr(addr) };
	let is_rel = matches!(k, Rop::Unlock | Rop::UnlockSh);
	let skip = {
		let mut c = ctl();
		if c.lastrel.len() <= me {
			c.lastrel.resize(me + 1, false);
		}
		let sk = c.sched && c.ra && is_rel && c.lastrel[me];
		c.lastrel[me] = is_rel;
		sk
	};
	let mut c = if skip { ctl() } else { yield_point(me, Pending::Raw(k, l)) };
	if c.stopped {
		// the run was cut; happylock's unwinding handlers may still call us: do nothing
		return false;
	}
	let idx = c.opc;
	let faulty = c.f1.contains(&idx) || c.fp.iter().any(|&(fl, fk)| fl == l && fk == k);
	if faulty {
		c.opc += 1;
		let e = format!("ERaw {} {} {} RFault", me, k.name(), l);
		c.push_event(&e);
		drop(c);
		std::panic::resume_unwind(Box::new(Fault));
	}
	let pendw = c.pend_writer(me, l);
	let ans = raw_apply(me, k, &mut c.locks[l].st, pendw);
	let mut e = String::new();
	match ans {
		Ans::Ok => {
			c.opc += 1;
			write!(e, "ERaw {} {} {} RUnit", me, k.name(), l).unwrap();
			c.push_event(&e);
			if is_rel && c.sched && c.yr && !c.ra {
				drop(c);
				drop(yield_point(me, Pending::Data));
			}
			true
		}
		Ans::Bool(b) => {
			c.opc += 1;
			write!(e, "ERaw {} {} {} (RBool {})", me, k.name(), l, b).unwrap();
			c.push_event(&e);
			b
		}
		Ans::Bad => {
			c.opc += 1;
			write!(e, "ERaw {} {} {} RBad", me, k.name(), l).unwrap();
			c.push_event(&e);
			if is_rel && c.sched && c.yr && !c.ra {
				drop(c);
				drop(yield_point(me, Pending::Data));
			}
			true
		}
		Ans::Block => {
			// sequential mode (or a scheduler bug): the call cannot complete
			write!(e, "ERaw {} {} {} RBlocked", me, k.name(), l).unwrap();
			c.push_event(&e);
			c.stopped = true;
			drop(c);
			std::panic::resume_unwind(Box::new(Sentinel));
		}
	}
}

/// a data access by user code (through a guard or inside a scoped closure)
pub fn data_event(wr: bool, pos: usize, tag: u32, ver: u32) {
	let me = tid();
	{
		let mut c = ctl();
		if c.lastrel.len() > me {
			c.lastrel[me] = false;
		}
	}
	let mut c = yield_point(me, Pending::Data);
	if c.stopped {
		return;
	}
	let e = format!("EData {} {} {} {} {}", me, wr, pos, tag, ver);
	c.push_event(&e);
}

pub fn plain_event(e: String) {
	let mut c = ctl();
	if c.stopped {
		return;
	}
	c.push_event(&e);
}

// ---------------------------------------------------------------------------------------------
// the lock_api impls; identity = address (the locks are deliberately not zero-sized)

pub struct VMutex {
	_id: u8,
}

unsafe impl lock_api::RawMutex for VMutex {
	#[allow(clippy::declare_interior_mutable_const)]
	const INIT: Self = VMutex { _id: 0 };
	type GuardMarker = lock_api::GuardSend;

	fn lock(&self) {
		raw_op(self as *const _ as usize, Rop::Lock);
	}
	fn try_lock(&self) -> bool {
		raw_op(self as *const _ as usize, Rop::Try)
	}
	unsafe fn unlock(&self) {
		raw_op(self as *const _ as usize, Rop::Unlock);
	}
}

pub struct VRwLock {
	_id: u8,
}

unsafe impl lock_api::RawRwLock for VRwLock {
	#[allow(clippy::declare_interior_mutable_const)]
	const INIT: Self = VRwLock { _id: 0 };
	type GuardMarker = lock_api::GuardSend;

	fn lock_shared(&self) {
		raw_op(self as *const _ as usize, Rop::LockSh);
	}
	fn try_lock_shared(&self) -> bool {
		raw_op(self as *const _ as usize, Rop::TrySh)
	}
	unsafe fn unlock_shared(&self) {
		raw_op(self as *const _ as usize, Rop::UnlockSh);
	}
	fn lock_exclusive(&self) {
		raw_op(self as *const _ as usize, Rop::Lock);
	}
	fn try_lock_exclusive(&self) -> bool {
		raw_op(self as *const _ as usize, Rop::Try)
	}
	unsafe fn unlock_exclusive(&self) {
		raw_op(self as *const _ as usize, Rop::Unlock);
	}
}
