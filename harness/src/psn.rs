//! C10, probes inside one hold: sequences the history vocabulary of the model cannot express (clear_poison called while
//! the hold is live, then a panic), judged by the property's own clause.  One case = one line
//! `pq <id> <root> <flavour> <init 0|1> <clear 0|1|2> <panic 0|1>`:
//!   root: pm = Poisonable<Mutex>, pr = Poisonable<RwLock>, pc = Poisonable<BoxedLockCollection<(Mutex, RwLock)>>,
//!         po = Poisonable<OwnedLockCollection<Vec<RwLock>>>
//!   init: the wrapper is poisoned beforehand (a panic with a live exclusive guard, on another thread)
//!   clear: 1 = clear_poison() inside the hold, before the panic point; 2 = clear_poison() after the hold ended
//!   panic: user code panics while the hold is live (after the clear, if any)
//! output `qobs <id> ok <seen poisoned at acquisition> <is_poisoned afterwards>`.

use happylock::collection::{BoxedLockCollection, OwnedLockCollection};
use happylock::lockable::{Lockable, RawLock, Sharable};
use happylock::poisonable::Poisonable;
use happylock::{Mutex, RwLock, ThreadKey};
use std::panic::{catch_unwind, resume_unwind, AssertUnwindSafe};

fn quiet_panic() -> ! {
	resume_unwind(Box::new(0u8))
}

fn pre_poison<L: Lockable + RawLock + Sync>(p: &Poisonable<L>) {
	std::thread::scope(|s| {
		let _ = s
			.spawn(|| {
				let key = ThreadKey::get().unwrap();
				let g = match p.lock(key) {
					Ok(g) => g,
					Err(e) => e.into_inner(),
				};
				let _g = g;
				quiet_panic();
			})
			.join();
	});
	assert!(p.is_poisoned(), "pre-poisoning did not poison");
}

thread_local! {
	static SEEN: std::cell::Cell<bool> = const { std::cell::Cell::new(false) };
}

fn guard_case<L: Lockable + RawLock + Sync>(p: &Poisonable<L>, flavour: &str, clear: u8, panic: bool) -> bool {
	let key = ThreadKey::get().unwrap();
	let mut seen = false;
	let _ = catch_unwind(AssertUnwindSafe(|| {
		let r = match flavour {
			"lock" => p.lock(key),
			"try_lock" => p.try_lock(key).map_err(|e| match e {
				happylock::poisonable::TryLockPoisonableError::Poisoned(e) => e,
				happylock::poisonable::TryLockPoisonableError::WouldBlock(_) => panic!("try_lock refused a free lock"),
			}),
			f => panic!("flavour {f}"),
		};
		seen = r.is_err();
		let g = match r {
			Ok(g) => g,
			Err(e) => e.into_inner(),
		};
		if clear == 1 {
			p.clear_poison();
		}
		if panic {
			let _g = g;
			quiet_panic();
		}
		drop(g);
	}));
	seen
}

fn shared_case<L: Sharable + RawLock + Sync>(p: &Poisonable<L>, flavour: &str, clear: u8, panic: bool) -> bool {
	let mut seen = false;
	let _ = catch_unwind(AssertUnwindSafe(|| match flavour {
		"scoped_read" | "scoped_try_read" => {
			let mut key = ThreadKey::get().unwrap();
			let f = |d: <Poisonable<L> as Sharable>::DataRef<'_>| {
				SEEN.with(|c| c.set(d.is_err()));
				if clear == 1 {
					p.clear_poison();
				}
				if panic {
					quiet_panic();
				}
			};
			SEEN.with(|c| c.set(false));
			let r = catch_unwind(AssertUnwindSafe(|| {
				if flavour == "scoped_read" {
					p.scoped_read(&mut key, f)
				} else {
					p.scoped_try_read(&mut key, f).unwrap_or_else(|_| panic!("scoped_try_read refused a free lock"))
				}
			}));
			seen = SEEN.with(|c| c.get());
			drop(key);
			if let Err(e) = r {
				resume_unwind(e)
			}
		}
		"read" | "try_read" => {
			let key = ThreadKey::get().unwrap();
			let r = if flavour == "read" {
				p.read(key)
			} else {
				p.try_read(key).map_err(|e| match e {
					happylock::poisonable::TryLockPoisonableError::Poisoned(e) => e,
					happylock::poisonable::TryLockPoisonableError::WouldBlock(_) => panic!("try_read refused a free lock"),
				})
			};
			seen = r.is_err();
			let g = match r {
				Ok(g) => g,
				Err(e) => e.into_inner(),
			};
			if clear == 1 {
				p.clear_poison();
			}
			if panic {
				let _g = g;
				quiet_panic();
			}
			drop(g);
		}
		f => panic!("flavour {f}"),
	}));
	seen
}

fn excl_scoped<L: Lockable + RawLock + Sync>(p: &Poisonable<L>, flavour: &str, clear: u8, panic: bool) -> bool {
	// the closure records what it saw through the side channel (it may not return)
	let mut key = ThreadKey::get().unwrap();
	SEEN.with(|c| c.set(false));
	let f = |d: <Poisonable<L> as Lockable>::DataMut<'_>| {
		SEEN.with(|c| c.set(d.is_err()));
		if clear == 1 {
			p.clear_poison();
		}
		if panic {
			quiet_panic();
		}
	};
	let _ = catch_unwind(AssertUnwindSafe(|| {
		if flavour == "scoped_lock" {
			p.scoped_lock(&mut key, f)
		} else {
			p.scoped_try_lock(&mut key, f).unwrap_or_else(|_| panic!("scoped_try_lock refused a free lock"))
		}
	}));
	drop(key);
	SEEN.with(|c| c.get())
}

fn one<L: Lockable + RawLock + Sync>(p: &Poisonable<L>, flavour: &str, init: bool, clear: u8, panic: bool, shared: Option<&dyn Fn(&str, u8, bool) -> bool>) -> (bool, bool) {
	if init {
		pre_poison(p);
	}
	let seen = match flavour {
		"scoped_lock" | "scoped_try_lock" => excl_scoped(p, flavour, clear, panic),
		"lock" | "try_lock" => guard_case(p, flavour, clear, panic),
		_ => (shared.expect("shared access to a root with a Mutex"))(flavour, clear, panic),
	};
	if clear == 2 {
		p.clear_poison();
	}
	(seen, p.is_poisoned())
}

pub fn run(line: &str) -> String {
	let t: Vec<String> = line.split_whitespace().map(|x| x.to_string()).collect();
	let id = t[1].clone();
	let (root, flavour, init, clear, panic) = (t[2].clone(), t[3].clone(), t[4] == "1", t[5].parse::<u8>().unwrap(), t[6] == "1");
	let (tx, rx) = std::sync::mpsc::channel();
	std::thread::spawn(move || {
		let r = catch_unwind(AssertUnwindSafe(|| match root.as_str() {
			"pm" => {
				let p = Poisonable::new(Mutex::new(7u32));
				one(&p, &flavour, init, clear, panic, None)
			}
			"pr" => {
				let p = Poisonable::new(RwLock::new(7u32));
				one(&p, &flavour, init, clear, panic, Some(&|f, c, pn| shared_case(&p, f, c, pn)))
			}
			"pc" => {
				let p = Poisonable::new(BoxedLockCollection::new((Mutex::new(1u32), RwLock::new(2u32))));
				one(&p, &flavour, init, clear, panic, None)
			}
			"po" => {
				let p = Poisonable::new(OwnedLockCollection::new(vec![RwLock::new(1u32), RwLock::new(2u32)]));
				one(&p, &flavour, init, clear, panic, Some(&|f, c, pn| shared_case(&p, f, c, pn)))
			}
			r => panic!("root {r}"),
		}));
		let _ = tx.send(r.map_err(|e| {
			e.downcast_ref::<String>().cloned().or_else(|| e.downcast_ref::<&str>().map(|s| s.to_string())).unwrap_or_default()
		}));
	});
	match rx.recv_timeout(std::time::Duration::from_secs(10)) {
		Ok(Ok((seen, after))) => format!("qobs {} ok {} {}", id, seen, after),
		Ok(Err(msg)) => format!("qobs {} panic {}", id, msg),
		Err(_) => format!("qobs {} waits", id),
	}
}
