//! Scenario text format: parsing and construction of the locks, wrappers and collections it describes
//! out of the crate's own types.

use happylock::collection::{
	BoxedLockCollection, OwnedLockCollection, RefLockCollection, RetryingLockCollection,
};
use happylock::lockable::{Lockable, RawLock};
use happylock::poisonable::Poisonable;

use crate::coll::{BoxedV, DynColl, Mode, OwnedV, RefV, RetryV};
use crate::view::{as_exc, as_shr, Node, M, P, R};
use crate::vlock::{ctl, LockInfo, RawSt, Rop};

#[derive(Clone, Debug)]
pub enum Cs {
	Read(usize),
	Write(usize),
	Panic,
	Probe,
}

#[derive(Clone, Debug)]
pub enum Flavour {
	Guard,
	Try,
	Scoped { try_: bool, lent: bool, body: Vec<Cs> },
}

#[derive(Clone, Debug)]
pub enum Op {
	KeyGet,
	KeyDrop,
	KeyForget,
	Acquire(usize, Mode, Flavour),
	GuardDrop,
	GuardUnlock,
	GuardForget,
	GuardRead(usize),
	GuardWrite(usize),
	Panic,
	IsPoisoned(usize),
	ClearPoison(usize),
	Fmt(usize),
	FmtFail(usize, u32), // format collection c with the payload of lock `tag` failing in its Debug impl
	FmtPanic(usize, u32), // ... panicking in its Debug impl
}

#[derive(Clone, Debug)]
pub enum Def {
	Leaf(usize),
	Poison(usize, usize),
	Coll { kind: String, uid: Option<usize>, ctor: String, cont: String, members: Vec<usize> },
}

#[derive(Default, Debug)]
pub struct Scen {
	pub id: String,
	pub kinds: Vec<char>,
	pub npids: usize,
	pub nuids: usize,
	pub defs: Vec<(usize, Def)>,
	pub pre: Vec<(usize, RawSt)>,
	pub f1: Vec<usize>,
	pub fp: Vec<(usize, Rop)>,
	pub unw: Vec<usize>, // threads whose whole history runs inside a destructor while the thread unwinds
	pub sched: bool,
	pub wp: bool,
	pub ra: bool,
	pub yr: bool,
	pub schedule: Vec<usize>,
	pub pct: Option<(Vec<usize>, Vec<usize>)>, // priority scheduling: thread priorities (highest first), demotion steps
	pub hist: Vec<(usize, Op)>,
	pub probes: Vec<(usize, Op)>, // run after the history, judged on the implementation only
	pub progs: Vec<(usize, Vec<Op>)>, // Level B: per-thread programs
}

fn us(s: &str) -> usize {
	s.parse().unwrap_or_else(|_| panic!("bad number {s}"))
}

fn parse_op(t: &[&str]) -> Op {
	match t[0] {
		"get" => Op::KeyGet,
		"kdrop" => Op::KeyDrop,
		"kforget" => Op::KeyForget,
		"acq" => {
			let c = us(t[1]);
			let m = if t[2] == "sh" { Mode::Sh } else { Mode::Ex };
			let fl = match t[3] {
				"guard" => Flavour::Guard,
				"try" => Flavour::Try,
				"scoped" | "scopedtry" => {
					let lent = t[4] == "lent";
					let body = t[5..]
						.iter()
						.map(|x| match *x {
							"panic" => Cs::Panic,
							"probe" => Cs::Probe,
							x if x.starts_with('r') => Cs::Read(us(&x[1..])),
							x if x.starts_with('w') => Cs::Write(us(&x[1..])),
							x => panic!("bad csop {x}"),
						})
						.collect();
					Flavour::Scoped { try_: t[3] == "scopedtry", lent, body }
				}
				x => panic!("bad flavour {x}"),
			};
			Op::Acquire(c, m, fl)
		}
		"gdrop" => Op::GuardDrop,
		"gunlock" => Op::GuardUnlock,
		"gforget" => Op::GuardForget,
		"gread" => Op::GuardRead(us(t[1])),
		"gwrite" => Op::GuardWrite(us(t[1])),
		"panic" => Op::Panic,
		"ispoisoned" => Op::IsPoisoned(us(t[1])),
		"clear" => Op::ClearPoison(us(t[1])),
		"fmt" => Op::Fmt(us(t[1])),
		"fmtfail" => Op::FmtFail(us(t[1]), us(t[2]) as u32),
		"fmtpanic" => Op::FmtPanic(us(t[1]), us(t[2]) as u32),
		x => panic!("bad op {x}"),
	}
}

pub fn parse(lines: &[String]) -> Scen {
	let mut sc = Scen::default();
	for line in lines {
		let t: Vec<&str> = line.split_whitespace().collect();
		if t.is_empty() {
			continue;
		}
		match t[0] {
			"scen" => sc.id = t[1].to_string(),
			"locks" => sc.kinds = t[1..].iter().map(|x| x.chars().next().unwrap()).collect(),
			"npids" => sc.npids = us(t[1]),
			"nuids" => sc.nuids = us(t[1]),
			"def" => {
				let cid = us(t[1]);
				let d = match t[2] {
					"leaf" => Def::Leaf(us(t[3])),
					"poison" => Def::Poison(us(t[3]), us(t[4])),
					k => Def::Coll {
						kind: k.to_string(),
						uid: if t[3] == "-" { None } else { Some(us(t[3])) },
						ctor: t[4].to_string(),
						cont: t[5].to_string(),
						members: t[6..].iter().map(|x| us(x)).collect(),
					},
				};
				sc.defs.push((cid, d));
			}
			"pre" => {
				let l = us(t[1]);
				let st = if t[2] == "w" {
					RawSt { writer: Some(us(t[3])), readers: vec![] }
				} else {
					RawSt { writer: None, readers: t[3..].iter().map(|x| us(x)).collect() }
				};
				sc.pre.push((l, st));
			}
			"f1" => sc.f1 = t[1..].iter().map(|x| us(x)).collect(),
			"pct" => {
				let cpos = t.iter().position(|x| *x == "c").unwrap_or(t.len());
				let pr = t[1..cpos].iter().map(|x| us(x)).collect();
				let ch = if cpos < t.len() { t[cpos + 1..].iter().map(|x| us(x)).collect() } else { vec![] };
				sc.pct = Some((pr, ch));
			}
			"unw" => sc.unw = t[1..].iter().map(|x| us(x)).collect(),
			"fp" => {
				let mut i = 1;
				while i + 1 < t.len() {
					sc.fp.push((us(t[i]), Rop::parse(t[i + 1])));
					i += 2;
				}
			}
			"ra" => {
				sc.ra = true;
			}
			"yr" => {
				sc.yr = true;
			}
			"mode" => {
				if t[1] == "sched" {
					sc.sched = true;
					sc.wp = t[2] == "wp";
					sc.schedule = t[3..].iter().map(|x| us(x)).collect();
				}
			}
			"h" => sc.hist.push((us(t[1]), parse_op(&t[2..]))),
			"q" => sc.probes.push((us(t[1]), parse_op(&t[2..]))),
			"p" => {
				let tid = us(t[1]);
				let op = parse_op(&t[2..]);
				if let Some(e) = sc.progs.iter_mut().find(|e| e.0 == tid) {
					e.1.push(op);
				} else {
					sc.progs.push((tid, vec![op]));
				}
			}
			x => panic!("bad scenario line {x}"),
		}
	}
	sc
}

#[derive(Clone, Copy)]
pub struct Built {
	pub node: Option<Node>,
	pub dc: Option<&'static dyn DynColl>,
	pub ctor_ok: bool,
}

pub struct World {
	pub built: Vec<Option<Built>>, // by cid
	pub pids: Vec<Option<&'static dyn DynColl>>,
	pub adr_line: String,
	pub ctor_lines: Vec<String>,
}

fn leak<T>(x: T) -> &'static T {
	Box::leak(Box::new(x))
}

fn thin(r: &dyn RawLock) -> usize {
	r as *const dyn RawLock as *const () as usize
}

struct Builder<'s> {
	sc: &'s Scen,
	built: Vec<Option<Built>>,
	pids: Vec<Option<&'static dyn DynColl>>,
	lock_addr: Vec<(usize, usize)>, // per lock: (address, size)
	uid_addr: Vec<usize>,
	ctor_lines: Vec<String>,
}

macro_rules! mk_container {
	($kindty:ident, $ctor:expr, $cont:expr, $nodes:expr, $slf:expr, $cid:expr) => {{
		// build `$kindty<C>` for the container C named by $cont out of Vec<Node>
		macro_rules! fin {
			($c:expr) => {{
				$slf.finish_top($cid, $kindty::finish($ctor, $c))
			}};
		}
		let v: Vec<Node> = $nodes;
		match $cont {
			"vec" => unreachable!(),
			"bslice" => fin!(v.into_boxed_slice()),
			// members reached through the crate's impls for `&mut T` (which own their referent)
			"vecmut" => fin!(v.into_iter().map(|n| Box::leak(Box::new(n))).collect::<Vec<&'static mut Node>>()),
			"arr" => match v.len() {
				0 => fin!(<[Node; 0]>::try_from(v).ok().unwrap()),
				1 => fin!(<[Node; 1]>::try_from(v).ok().unwrap()),
				2 => fin!(<[Node; 2]>::try_from(v).ok().unwrap()),
				3 => fin!(<[Node; 3]>::try_from(v).ok().unwrap()),
				4 => fin!(<[Node; 4]>::try_from(v).ok().unwrap()),
				5 => fin!(<[Node; 5]>::try_from(v).ok().unwrap()),
				6 => fin!(<[Node; 6]>::try_from(v).ok().unwrap()),
				n => panic!("array of {n}"),
			},
			"tup" => match v.len() {
				1 => fin!((v[0],)),
				2 => fin!((v[0], v[1])),
				3 => fin!((v[0], v[1], v[2])),
				4 => fin!((v[0], v[1], v[2], v[3])),
				5 => fin!((v[0], v[1], v[2], v[3], v[4])),
				6 => fin!((v[0], v[1], v[2], v[3], v[4], v[5])),
				7 => fin!((v[0], v[1], v[2], v[3], v[4], v[5], v[6])),
				n => panic!("tuple of {n}"),
			},
			c => panic!("container {c}"),
		}
	}};
}

/// constructors, one helper per collection kind; None = the checked constructor refused
struct KBoxed;
struct KRef;
struct KRetry;
struct KOwned;

use crate::view::GView;
use happylock::lockable::{OwnedLockable, Sharable};
use std::fmt::Debug;

macro_rules! cbounds {
	() => {};
}
cbounds!();

impl KBoxed {
	fn finish<C>(ctor: &str, c: C) -> Option<&'static dyn DynColl>
	where
		C: Sharable + OwnedLockable + Debug + Sync + 'static,
		C::Guard<'static>: GView,
		C::ReadGuard<'static>: GView,
		C::DataMut<'static>: GView,
		C::DataRef<'static>: GView,
	{
		match ctor {
			"try" => BoxedLockCollection::try_new(c).map(|x| leak(x) as &'static dyn DynColl),
			"new" => Some(leak(BoxedLockCollection::new(c))),
			"newref" => Some(leak(BoxedLockCollection::new_ref(leak(c)))),
			x => panic!("ctor {x}"),
		}
	}
}
impl KRef {
	fn finish<C>(ctor: &str, c: C) -> Option<&'static dyn DynColl>
	where
		C: Sharable + OwnedLockable + Debug + Sync + 'static,
		C::Guard<'static>: GView,
		C::ReadGuard<'static>: GView,
		C::DataMut<'static>: GView,
		C::DataRef<'static>: GView,
	{
		match ctor {
			"try" => RefLockCollection::try_new(leak(c)).map(|x| leak(x) as &'static dyn DynColl),
			"new" => Some(leak(RefLockCollection::new(leak(c)))),
			x => panic!("ctor {x}"),
		}
	}
}
impl KRetry {
	fn finish<C>(ctor: &str, c: C) -> Option<&'static dyn DynColl>
	where
		C: Sharable + OwnedLockable + Debug + Sync + 'static,
		C::Guard<'static>: GView,
		C::ReadGuard<'static>: GView,
		C::DataMut<'static>: GView,
		C::DataRef<'static>: GView,
	{
		match ctor {
			"try" => RetryingLockCollection::try_new(c).map(|x| leak(x) as &'static dyn DynColl),
			"new" => Some(leak(RetryingLockCollection::new(c))),
			"newref" => Some(leak(RetryingLockCollection::new_ref(leak(c)))),
			x => panic!("ctor {x}"),
		}
	}
}
impl KOwned {
	fn finish<C>(_ctor: &str, c: C) -> Option<&'static dyn DynColl>
	where
		C: Sharable + OwnedLockable + Debug + Sync + 'static,
		C::Guard<'static>: GView,
		C::ReadGuard<'static>: GView,
		C::DataMut<'static>: GView,
		C::DataRef<'static>: GView,
	{
		Some(leak(OwnedLockCollection::new(c)))
	}
}

impl<'s> Builder<'s> {
	fn def(&self, cid: usize) -> &Def {
		&self.sc.defs.iter().find(|d| d.0 == cid).unwrap_or_else(|| panic!("no def {cid}")).1
	}

	fn payload(l: usize) -> P {
		P { tag: l as u32, ver: 0 }
	}

	fn nodes(&self, members: &[usize]) -> Vec<Node> {
		members
			.iter()
			.map(|&m| {
				self.built[m]
					.unwrap_or_else(|| panic!("member {m} not built"))
					.node
					.unwrap_or_else(|| panic!("member {m} cannot be nested"))
			})
			.collect()
	}

	fn finish_top(&mut self, cid: usize, r: Option<&'static dyn DynColl>) {
		self.built[cid] = Some(Built { node: None, dc: r, ctor_ok: r.is_some() });
	}

	fn reg_leaf(&mut self, l: usize, addr: usize, size: usize) {
		self.lock_addr[l] = (addr, size);
	}

	/// the address under which an owned collection shows up in get_ptrs
	fn reg_owned<L: Lockable>(&mut self, uid: Option<usize>, x: &L) {
		if let Some(u) = uid {
			// an owned collection reports itself (one indivisible RawLock): its own address
			self.uid_addr[u] = x as *const L as *const u8 as usize;
		}
	}

	fn build_vec_coll(&mut self, cid: usize, kind: &str, uid: Option<usize>, ctor: &str, members: &[usize], wrap: Option<usize>) {
		let nodes = self.nodes(members);
		macro_rules! place {
			($opt:expr, $is_owned:expr) => {{
				match $opt {
					None => {
						self.built[cid] = Some(Built { node: None, dc: None, ctor_ok: false });
					}
					Some(c) => match wrap {
						None => {
							let r = leak(c);
							if $is_owned {
								self.reg_owned(uid, r);
							}
							self.built[cid] = Some(Built { node: Some(Node(as_shr(r))), dc: Some(r), ctor_ok: true });
						}
						Some(pid) => {
							let r = leak(Poisonable::new(c));
							if $is_owned {
								self.reg_owned(uid, r);
							}
							self.pids[pid] = Some(r);
							self.built[cid] = Some(Built { node: Some(Node(as_shr(r))), dc: Some(r), ctor_ok: true });
						}
					},
				}
			}};
		}
		match (kind, ctor) {
			("boxed", "try") => place!(BoxedV::try_new(nodes), false),
			("boxed", "new") => place!(Some(BoxedV::new(nodes)), false),
			("ref", "try") => place!(RefV::try_new(leak(nodes)), false),
			("ref", "new") => place!(Some(RefV::new(leak(nodes))), false),
			("retry", "try") => place!(RetryV::try_new(nodes), false),
			("retry", "new") => place!(Some(RetryV::new(nodes)), false),
			("owned", _) => place!(Some(OwnedV::new(nodes)), true),
			(k, c) => panic!("kind {k} ctor {c}"),
		}
	}

	fn build(&mut self, cid: usize, wrap: Option<usize>) {
		let d = self.def(cid).clone();
		match d {
			Def::Leaf(l) => {
				let k = self.sc.kinds[l];
				match (k, wrap) {
					('M', None) => {
						let r: &'static M = leak(M::new(Self::payload(l)));
						self.reg_leaf(l, r as *const M as usize, std::mem::size_of::<M>());
						self.built[cid] = Some(Built { node: Some(Node(as_exc(r))), dc: Some(r), ctor_ok: true });
					}
					('R', None) => {
						let r: &'static R = leak(R::new(Self::payload(l)));
						self.reg_leaf(l, r as *const R as usize, std::mem::size_of::<R>());
						self.built[cid] = Some(Built { node: Some(Node(as_shr(r))), dc: Some(r), ctor_ok: true });
					}
					('M', Some(pid)) => {
						let r: &'static Poisonable<M> = leak(Poisonable::new(M::new(Self::payload(l))));
						let mut v = Vec::new();
						r.get_ptrs(&mut v);
						self.reg_leaf(l, thin(v[0]), std::mem::size_of::<M>());
						self.pids[pid] = Some(r);
						self.built[cid] = Some(Built { node: Some(Node(as_exc(r))), dc: Some(r), ctor_ok: true });
					}
					('R', Some(pid)) => {
						let r: &'static Poisonable<R> = leak(Poisonable::new(R::new(Self::payload(l))));
						let mut v = Vec::new();
						r.get_ptrs(&mut v);
						self.reg_leaf(l, thin(v[0]), std::mem::size_of::<R>());
						self.pids[pid] = Some(r);
						self.built[cid] = Some(Built { node: Some(Node(as_shr(r))), dc: Some(r), ctor_ok: true });
					}
					(k, _) => panic!("lock kind {k}"),
				}
			}
			Def::Poison(pid, inner) => {
				// Poisonable owns what it wraps: build the inner definition in place, wrapped
				assert!(wrap.is_none(), "Poisonable<Poisonable<_>> is not in the catalogue");
				self.build(inner, Some(pid));
				self.built[cid] = self.built[inner];
				self.built[inner] = None; // not separately reachable
			}
			Def::Coll { kind, uid, ctor, cont, members } => {
				if cont == "vec" {
					self.build_vec_coll(cid, &kind, uid, &ctor, &members, wrap);
				} else if cont == "vecref" {
					// members reached through the crate's impls for `&T`: not OwnedLockable, so only the checked
					// constructors accept them
					assert!(wrap.is_none(), "only Vec-based collections are wrapped / nested");
					assert!(ctor == "try", "a container of shared references has no unchecked constructor");
					let v: Vec<&'static Node> = self.nodes(&members).into_iter().map(|n| &*Box::leak(Box::new(n))).collect();
					let r: Option<&'static dyn DynColl> = match kind.as_str() {
						"boxed" => BoxedLockCollection::try_new(v).map(|x| leak(x) as &'static dyn DynColl),
						"ref" => RefLockCollection::try_new(leak(v)).map(|x| leak(x) as &'static dyn DynColl),
						"retry" => RetryingLockCollection::try_new(v).map(|x| leak(x) as &'static dyn DynColl),
						k => panic!("kind {k} over shared references"),
					};
					self.finish_top(cid, r);
				} else if cont == "refvec" {
					// the input of the checked constructor is itself a (thin) shared reference to a container: `try_new(&vec)`
					assert!(wrap.is_none(), "only Vec-based collections are wrapped / nested");
					assert!(ctor == "try", "a reference to a container has no unchecked constructor");
					let v: &'static Vec<Node> = leak(self.nodes(&members));
					let r: Option<&'static dyn DynColl> = match kind.as_str() {
						"boxed" => BoxedLockCollection::try_new(v).map(|x| leak(x) as &'static dyn DynColl),
						"ref" => RefLockCollection::try_new(leak(v)).map(|x| leak(x) as &'static dyn DynColl),
						"retry" => RetryingLockCollection::try_new(v).map(|x| leak(x) as &'static dyn DynColl),
						k => panic!("kind {k} over a reference to a container"),
					};
					self.finish_top(cid, r);
				} else {
					assert!(wrap.is_none(), "only Vec-based collections are wrapped / nested");
					let nodes = self.nodes(&members);
					match kind.as_str() {
						"boxed" => mk_container!(KBoxed, &ctor, cont.as_str(), nodes, self, cid),
						"ref" => mk_container!(KRef, &ctor, cont.as_str(), nodes, self, cid),
						"retry" => mk_container!(KRetry, &ctor, cont.as_str(), nodes, self, cid),
						"owned" => mk_container!(KOwned, &ctor, cont.as_str(), nodes, self, cid),
						k => panic!("kind {k}"),
					}
				}
				if ctor == "try" {
					let ok = self.built[cid].map(|b| b.ctor_ok).unwrap_or(false);
					self.ctor_lines.push(format!("ctor {} {}", cid, if ok { "some" } else { "none" }));
				}
			}
		}
	}
}

pub fn build_world(sc: &Scen) -> World {
	let maxcid = sc.defs.iter().map(|d| d.0).max().map(|m| m + 1).unwrap_or(0);
	let mut b = Builder {
		sc,
		built: vec![None; maxcid],
		pids: vec![None; sc.npids],
		lock_addr: vec![(0, 0); sc.kinds.len()],
		uid_addr: vec![0; sc.nuids],
		ctor_lines: vec![],
	};
	let inline: Vec<usize> = sc.defs.iter().filter_map(|d| if let Def::Poison(_, i) = d.1 { Some(i) } else { None }).collect();
	let mut order: Vec<usize> = sc.defs.iter().map(|d| d.0).collect();
	order.sort();
	for cid in order {
		if inline.contains(&cid) {
			continue;
		}
		b.build(cid, None);
	}
	// register the raw locks with the controller, install presets and fault plans
	{
		let mut c = ctl();
		c.reset();
		for (i, &(a, sz)) in b.lock_addr.iter().enumerate() {
			assert!(a != 0, "lock {i} is not part of any definition");
			c.locks.push(LockInfo { lo: a, hi: a + sz, st: RawSt::default() });
		}
		for (l, st) in &sc.pre {
			c.locks[*l].st = st.clone();
		}
		c.f1 = sc.f1.clone();
		c.fp = sc.fp.clone();
		c.sched = sc.sched;
		c.wp = sc.wp;
		c.ra = sc.ra;
		c.yr = sc.yr;
	}
	// address ranks over leaves and owned units
	let mut all: Vec<(usize, bool, usize)> = vec![];
	for (i, &(a, _)) in b.lock_addr.iter().enumerate() {
		all.push((a, false, i));
	}
	for (u, &a) in b.uid_addr.iter().enumerate() {
		all.push((a, true, u));
	}
	all.sort();
	let mut lr = vec![0usize; b.lock_addr.len()];
	let mut ur = vec![0usize; b.uid_addr.len()];
	for (rank, &(_, is_u, i)) in all.iter().enumerate() {
		if is_u {
			ur[i] = rank;
		} else {
			lr[i] = rank;
		}
	}
	let f = |v: &Vec<usize>| v.iter().map(|x| x.to_string()).collect::<Vec<_>>().join(" ");
	World { built: b.built, pids: b.pids, adr_line: format!("adr {} | {}", f(&lr), f(&ur)), ctor_lines: b.ctor_lines }
}
