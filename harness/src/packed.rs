//! C08 (and C07), tightly packed locks: one-byte raw mutexes with one-byte payloads sit next to each other inside one
//! machine word, so any sort key coarser than the exact address (word index, page, hash) collides.  One case = one line
//! `pk <id> <kind: boxed|ref|retry> <listing: indices into an array of 8 adjacent locks, e.g. 3 0 2>`; the collection is
//! built with the checked constructor over references in that listing order, locked once, and the order in which the raw
//! locks were taken is reported as array indices (= address order): `pkobs <id> ok [i; j; ...]`, or `pkobs <id> none`
//! when the constructor refused the listing.

use happylock::collection::{BoxedLockCollection, RefLockCollection, RetryingLockCollection};
use happylock::mutex::Mutex;
use happylock::ThreadKey;
use std::sync::atomic::{AtomicBool, Ordering::SeqCst};

static LOG: std::sync::Mutex<Vec<usize>> = std::sync::Mutex::new(Vec::new());

pub struct TinyRaw(AtomicBool);
unsafe impl lock_api::RawMutex for TinyRaw {
	#[allow(clippy::declare_interior_mutable_const)]
	const INIT: Self = TinyRaw(AtomicBool::new(false));
	type GuardMarker = lock_api::GuardNoSend;
	fn lock(&self) {
		assert!(self.try_lock(), "packed probe: single-threaded, a lock is taken twice");
	}
	fn try_lock(&self) -> bool {
		let ok = !self.0.swap(true, SeqCst);
		if ok {
			LOG.lock().unwrap().push(self as *const Self as usize);
		}
		ok
	}
	unsafe fn unlock(&self) {
		self.0.store(false, SeqCst);
	}
}

type TM = Mutex<u8, TinyRaw>;

pub fn run(line: &str) -> String {
	let t: Vec<&str> = line.split_whitespace().collect();
	let (id, kind) = (t[1], t[2]);
	let listing: Vec<usize> = t[3..].iter().map(|x| x.parse().unwrap()).collect();
	let r = std::panic::catch_unwind(std::panic::AssertUnwindSafe(|| {
		let locks: [TM; 8] = std::array::from_fn(|i| TM::new(i as u8));
		assert!(std::mem::size_of::<TM>() < 8, "the probe needs locks smaller than a word");
		let base = &locks[0] as *const TM as usize;
		let sz = std::mem::size_of::<TM>();
		let refs: Vec<&TM> = listing.iter().map(|&i| &locks[i]).collect();
		LOG.lock().unwrap().clear();
		let key = ThreadKey::get().unwrap();
		let taken: Option<()> = match kind {
			"boxed" => BoxedLockCollection::try_new(refs).map(|c| drop(c.lock(key))),
			"ref" => RefLockCollection::try_new(&refs).map(|c| drop(c.lock(key))),
			"retry" => RetryingLockCollection::try_new(refs).map(|c| drop(c.lock(key))),
			k => panic!("kind {k}"),
		};
		taken.map(|_| {
			let log = LOG.lock().unwrap();
			// the raw mutex is the first field or not: map an address inside lock i to i
			log.iter().map(|a| (a - base) / sz).collect::<Vec<usize>>()
		})
	}));
	match r {
		Ok(Some(order)) => format!("pkobs {} ok [{}]", id, order.iter().map(|x| x.to_string()).collect::<Vec<_>>().join("; ")),
		Ok(None) => format!("pkobs {} none", id),
		Err(e) => {
			let msg = e.downcast_ref::<String>().cloned().or_else(|| e.downcast_ref::<&str>().map(|s| s.to_string())).unwrap_or_default();
			format!("pkobs {} panic {}", id, msg)
		}
	}
}
