//! C08 (and C07), tightly packed locks: one-byte raw mutexes with one-byte payloads sit next to each other inside one
//! machine word, so any sort key coarser than the exact address (word index, page, hash) collides.  One case = one line
//! `pk <id> <kind: boxed|ref|retry> <listing: indices into an array of 8 adjacent locks, e.g. 3 0 2>`; the collection is
//! built with the checked constructor over references in that listing order, locked once, and the order in which the raw
//! locks were taken is reported as array indices (= address order): `pkobs <id> ok [i; j; ...]`, or `pkobs <id> none`
//! when the constructor refused the listing.

use happylock::collection::{BoxedLockCollection, RefLockCollection, RetryingLockCollection};
use happylock::mutex::Mutex;
use happylock::ThreadKey;
use std::sync::atomic::{AtomicBool, Ordering::SeqCst};

static LOG: std::sync::Mutex<Vec<usize>> = std::sync::Mutex::new(Vec::new());

pub struct TinyRaw(AtomicBool);
unsafe impl lock_api::RawMutex for TinyRaw {
	#[allow(clippy::declare_interior_mutable_const)]
	const INIT: Self = TinyRaw(AtomicBool::new(false));
	type GuardMarker = lock_api::GuardNoSend;
	fn lock(&self) {
		assert!(self.try_lock(), "packed probe: single-threaded, a lock is taken twice");
	}
	fn try_lock(&self) -> bool {
		let ok = !self.0.swap(true, SeqCst);
		if ok {
			LOG.lock().unwrap().push(self as *const Self as usize);
		}
		ok
	}
	unsafe fn unlock(&self) {
		self.0.store(false, SeqCst);
	}
}

type TM = Mutex<u8, TinyRaw>;

/// C07, the same container checked twice: `pk <id> reuse-<kind> <listing 1> / <listing 2>` (equal lengths).  A `Vec` of
/// references is filled with the first listing and handed to the checked constructor by reference; the collection is
/// dropped, the slots of the same `Vec` are overwritten with the second listing and the constructor is called again on the
/// same address: `pkobs <id> reuse <some|none> <some|none>`.  Each answer depends on the listing of that moment only.
fn run_reuse(id: &str, kind: &str, t: &[&str]) -> String {
	let cut = t.iter().position(|x| *x == "/").expect("two listings");
	let l1: Vec<usize> = t[..cut].iter().map(|x| x.parse().unwrap()).collect();
	let l2: Vec<usize> = t[cut + 1..].iter().map(|x| x.parse().unwrap()).collect();
	assert_eq!(l1.len(), l2.len());
	let r = std::panic::catch_unwind(std::panic::AssertUnwindSafe(|| {
		let locks: [TM; 8] = std::array::from_fn(|i| TM::new(i as u8));
		let mut refs: Vec<&TM> = l1.iter().map(|&i| &locks[i]).collect();
		let mut answers = vec![];
		for round in 0..2 {
			if round == 1 {
				for (slot, &i) in refs.iter_mut().zip(l2.iter()) {
					*slot = &locks[i];
				}
			}
			let some = match kind {
				"boxed" => BoxedLockCollection::try_new(&refs).is_some(),
				"ref" => RefLockCollection::try_new(&refs).is_some(),
				"retry" => RetryingLockCollection::try_new(&refs).is_some(),
				k => panic!("kind {k}"),
			};
			answers.push(if some { "some" } else { "none" });
		}
		answers.join(" ")
	}));
	match r {
		Ok(a) => format!("pkobs {} reuse {}", id, a),
		Err(_) => format!("pkobs {} panic", id),
	}
}

pub fn run(line: &str) -> String {
	let t: Vec<&str> = line.split_whitespace().collect();
	let (id, kind) = (t[1], t[2]);
	if let Some(k) = kind.strip_prefix("reuse-") {
		return run_reuse(id, k, &t[3..]);
	}
	let listing: Vec<usize> = t[3..].iter().map(|x| x.parse().unwrap()).collect();
	let r = std::panic::catch_unwind(std::panic::AssertUnwindSafe(|| {
		let locks: [TM; 8] = std::array::from_fn(|i| TM::new(i as u8));
		assert!(std::mem::size_of::<TM>() < 8, "the probe needs locks smaller than a word");
		let base = &locks[0] as *const TM as usize;
		let sz = std::mem::size_of::<TM>();
		let refs: Vec<&TM> = listing.iter().map(|&i| &locks[i]).collect();
		LOG.lock().unwrap().clear();
		let key = ThreadKey::get().unwrap();
		let taken: Option<()> = match kind {
			"boxed" => BoxedLockCollection::try_new(refs).map(|c| drop(c.lock(key))),
			"ref" => RefLockCollection::try_new(&refs).map(|c| drop(c.lock(key))),
			"retry" => RetryingLockCollection::try_new(refs).map(|c| drop(c.lock(key))),
			k => panic!("kind {k}"),
		};
		taken.map(|_| {
			let log = LOG.lock().unwrap();
			// the raw mutex is the first field or not: map an address inside lock i to i
			log.iter().map(|a| (a - base) / sz).collect::<Vec<usize>>()
		})
	}));
	match r {
		Ok(Some(order)) => format!("pkobs {} ok [{}]", id, order.iter().map(|x| x.to_string()).collect::<Vec<_>>().join("; ")),
		Ok(None) => format!("pkobs {} none", id),
		Err(e) => {
			let msg = e.downcast_ref::<String>().cloned().or_else(|| e.downcast_ref::<&str>().map(|s| s.to_string())).unwrap_or_default();
			format!("pkobs {} panic {}", id, msg)
		}
	}
}
