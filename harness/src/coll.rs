//! Object-safe front end (`DynColl`) over every acquirable root happylock offers: Mutex, RwLock, the four
//! collections over any container of Nodes, and Poisonable around each.  Every method is a direct call of
//! the corresponding public API function.

use std::fmt::Debug;

use happylock::collection::{
	BoxedLockCollection, LockGuard, OwnedLockCollection, RefLockCollection, RetryingLockCollection,
};
use happylock::lockable::{OwnedLockable, Sharable};
use happylock::mutex::MutexGuard;
use happylock::poisonable::{PoisonGuard, Poisonable, TryLockPoisonableError};
use happylock::rwlock::{RwLockReadGuard, RwLockWriteGuard};
use happylock::ThreadKey;

use crate::view::{GView, Item, Node, M, P, R};
use crate::vlock::{VMutex, VRwLock};

#[derive(Clone, Copy, PartialEq, Eq, Debug)]
pub enum Mode {
	Sh,
	Ex,
}

pub trait DynGuard: GView {
	fn unlock(self: Box<Self>) -> ThreadKey;
}

pub enum Acq {
	Got(Box<dyn DynGuard>, bool), // guard, came as Err(PoisonError(guard))
	WouldBlock(ThreadKey),
}

pub enum KeyArg<'k> {
	Lent(&'k mut ThreadKey),
	Owned(ThreadKey),
}

pub type Body<'b> = &'b (dyn Fn(&mut dyn GView) + Sync);

pub trait DynColl: Sync {
	fn acquire(&'static self, m: Mode, try_: bool, key: ThreadKey) -> Acq;
	/// Ok(()) = closure ran; Err(k) = would block, k = the key handed back (None if it was only lent)
	fn scoped(&'static self, m: Mode, try_: bool, key: KeyArg<'_>, body: Body<'_>) -> Result<(), Option<ThreadKey>>;
	fn fmt_debug(&self) -> String;
	fn is_poisoned(&self) -> Option<bool> {
		None
	}
	fn clear_poison(&self) {}
}

// ------------------------------------------------------------------------------------------ guards

pub struct MG(pub MutexGuard<'static, P, VMutex>);
impl GView for MG {
	fn visit<'a>(&'a mut self, out: &mut Vec<Item<'a>>) {
		self.0.visit(out)
	}
}
impl DynGuard for MG {
	fn unlock(self: Box<Self>) -> ThreadKey {
		M::unlock(self.0)
	}
}

pub struct RG(pub RwLockReadGuard<'static, P, VRwLock>);
impl GView for RG {
	fn visit<'a>(&'a mut self, out: &mut Vec<Item<'a>>) {
		self.0.visit(out)
	}
}
impl DynGuard for RG {
	fn unlock(self: Box<Self>) -> ThreadKey {
		R::unlock_read(self.0)
	}
}

pub struct WG(pub RwLockWriteGuard<'static, P, VRwLock>);
impl GView for WG {
	fn visit<'a>(&'a mut self, out: &mut Vec<Item<'a>>) {
		self.0.visit(out)
	}
}
impl DynGuard for WG {
	fn unlock(self: Box<Self>) -> ThreadKey {
		R::unlock_write(self.0)
	}
}

/// a collection guard together with the `unlock` / `unlock_read` function of the collection it came from
pub struct CG<G: 'static> {
	g: LockGuard<G>,
	un: fn(LockGuard<G>) -> ThreadKey,
}
impl<G: GView> GView for CG<G> {
	fn visit<'a>(&'a mut self, out: &mut Vec<Item<'a>>) {
		self.g.visit(out)
	}
}
impl<G: GView> DynGuard for CG<G> {
	fn unlock(self: Box<Self>) -> ThreadKey {
		(self.un)(self.g)
	}
}

pub struct PG<G: 'static> {
	g: PoisonGuard<'static, G>,
	un: fn(PoisonGuard<'static, G>) -> ThreadKey,
}
impl<G: GView> GView for PG<G> {
	fn visit<'a>(&'a mut self, out: &mut Vec<Item<'a>>) {
		// the wrapper itself (Ok / Err of the acquisition) is reported by the caller
		self.g.visit(out)
	}
}
impl<G: GView> DynGuard for PG<G> {
	fn unlock(self: Box<Self>) -> ThreadKey {
		(self.un)(self.g)
	}
}

// ------------------------------------------------------------------------------------------ Mutex, RwLock

impl DynColl for M {
	fn acquire(&'static self, m: Mode, try_: bool, key: ThreadKey) -> Acq {
		assert!(m == Mode::Ex);
		if try_ {
			match self.try_lock(key) {
				Ok(g) => Acq::Got(Box::new(MG(g)), false),
				Err(k) => Acq::WouldBlock(k),
			}
		} else {
			Acq::Got(Box::new(MG(self.lock(key))), false)
		}
	}
	fn scoped(&'static self, m: Mode, try_: bool, key: KeyArg<'_>, body: Body<'_>) -> Result<(), Option<ThreadKey>> {
		assert!(m == Mode::Ex);
		let f = |mut d: &'static mut P| body(&mut d);
		match (try_, key) {
			(false, KeyArg::Lent(k)) => Ok(self.scoped_lock(k, f)),
			(false, KeyArg::Owned(k)) => Ok(self.scoped_lock(k, f)),
			(true, KeyArg::Lent(k)) => self.scoped_try_lock(k, f).map_err(|_| None),
			(true, KeyArg::Owned(k)) => self.scoped_try_lock(k, f).map_err(Some),
		}
	}
	fn fmt_debug(&self) -> String {
		crate::view::dbg_string(self)
	}
}

impl DynColl for R {
	fn acquire(&'static self, m: Mode, try_: bool, key: ThreadKey) -> Acq {
		match (m, try_) {
			(Mode::Ex, false) => Acq::Got(Box::new(WG(self.write(key))), false),
			(Mode::Sh, false) => Acq::Got(Box::new(RG(self.read(key))), false),
			(Mode::Ex, true) => match self.try_write(key) {
				Ok(g) => Acq::Got(Box::new(WG(g)), false),
				Err(k) => Acq::WouldBlock(k),
			},
			(Mode::Sh, true) => match self.try_read(key) {
				Ok(g) => Acq::Got(Box::new(RG(g)), false),
				Err(k) => Acq::WouldBlock(k),
			},
		}
	}
	fn scoped(&'static self, m: Mode, try_: bool, key: KeyArg<'_>, body: Body<'_>) -> Result<(), Option<ThreadKey>> {
		let fw = |mut d: &'static mut P| body(&mut d);
		let fr = |mut d: &'static P| body(&mut d);
		match (m, try_, key) {
			(Mode::Ex, false, KeyArg::Lent(k)) => Ok(self.scoped_write(k, fw)),
			(Mode::Ex, false, KeyArg::Owned(k)) => Ok(self.scoped_write(k, fw)),
			(Mode::Ex, true, KeyArg::Lent(k)) => self.scoped_try_write(k, fw).map_err(|_| None),
			(Mode::Ex, true, KeyArg::Owned(k)) => self.scoped_try_write(k, fw).map_err(Some),
			(Mode::Sh, false, KeyArg::Lent(k)) => Ok(self.scoped_read(k, fr)),
			(Mode::Sh, false, KeyArg::Owned(k)) => Ok(self.scoped_read(k, fr)),
			(Mode::Sh, true, KeyArg::Lent(k)) => self.scoped_try_read(k, fr).map_err(|_| None),
			(Mode::Sh, true, KeyArg::Owned(k)) => self.scoped_try_read(k, fr).map_err(Some),
		}
	}
	fn fmt_debug(&self) -> String {
		crate::view::dbg_string(self)
	}
}

// ------------------------------------------------------------------------------------------ collections

macro_rules! impl_coll {
	($ty:ty, $($extra:tt)*) => {
		impl<L> DynColl for $ty
		where
			L: Sharable + $($extra)* Debug + Sync + 'static,
			L::Guard<'static>: GView,
			L::ReadGuard<'static>: GView,
			L::DataMut<'static>: GView,
			L::DataRef<'static>: GView,
		{
			fn acquire(&'static self, m: Mode, try_: bool, key: ThreadKey) -> Acq {
				match (m, try_) {
					(Mode::Ex, false) => Acq::Got(Box::new(CG { g: self.lock(key), un: <$ty>::unlock }), false),
					(Mode::Sh, false) => Acq::Got(Box::new(CG { g: self.read(key), un: <$ty>::unlock_read }), false),
					(Mode::Ex, true) => match self.try_lock(key) {
						Ok(g) => Acq::Got(Box::new(CG { g, un: <$ty>::unlock }), false),
						Err(k) => Acq::WouldBlock(k),
					},
					(Mode::Sh, true) => match self.try_read(key) {
						Ok(g) => Acq::Got(Box::new(CG { g, un: <$ty>::unlock_read }), false),
						Err(k) => Acq::WouldBlock(k),
					},
				}
			}
			fn scoped(
				&'static self,
				m: Mode,
				try_: bool,
				key: KeyArg<'_>,
				body: Body<'_>,
			) -> Result<(), Option<ThreadKey>> {
				let fw = |mut d: L::DataMut<'static>| body(&mut d);
				let fr = |mut d: L::DataRef<'static>| body(&mut d);
				match (m, try_, key) {
					(Mode::Ex, false, KeyArg::Lent(k)) => Ok(self.scoped_lock(k, fw)),
					(Mode::Ex, false, KeyArg::Owned(k)) => Ok(self.scoped_lock(k, fw)),
					(Mode::Ex, true, KeyArg::Lent(k)) => self.scoped_try_lock(k, fw).map_err(|_| None),
					(Mode::Ex, true, KeyArg::Owned(k)) => self.scoped_try_lock(k, fw).map_err(Some),
					(Mode::Sh, false, KeyArg::Lent(k)) => Ok(self.scoped_read(k, fr)),
					(Mode::Sh, false, KeyArg::Owned(k)) => Ok(self.scoped_read(k, fr)),
					(Mode::Sh, true, KeyArg::Lent(k)) => self.scoped_try_read(k, fr).map_err(|_| None),
					(Mode::Sh, true, KeyArg::Owned(k)) => self.scoped_try_read(k, fr).map_err(Some),
				}
			}
			fn fmt_debug(&self) -> String {
				crate::view::dbg_string(self)
			}
		}
	};
}

impl_coll!(BoxedLockCollection<L>,);
impl_coll!(RefLockCollection<'static, L>,);
impl_coll!(OwnedLockCollection<L>, OwnedLockable +);
impl_coll!(RetryingLockCollection<L>,);

// ------------------------------------------------------------------------------------------ Poisonable<_>

macro_rules! poison_acquire_ex {
	($self:ident, $try_:ident, $key:ident, $ty:ty) => {
		if $try_ {
			match $self.try_lock($key) {
				Ok(g) => Acq::Got(Box::new(PG { g, un: <$ty>::unlock }), false),
				Err(TryLockPoisonableError::Poisoned(e)) => {
					Acq::Got(Box::new(PG { g: e.into_inner(), un: <$ty>::unlock }), true)
				}
				Err(TryLockPoisonableError::WouldBlock(k)) => Acq::WouldBlock(k),
			}
		} else {
			match $self.lock($key) {
				Ok(g) => Acq::Got(Box::new(PG { g, un: <$ty>::unlock }), false),
				Err(e) => Acq::Got(Box::new(PG { g: e.into_inner(), un: <$ty>::unlock }), true),
			}
		}
	};
}

macro_rules! poison_acquire_sh {
	($self:ident, $try_:ident, $key:ident, $ty:ty) => {
		if $try_ {
			match $self.try_read($key) {
				Ok(g) => Acq::Got(Box::new(PG { g, un: <$ty>::unlock_read }), false),
				Err(TryLockPoisonableError::Poisoned(e)) => {
					Acq::Got(Box::new(PG { g: e.into_inner(), un: <$ty>::unlock_read }), true)
				}
				Err(TryLockPoisonableError::WouldBlock(k)) => Acq::WouldBlock(k),
			}
		} else {
			match $self.read($key) {
				Ok(g) => Acq::Got(Box::new(PG { g, un: <$ty>::unlock_read }), false),
				Err(e) => Acq::Got(Box::new(PG { g: e.into_inner(), un: <$ty>::unlock_read }), true),
			}
		}
	};
}

impl DynColl for Poisonable<M> {
	fn acquire(&'static self, m: Mode, try_: bool, key: ThreadKey) -> Acq {
		assert!(m == Mode::Ex);
		poison_acquire_ex!(self, try_, key, Poisonable<M>)
	}
	fn scoped(&'static self, m: Mode, try_: bool, key: KeyArg<'_>, body: Body<'_>) -> Result<(), Option<ThreadKey>> {
		assert!(m == Mode::Ex);
		let fw = |mut d: happylock::poisonable::PoisonResult<&'static mut P>| body(&mut d);
		match (try_, key) {
			(false, KeyArg::Lent(k)) => Ok(self.scoped_lock(k, fw)),
			(false, KeyArg::Owned(k)) => Ok(self.scoped_lock(k, fw)),
			(true, KeyArg::Lent(k)) => self.scoped_try_lock(k, fw).map_err(|_| None),
			(true, KeyArg::Owned(k)) => self.scoped_try_lock(k, fw).map_err(Some),
		}
	}
	fn fmt_debug(&self) -> String {
		crate::view::dbg_string(self)
	}
	fn is_poisoned(&self) -> Option<bool> {
		Some(Poisonable::is_poisoned(self))
	}
	fn clear_poison(&self) {
		Poisonable::clear_poison(self)
	}
}

macro_rules! impl_poison_sh {
	($inner:ty) => {
		impl DynColl for Poisonable<$inner> {
			fn acquire(&'static self, m: Mode, try_: bool, key: ThreadKey) -> Acq {
				match m {
					Mode::Ex => poison_acquire_ex!(self, try_, key, Poisonable<$inner>),
					Mode::Sh => poison_acquire_sh!(self, try_, key, Poisonable<$inner>),
				}
			}
			fn scoped(
				&'static self,
				m: Mode,
				try_: bool,
				key: KeyArg<'_>,
				body: Body<'_>,
			) -> Result<(), Option<ThreadKey>> {
				let fw = |mut d: <Poisonable<$inner> as happylock::lockable::Lockable>::DataMut<'static>| body(&mut d);
				let fr = |mut d: <Poisonable<$inner> as Sharable>::DataRef<'static>| body(&mut d);
				match (m, try_, key) {
					(Mode::Ex, false, KeyArg::Lent(k)) => Ok(self.scoped_lock(k, fw)),
					(Mode::Ex, false, KeyArg::Owned(k)) => Ok(self.scoped_lock(k, fw)),
					(Mode::Ex, true, KeyArg::Lent(k)) => self.scoped_try_lock(k, fw).map_err(|_| None),
					(Mode::Ex, true, KeyArg::Owned(k)) => self.scoped_try_lock(k, fw).map_err(Some),
					(Mode::Sh, false, KeyArg::Lent(k)) => Ok(self.scoped_read(k, fr)),
					(Mode::Sh, false, KeyArg::Owned(k)) => Ok(self.scoped_read(k, fr)),
					(Mode::Sh, true, KeyArg::Lent(k)) => self.scoped_try_read(k, fr).map_err(|_| None),
					(Mode::Sh, true, KeyArg::Owned(k)) => self.scoped_try_read(k, fr).map_err(Some),
				}
			}
			fn fmt_debug(&self) -> String {
				crate::view::dbg_string(self)
			}
			fn is_poisoned(&self) -> Option<bool> {
				Some(Poisonable::is_poisoned(self))
			}
			fn clear_poison(&self) {
				Poisonable::clear_poison(self)
			}
		}
	};
}

pub type BoxedV = BoxedLockCollection<Vec<Node>>;
pub type RefV = RefLockCollection<'static, Vec<Node>>;
pub type OwnedV = OwnedLockCollection<Vec<Node>>;
pub type RetryV = RetryingLockCollection<Vec<Node>>;

impl_poison_sh!(R);
impl_poison_sh!(BoxedV);
impl_poison_sh!(RefV);
impl_poison_sh!(OwnedV);
impl_poison_sh!(RetryV);
