//! C16: drop-counting payloads through every constructor / destructor path of every collection kind and
//! container shape.  One scenario = one line `v <id> <kind> <cont> <lock> <n> <path> <wpos>`; output: the values that
//! came back (id, version) by position and the number of times each payload was dropped.

use std::sync::atomic::{AtomicU32, Ordering::SeqCst};

use happylock::collection::{BoxedLockCollection, OwnedLockCollection, RefLockCollection, RetryingLockCollection};
use happylock::lockable::{Lockable, LockableGetMut, LockableIntoInner, OwnedLockable};
use happylock::poisonable::{PoisonError, Poisonable};
use happylock::{Mutex, RwLock, ThreadKey};

const MAXID: usize = 32;
#[allow(clippy::declare_interior_mutable_const)]
const Z: AtomicU32 = AtomicU32::new(0);
pub static DROPS: [AtomicU32; MAXID] = [Z; MAXID];

#[derive(Debug)]
pub struct DC {
	pub id: u32,
	pub ver: u32,
}
impl Drop for DC {
	fn drop(&mut self) {
		DROPS[self.id as usize].fetch_add(1, SeqCst);
	}
}

/// flatten what into_inner / into_child / get_mut hand back, in declared order
pub trait Flat {
	fn flat(self, out: &mut Vec<(u32, u32)>);
}
impl Flat for DC {
	fn flat(self, out: &mut Vec<(u32, u32)>) {
		out.push((self.id, self.ver));
	}
}
impl Flat for &mut DC {
	fn flat(self, out: &mut Vec<(u32, u32)>) {
		out.push((self.id, self.ver));
	}
}
impl<T: Flat> Flat for Mutex<T> {
	fn flat(self, out: &mut Vec<(u32, u32)>) {
		self.into_inner().flat(out)
	}
}
impl<T: Flat> Flat for RwLock<T> {
	fn flat(self, out: &mut Vec<(u32, u32)>) {
		self.into_inner().flat(out)
	}
}
impl<T: Flat> Flat for Result<T, PoisonError<T>> {
	fn flat(self, out: &mut Vec<(u32, u32)>) {
		match self {
			Ok(x) => x.flat(out),
			Err(e) => e.into_inner().flat(out),
		}
	}
}
impl<T: Flat + LockableIntoInner> Flat for Poisonable<T>
where
	T::Inner: Flat,
{
	fn flat(self, out: &mut Vec<(u32, u32)>) {
		self.into_inner().flat(out)
	}
}
impl<T: Flat> Flat for Vec<T> {
	fn flat(self, out: &mut Vec<(u32, u32)>) {
		for x in self {
			x.flat(out)
		}
	}
}
impl<T: Flat> Flat for Box<[T]> {
	fn flat(self, out: &mut Vec<(u32, u32)>) {
		for x in self.into_vec() {
			x.flat(out)
		}
	}
}
impl<T: Flat, const N: usize> Flat for [T; N] {
	fn flat(self, out: &mut Vec<(u32, u32)>) {
		for x in self {
			x.flat(out)
		}
	}
}
macro_rules! tup_flat {
	($($g:ident $i:tt),*) => {
		impl<$($g: Flat),*> Flat for ($($g,)*) {
			fn flat(self, out: &mut Vec<(u32, u32)>) { $( self.$i.flat(out); )* }
		}
	};
}
tup_flat!(A 0);
tup_flat!(A 0, B 1);
tup_flat!(A 0, B 1, C 2);
tup_flat!(A 0, B 1, C 2, D 3);

/// write through the lock API at position `pos` (version + 1), to be seen by the destructor paths
pub trait Bump {
	fn bump(&self, key: &mut ThreadKey, pos: usize, base: &mut usize);
}
impl Bump for Mutex<DC> {
	fn bump(&self, key: &mut ThreadKey, pos: usize, base: &mut usize) {
		if *base == pos {
			self.scoped_lock(&mut *key, |d| d.ver += 1);
		}
		*base += 1;
	}
}
impl Bump for RwLock<DC> {
	fn bump(&self, key: &mut ThreadKey, pos: usize, base: &mut usize) {
		if *base == pos {
			self.scoped_write(&mut *key, |d| d.ver += 1);
		}
		*base += 1;
	}
}
impl Bump for Poisonable<Mutex<DC>> {
	fn bump(&self, key: &mut ThreadKey, pos: usize, base: &mut usize) {
		if *base == pos {
			self.scoped_lock(&mut *key, |d| {
				if let Ok(d) = d {
					d.ver += 1
				}
			});
		}
		*base += 1;
	}
}
impl<T: Bump> Bump for Vec<T> {
	fn bump(&self, key: &mut ThreadKey, pos: usize, base: &mut usize) {
		for x in self {
			x.bump(key, pos, base)
		}
	}
}
impl<T: Bump> Bump for Box<[T]> {
	fn bump(&self, key: &mut ThreadKey, pos: usize, base: &mut usize) {
		for x in self.iter() {
			x.bump(key, pos, base)
		}
	}
}
impl<T: Bump, const N: usize> Bump for [T; N] {
	fn bump(&self, key: &mut ThreadKey, pos: usize, base: &mut usize) {
		for x in self {
			x.bump(key, pos, base)
		}
	}
}
macro_rules! tup_bump {
	($($g:ident $i:tt),*) => {
		impl<$($g: Bump),*> Bump for ($($g,)*) {
			fn bump(&self, key: &mut ThreadKey, pos: usize, base: &mut usize) { $( self.$i.bump(key, pos, base); )* }
		}
	};
}
tup_bump!(A 0);
tup_bump!(A 0, B 1);
tup_bump!(A 0, B 1, C 2);
tup_bump!(A 0, B 1, C 2, D 3);

fn show(v: &[(u32, u32)]) -> String {
	let s: Vec<String> = v.iter().map(|(a, b)| format!("({a}, {b})")).collect();
	format!("[{}]", s.join("; "))
}

/// the paths every owning collection kind offers; `$mk` builds the collection from the container value
macro_rules! paths_owned {
	($coll:ident, $data:expr, $path:expr, $wpos:expr, $out:expr) => {{
		let mut key = ThreadKey::get().unwrap();
		let data = $data;
		match $path {
			"drop" => {
				let c = $coll::new(data);
				c.scoped_lock(&mut key, |_| ());
				drop(c);
			}
			"drop_unwinding" => {
				// the collection is a local of a frame that a panic unwinds through (thread::panicking() is true
				// while its destructor runs)
				let c = $coll::new(data);
				c.scoped_lock(&mut key, |_| ());
				let r = std::panic::catch_unwind(std::panic::AssertUnwindSafe(move || {
					let _c = c;
					std::panic::resume_unwind(Box::new(0u8));
				}));
				let _ = r;
			}
			"into_inner" => {
				let c = $coll::new(data);
				bump_child!($coll, c, key, $wpos);
				LockableIntoInner::into_inner(c).flat($out);
			}
			"into_child" => {
				let c = $coll::new(data);
				bump_child!($coll, c, key, $wpos);
				c.into_child().flat($out);
			}
			"lock_then_into_inner" => {
				let c = $coll::new(data);
				let g = c.lock(key);
				drop(g);
				key = ThreadKey::get().unwrap();
				LockableIntoInner::into_inner(c).flat($out);
			}
			p => panic!("path {p}"),
		}
		drop(key);
	}};
}

// writing at a position before destructing: owned collections give no shared child, so write through scoped_lock of
// the collection itself is not position-generic here; boxed / retry expose child()
macro_rules! bump_child {
	(OwnedLockCollection, $c:ident, $key:ident, $wpos:expr) => {
		let _ = &$c;
	};
	($coll:ident, $c:ident, $key:ident, $wpos:expr) => {
		if let Some(p) = $wpos {
			let mut base = 0usize;
			$c.child().bump(&mut $key, p, &mut base);
		}
	};
}

fn mk_lock_m(id: u32) -> Mutex<DC> {
	Mutex::new(DC { id, ver: 0 })
}
fn mk_lock_r(id: u32) -> RwLock<DC> {
	RwLock::new(DC { id, ver: 0 })
}
fn mk_lock_p(id: u32) -> Poisonable<Mutex<DC>> {
	Poisonable::new(Mutex::new(DC { id, ver: 0 }))
}

macro_rules! with_container {
	($mk:ident, $cont:expr, $n:expr, |$d:ident| $body:expr) => {{
		let n = $n as u32;
		match ($cont, n) {
			("vec", _) => { let $d: Vec<_> = (0..n).map($mk).collect(); $body }
			("bslice", _) => { let $d: Box<[_]> = (0..n).map($mk).collect(); $body }
			("arr", 0) => { let v: Vec<_> = (0..0u32).map($mk).collect(); let $d: [_; 0] = <[_; 0]>::try_from(v).ok().unwrap(); $body }
			("arr", 1) => { let $d = [$mk(0)]; $body }
			("arr", 2) => { let $d = [$mk(0), $mk(1)]; $body }
			("arr", 3) => { let $d = [$mk(0), $mk(1), $mk(2)]; $body }
			("arr", 4) => { let $d = [$mk(0), $mk(1), $mk(2), $mk(3)]; $body }
			("tup", 1) => { let $d = ($mk(0),); $body }
			("tup", 2) => { let $d = ($mk(0), $mk(1)); $body }
			("tup", 3) => { let $d = ($mk(0), $mk(1), $mk(2)); $body }
			("tup", 4) => { let $d = ($mk(0), $mk(1), $mk(2), $mk(3)); $body }
			(c, k) => panic!("container {c} of {k}"),
		}
	}};
}

macro_rules! with_kind {
	($kind:expr, $data:ident, $path:expr, $wpos:expr, $out:expr) => {
		match $kind {
			"boxed" => paths_owned!(BoxedLockCollection, $data, $path, $wpos, $out),
			"owned" => paths_owned!(OwnedLockCollection, $data, $path, $wpos, $out),
			"retry" => paths_owned!(RetryingLockCollection, $data, $path, $wpos, $out),
			k => panic!("kind {k}"),
		}
	};
}

/// paths that exist only for some kinds / containers
fn special(kind: &str, lock: &str, n: u32, path: &str, out: &mut Vec<(u32, u32)>) -> bool {
	let mut key = ThreadKey::get().unwrap();
	match (path, kind, lock) {
		("get_mut", "owned", "M") => {
			let mut c = OwnedLockCollection::new((0..n).map(mk_lock_m).collect::<Vec<_>>());
			for d in c.get_mut().iter_mut() {
				d.ver += 1;
			}
			LockableIntoInner::into_inner(c).flat(out);
		}
		("get_mut", "retry", "M") => {
			let mut c = RetryingLockCollection::new((0..n).map(mk_lock_m).collect::<Vec<_>>());
			for d in LockableGetMut::get_mut(&mut c).iter_mut() {
				d.ver += 1;
			}
			LockableIntoInner::into_inner(c).flat(out);
		}
		("into_iter", "boxed", "M") => {
			let c = BoxedLockCollection::new((0..n).map(mk_lock_m).collect::<Vec<_>>());
			for m in c {
				m.flat(out);
			}
		}
		("into_iter", "owned", "M") => {
			let c = OwnedLockCollection::new((0..n).map(mk_lock_m).collect::<Vec<_>>());
			for m in c {
				m.flat(out);
			}
		}
		("into_iter", "retry", "M") => {
			let c = RetryingLockCollection::new((0..n).map(mk_lock_m).collect::<Vec<_>>());
			for m in c {
				m.flat(out);
			}
		}
		("into_iter_partial", "boxed", "M") => {
			// the iterator is dropped after the first element: the rest must still be dropped exactly once
			let c = BoxedLockCollection::new((0..n).map(mk_lock_m).collect::<Vec<_>>());
			if let Some(m) = c.into_iter().next() {
				m.flat(out);
			}
		}
		("from_iter", "boxed", "M") => {
			let c: BoxedLockCollection<Vec<Mutex<DC>>> = (0..n).map(mk_lock_m).collect();
			LockableIntoInner::into_inner(c).flat(out);
		}
		("from_iter", "owned", "M") => {
			let c: OwnedLockCollection<Vec<Mutex<DC>>> = (0..n).map(mk_lock_m).collect();
			LockableIntoInner::into_inner(c).flat(out);
		}
		("from_iter", "retry", "M") => {
			let c: RetryingLockCollection<Vec<Mutex<DC>>> = (0..n).map(mk_lock_m).collect();
			LockableIntoInner::into_inner(c).flat(out);
		}
		("extend", "owned", "M") => {
			let h = n / 2;
			let mut c = OwnedLockCollection::new((0..h).map(mk_lock_m).collect::<Vec<_>>());
			c.extend((h..n).map(mk_lock_m));
			LockableIntoInner::into_inner(c).flat(out);
		}
		("extend", "retry", "M") => {
			let h = n / 2;
			let mut c = RetryingLockCollection::new((0..h).map(mk_lock_m).collect::<Vec<_>>());
			c.extend((h..n).map(mk_lock_m));
			LockableIntoInner::into_inner(c).flat(out);
		}
		// iterators whose size_hint has no useful lower bound (filter) or that arrive in several pieces
		("extend_filter", "owned", "M") => {
			let h = n / 2;
			let mut c = OwnedLockCollection::new((0..h).map(mk_lock_m).collect::<Vec<_>>());
			c.extend((h..n).filter(|_| true).map(mk_lock_m));
			c.extend(std::iter::empty());
			LockableIntoInner::into_inner(c).flat(out);
		}
		("extend_filter", "retry", "M") => {
			let h = n / 2;
			let mut c = RetryingLockCollection::new((0..h).map(mk_lock_m).collect::<Vec<_>>());
			c.extend((h..n).filter(|_| true).map(mk_lock_m));
			c.extend(std::iter::empty());
			LockableIntoInner::into_inner(c).flat(out);
		}
		("extend_twice", "owned", "M") => {
			let h = n / 2;
			let mut c = OwnedLockCollection::new(Vec::<Mutex<DC>>::new());
			c.extend((0..h).map(mk_lock_m));
			c.extend((h..n).map(mk_lock_m).collect::<Vec<_>>());
			LockableIntoInner::into_inner(c).flat(out);
		}
		("extend_twice", "retry", "M") => {
			let h = n / 2;
			let mut c = RetryingLockCollection::new(Vec::<Mutex<DC>>::new());
			c.extend((0..h).map(mk_lock_m));
			c.extend((h..n).map(mk_lock_m).collect::<Vec<_>>());
			LockableIntoInner::into_inner(c).flat(out);
		}
		("from_iter_filter", "boxed", "M") => {
			let c: BoxedLockCollection<Vec<Mutex<DC>>> = (0..n).filter(|_| true).map(mk_lock_m).collect();
			LockableIntoInner::into_inner(c).flat(out);
		}
		("from_iter_filter", "owned", "M") => {
			let c: OwnedLockCollection<Vec<Mutex<DC>>> = (0..n).filter(|_| true).map(mk_lock_m).collect();
			LockableIntoInner::into_inner(c).flat(out);
		}
		("from_iter_filter", "retry", "M") => {
			let c: RetryingLockCollection<Vec<Mutex<DC>>> = (0..n).filter(|_| true).map(mk_lock_m).collect();
			LockableIntoInner::into_inner(c).flat(out);
		}
		("from_value", "boxed", "M") => {
			let c: BoxedLockCollection<Vec<Mutex<DC>>> = From::from((0..n).map(mk_lock_m).collect::<Vec<_>>());
			LockableIntoInner::into_inner(c).flat(out);
		}
		("from_value", "owned", "M") => {
			let c: OwnedLockCollection<Vec<Mutex<DC>>> = From::from((0..n).map(mk_lock_m).collect::<Vec<_>>());
			LockableIntoInner::into_inner(c).flat(out);
		}
		("from_value", "retry", "M") => {
			let c: RetryingLockCollection<Vec<Mutex<DC>>> = From::from((0..n).map(mk_lock_m).collect::<Vec<_>>());
			LockableIntoInner::into_inner(c).flat(out);
		}
		("into_iter_rev", "boxed", "M") => {
			// the by-value iterator consumed from both ends: every value exactly once, front ones first
			let c = BoxedLockCollection::new((0..n).map(mk_lock_m).collect::<Vec<_>>());
			let mut it = c.into_iter();
			let mut back = vec![];
			if let Some(m) = it.next() {
				m.flat(out);
			}
			while let Some(m) = it.next_back() {
				back.push(m);
			}
			for m in back.into_iter().rev() {
				m.flat(out);
			}
		}
		("try_new_reject", "boxed", "M") => {
			// the input owns n payload-carrying locks and lists an outside lock twice: rejected, input dropped once
			let shared = Mutex::new(DC { id: 31, ver: 0 });
			let owned: Vec<Mutex<DC>> = (0..n).map(mk_lock_m).collect();
			let r = BoxedLockCollection::try_new((owned, &shared, &shared));
			assert!(r.is_none());
			drop(r);
			drop(shared);
		}
		("try_new_reject", "retry", "M") => {
			let shared = Mutex::new(DC { id: 31, ver: 0 });
			let owned: Vec<Mutex<DC>> = (0..n).map(mk_lock_m).collect();
			let r = RetryingLockCollection::try_new((owned, &shared, &shared));
			assert!(r.is_none());
			drop(shared);
		}
		("try_new_accept", "boxed", "M") => {
			let shared = Mutex::new(DC { id: 31, ver: 0 });
			let owned: Vec<Mutex<DC>> = (0..n).map(mk_lock_m).collect();
			let r = BoxedLockCollection::try_new((owned, &shared)).unwrap();
			let g = r.lock(key);
			key = BoxedLockCollection::<(Vec<Mutex<DC>>, &Mutex<DC>)>::unlock(g);
			let (o, _) = r.into_child();
			o.flat(out);
			drop(shared);
		}
		("ref_coll", "ref", "M") => {
			let owned: Vec<Mutex<DC>> = (0..n).map(mk_lock_m).collect();
			let r = RefLockCollection::new(&owned);
			let g = r.lock(key);
			key = RefLockCollection::<Vec<Mutex<DC>>>::unlock(g);
			drop(r);
			owned.flat(out);
		}
		("default", "boxed", "M") => {
			let c = BoxedLockCollection::<(Mutex<Option<DC>>, Mutex<Option<DC>>)>::default();
			drop(c);
		}
		("nested_into_inner", "boxed", "M") => {
			let inner = OwnedLockCollection::new((0..n).map(mk_lock_m).collect::<Vec<_>>());
			let c = BoxedLockCollection::new((inner, mk_lock_m(30)));
			let g = c.lock(key);
			key = BoxedLockCollection::<(OwnedLockCollection<Vec<Mutex<DC>>>, Mutex<DC>)>::unlock(g);
			let (a, b) = c.into_child();
			a.into_child().flat(out);
			b.flat(out);
		}
		("poisonable_into_inner", _, "M") => {
			let c = Poisonable::new(BoxedLockCollection::new((0..n).map(mk_lock_m).collect::<Vec<_>>()));
			match c.into_child() {
				Ok(b) => LockableIntoInner::into_inner(b).flat(out),
				Err(e) => LockableIntoInner::into_inner(e.into_inner()).flat(out),
			}
		}
		_ => {
			drop(key);
			return false;
		}
	}
	drop(key);
	true
}

pub fn run(line: &str) -> String {
	let t: Vec<&str> = line.split_whitespace().collect();
	// v <id> <kind> <cont> <lock> <n> <path> <wpos|->
	let (id, kind, cont, lock, n, path) = (t[1], t[2], t[3], t[4], t[5].parse::<usize>().unwrap(), t[6]);
	let wpos: Option<usize> = t.get(7).and_then(|x| x.parse().ok());
	for d in DROPS.iter() {
		d.store(0, SeqCst);
	}
	let mut out: Vec<(u32, u32)> = vec![];
	let r = std::panic::catch_unwind(std::panic::AssertUnwindSafe(|| {
		if special(kind, lock, n as u32, path, &mut out) {
			return;
		}
		match lock {
			"M" => with_container!(mk_lock_m, cont, n, |d| with_kind!(kind, d, path, wpos, &mut out)),
			"R" => with_container!(mk_lock_r, cont, n, |d| with_kind!(kind, d, path, wpos, &mut out)),
			"P" => with_container!(mk_lock_p, cont, n, |d| with_kind!(kind, d, path, wpos, &mut out)),
			l => panic!("lock {l}"),
		}
	}));
	let drops: Vec<String> = DROPS.iter().map(|d| d.load(SeqCst).to_string()).collect();
	match r {
		Ok(()) => format!("vobs {} ok {} [{}]", id, show(&out), drops.join("; ")),
		Err(e) => {
			let msg = e.downcast_ref::<String>().cloned().or_else(|| e.downcast_ref::<&str>().map(|s| s.to_string())).unwrap_or_default();
			format!("vobs {} panic {}", id, msg)
		}
	}
}

#[allow(dead_code)]
fn _assert_bounds<L: Lockable + OwnedLockable>() {}
