//! hl-driver: reads scenarios (text, see scen.rs) from a file or stdin, runs each against the happylock
//! crate built from /repo's working tree, prints what was observed as Gallina terms (coq/Api.v callobs).

mod coll;
mod scen;
mod acc;
mod kil;
mod packed;
mod psn;
mod values;
mod vtree;
mod view;
mod vlock;

use std::io::{BufRead, Write};
use std::panic::{catch_unwind, AssertUnwindSafe};
use std::sync::mpsc::{channel, Receiver, Sender};
use std::sync::Arc;

use happylock::ThreadKey;

use coll::{Acq, DynColl, DynGuard, KeyArg};
use scen::{Built, Cs, Flavour, Op, Scen};
use view::{GView, Item};
use vlock::{ctl, plain_event, tid, Fault, Pending, Sentinel, CV, TID};

struct Worker {
	extra_keys: Vec<ThreadKey>, // a second live key on one thread (C06 violation): kept, reported by `RB true`
	key: Option<ThreadKey>,
	guard: Option<Box<dyn DynGuard>>,
	built: Arc<Vec<Option<Built>>>,
}

fn classify(e: Box<dyn std::any::Any + Send>) -> &'static str {
	if e.is::<Sentinel>() {
		"RBlockedC"
	} else {
		let _ = e.is::<Fault>();
		"RPanicked"
	}
}

struct UserPanic;

fn see_items(items: &[Item<'_>]) {
	let me = tid();
	for it in items {
		if let Item::Poison(b) = it {
			plain_event(format!("ESee {} {}", me, b));
		}
	}
}

fn nth_leaf<'a, 'b>(items: &'b mut [Item<'a>], pos: usize) -> Option<&'b mut Item<'a>> {
	items.iter_mut().filter(|i| !matches!(i, Item::Poison(_))).nth(pos)
}

fn do_read(items: &mut [Item<'_>], pos: usize) {
	if let Some(it) = nth_leaf(items, pos) {
		let (tag, ver) = match it {
			Item::Mut(p) => (p.tag, p.ver),
			Item::Ro(p) => (p.tag, p.ver),
			Item::Poison(_) => unreachable!(),
		};
		vlock::data_event(false, pos, tag, ver);
	}
}

fn do_write(items: &mut [Item<'_>], pos: usize) {
	if let Some(Item::Mut(p)) = nth_leaf(items, pos) {
		// scheduling point first, then the write and its record, atomically
		let me = tid();
		let mut c = vlock::yield_point(me, Pending::Data);
		if c.stopped {
			return;
		}
		p.ver += 1;
		let e = format!("EData {} true {} {} {}", me, pos, p.tag, p.ver);
		c.push_event(&e);
	}
}

fn run_body(d: &mut dyn GView, body: &[Cs]) {
	plain_event(format!("EMark {} 1", tid()));
	let mut items = Vec::new();
	d.visit(&mut items);
	see_items(&items);
	for c in body {
		match c {
			Cs::Read(p) => do_read(&mut items, *p),
			Cs::Write(p) => do_write(&mut items, *p),
			Cs::Panic => std::panic::resume_unwind(Box::new(UserPanic)),
			Cs::Probe => {
				let got = ThreadKey::get().is_some();
				plain_event(format!("EProbe {} {}", tid(), got));
			}
		}
	}
}

impl Worker {
	fn dc(&self, c: usize) -> Option<&'static dyn DynColl> {
		self.built.get(c).copied().flatten().and_then(|b| b.dc)
	}

	fn exec(&mut self, op: &Op) -> String {
		match op {
			Op::KeyGet => match ThreadKey::get() {
				Some(k) => {
					if let Some(old) = self.key.replace(k) {
						self.extra_keys.push(old);
					}
					"RB true".into()
				}
				None => "RB false".into(),
			},
			Op::KeyDrop => match self.key.take() {
				Some(k) => {
					drop(k);
					"ROk".into()
				}
				None => "RSkipped".into(),
			},
			Op::KeyForget => match self.key.take() {
				Some(k) => {
					std::mem::forget(k);
					"ROk".into()
				}
				None => "RSkipped".into(),
			},
			Op::Acquire(c, m, fl) => {
				let Some(dc) = self.dc(*c) else { return "RSkipped".into() };
				if self.key.is_none() {
					return "RSkipped".into();
				}
				match fl {
					Flavour::Guard | Flavour::Try => {
						let key = self.key.take().unwrap();
						let try_ = matches!(fl, Flavour::Try);
						let r = catch_unwind(AssertUnwindSafe(|| {
							let a = dc.acquire(*m, try_, key);
							match a {
								Acq::Got(mut g, psn) => {
									// look at every Ok/Err wrapper inside the guard, the outermost one first
									if dc.is_poisoned().is_some() {
										plain_event(format!("ESee {} {}", tid(), psn));
									}
									let mut items = Vec::new();
									g.visit(&mut items);
									see_items(&items);
									drop(items);
									Acq::Got(g, psn)
								}
								x => x,
							}
						}));
						match r {
							Ok(Acq::Got(g, psn)) => {
								self.guard = Some(g);
								if psn { "RPoisoned".into() } else { "ROk".into() }
							}
							Ok(Acq::WouldBlock(k)) => {
								self.key = Some(k);
								"RWouldBlock".into()
							}
							Err(e) => classify(e).into(),
						}
					}
					Flavour::Scoped { try_, lent, body } => {
						let bodyf = |d: &mut dyn GView| run_body(d, body);
						let r = if *lent {
							let k = self.key.as_mut().unwrap();
							catch_unwind(AssertUnwindSafe(|| dc.scoped(*m, *try_, KeyArg::Lent(k), &bodyf)))
						} else {
							let k = self.key.take().unwrap();
							catch_unwind(AssertUnwindSafe(|| dc.scoped(*m, *try_, KeyArg::Owned(k), &bodyf)))
						};
						match r {
							Ok(Ok(())) => "ROk".into(),
							Ok(Err(k)) => {
								if let Some(k) = k {
									self.key = Some(k);
								}
								"RWouldBlock".into()
							}
							Err(e) => classify(e).into(),
						}
					}
				}
			}
			Op::GuardDrop => match self.guard.take() {
				Some(g) => match catch_unwind(AssertUnwindSafe(move || drop(g))) {
					Ok(()) => "ROk".into(),
					Err(e) => classify(e).into(),
				},
				None => "RSkipped".into(),
			},
			Op::GuardUnlock => match self.guard.take() {
				Some(g) => match catch_unwind(AssertUnwindSafe(move || g.unlock())) {
					Ok(k) => {
						self.key = Some(k);
						"ROk".into()
					}
					Err(e) => classify(e).into(),
				},
				None => "RSkipped".into(),
			},
			Op::GuardForget => match self.guard.take() {
				Some(g) => {
					std::mem::forget(g);
					"ROk".into()
				}
				None => "RSkipped".into(),
			},
			Op::GuardRead(p) | Op::GuardWrite(p) => match self.guard.as_mut() {
				Some(g) => {
					let wr = matches!(op, Op::GuardWrite(_));
					let r = catch_unwind(AssertUnwindSafe(|| {
						let mut items = Vec::new();
						g.visit(&mut items);
						if wr {
							do_write(&mut items, *p)
						} else {
							do_read(&mut items, *p)
						}
					}));
					match r {
						Ok(()) => "ROk".into(),
						Err(e) => classify(e).into(),
					}
				}
				None => "RSkipped".into(),
			},
			Op::Panic => {
				let k = self.key.take();
				let g = self.guard.take();
				let r = catch_unwind(AssertUnwindSafe(move || {
					let _k = k;
					let _g = g; // dropped first while unwinding
					std::panic::resume_unwind(Box::new(UserPanic));
				}));
				match r {
					Ok(()) => unreachable!(),
					Err(e) => classify(e).into(),
				}
			}
			Op::IsPoisoned(c) => match self.dc(*c).and_then(|d| d.is_poisoned()) {
				Some(b) => format!("RB {b}"),
				None => "RSkipped".into(),
			},
			Op::ClearPoison(c) => match self.dc(*c) {
				Some(d) if d.is_poisoned().is_some() => {
					d.clear_poison();
					"ROk".into()
				}
				_ => "RSkipped".into(),
			},
			Op::FmtFail(c, tag) => match self.dc(*c) {
				Some(d) => {
					view::FAIL_TAG.with(|x| x.set(Some(*tag)));
					let r = catch_unwind(AssertUnwindSafe(|| d.fmt_debug()));
					view::FAIL_TAG.with(|x| x.set(None));
					match r {
						Ok(_) => "ROk".into(),
						Err(e) => classify(e).into(),
					}
				}
				None => "RSkipped".into(),
			},
			Op::FmtPanic(c, tag) => match self.dc(*c) {
				Some(d) => {
					view::PANIC_TAG.with(|x| x.set(Some(*tag)));
					let r = catch_unwind(AssertUnwindSafe(|| d.fmt_debug()));
					view::PANIC_TAG.with(|x| x.set(None));
					match r {
						Ok(_) => "ROk".into(),
						Err(e) => classify(e).into(),
					}
				}
				None => "RSkipped".into(),
			},
			Op::Fmt(c) => match self.dc(*c) {
				Some(d) => match catch_unwind(AssertUnwindSafe(|| d.fmt_debug())) {
					Ok(s) => format!("RN {}", s.matches("<locked>").count()),
					Err(e) => classify(e).into(),
				},
				None => "RSkipped".into(),
			},
		}
	}
}

enum Cmd {
	Do(Op),
	Quit,
}

/// runs its closure from a destructor
struct OnDrop<F: FnMut()>(F);
impl<F: FnMut()> Drop for OnDrop<F> {
	fn drop(&mut self) {
		(self.0)()
	}
}
struct OuterPanic;

/// `unw`: the whole command loop runs inside a destructor while the thread is unwinding from an unrelated
/// panic (std::thread::panicking() is true throughout); every panic of an operation is caught inside it
fn worker_main(id: usize, built: Arc<Vec<Option<Built>>>, rx: Receiver<Cmd>, tx: Sender<(String, bool)>, unw: bool) {
	if unw {
		let _ = catch_unwind(AssertUnwindSafe(|| {
			let _d = OnDrop(|| {
				assert!(std::thread::panicking());
				worker_loop(id, built.clone(), &rx, &tx)
			});
			std::panic::resume_unwind(Box::new(OuterPanic));
		}));
	} else {
		worker_loop(id, built, &rx, &tx)
	}
}

fn worker_loop(id: usize, built: Arc<Vec<Option<Built>>>, rx: &Receiver<Cmd>, tx: &Sender<(String, bool)>) {
	TID.with(|t| t.set(id));
	let mut w = Worker { extra_keys: vec![], key: None, guard: None, built };
	while let Ok(cmd) = rx.recv() {
		match cmd {
			Cmd::Do(op) => {
				let rc = w.exec(&op);
				// a call that was cut because it would have to wait is still "running": the sentinel unwinding
				// that ended it is the harness's doing, not an observation
				let keyfree = if rc == "RBlockedC" { false } else { ThreadKey::get().is_some() };
				tx.send((rc, keyfree)).unwrap();
			}
			Cmd::Quit => break,
		}
	}
	// a leaked guard / key must not run its destructor at thread exit in a cut run
	if let Some(g) = w.guard.take() {
		std::mem::forget(g);
	}
}

fn psn_show(world: &scen::World) -> String {
	let v: Vec<String> = world
		.pids
		.iter()
		.map(|p| p.and_then(|d| d.is_poisoned()).unwrap_or(false).to_string())
		.collect();
	format!("[{}]", v.join("; "))
}

fn run_seq(sc: &Scen, world: &scen::World, out: &mut impl Write) {
	let built = Arc::new(world.built.clone());
	let mut tids: Vec<usize> = sc.hist.iter().map(|h| h.0).collect();
	tids.sort();
	tids.dedup();
	let mut chans = std::collections::HashMap::new();
	let mut handles = vec![];
	for &t in &tids {
		let (ctx, crx) = channel::<Cmd>();
		let (rtx, rrx) = channel::<(String, bool)>();
		let b = built.clone();
		let unw = sc.unw.contains(&t);
		handles.push(std::thread::spawn(move || worker_main(t, b, crx, rtx, unw)));
		chans.insert(t, (ctx, rrx));
	}
	for (t, op) in &sc.hist {
		let (ctx, rrx) = &chans[t];
		ctl().take_events();
		ctx.send(Cmd::Do(op.clone())).unwrap();
		let (rc, keyfree) = rrx.recv().expect("worker died");
		let (evs, holds, stopped) = {
			let mut c = ctl();
			(c.take_events(), c.holds_show(), c.stopped)
		};
		writeln!(out, "obs mkco {} ({}) [{}] {} {} {}", t, rc, evs, holds, psn_show(world), keyfree).unwrap();
		if stopped {
			break;
		}
	}
	// probes: operations without a counterpart in the model's vocabulary, judged on what the implementation does
	if !ctl().stopped {
		for (t, op) in &sc.probes {
			let Some((ctx, rrx)) = chans.get(t) else { continue };
			let before = {
				let mut c = ctl();
				c.take_events();
				c.holds_show()
			};
			ctx.send(Cmd::Do(op.clone())).unwrap();
			let (rc, _) = rrx.recv().expect("worker died");
			let (evs, after, stopped) = {
				let mut c = ctl();
				(c.take_events(), c.holds_show(), c.stopped)
			};
			writeln!(out, "pobs ({}) [{}] {} {}", rc, evs, before, after).unwrap();
			if stopped {
				break;
			}
		}
	}
	for (_, (ctx, _)) in chans.iter() {
		let _ = ctx.send(Cmd::Quit);
	}
	for h in handles {
		let _ = h.join();
	}
}

// ------------------------------------------------------------------------------------------ Level B

/// each thread runs its own program; every raw operation and data access is a scheduling point
fn run_sched(sc: &Scen, world: &scen::World, out: &mut impl Write) {
	let built = Arc::new(world.built.clone());
	let n = sc.progs.iter().map(|p| p.0).max().map(|m| m + 1).unwrap_or(0);
	{
		let mut c = ctl();
		c.pending = vec![Pending::Done; n];
		for (t, _) in &sc.progs {
			c.pending[*t] = Pending::None;
		}
		c.turn = None;
	}
	let (rtx, rrx) = channel::<String>();
	let mut handles = vec![];
	for (t, prog) in sc.progs.clone() {
		let b = built.clone();
		let rtx = rtx.clone();
		handles.push(std::thread::spawn(move || {
			TID.with(|x| x.set(t));
			let mut w = Worker { extra_keys: vec![], key: None, guard: None, built: b };
			let r = catch_unwind(AssertUnwindSafe(|| {
				// wait for the first grant before doing anything
				drop(vlock::yield_point(t, Pending::Data));
				for op in &prog {
					let rc = w.exec(op);
					let keyfree = ThreadKey::get().is_some();
					{
						let mut c = ctl();
						if !c.stopped {
							c.push_bev(&format!("BRet {} ({}) {}", t, rc, keyfree));
						}
					}
					if rc == "RBlockedC" {
						break;
					}
				}
			}));
			let _ = r;
			if let Some(g) = w.guard.take() {
				std::mem::forget(g);
			}
			let mut c = ctl();
			c.pending[t] = Pending::Done;
			c.turn = None;
			CV.notify_all();
			drop(c);
			let _ = rtx.send(format!("fin {t}"));
		}));
	}
	drop(rtx);
	// the scheduler: follow the schedule; skip entries naming a thread that cannot move
	let mut used: Vec<usize> = vec![];
	let mut noted: Vec<bool> = vec![false; n];
	let mut status = "done";
	let mut sidx = 0usize;
	let mut prio: Vec<usize> = vec![];
	loop {
		let mut c = ctl();
		// wait until nobody has the baton and every live thread has announced its next step
		while c.turn.is_some() || c.pending.iter().any(|p| matches!(p, Pending::None)) {
			c = CV.wait(c).unwrap_or_else(|e| e.into_inner());
		}
		let live: Vec<usize> = (0..n).filter(|&t| !matches!(c.pending[t], Pending::Done)).collect();
		if live.is_empty() {
			break;
		}
		// a thread found waiting (parked on a blocking acquisition that cannot be granted now) records, once,
		// what it holds while it waits
		for &t in &live {
			if let Pending::Raw(k, l) = c.pending[t] {
				if k.blocking() && !vlock::grantable(k, &c.locks[l].st, c.pend_writer(t, l)) && !noted[t] {
					noted[t] = true;
					let h: Vec<String> = c.held_by(t).iter().map(|x| x.to_string()).collect();
					let e = format!("BWait {} {} [{}]", t, l, h.join("; "));
					c.push_bev(&e);
				}
			}
		}
		let enabled: Vec<usize> = live
			.iter()
			.copied()
			.filter(|&t| match c.pending[t] {
				Pending::Raw(k, l) => vlock::grantable(k, &c.locks[l].st, c.pend_writer(t, l)),
				_ => true,
			})
			.collect();
		if enabled.is_empty() {
			// every unfinished thread waits for a lock
			let selfwait = live.iter().any(|&t| match c.pending[t] {
				Pending::Raw(_, l) => c.locks[l].st.writer == Some(t) || c.locks[l].st.readers.contains(&t),
				_ => false,
			});
			status = if selfwait { "selfwait" } else { "deadlock" };
			c.stopped = true;
			c.kill_all = true;
			CV.notify_all();
			break;
		}
		// priority scheduling (PCT): the enabled thread of highest priority runs; at the listed steps the thread that
		// would run is demoted to the lowest priority first.  The effective schedule is reported and replayed by the model.
		if let Some((_, changes)) = &sc.pct {
			if prio.is_empty() {
				prio = sc.pct.as_ref().unwrap().0.clone();
				for t in 0..n {
					if !prio.contains(&t) {
						prio.push(t);
					}
				}
			}
			let mut t = *prio.iter().find(|t| enabled.contains(t)).unwrap();
			if changes.contains(&used.len()) {
				prio.retain(|x| *x != t);
				prio.push(t);
				t = *prio.iter().find(|t| enabled.contains(t)).unwrap();
			}
			used.push(t);
			noted[t] = false;
			c.turn = Some(t);
			CV.notify_all();
			continue;
		}
		// next schedule entry that names an enabled thread; when the schedule is exhausted, lowest id first
		let mut pick = None;
		while sidx < sc.schedule.len() {
			let t = sc.schedule[sidx];
			sidx += 1;
			if enabled.contains(&t) {
				pick = Some(t);
				break;
			}
		}
		let t = pick.unwrap_or(enabled[0]);
		used.push(t);
		noted[t] = false;
		c.turn = Some(t);
		CV.notify_all();
	}
	for h in handles {
		let _ = h.join();
	}
	while rrx.try_recv().is_ok() {}
	let (evs, holds) = {
		let mut c = ctl();
		(c.take_events(), c.holds_show())
	};
	let u: Vec<String> = used.iter().map(|x| x.to_string()).collect();
	writeln!(out, "sched {}", u.join(" ")).unwrap();
	writeln!(out, "bobs {} | [{}] | {} | {}", status, evs, holds, psn_show(world)).unwrap();
}

fn main() {
	std::panic::set_hook(Box::new(|_| {}));
	let args: Vec<String> = std::env::args().collect();
	let input: Box<dyn BufRead> = if args.len() > 1 {
		Box::new(std::io::BufReader::new(std::fs::File::open(&args[1]).expect("open input")))
	} else {
		Box::new(std::io::BufReader::new(std::io::stdin()))
	};
	let stdout = std::io::stdout();
	let mut out = std::io::BufWriter::new(stdout.lock());
	let mut cur: Vec<String> = vec![];
	for line in input.lines() {
		let line = line.unwrap();
		if line.trim() == "end" {
			let sc = scen::parse(&cur);
			cur.clear();
			writeln!(out, "scen {}", sc.id).unwrap();
			let r = catch_unwind(AssertUnwindSafe(|| {
				let world = scen::build_world(&sc);
				(world.adr_line.clone(), world.ctor_lines.clone(), world)
			}));
			match r {
				Ok((adr, ctors, world)) => {
					writeln!(out, "{}", adr).unwrap();
					for c in ctors {
						writeln!(out, "{}", c).unwrap();
					}
					if sc.sched {
						run_sched(&sc, &world, &mut out);
					} else {
						run_seq(&sc, &world, &mut out);
					}
				}
				Err(e) => {
					let msg = e.downcast_ref::<String>().cloned().or_else(|| e.downcast_ref::<&str>().map(|s| s.to_string())).unwrap_or_default();
					writeln!(out, "error build {}", msg).unwrap();
				}
			}
			writeln!(out, "done").unwrap();
			out.flush().unwrap();
		} else if line.starts_with("v ") {
			writeln!(out, "{}", values::run(&line)).unwrap();
		} else if line.starts_with("t ") {
			writeln!(out, "{}", vtree::run(&line)).unwrap();
			out.flush().unwrap();
		} else if line.trim() == "ttypes" {
			writeln!(out, "{}", vtree::list()).unwrap();
		} else if line.starts_with("pk ") {
			writeln!(out, "{}", packed::run(&line)).unwrap();
			out.flush().unwrap();
		} else if line.starts_with("kq ") {
			writeln!(out, "{}", kil::run(&line)).unwrap();
			out.flush().unwrap();
		} else if line.starts_with("pq ") {
			writeln!(out, "{}", psn::run(&line)).unwrap();
			out.flush().unwrap();
		} else if line.starts_with("a ") {
			writeln!(out, "{}", acc::run(&line)).unwrap();
			out.flush().unwrap();
		} else {
			cur.push(line);
		}
	}
}
