//! C16 for arbitrary declared structures: a case names a type (an entry of the table at the bottom), the length of its
//! `Vec` / `Box<[T]>` members, whether its `Poisonable` wrappers are poisoned, a path and a write position.  The value is
//! built with drop-counting payloads numbered in declared order; the harness prints the structure as a term of the
//! model (`coq/VTree.v`), what the path handed back (payloads and Ok / Err markers in declared order) and the drop
//! counters.  Line: `t <id> <type> <vlen> <poison 0|1>[k<a|lock id>] <path> <wpos|->`.
//!
//! `k`: the named lock (or every lock) is *killed* before the path runs - its raw lock panicked in a release, so the
//! lock refuses every later acquisition.  The value paths must not depend on that: the model has no such bit, and the
//! paths that would have to lock the structure skip the locking step.  The raw locks of this module are minimal
//! spinning locks (the module is single-threaded) whose exclusive release panics once on request.

use std::cell::Cell;
use std::sync::atomic::Ordering::SeqCst;

use happylock::collection::{BoxedLockCollection, OwnedLockCollection, RetryingLockCollection};
use happylock::lockable::{Lockable, LockableGetMut, LockableIntoInner, OwnedLockable, RawLock};
use happylock::poisonable::{PoisonError, Poisonable};
use happylock::ThreadKey;

use crate::values::{DC, DROPS};

thread_local! {
	static KILL_NEXT: Cell<bool> = const { Cell::new(false) };
}
fn release_panics() {
	if KILL_NEXT.with(|k| k.replace(false)) {
		std::panic::resume_unwind(Box::new("raw release panics"));
	}
}
/// a minimal spinning mutex (this module is single-threaded); an exclusive release panics, before releasing, when asked to
pub struct FM(std::sync::atomic::AtomicBool);
unsafe impl lock_api::RawMutex for FM {
	#[allow(clippy::declare_interior_mutable_const)]
	const INIT: Self = FM(std::sync::atomic::AtomicBool::new(false));
	type GuardMarker = lock_api::GuardSend;
	fn lock(&self) {
		while !self.try_lock() {
			std::thread::yield_now();
		}
	}
	fn try_lock(&self) -> bool {
		self.0.compare_exchange(false, true, SeqCst, SeqCst).is_ok()
	}
	unsafe fn unlock(&self) {
		release_panics();
		self.0.store(false, SeqCst)
	}
}
/// the same for a reader-writer lock: -1 = held exclusively, n > 0 = n readers
pub struct FR(std::sync::atomic::AtomicIsize);
unsafe impl lock_api::RawRwLock for FR {
	#[allow(clippy::declare_interior_mutable_const)]
	const INIT: Self = FR(std::sync::atomic::AtomicIsize::new(0));
	type GuardMarker = lock_api::GuardSend;
	fn lock_shared(&self) {
		while !self.try_lock_shared() {
			std::thread::yield_now();
		}
	}
	fn try_lock_shared(&self) -> bool {
		let n = self.0.load(SeqCst);
		n >= 0 && self.0.compare_exchange(n, n + 1, SeqCst, SeqCst).is_ok()
	}
	unsafe fn unlock_shared(&self) {
		self.0.fetch_sub(1, SeqCst);
	}
	fn lock_exclusive(&self) {
		while !self.try_lock_exclusive() {
			std::thread::yield_now();
		}
	}
	fn try_lock_exclusive(&self) -> bool {
		self.0.compare_exchange(0, -1, SeqCst, SeqCst).is_ok()
	}
	unsafe fn unlock_exclusive(&self) {
		release_panics();
		self.0.store(0, SeqCst)
	}
}
type Mutex<T> = happylock::mutex::Mutex<T, FM>;
type RwLock<T> = happylock::rwlock::RwLock<T, FR>;

pub struct Builder {
	next: u32,
	cell: u32,
	vlen: usize,
	poison: bool,
	/// the lock to kill (u32::MAX: every lock)
	kill: Option<u32>,
	key: Option<ThreadKey>,
}
impl Builder {
	fn kills(&self, id: u32) -> bool {
		self.kill == Some(id) || self.kill == Some(u32::MAX)
	}
}

/// a type that can be built with numbered payloads, describing itself as a `vt` term
pub trait VT: Sized {
	fn build(b: &mut Builder, d: &mut String) -> Self;
}

impl VT for Mutex<DC> {
	fn build(b: &mut Builder, d: &mut String) -> Self {
		let id = b.next;
		b.next += 1;
		d.push_str(&format!("TLock ({id}, 0)"));
		let m = Mutex::new(DC { id, ver: 0 });
		if b.kills(id) {
			let mut key = b.key.take().unwrap();
			KILL_NEXT.with(|k| k.set(true));
			let r = std::panic::catch_unwind(std::panic::AssertUnwindSafe(|| m.scoped_lock(&mut key, |_| ())));
			assert!(r.is_err());
			assert!(m.scoped_try_lock(&mut key, |_| ()).is_err(), "the lock was not killed");
			b.key = Some(key);
		}
		m
	}
}
impl VT for RwLock<DC> {
	fn build(b: &mut Builder, d: &mut String) -> Self {
		let id = b.next;
		b.next += 1;
		d.push_str(&format!("TLock ({id}, 0)"));
		let m = RwLock::new(DC { id, ver: 0 });
		if b.kills(id) {
			let mut key = b.key.take().unwrap();
			KILL_NEXT.with(|k| k.set(true));
			let r = std::panic::catch_unwind(std::panic::AssertUnwindSafe(|| m.scoped_write(&mut key, |_| ())));
			assert!(r.is_err());
			assert!(m.scoped_try_write(&mut key, |_| ()).is_err(), "the lock was not killed");
			b.key = Some(key);
		}
		m
	}
}
impl<T: VT + Lockable + RawLock> VT for Poisonable<T> {
	fn build(b: &mut Builder, d: &mut String) -> Self {
		d.push_str(&format!("TPoison {} (", b.poison));
		let inner = T::build(b, d);
		d.push(')');
		let p = Poisonable::new(inner);
		if b.poison {
			// poisoned the way a user poisons it: a panic inside its own exclusive scoped call
			let mut key = b.key.take().unwrap();
			let r = std::panic::catch_unwind(std::panic::AssertUnwindSafe(|| {
				p.scoped_lock(&mut key, |_| std::panic::resume_unwind(Box::new(0u8)))
			}));
			let _: Result<(), _> = r;
			b.key = Some(key);
			assert!(p.is_poisoned());
		}
		p
	}
}
fn seq<T: VT>(b: &mut Builder, d: &mut String, c: &str, n: usize) -> Vec<T> {
	d.push_str(&format!("TCont {c} ["));
	let mut v = Vec::with_capacity(n);
	for i in 0..n {
		if i > 0 {
			d.push_str("; ");
		}
		v.push(T::build(b, d));
	}
	d.push(']');
	v
}
impl<T: VT> VT for Vec<T> {
	fn build(b: &mut Builder, d: &mut String) -> Self {
		let n = b.vlen;
		seq(b, d, "CVec", n)
	}
}
impl<T: VT> VT for Box<[T]> {
	fn build(b: &mut Builder, d: &mut String) -> Self {
		let n = b.vlen;
		seq(b, d, "CBox", n).into_boxed_slice()
	}
}
impl<T: VT, const N: usize> VT for [T; N] {
	fn build(b: &mut Builder, d: &mut String) -> Self {
		match <[T; N]>::try_from(seq(b, d, "CArr", N)) {
			Ok(a) => a,
			Err(_) => unreachable!(),
		}
	}
}
macro_rules! tup_vt {
	($($g:ident),*) => {
		impl<$($g: VT),*> VT for ($($g,)*) {
			#[allow(unused_assignments)]
			fn build(b: &mut Builder, d: &mut String) -> Self {
				d.push_str("TCont CTup [");
				let mut first = true;
				let r = ($({ if !first { d.push_str("; "); } first = false; $g::build(b, d) },)*);
				d.push(']');
				r
			}
		}
	};
}
tup_vt!(A);
tup_vt!(A, B);
tup_vt!(A, B, C);
tup_vt!(A, B, C, D);
tup_vt!(A, B, C, D, E);
tup_vt!(A, B, C, D, E, F);
tup_vt!(A, B, C, D, E, F, G);

impl<L: VT + OwnedLockable> VT for BoxedLockCollection<L> {
	fn build(b: &mut Builder, d: &mut String) -> Self {
		let c = b.cell;
		b.cell += 1;
		d.push_str(&format!("TColl KBoxed {c} ("));
		let inner = L::build(b, d);
		d.push(')');
		BoxedLockCollection::new(inner)
	}
}
impl<L: VT + OwnedLockable> VT for OwnedLockCollection<L> {
	fn build(b: &mut Builder, d: &mut String) -> Self {
		d.push_str("TColl KOwned 0 (");
		let inner = L::build(b, d);
		d.push(')');
		OwnedLockCollection::new(inner)
	}
}
impl<L: VT + OwnedLockable> VT for RetryingLockCollection<L> {
	fn build(b: &mut Builder, d: &mut String) -> Self {
		d.push_str("TColl KRetry 0 (");
		let inner = L::build(b, d);
		d.push(')');
		RetryingLockCollection::new(inner)
	}
}

/// tokens of what came back, in declared order
pub trait Toks {
	fn toks(self, out: &mut Vec<String>);
}
impl Toks for DC {
	fn toks(self, out: &mut Vec<String>) {
		out.push(format!("KV ({}, {})", self.id, self.ver));
	}
}
impl Toks for &mut DC {
	fn toks(self, out: &mut Vec<String>) {
		out.push(format!("KV ({}, {})", self.id, self.ver));
	}
}
impl<T: Toks> Toks for Result<T, PoisonError<T>> {
	fn toks(self, out: &mut Vec<String>) {
		match self {
			Ok(x) => {
				out.push("KRes false".into());
				x.toks(out)
			}
			Err(e) => {
				out.push("KRes true".into());
				e.into_inner().toks(out)
			}
		}
	}
}
impl<T: Toks> Toks for Box<[T]> {
	fn toks(self, out: &mut Vec<String>) {
		for x in self.into_vec() {
			x.toks(out)
		}
	}
}
impl<T: Toks, const N: usize> Toks for [T; N] {
	fn toks(self, out: &mut Vec<String>) {
		for x in self {
			x.toks(out)
		}
	}
}
macro_rules! tup_toks {
	($($g:ident $i:tt),*) => {
		impl<$($g: Toks),*> Toks for ($($g,)*) {
			fn toks(self, out: &mut Vec<String>) { $( self.$i.toks(out); )* }
		}
	};
}
tup_toks!(A 0);
tup_toks!(A 0, B 1);
tup_toks!(A 0, B 1, C 2);
tup_toks!(A 0, B 1, C 2, D 3);
tup_toks!(A 0, B 1, C 2, D 3, E 4);
tup_toks!(A 0, B 1, C 2, D 3, E 4, F 5);
tup_toks!(A 0, B 1, C 2, D 3, E 4, F 5, G 6);

/// write (version + 1) at the `pos`-th payload of a structure of `&mut DC` (what data_mut / get_mut hand out)
pub trait Touch {
	fn touch(self, pos: usize, base: &Cell<usize>);
}
impl Touch for &mut DC {
	fn touch(self, pos: usize, base: &Cell<usize>) {
		if base.get() == pos {
			self.ver += 1;
		}
		base.set(base.get() + 1);
	}
}
impl<T: Touch> Touch for Result<T, PoisonError<T>> {
	fn touch(self, pos: usize, base: &Cell<usize>) {
		match self {
			Ok(x) => x.touch(pos, base),
			Err(e) => e.into_inner().touch(pos, base),
		}
	}
}
impl<T: Touch> Touch for Box<[T]> {
	fn touch(self, pos: usize, base: &Cell<usize>) {
		for x in self.into_vec() {
			x.touch(pos, base)
		}
	}
}
impl<T: Touch, const N: usize> Touch for [T; N] {
	fn touch(self, pos: usize, base: &Cell<usize>) {
		for x in self {
			x.touch(pos, base)
		}
	}
}
macro_rules! tup_touch {
	($($g:ident $i:tt),*) => {
		impl<$($g: Touch),*> Touch for ($($g,)*) {
			fn touch(self, pos: usize, base: &Cell<usize>) { $( self.$i.touch(pos, base); )* }
		}
	};
}
tup_touch!(A 0);
tup_touch!(A 0, B 1);
tup_touch!(A 0, B 1, C 2);
tup_touch!(A 0, B 1, C 2, D 3);
tup_touch!(A 0, B 1, C 2, D 3, E 4);
tup_touch!(A 0, B 1, C 2, D 3, E 4, F 5);
tup_touch!(A 0, B 1, C 2, D 3, E 4, F 5, G 6);

/// an acquirable root: exclusive scoped access to the whole structure, and a guard taken and dropped
pub trait Root: Sized {
	fn write_at(&self, key: &mut ThreadKey, pos: usize);
	fn lock_once(&self, key: ThreadKey) -> ThreadKey;
}
macro_rules! root_single {
	($ty:ty, $scoped:ident, $lock:ident) => {
		impl Root for $ty {
			fn write_at(&self, key: &mut ThreadKey, pos: usize) {
				let base = Cell::new(0usize);
				self.$scoped(&mut *key, |d| d.touch(pos, &base));
			}
			fn lock_once(&self, key: ThreadKey) -> ThreadKey {
				let g = self.$lock(key);
				drop(g);
				ThreadKey::get().unwrap()
			}
		}
	};
}
root_single!(Mutex<DC>, scoped_lock, lock);
root_single!(RwLock<DC>, scoped_write, write);
impl<L: Lockable + RawLock> Root for Poisonable<L>
where
	for<'a> L::DataMut<'a>: Touch,
{
	fn write_at(&self, key: &mut ThreadKey, pos: usize) {
		let base = Cell::new(0usize);
		self.scoped_lock(&mut *key, |d| match d {
			Ok(x) => x.touch(pos, &base),
			Err(e) => e.into_inner().touch(pos, &base),
		});
	}
	fn lock_once(&self, key: ThreadKey) -> ThreadKey {
		match self.lock(key) {
			Ok(g) => drop(g),
			Err(e) => drop(e.into_inner()),
		}
		ThreadKey::get().unwrap()
	}
}
macro_rules! root_coll {
	($coll:ident) => {
		impl<L: OwnedLockable> Root for $coll<L>
		where
			for<'a> L::DataMut<'a>: Touch,
		{
			fn write_at(&self, key: &mut ThreadKey, pos: usize) {
				let base = Cell::new(0usize);
				self.scoped_lock(&mut *key, |d| d.touch(pos, &base));
			}
			fn lock_once(&self, key: ThreadKey) -> ThreadKey {
				let g = self.lock(key);
				drop(g);
				ThreadKey::get().unwrap()
			}
		}
	};
}
root_coll!(BoxedLockCollection);
root_coll!(OwnedLockCollection);
root_coll!(RetryingLockCollection);

/// into_child of the root (collections and Poisonable), then into_inner of what came out
pub trait Child: Sized {
	fn child_then_inner(self, out: &mut Vec<String>);
}
macro_rules! child_coll {
	($coll:ident) => {
		impl<L: LockableIntoInner> Child for $coll<L>
		where
			L::Inner: Toks,
		{
			fn child_then_inner(self, out: &mut Vec<String>) {
				self.into_child().into_inner().toks(out)
			}
		}
	};
}
child_coll!(BoxedLockCollection);
child_coll!(OwnedLockCollection);
child_coll!(RetryingLockCollection);
impl<L: LockableIntoInner> Child for Poisonable<L>
where
	L::Inner: Toks,
{
	fn child_then_inner(self, out: &mut Vec<String>) {
		// the Ok / Err of into_child is the flag, as the Ok / Err of into_inner would have been
		match self.into_child() {
			Ok(l) => {
				out.push("KRes false".into());
				l.into_inner().toks(out)
			}
			Err(e) => {
				out.push("KRes true".into());
				e.into_inner().into_inner().toks(out)
			}
		}
	}
}
impl Child for Mutex<DC> {
	fn child_then_inner(self, out: &mut Vec<String>) {
		self.into_inner().toks(out)
	}
}
impl Child for RwLock<DC> {
	fn child_then_inner(self, out: &mut Vec<String>) {
		self.into_inner().toks(out)
	}
}

fn run_path<T>(b: &mut Builder, d: &mut String, path: &str, wpos: Option<usize>, out: &mut Vec<String>)
where
	T: VT + Root + Child + LockableIntoInner + Lockable,
	T::Inner: Toks,
{
	let t = T::build(b, d);
	let mut key = b.key.take().unwrap();
	match path {
		"drop" => {
			if b.kill.is_none() {
				key = t.lock_once(key);
			}
			drop(t);
		}
		"drop_unwinding" => {
			if b.kill.is_none() {
				key = t.lock_once(key);
			}
			let r = std::panic::catch_unwind(std::panic::AssertUnwindSafe(move || {
				let _t = t;
				std::panic::resume_unwind(Box::new(0u8));
			}));
			let _ = r;
		}
		"into_inner" => {
			if let Some(p) = wpos {
				t.write_at(&mut key, p);
			}
			t.into_inner().toks(out);
		}
		"into_child" => {
			if let Some(p) = wpos {
				t.write_at(&mut key, p);
			}
			t.child_then_inner(out);
		}
		"lock_into_inner" => {
			key = t.lock_once(key);
			t.into_inner().toks(out);
		}
		"try_new_reject" => {
			// the input owns the structure and lists an outside lock twice: rejected, the input dropped exactly once
			let shared = Mutex::new(0u8);
			let r = BoxedLockCollection::try_new((t, &shared, &shared));
			assert!(r.is_none());
			drop(r);
		}
		"try_new_reject_retry" => {
			let shared = Mutex::new(0u8);
			let r = RetryingLockCollection::try_new((t, &shared, &shared));
			assert!(r.is_none());
			drop(r);
		}
		"try_new_accept" => {
			let shared = Mutex::new(0u8);
			let c = BoxedLockCollection::try_new((t, &shared)).unwrap();
			let g = c.lock(key);
			drop(g);
			key = ThreadKey::get().unwrap();
			let (t2, _) = c.into_child();
			t2.into_inner().toks(out);
		}
		p => panic!("path {p}"),
	}
	b.key = Some(key);
}

/// the root collection consumed by its by-value iterator: every member comes out once, in declared order
fn run_into_iter<T>(b: &mut Builder, d: &mut String, half: bool, out: &mut Vec<String>)
where
	T: VT + IntoIterator,
	T::Item: LockableIntoInner,
	<T::Item as LockableIntoInner>::Inner: Toks,
{
	let t = T::build(b, d);
	let mut it = t.into_iter();
	if half {
		// only the first member is taken; the iterator is dropped with the rest inside it
		if let Some(x) = it.next() {
			x.into_inner().toks(out);
		}
		drop(it);
	} else {
		for x in it {
			x.into_inner().toks(out);
		}
	}
}

fn run_get_mut<T>(b: &mut Builder, d: &mut String, wpos: Option<usize>, out: &mut Vec<String>)
where
	T: VT + LockableGetMut + LockableIntoInner,
	<T as LockableIntoInner>::Inner: Toks,
	for<'a> <T as LockableGetMut>::Inner<'a>: Touch + Toks,
{
	let mut t = T::build(b, d);
	// what get_mut shows before the write (payloads and the Ok / Err of every wrapper) ...
	t.get_mut().toks(out);
	let base = Cell::new(0usize);
	// a position outside the structure writes nothing but still walks everything get_mut returned
	t.get_mut().touch(wpos.unwrap_or(usize::MAX), &base);
	t.into_inner().toks(out);
}

type M = Mutex<DC>;
type R = RwLock<DC>;
type P<T> = Poisonable<T>;
type Bx<T> = BoxedLockCollection<T>;
type Ow<T> = OwnedLockCollection<T>;
type Rt<T> = RetryingLockCollection<T>;

/// the table of types; `gm` marks the ones that implement LockableGetMut (no boxed collection inside)
macro_rules! table {
	($( $idx:literal $gm:ident $it:ident $ty:ty ; )*) => {
		fn dispatch(ty: usize, b: &mut Builder, d: &mut String, path: &str, wpos: Option<usize>, out: &mut Vec<String>) {
			match ty {
				$( $idx => {
					if path == "get_mut" { gm_case!($gm, $ty, b, d, wpos, out) }
					else if path == "into_iter" { it_case!($it, $ty, b, d, false, out) }
					else if path == "into_iter_first" { it_case!($it, $ty, b, d, true, out) }
					else { run_path::<$ty>(b, d, path, wpos, out) }
				} )*
				t => panic!("type {t}"),
			}
		}
		pub const NTYPES: usize = 0 $( + { let _ = $idx; 1 } )*;
		pub const GM: &[(usize, bool)] = &[ $( ($idx, gm_flag!($gm)) ),* ];
	};
}
macro_rules! gm_case {
	(y, $ty:ty, $b:ident, $d:ident, $w:ident, $o:ident) => { run_get_mut::<$ty>($b, $d, $w, $o) };
	(n, $ty:ty, $b:ident, $d:ident, $w:ident, $o:ident) => { panic!("no get_mut for this type") };
}
macro_rules! it_case {
	(i, $ty:ty, $b:ident, $d:ident, $h:expr, $o:ident) => { run_into_iter::<$ty>($b, $d, $h, $o) };
	(x, $ty:ty, $b:ident, $d:ident, $h:expr, $o:ident) => { panic!("no by-value iterator for this type") };
}
macro_rules! gm_flag {
	(y) => { true };
	(n) => { false };
}

table! {
	0 y x M;
	1 y x R;
	2 y x P<M>;
	3 y x P<R>;
	4 y i Ow<Vec<M>>;
	5 y i Rt<Box<[R]>>;
	6 n i Bx<Vec<M>>;
	7 n i Bx<[M; 5]>;
	8 y i Ow<[P<R>; 3]>;
	9 y x Rt<(M, R, P<M>, M, R, M, R)>;
	10 n x Bx<(M, R, M, R, M)>;
	11 y x Ow<(M, R, P<R>, M, R, M)>;
	12 n i Bx<Vec<[M; 2]>>;
	13 y i Rt<[Vec<R>; 2]>;
	14 y x Ow<(Vec<M>, [R; 2], P<M>)>;
	15 n x Bx<[(M, R); 3]>;
	16 y x P<Ow<Vec<M>>>;
	17 n x P<Bx<(M, R)>>;
	18 y x P<Rt<[M; 2]>>;
	19 n x Bx<(Ow<Vec<M>>, M)>;
	20 n i Ow<Vec<Bx<(M, R)>>>;
	21 y i Rt<[Rt<Vec<M>>; 2]>;
	22 y x Ow<Box<[(P<M>, Ow<[R; 2]>)]>>;
	23 n x Bx<(Bx<Vec<M>>, Rt<(R, M)>, P<Bx<[M; 2]>>)>;
	24 y x Ow<(P<Ow<(M, P<R>)>>, Vec<P<M>>)>;
	25 n i Rt<Vec<Bx<Box<[R]>>>>;
	26 y i Ow<[[M; 2]; 2]>;
	27 y x Rt<(Vec<Vec<M>>, Box<[Box<[R]>]>)>;
	28 y i Ow<[M; 0]>;
	29 n x Bx<(M,)>;
	30 y i Ow<[M; 7]>;
	31 y x P<P<M>>;
}

pub fn run(line: &str) -> String {
	let t: Vec<&str> = line.split_whitespace().collect();
	let (id, ty, vlen, poison, path) = (t[1], t[2].parse::<usize>().unwrap(), t[3].parse::<usize>().unwrap(), t[4].starts_with('1'), t[5]);
	let kill: Option<u32> = t[4].split_once('k').map(|(_, s)| if s == "a" { u32::MAX } else { s.parse().unwrap() });
	let wpos: Option<usize> = t.get(6).and_then(|x| x.parse().ok());
	for d in DROPS.iter() {
		d.store(0, SeqCst);
	}
	let mut out: Vec<String> = vec![];
	let mut desc = String::new();
	let r = std::panic::catch_unwind(std::panic::AssertUnwindSafe(|| {
		let mut b = Builder { next: 0, cell: 0, vlen, poison, kill, key: Some(ThreadKey::get().unwrap()) };
		dispatch(ty, &mut b, &mut desc, path, wpos, &mut out);
		drop(b.key.take());
	}));
	let drops: Vec<String> = DROPS.iter().map(|d| d.load(SeqCst).to_string()).collect();
	match r {
		Ok(()) => format!("tobs {} ok {} | [{}] | [{}]", id, desc, out.join("; "), drops.join("; ")),
		Err(e) => {
			let msg = e.downcast_ref::<String>().cloned().or_else(|| e.downcast_ref::<&str>().map(|s| s.to_string())).unwrap_or_default();
			format!("tobs {} panic {} | {}", id, desc, msg)
		}
	}
}

pub fn list() -> String {
	let v: Vec<String> = GM.iter().map(|(i, g)| format!("{}:{}", i, if *g { "y" } else { "n" })).collect();
	format!("ttypes {} {}", NTYPES, v.join(" "))
}
