"""writes MANIFEST.json from the table below (kept in one place so it stays valid)"""
import json
import os

V = os.path.dirname(os.path.dirname(os.path.abspath(__file__)))
TB = ("Trusted: Coq 8.16.1 kernel (+vm_compute for evaluating the model on cases; no native_compute, no extraction); "
      "hand-written Gallina model of happylock (coq/Model.v, Shape.v, Algo.v, Api.v); the correspondence check "
      "(harness/ with auditing lock_api raw locks built against /repo's working tree, tools/*.py). Assumed: lock_api "
      "contract of the raw lock, Rust drop/unwind order as encoded, distinct addresses for distinct locks.")
CLAIMED = {
    "C13": ("full", "Theorem C13_try_exact over all shapes/modes/hold assignments; correspondence + monitor on the "
            "implementation over every template x assignment", "7 C13", "structural induction + differential execution"),
}
CLAIMED["C07"] = ("full (ZST raw locks excluded; compile-time half via the C15 corpus)", "Theorems C07_sorting_exact, C07_retry_exact, C07_monitor: try_new accepts exactly the inputs in which no lock / owned unit is reachable twice, for every shape and address assignment; the same monitor is evaluated on try_new(..).is_some() of the implementation", "7 C07", "list lemmas: sorted => adjacent test <=> not NoDup; HashSet scan <=> not NoDup")
CLAIMED["C08"] = ("full", "Theorems C08_sort_perm_invariant, C08_common_same_order, C08_monitor: for all shapes, listing orders, modes and address assignments two sorting collections take their common locks in the same relative order (nested boxed/ref/retrying members by their leaves, owned collections as units); the same monitor runs on the sequence of blocking raw acquisitions of the implementation", "7 C08", "sortedness + uniqueness of sorted duplicate-free lists; history proof over the model")
CLAIMED["C06"] = ("full", "Theorem C06_one_key with no hypotheses: for every scenario and history (faults, panics, leaks included) the model satisfies the key monitor; the same monitor and a ThreadKey::get() probe after every call run on the implementation", "7 C06", "invariant by induction over histories; per-call key-effect lemma over the program syntax")
HIST = "the whole-history statement (the Gallina monitor mon_%s) is evaluated on the model and on the implementation for every generated history and compared; its proof for all histories is the remaining obligation"
CLAIMED["C03"] = ("partial", "call-level theorems for every shape in fault-free worlds (guard drop / unlock / scoped calls release every hold before the key is back; a lone thread never waits for itself); " + HIST % "C03", "7 C03", "structural induction over shapes / lists + differential execution of histories")
CLAIMED["C04"] = ("partial", "call-level theorems for every shape, mode and hold table (get_ptrs enumerates exactly the leaves; lock takes all leaves or waits; try_* all-or-nothing and never waits; scoped closure under the full hold); " + HIST % "C04", "7 C04", "structural induction over shapes / lists + differential execution of histories")
CLAIMED["C05"] = ("partial", "call-level theorems (every release is by the holder in the mode held: no audit event; guard drop and collection unlock release exactly the holds); " + HIST % "C05", "7 C05", "structural induction + differential execution with an auditing raw lock")
CLAIMED["C10"] = ("partial; known finding F3 (scoped call of a collection containing the wrapper)", "C10_no_panic_no_poison for every call in every world; guard-panic and own-scoped-panic poisoning; poisoned acquisition still holds; C10_refuted_scoped_collection witnesses the finding; three-valued monitor (strict / relaxed) on model and implementation", "7 C10, 11", "syntactic 'handlers only' invariant + quiet-world lemmas + vm_compute witness")
CLAIMED["C11"] = ("partial (sequential part; waiters proceed is C01)", "closure panic and guard panic release every hold once, restore the table, keep the key obtainable/usable, for every shape; handle_unwind never swallows a panic; " + HIST % "C11", "7 C11", "quiet-world lemmas over the program syntax + differential execution")
CLAIMED["C17"] = ("partial", "Debug formatting never waits in any world and disturbs no hold; accessors issue no raw operation; " + HIST % "C17", "7 C17", "syntactic non-blocking invariant + quiet-world lemma + differential execution")
CLAIMED["C01"] = ("partial", "C01_no_deadlock / C01_no_self_wait: in every Level-B state satisfying the rank discipline (a decidable test, proved sound, with the scenario's address-based rank proved bounded) some thread can move, for any number of threads, programs, locks and both grant policies; the test is evaluated in every state of every explored schedule of the model and the interleaved model is compared event by event with the implementation under a deterministic scheduler; unproved: that all reachable states of the API programs satisfy the discipline", "7 C01", "rank argument (induction on bound - rank) + executable small-step model + differential execution under a deterministic scheduler")
CLAIMED["C02"] = ("partial (raw-lock exclusion is the specification)", "guard / closure positions denote exactly the declared leaves and those are exactly the locks acquired; closure runs between acquisition and release; interleaved monitor (data only under a hold of that very lock, versions continuous) on model and implementation with a scheduling point at every data access", "7 C02", "structural induction over shapes + differential execution with tagged, versioned payloads")
CLAIMED["C09"] = ("full for the safety half and conditional completion (sequential big-step); interleaved half by correspondence", "C09_retry_blocks_holding_nothing: from any hold table the retrying acquisition either finishes holding every member once or waits holding a proper prefix of ONE member (nothing for plain locks); interleaved monitor on what every waiting thread holds", "7 C09", "induction over the member list with the source's bookkeeping + differential execution")
CLAIMED["C12"] = ("partial; known findings D12a, D12b, D12c", "single-lock theorems in any world (the panicking operation kills exactly that lock, propagates; a killed lock refuses try without touching the raw lock and panics a blocking acquisition; kill flags are never cleared); for collections the model reproduces the source's unwind bookkeeping and the four-clause monitor runs on model and implementation with a one-shot panic at every raw-operation index; three defect classes are refuted on witnesses and listed as known findings", "7 C12, 11", "case analysis per operation + differential fault injection + vm_compute refutation witnesses")
CLAIMED["C14"] = ("partial; known finding F4 (holds moved out of a collection guard)", "ApiTable.v is regenerated from rustc's own description of the API (rustdoc JSON) on every run; C14_key_linear: no sequence of safe public calls of any length gives a thread two live key carriers (induction over client operations whose effects come from the table; K1-K4 evaluated on the table); C14_holds_stay_attached under K5, refuted on the current tree (C14_refuted_take); rustc's verdict on one offending program per escape route (with compiling twins) is compared with the model's prediction", "7 C14", "generated model (translator over rustdoc JSON) + induction over client operation sequences + rustc corpus")
CLAIMED["C15"] = ("partial; known finding F5 (scoped closure argument outlives the call)", "C15_auto_traits_at_least_std: for every type of the (unboundedly nested) language of locks, guards, collections, wrappers, references and tuples, Send/Sync as rustc derives them from the tree's impls imply the standard library's bounds (induction over the type language against the regenerated table); C15_table_wf (unsafe-only entry points, no shared access into owned collections, no OwnedLockable for &T); rustc corpus with twins and a rustc-decided Send/Sync grid compared with the model", "7 C15", "generated model (translator over rustdoc JSON) + induction over the type language + rustc corpus and grid")
CLAIMED["C16"] = ("partial (ownership ledger, not a memory model)", "the boxed collection's drop / try_new-reject / into_child paths written as the source's ownership primitives: every value dropped exactly once, cell and lock cache freed once, into_child returns exactly the stored values, and the variant without mem::forget is refuted; the monitor holds of the model for every kind, path, size 0..6 (finite domain, by evaluation); drop-counting payloads through every kind x container x lock type x size 0..4 x path, exhaustively, on the implementation", "7 C16", "induction over value lists + exhaustive evaluation + differential execution with drop counters")
PENDING = {}
props = [json.loads(l) for l in open(os.path.join(V, "properties.jsonl"))]
checks, na = [], []
for p in props:
    i = p["id"]
    if i in CLAIMED:
        kind, text, ref, tech = CLAIMED[i]
        checks.append({
            "property_id": i, "quick_cmd": f"./check {i} quick", "thorough_cmd": f"./check {i} thorough",
            "evidence_file": f"evidence/{i}.json", "replay_cmd_template": f"./check {i} --replay {{path}}",
            "engine": "coq-table+rustc-corpus" if i in ("C14", "C15") else "coq-model+harness",
            "level_claimed": {"category": "proof", "text": f"{kind}: {text}", "design_ref": f"DESIGN.md section {ref}"},
            "level_note": TB, "technique": "machine-checked proof in Coq (" + tech + ") with checked correspondence to the code",
        })
    else:
        na.append({"property_id": i, "reason": PENDING.get(i, "check not built yet in this round (model exists; theorem and correspondence under construction)")})
m = {
    "version": 1, "setup_cmd": "./setup.sh",
    "hooks": {"guard": "happylock_verif", "enable": "no source hooks are needed: every observation goes through the public API (R type parameter, ThreadKey::get, is_poisoned, Debug)",
              "baseline_off_cmd": "cd /repo && cargo test --workspace --no-fail-fast --offline", "source_commits": [], "add_only": True},
    "engines": [{"name": "coq-table+rustc-corpus", "path": "tools/apitable.py coq/ApiTable.v coq/ApiModel.v tools/corpus.py", "serves_properties": ["C14", "C15"], "kind_free_text": "Gallina table regenerated from rustdoc JSON on every run + theorems re-checked against it + rustc verdicts on a corpus of client programs"}, {"name": "coq-model+harness", "path": "coq/ harness/ tools/", "serves_properties": sorted(CLAIMED),
                 "kind_free_text": "Gallina model + theorems (Coq 8.16.1) tied to /repo by differential execution of generated scenarios"}],
    "checks": checks, "not_applicable": na,
    "notes": "fix commits in /repo: b5ea304 (C06, ThreadKey::get). See known_findings.txt and DESIGN.md.",
}
json.dump(m, open(os.path.join(V, "MANIFEST.json"), "w"), indent=1)
print("claimed", sorted(CLAIMED), "pending", len(na))
