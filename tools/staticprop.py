"""Shared driver of the static checks (C14, C15): regenerate ApiTable.v from rustc's view of /repo, rebuild the
theorems against it, compile the corpus and the Send/Sync grid with rustc, compare with the model's predictions."""
import json
import os
import random
import sys
import time

import apitable
import corpus
import hl

STR = "From Coq Require Import String.\nOpen Scope string_scope.\n"


def main(pid, prop_module, theorems, own_props, rule, known_classes_doc):
    tier = sys.argv[2] if len(sys.argv) > 2 else "quick"
    tier = os.environ.get("VERIF_TIER", tier)
    seed = int(os.environ.get("VERIF_SEED", "1"))
    t0 = time.time()
    notes = []
    # ---- 1. translator: rustc's description of the API -> ApiTable.v
    txt, log = apitable.generate()
    if txt is None:
        print("FRAMEWORK-ERROR: rustdoc JSON could not be produced for", hl.REPO, "\n", log[-2000:])
        sys.exit(2)
    out = os.path.join(hl.COQ, "ApiTable.v")
    committed = open(out).read() if os.path.exists(out) else None
    table_changed = committed != txt
    if table_changed:
        open(out, "w").write(txt)
    # ---- 2. proof obligations against the regenerated table
    proof_broken = None
    ok, blog = hl.build_coq(["ApiModel.vo", f"{prop_module}.vo"])
    assum = None
    if not ok:
        proof_broken = "coq build failed against the regenerated table: " + blog[-1200:]
        hl.build_coq(["ApiModel.vo"])          # the computable part still builds: counterexample search below
    else:
        bad = hl.scan_forbidden()
        if bad:
            proof_broken = "forbidden construct: " + "; ".join(bad[:5])
        else:
            assum, alog = hl.print_assumptions(prop_module, theorems)
            if assum is None:
                proof_broken = "Print Assumptions failed: " + alog[-800:]
            else:
                for t in theorems:
                    if "Closed under the global context" not in assum.get(t, ""):
                        proof_broken = f"theorem {t} is not closed: {assum.get(t)}"
    if tier == "thorough" and not proof_broken:
        cok, csum = hl.coqchk(prop_module)
        notes.append(csum)
        if not cok:
            proof_broken = csum
    # ---- 3. rustc on the corpus and on a sample of the Send/Sync grid
    rng = random.Random(seed)
    items = [it for it in corpus.ITEMS if it[1] in own_props]
    ngrid = 120 if tier == "quick" else 900
    grid = corpus.grid_types(rng, ngrid) if pid == "C15" else None
    rust, gout, rlog = corpus.run_corpus(items, grid)
    # ---- 4. the model's predictions
    exprs = [(it[0], it[5]) for it in items]
    exprs.append(("__wf", "(wf_key, wf_key_known, wf_data, wf_data_known)"))
    tag = "c14" if pid == "C14" else "c15"
    exprs.append(("__off_fns", f"{tag}_offending_fns"))
    exprs.append(("__off_impls", f"{tag}_offending_impls"))
    if pid == "C15":
        exprs.append(("__off_fields", "public_fields"))
    if grid:
        exprs += [(f"g{i}", f"(table_impl MSend ({c}), table_impl MSync ({c}))") for i, (c, _) in enumerate(grid)]
        exprs += [("__cex_send", "firstn 3 (counterexamples MSend)"), ("__cex_sync", "firstn 3 (counterexamples MSync)")]
    vals, cerr = hl.run_coq_cases(pid, ["ApiTable", "ApiModel"], exprs, preamble=STR)
    if cerr:
        notes.append("coqc: " + str(cerr[:1])[:600])
    known = hl.load_known().get(pid, {})
    lines, violations = [], 0
    mismatches, demanded_fail, twins_broken, known_hits = [], [], [], {}
    for it in items:
        name, prop, route, bad_src, ok_src, pred, codes, kclass = it
        rej, gotcodes, msg = rust[name + "_bad"]
        twin_rej = rust[name + "_ok"][0]
        model_rej = {"true": True, "false": False}.get(vals.get(name))
        if twin_rej:
            twins_broken.append((name, rust[name + "_ok"][2][:200]))
        if model_rej is None or model_rej != rej:
            mismatches.append((name, model_rej, rej, gotcodes))
        if not rej:
            if kclass and kclass in known and model_rej is False:
                known_hits[kclass] = known_hits.get(kclass, []) + [name]
            else:
                demanded_fail.append(name)
        elif codes and not (set(gotcodes) & set(codes)):
            notes.append(f"{name}: rejected with {gotcodes}, expected one of {codes}")
    grid_mismatch = []
    if grid:
        if isinstance(gout, dict) and "error" in gout:
            notes.append("grid program failed: " + gout["error"][-500:])
            grid_mismatch.append(("grid program does not compile", None, None))
        else:
            for i, (c, rt) in enumerate(grid):
                v = vals.get(f"g{i}")
                m = {"(true, true)": (True, True), "(true, false)": (True, False), "(false, true)": (False, True),
                     "(false, false)": (False, False)}.get(v)
                if gout.get(i) != m:
                    grid_mismatch.append((c, rt, (gout.get(i), m)))
    for cls, names in known_hits.items():
        lines.append(f"KNOWN-FINDING: property={pid} class={cls} {known[cls]} (corpus program(s): {', '.join(names)})")
    by = {it[0]: it for it in items}
    cex = {k: vals.get(k) for k in ("__cex_send", "__cex_sync")} if grid else {}
    if demanded_fail:
        it = by[demanded_fail[0]]
        fn = hl.write_replay(pid, {"property": pid, "kind": "offending-program-accepted-by-rustc", "route": it[2],
                                   "program": corpus.prog(it[3]), "twin": corpus.prog(it[4]), "others": demanded_fail[1:]})
        lines.append(f"VIOLATION property={pid} replay={fn}")
        violations += len(demanded_fail)
    elif any(vals.get(k) not in (None, "[]") for k in ("__off_fns", "__off_impls", "__off_fields")):
        # an item of the current API breaks a rule of the table: the item itself is the failing input (a program that uses
        # it compiles against this tree)
        fn = hl.write_replay(pid, {"property": pid, "kind": "offending-api-item",
                                   "functions (owner, name, trait)": vals.get("__off_fns"),
                                   "trait impls (type, trait)": vals.get("__off_impls"),
                                   "public fields": vals.get("__off_fields"),
                                   "rules": "coq/ApiModel.v: K1-K11 (C14) / E1-E8 (C15); the table coq/ApiTable.v was regenerated from this tree"})
        lines.append(f"VIOLATION property={pid} replay={fn}")
        violations += 1
    elif grid and any(cex.get(k) not in (None, "[]") for k in cex):
        fn = hl.write_replay(pid, {"property": pid, "kind": "type-with-weaker-auto-trait-bound-than-std",
                                   "counterexamples_send": cex.get("__cex_send"), "counterexamples_sync": cex.get("__cex_sync")})
        lines.append(f"VIOLATION property={pid} replay={fn}")
        violations += 1
    elif proof_broken or mismatches or twins_broken or grid_mismatch:
        fn = hl.write_replay(pid, {"property": pid, "kind": "no-longer-checks", "what": {
            "theorem": proof_broken, "rustc_vs_model": mismatches[:10], "twins_that_no_longer_compile": twins_broken[:10],
            "grid_rustc_vs_model": grid_mismatch[:10]}})
        lines.append(f"VIOLATION property={pid} replay={fn} no-failing-input-found")
        violations += 1
    nprog = 2 * len(items) + (1 if grid else 0)
    ev = {
        "property_id": pid, "tier": tier, "seed": seed, "level": "proof",
        "coverage": {
            "obligations": len(theorems), "discharged": 0 if proof_broken else len(theorems),
            "checker_cmd": f"tools/apitable.py (rustdoc JSON -> coq/ApiTable.v) ; make -C coq {prop_module}.vo ; Print Assumptions",
            "trusted_base": ["Coq 8.16.1 kernel, vm_compute for the table facts", "translator tools/apitable.py over rustdoc JSON "
                             "(nightly rustdoc, format 57): abstraction of signatures into flags", "rustc as the oracle of the corpus",
                             "the abstraction of Rust's move / borrow checking by the client-op algebra (C14) and of auto-trait "
                             "derivation by impl_auto (validated against rustc on the grid)"] +
                            [f"Print Assumptions {t}: {(assum or {}).get(t, 'n/a')}" for t in theorems],
            "theorems": theorems, "table_regenerated": True, "table_differs_from_committed_copy": table_changed,
            "programs": nprog, "disagreements_checked": len(mismatches) + len(grid_mismatch),
            "evaluations": nprog + (len(grid) if grid else 0), "distinct_nontrivial": len(items) + (len(set(grid)) if grid else 0),
            "rule": rule,
            "samples": [{"program": it[0], "route": it[2], "rustc_rejects": rust[it[0] + "_bad"][0], "codes": rust[it[0] + "_bad"][1],
                         "model_predicts_rejected": vals.get(it[0])} for it in items[:6]] +
                       ([{"type": grid[i][1], "rustc_send_sync": gout.get(i), "model": vals.get(f"g{i}")} for i in range(3)]
                        if grid and not (isinstance(gout, dict) and "error" in gout) else []),
            "corpus_programs": len(items), "grid_types": len(grid) if grid else 0, "grid_mismatches": len(grid_mismatch),
            "known_finding_hits": {k: len(v) for k, v in known_hits.items()}, "wf": vals.get("__wf"),
        },
        "assumptions": ["Rust's move/borrow checking is abstracted (client_typable); the corpus samples it",
                        "adequacy of the standard library's auto-trait bounds is taken as the reference"],
        "wall_s": round(time.time() - t0, 1), "violations": violations, "notes": notes,
    }
    hl.write_evidence(pid, ev)
    for ln in lines:
        print(ln)
    print(f"{pid} {tier}: {len(items)} corpus pairs, grid {len(grid) if grid else 0} types ({len(grid_mismatch)} mismatches), "
          f"rustc/model disagreements {len(mismatches)}, accepted offending programs {len(demanded_fail)}, theorems "
          f"{0 if proof_broken else len(theorems)}/{len(theorems)}, {ev['wall_s']} s")
    sys.exit(1 if violations else 0)
