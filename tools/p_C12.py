"""C12 — a panicking raw lock operation leaks nothing and kills only that lock."""
import re

import common
import faultgen
from common import from_replay, to_replay  # noqa: F401

COQ_MODULE = "Prop_C12"
THEOREMS = ["C12_fault_kills_that_lock", "C12_try_fault_kills_that_lock", "C12_unlock_fault_kills_that_lock",
            "C12_killed_lock_refuses", "C12_kill_is_forever", "C12_refuted_retry_handler",
            "C12_refuted_try_rollback", "C12_refuted_scoped_release_loop", "C12_guard_acquire_one_fault", "C12_guard_drop_one_fault", "C12_guard_acquire_any_fault_position", "C12_single_lock_one_fault"]
CASE_MODULES = ["Monitors"]
CHECK_WITHOUT_PROOF = True
TRUSTED = common.TRUSTED_COMMON
ASSUMPTIONS = common.ASSUME_COMMON + [
    "a fault panics before the raw lock changes state (as the evil locks of tests/evil_*.rs do)",
    "plans that would panic a second time while drop glue is unwinding (process abort) are not generated"]
RULE = ("every root (single lock, poisonable, 4 collection kinds x containers x sizes 1..4 x Mutex / RwLock / mixed, random "
        "nestings) x {write, read} x {lock, try_lock, scoped, scoped_try (+ guard drop)} x optional pre-held member x a one-shot "
        "panic at each raw-operation index in turn, plus persistent lock / try faults as in tests/evil_*.rs, followed by a try on "
        "every leaf and on the root from another thread; non-trivial = a fault actually fired; distinct = (shape, mode, flavour, "
        "fault plan, pre-held)")
EXHAUSTIVE = {"quick": False, "thorough": False}


def gen(tier, rng):
    return faultgen.gen(tier, rng)


def coq_expr(s, r):
    return f"check_C12 ({s.coq(*r['adr'])}) {common.obs_list(r)}"


def second_expr(s, r):
    """second comparison (Monitors.second_C12): equal up to the run of releases that contains the faulted release"""
    if not s.f1:
        return None
    return f"second_C12 ({s.coq(*r['adr'])}) {common.obs_list(r)}"


def classify(s, r):
    m = s.meta
    kind = m["desc"].split(":")[0].split("[")[0]
    fired = any("RFault" in o for o in r["obs"])
    return [f"root={kind if not kind.startswith('P(') else 'poisonable'}", f"mode={m['mode']}", f"flavour={m['flavour']}",
            "fault=" + ("persistent" if m["fault"].startswith("p_") else "oneshot"), "fired=" + str(fired),
            "pre=" + str(m["pre"])]


def nontrivial(s, r):
    return any("RFault" in o for o in r["obs"])


def signature(s):
    m = s.meta
    return (m["desc"], m["mode"], m["flavour"], m["fault"], m["pre"])


def known_class(s, r):
    # the call in which the (first) fault fired decides the class
    fk = None
    op = None
    for i, o in enumerate(r["obs"]):
        mm = re.search(r"ERaw \d+ (\w+) \d+ RFault", o)
        if mm:
            fk = mm.group(1)
            op = s.hist[i][1] if i < len(s.hist) else None
            fobs = o
            break
    if fk is None or op is None or op[0] != "acq":
        return None
    rel = fk in ("OUnlock", "OUnlockSh")
    # the shape of the acquired root, looking through a Poisonable
    shape = s.shape(op[1])
    retry = re.match(r"^(SPoison \d+ \()*SRetry", shape) is not None
    fl = op[3]
    if retry and fl in ("guard", "scoped"):
        return "d12a_retry_unwind_handler"
    if rel and fl in ("try", "scopedtry"):
        # a refused member before the panicking unlock: the panic struck the rollback
        return "d12b_try_rollback" if "(RBool false)" in fobs.split("RFault")[0] else "d12c_release_loop"
    if rel and fl == "scoped":
        return "d12c_release_loop"
    return None
