"""Defaults shared by the property modules."""
import itertools

from hl import Scen

TRUSTED_COMMON = [
    "Coq 8.16.1 kernel (coqc, full .vo build); vm_compute used to evaluate the model on cases; no native_compute",
    "no extraction: the model is evaluated inside Coq on the same scenarios the implementation ran",
    "hand-written model coq/{Model,Shape,Algo,Api}.v of happylock's algorithms (modelled, not verified code)",
    "correspondence check: Rust harness /verif/harness (auditing lock_api raw locks as the R type parameter, "
    "built against /repo's working tree) + tools/*.py generators and glue",
]
ASSUME_COMMON = [
    "lock_api contract of the raw lock as specified by raw_apply (coq/Model.v); parking_lot/spin are not verified",
    "Rust drop order, unwinding and catch_unwind semantics as encoded by Catch/drop_items",
    "addresses of distinct locks are distinct (no zero-sized raw locks); sort_by_key is stable",
]


def to_replay(s):
    return {"sid": s.sid, "kinds": s.kinds, "defs": s.defs, "hist": s.hist, "pre": s.pre, "f1": s.f1, "fp": s.fp,
            "unw": s.unw, "fuel": s.fuel, "npids": s.npids, "nuids": s.nuids, "sched": s.sched, "progs": s.progs, "meta": s.meta,
            "yr": getattr(s, "yr", False), "ra": getattr(s, "ra", False)}


def tup(x):
    return tuple(tup(y) for y in x) if isinstance(x, list) else x


def from_replay(j):
    sc = j.get("scenario") or j.get("what", {}).get("correspondence", {}).get("scenario") or j
    defs = [(c, tuple(d[:4]) + (list(d[4]),) if len(d) == 5 else tuple(d)) for c, d in sc["defs"]]
    hist = [(t, tup(op)) for t, op in sc["hist"]]
    pre = [tuple(p) for p in sc["pre"]]
    progs = [(t, [tup(o) for o in ops]) for t, ops in sc.get("progs", [])]
    sched = tuple(tuple(x) if isinstance(x, list) and i == 2 else x for i, x in enumerate(sc["sched"])) if sc.get("sched") else None
    return [Scen(sid=sc["sid"], kinds=sc["kinds"], defs=defs, hist=hist, pre=pre, f1=sc["f1"],
                 fp=[tuple(x) for x in sc["fp"]], fuel=sc["fuel"], npids=sc["npids"], nuids=sc["nuids"],
                 sched=sched, progs=progs, unw=sc.get("unw", []), meta=sc.get("meta", {}), yr=sc.get("yr", False), ra=sc.get("ra", False))]


def obs_list(r):
    return "[" + "; ".join(r["obs"]) + "]"


def pre_from_assignment(b, locks, assign):
    pre = []
    for l, a in zip(locks, assign):
        if a == "w":
            pre.append((l, "w", 100))
        elif a == "r":
            pre.append((l, "r", [100] if l % 2 == 0 else [101, 100]))
    return pre


def leaf_states(kind):
    return "frw" if kind == "R" else "fw"
