"""C16 — values are dropped exactly once and round-trip unchanged."""
import re

import common

COQ_MODULE = "Prop_C16"
THEOREMS = ["C16_boxed_drop_exactly_once", "C16_boxed_into_child_roundtrip", "C16_into_child_without_forget_is_wrong",
            "C16_monitor"]
CASE_MODULES = ["Values"]
CHECK_WITHOUT_PROOF = True
TRUSTED = common.TRUSTED_COMMON
ASSUMPTIONS = ["the model is an ownership ledger, not a memory model: a double free or use-after-free shows only as a wrong "
               "drop counter / value or as a crash of the harness process (reported with the case as replay)"]
RULE = ("collection kinds boxed / owned / retrying (+ ref) x containers Vec / Box<[T]> / array / tuple x Mutex / RwLock / "
        "Poisonable<Mutex> members x sizes 0..4 x paths {plain drop, drop by unwinding, into_inner, into_child, lock-then-into_inner, get_mut, "
        "into_iter, into_iter dropped half-way, from_iter, extend, try_new rejecting an input that owns values, try_new accepting, "
        "ref collection over owned data, Default, nested owned-in-boxed, Poisonable::into_child} x a write under the lock at each "
        "position, with drop-counting payloads; exhaustive over that space in both tiers; non-trivial = at least one value; "
        "distinct = distinct case line")
EXHAUSTIVE = {"quick": True, "thorough": True}

PATHS = {"drop": "PDrop", "drop_unwinding": "PDropUnw", "into_inner": "PIntoInner", "into_child": "PIntoChild", "lock_then_into_inner": "PLockThenIntoInner",
         "get_mut": "PGetMut", "into_iter": "PIntoIter", "into_iter_partial": "PIntoIterPartial", "from_iter": "PFromIter",
         "extend": "PExtend", "try_new_reject": "PTryNewReject", "try_new_accept": "PTryNewAccept", "ref_coll": "PRefColl",
         "default": "PDefault", "nested_into_inner": "PNestedIntoInner", "poisonable_into_inner": "PPoisonableIntoInner"}
KINDS = {"boxed": "VKBoxed", "owned": "VKOwned", "retry": "VKRetry", "ref": "VKRef"}


class VCase:
    def __init__(self, sid, kind, cont, lock, n, path, wpos):
        self.sid, self.kind, self.cont, self.lock, self.n, self.path, self.wpos = sid, kind, cont, lock, n, path, wpos
        self.hist, self.meta = [], {}

    def text(self):
        return f"v {self.sid} {self.kind} {self.cont} {self.lock} {self.n} {self.path} {'-' if self.wpos is None else self.wpos}"


def gen(tier, rng):
    cases = []
    k = 0

    def add(*a):
        nonlocal k
        cases.append(VCase(f"c16_{k}", *a))
        k += 1
    for kind in ("boxed", "owned", "retry"):
        for cont in ("vec", "bslice", "arr", "tup"):
            for lock in ("M", "R", "P"):
                for n in range(0, 5):
                    if cont == "tup" and n == 0:
                        continue
                    for path in ("drop", "drop_unwinding", "into_inner", "into_child", "lock_then_into_inner"):
                        wl = [None]
                        if path in ("into_inner", "into_child") and kind != "owned":
                            wl += list(range(n))
                        for w in wl:
                            add(kind, cont, lock, n, path, w)
    for n in range(0, 5):
        for kind, path in [("owned", "get_mut"), ("retry", "get_mut"), ("boxed", "into_iter"), ("owned", "into_iter"),
                           ("retry", "into_iter"), ("boxed", "into_iter_partial"), ("boxed", "from_iter"), ("owned", "from_iter"),
                           ("retry", "from_iter"), ("owned", "extend"), ("retry", "extend"), ("boxed", "try_new_reject"),
                           ("retry", "try_new_reject"), ("boxed", "try_new_accept"), ("ref", "ref_coll"), ("boxed", "default"),
                           ("boxed", "nested_into_inner"), ("boxed", "poisonable_into_inner")]:
            add(kind, "vec", "M", n, path, None)
    return cases


def parse_vobs(v):
    m = re.match(r"ok (\[.*?\]) (\[.*\])$", v)
    if not m:
        return None
    return m.group(1), m.group(2)


def coq_expr(s, r):
    pv = parse_vobs(r.get("vobs", ""))
    w = "None" if s.wpos is None else f"(Some {s.wpos})"
    k, p = KINDS[s.kind], PATHS[s.path]
    if pv is None:
        # the harness panicked / crashed on this case: the monitor fails
        return f"mkv false false false false"
    ret, drops = pv
    return (f"let r := vmodel {k} {p} {s.n} {w} in "
            f"let eqv := list_eqb (fun a b => Nat.eqb (fst a) (fst b) && Nat.eqb (snd a) (snd b)) (fst r) {ret} && "
            f"list_eqb Nat.eqb (drops_list (snd r)) {drops} in "
            f"mkv eqv eqv (mon_C16 {k} {p} {s.n} {w} {ret} {drops}) (mon_C16 {k} {p} {s.n} {w} {ret} {drops})")


def classify(s, r):
    return [f"kind={s.kind}", f"cont={s.cont}", f"lock={s.lock}", f"n={s.n}", f"path={s.path}"]


def nontrivial(s, r):
    return s.n > 0


def signature(s):
    return s.text()


def to_replay(s):
    return {"case": s.text()}


def from_replay(j):
    t = (j.get("scenario") or j)["case"].split()
    return [VCase(t[1], t[2], t[3], t[4], int(t[5]), t[6], None if t[7] == "-" else int(t[7]))]
