"""C16 — values are dropped exactly once and round-trip unchanged."""
import re

import common

COQ_MODULE = "Prop_C16"
THEOREMS = ["C16_boxed_drop_exactly_once", "C16_boxed_into_child_roundtrip", "C16_into_child_without_forget_is_wrong",
            "C16_monitor", "C16_array_loop_is_identity", "C16_into_inner_every_structure", "C16_get_mut_every_structure",
            "C16_drop_every_structure", "C16_write_position", "C16_every_structure", "C16_model_defined",
            "C16_into_child_needs_forget"]
CASE_MODULES = ["Values", "VTree"]
CHECK_WITHOUT_PROOF = True
TRUSTED = common.TRUSTED_COMMON
ASSUMPTIONS = ["the model is an ownership ledger, not a memory model: a double free or use-after-free shows only as a wrong "
               "drop counter / value or as a crash of the harness process (reported with the case as replay)"]
RULE = ("collection kinds boxed / owned / retrying (+ ref) x containers Vec / Box<[T]> / array / tuple x Mutex / RwLock / "
        "Poisonable<Mutex> members x sizes 0..4 x paths {plain drop, drop by unwinding, into_inner, into_child, lock-then-into_inner, get_mut, "
        "into_iter (also from both ends), into_iter dropped half-way, from_iter / extend (exact-size and filtered iterators, in pieces), From, try_new rejecting an input that owns values, try_new accepting, "
        "ref collection over owned data, Default, nested owned-in-boxed, Poisonable::into_child} x a write under the lock at each "
        "position, with drop-counting payloads; exhaustive over that space in both tiers; non-trivial = at least one value; "
        "distinct = distinct case line; plus 32 nested structures (harness/src/vtree.rs: locks, Poisonable wrappers clean and "
        "poisoned, Vec / Box<[T]> of length 0..3, arrays to 7, tuples to 7, boxed / owned / retrying collections nested in "
        "each other to depth 4) x paths {drop, drop by unwinding, into_inner, into_child, get_mut (where implemented), "
        "lock-then-into_inner, checked constructor rejecting / accepting an input that owns the structure, the by-value iterator of the root consumed completely / after its first member} x a write at "
        "every payload position (through the exclusive scoped call of the root, or through get_mut): the harness prints "
        "the structure as a term of coq/VTree.v, the model is evaluated on that term")
EXHAUSTIVE = {"quick": True, "thorough": True}

PATHS = {"drop": "PDrop", "drop_unwinding": "PDropUnw", "into_inner": "PIntoInner", "into_child": "PIntoChild", "lock_then_into_inner": "PLockThenIntoInner",
         "get_mut": "PGetMut", "into_iter": "PIntoIter", "into_iter_partial": "PIntoIterPartial", "from_iter": "PFromIter",
         "extend": "PExtend", "try_new_reject": "PTryNewReject", "try_new_accept": "PTryNewAccept", "ref_coll": "PRefColl",
         "default": "PDefault", "nested_into_inner": "PNestedIntoInner", "poisonable_into_inner": "PPoisonableIntoInner",
         # the same model paths through other routes: iterators without a size hint, extension in two pieces, From
         "extend_filter": "PExtend", "extend_twice": "PExtend", "from_iter_filter": "PFromIter", "from_value": "PFromIter",
         "into_iter_rev": "PIntoIter"}
KINDS = {"boxed": "VKBoxed", "owned": "VKOwned", "retry": "VKRetry", "ref": "VKRef"}


class VCase:
    def __init__(self, sid, kind, cont, lock, n, path, wpos):
        self.sid, self.kind, self.cont, self.lock, self.n, self.path, self.wpos = sid, kind, cont, lock, n, path, wpos
        self.hist, self.meta = [], {}

    def text(self):
        return f"v {self.sid} {self.kind} {self.cont} {self.lock} {self.n} {self.path} {'-' if self.wpos is None else self.wpos}"


TPATHS = {"drop": "QDrop", "drop_unwinding": "QDropUnw", "into_inner": "QIntoInner", "into_child": "QIntoChild",
          "get_mut": "QGetMut", "lock_into_inner": "QLockIntoInner", "try_new_reject": "QTryNewReject",
          "try_new_reject_retry": "QTryNewReject", "try_new_accept": "QTryNewAccept",
          "into_iter": "QIntoIter", "into_iter_first": "QIntoIterFirst"}
# the types of the table whose root is a collection over a Vec / array / Box<[T]> (by-value IntoIterator)
ITER_TYPES = {4, 5, 6, 7, 8, 12, 13, 20, 21, 25, 26, 28, 30}
# harness/src/vtree.rs `table!`: (implements LockableGetMut, number of payloads as a function of the Vec length)
TTYPES = {0: (1, lambda n: 1), 1: (1, lambda n: 1), 2: (1, lambda n: 1), 3: (1, lambda n: 1), 4: (1, lambda n: n),
          5: (1, lambda n: n), 6: (0, lambda n: n), 7: (0, lambda n: 5), 8: (1, lambda n: 3), 9: (1, lambda n: 7),
          10: (0, lambda n: 5), 11: (1, lambda n: 6), 12: (0, lambda n: 2 * n), 13: (1, lambda n: 2 * n),
          14: (1, lambda n: n + 3), 15: (0, lambda n: 6), 16: (1, lambda n: n), 17: (0, lambda n: 2), 18: (1, lambda n: 2),
          19: (0, lambda n: n + 1), 20: (0, lambda n: 2 * n), 21: (1, lambda n: 2 * n), 22: (1, lambda n: 3 * n),
          23: (0, lambda n: n + 4), 24: (1, lambda n: n + 2), 25: (0, lambda n: n * n), 26: (1, lambda n: 4),
          27: (1, lambda n: 2 * n * n), 28: (1, lambda n: 0), 29: (0, lambda n: 1), 30: (1, lambda n: 7), 31: (1, lambda n: 1)}


class TCase:
    """a structure of the table of harness/src/vtree.rs"""

    def __init__(self, sid, ty, vlen, poison, path, wpos, kill=None):
        self.sid, self.ty, self.vlen, self.poison, self.path, self.wpos = sid, ty, vlen, poison, path, wpos
        self.kill = kill                  # None, "a" (every lock) or the number of the lock that is killed before the path runs
        self.hist, self.meta = [], {}
        self.kind, self.cont, self.lock, self.n = f"type{ty}", "tree", "-", TTYPES[ty][1](vlen)

    def text(self):
        k = "" if self.kill is None else f"k{self.kill}"
        return f"t {self.sid} {self.ty} {self.vlen} {1 if self.poison else 0}{k} {self.path} {'-' if self.wpos is None else self.wpos}"


def gen(tier, rng):
    cases = []
    k = 0
    for ty, (gm, npay) in sorted(TTYPES.items()):
        # thorough: longer Vec / Box<[T]> members (at most 30 payloads: the drop counters are 32) and every single lock killed
        for vlen in ((0, 1, 2, 3) if tier == "quick" else (0, 1, 2, 3, 4, 5)):
            uses_vlen = npay(0) != npay(1)
            if not uses_vlen and vlen != 2:
                continue
            n = npay(vlen)
            if n > 30:
                continue
            for poison in (False, True):
                for path in ("drop", "drop_unwinding", "into_inner", "into_child", "get_mut", "lock_into_inner",
                             "try_new_reject", "try_new_reject_retry", "try_new_accept", "into_iter", "into_iter_first"):
                    if path == "get_mut" and not gm:
                        continue
                    if path in ("into_iter", "into_iter_first") and ty not in ITER_TYPES:
                        continue
                    wl = [None]
                    if path in ("into_inner", "into_child", "get_mut"):
                        wl += list(range(n))
                    elif poison and path not in ("drop", "lock_into_inner", "into_iter", "into_iter_first"):
                        continue                      # the flag matters only where results are produced
                    for w in wl:
                        cases.append(TCase(f"t16_{k}", ty, vlen, poison, path, w))
                        k += 1
            # killed locks (their raw lock panicked in a release): the value paths that do not lock must not depend on it
            for kill in ((["a"] + list(range(n)) if tier != "quick" else ["a", 0, n - 1]) if n > 1 else ["a"] if n else []):
                for path in ("drop", "drop_unwinding", "into_inner", "into_child", "get_mut", "try_new_reject",
                             "try_new_reject_retry", "into_iter", "into_iter_first"):
                    if path == "get_mut" and not gm:
                        continue
                    if path in ("into_iter", "into_iter_first") and ty not in ITER_TYPES:
                        continue
                    for w in ([None, n - 1] if path == "get_mut" else [None]):
                        cases.append(TCase(f"t16_{k}", ty, vlen, False, path, w, kill))
                        k += 1

    def add(*a):
        nonlocal k
        cases.append(VCase(f"c16_{k}", *a))
        k += 1
    for kind in ("boxed", "owned", "retry"):
        for cont in ("vec", "bslice", "arr", "tup"):
            for lock in ("M", "R", "P"):
                for n in range(0, 5):
                    if cont == "tup" and n == 0:
                        continue
                    for path in ("drop", "drop_unwinding", "into_inner", "into_child", "lock_then_into_inner"):
                        wl = [None]
                        if path in ("into_inner", "into_child") and kind != "owned":
                            wl += list(range(n))
                        for w in wl:
                            add(kind, cont, lock, n, path, w)
    for n in range(0, 5):
        for kind, path in [("owned", "get_mut"), ("retry", "get_mut"), ("boxed", "into_iter"), ("owned", "into_iter"),
                           ("retry", "into_iter"), ("boxed", "into_iter_partial"), ("boxed", "from_iter"), ("owned", "from_iter"),
                           ("retry", "from_iter"), ("owned", "extend"), ("retry", "extend"), ("boxed", "try_new_reject"),
                           ("retry", "try_new_reject"), ("boxed", "try_new_accept"), ("ref", "ref_coll"), ("boxed", "default"),
                           ("boxed", "nested_into_inner"), ("boxed", "poisonable_into_inner"),
                           ("owned", "extend_filter"), ("retry", "extend_filter"), ("owned", "extend_twice"),
                           ("retry", "extend_twice"), ("boxed", "from_iter_filter"), ("owned", "from_iter_filter"),
                           ("retry", "from_iter_filter"), ("boxed", "from_value"), ("owned", "from_value"),
                           ("retry", "from_value"), ("boxed", "into_iter_rev")]:
            add(kind, "vec", "M", n, path, None)
    return cases


def parse_vobs(v):
    m = re.match(r"ok (\[.*?\]) (\[.*\])$", v)
    if not m:
        return None
    return m.group(1), m.group(2)


def coq_expr_t(s, r):
    m = re.match(r"ok (.*) \| (\[.*?\]) \| (\[.*\])$", r.get("tobs", ""))
    w = "None" if s.wpos is None else f"(Some {s.wpos})"
    if not m:
        return "mkv false false false false"
    desc, toks, drops = m.groups()
    p = TPATHS[s.path]
    return (f"let t := {desc} in let r := tmodel {p} t {w} in "
            f"let eqv := match fst r with Some k => toks_eqb k {toks} | None => false end && "
            f"list_eqb Nat.eqb (drops_of (snd r) 32) {drops} in "
            f"let mon := wf_vt 32 t && mon_T16 {p} t {w} {toks} {drops} in mkv eqv eqv mon mon")


def coq_expr(s, r):
    if isinstance(s, TCase):
        return coq_expr_t(s, r)
    pv = parse_vobs(r.get("vobs", ""))
    w = "None" if s.wpos is None else f"(Some {s.wpos})"
    k, p = KINDS[s.kind], PATHS[s.path]
    if pv is None:
        # the harness panicked / crashed on this case: the monitor fails
        return f"mkv false false false false"
    ret, drops = pv
    return (f"let r := vmodel {k} {p} {s.n} {w} in "
            f"let eqv := list_eqb (fun a b => Nat.eqb (fst a) (fst b) && Nat.eqb (snd a) (snd b)) (fst r) {ret} && "
            f"list_eqb Nat.eqb (drops_list (snd r)) {drops} in "
            f"mkv eqv eqv (mon_C16 {k} {p} {s.n} {w} {ret} {drops}) (mon_C16 {k} {p} {s.n} {w} {ret} {drops})")


def classify(s, r):
    if isinstance(s, TCase):
        return [f"kind=tree", f"type={s.ty}", f"payloads={s.n}", f"path={s.path}", f"poisoned={s.poison}",
                f"killed={'none' if s.kill is None else 'all' if s.kill == 'a' else 'one'}"]
    return [f"kind={s.kind}", f"cont={s.cont}", f"lock={s.lock}", f"n={s.n}", f"path={s.path}"]


def nontrivial(s, r):
    return s.n > 0


def signature(s):
    return s.text()


def to_replay(s):
    return {"case": s.text()}


def from_replay(j):
    t = (j.get("scenario") or j)["case"].split()
    if t[0] == "t":
        kl = t[4].split("k")[1] if "k" in t[4] else None
        return [TCase(t[1], int(t[2]), int(t[3]), t[4].startswith("1"), t[5], None if t[6] == "-" else int(t[6]),
                      None if kl is None else "a" if kl == "a" else int(kl))]
    return [VCase(t[1], t[2], t[3], t[4], int(t[5]), t[6], None if t[7] == "-" else int(t[7]))]
