"""Structured random API histories over a universe of locks, wrappers and collections.
A small optimistic simulation of who holds what steers the generator towards mostly-valid histories; it is
not an oracle (the Coq model is), it only decides what to generate next."""
import shapes


class Universe:
    def __init__(self, rng, b, rw_bias=0.4, nleaves=(2, 5), ncolls=(1, 4), poison=0.35, depth=1, big=True):
        self.b = b
        self.rng = rng
        rw_only = rng.random() < 0.25
        self.pool = {}
        leaves = []
        for _ in range(rng.randint(*nleaves)):
            k = "R" if rw_only or rng.random() < rw_bias else "M"
            c = b.leaf(k)
            leaves.append(c)
            self.pool.setdefault(k, []).append(c)
        self.roots = list(leaves)          # acquirable things
        for _ in range(rng.randint(*ncolls)):
            # one collection in twelve is large (6-10 members): thresholds, sorting and roll-back beyond a handful of locks
            size = rng.randint(6, 10) if big and rng.random() < 0.085 else rng.randint(0, 4)
            c = shapes.random_coll(rng, b, size, depth, rw_only, pool=self.pool, top=True)
            self.roots.append(c)
        if rng.random() < poison:
            self.roots.append(b.poison(b.leaf("R" if rw_only or rng.random() < 0.5 else "M")))
        # roots that were consumed by a Poisonable are not separately reachable
        inline = {d[2] for _, d in b.defs if d[0] == "poison"}
        self.roots = [c for c in self.roots if c not in inline]
        self.poison_roots = [c for c in self.roots if dict(b.defs)[c][0] == "poison"]


class Sim:
    """optimistic bookkeeping used only to steer generation"""

    def __init__(self, b, pre):
        self.b = b
        self.w = {}      # lock -> tid holding exclusively
        self.r = {}      # lock -> list of reader tids
        for p in pre:
            if p[1] == "w":
                self.w[p[0]] = p[2]
            else:
                self.r[p[0]] = list(p[2])
        self.key = {}    # tid -> 'free' | 'hand' | 'guard' | 'leaked'
        self.guard = {}  # tid -> (cid, mode)

    def avail(self, cid, mode):
        for l in self.b.locks_of[cid]:
            if l in self.w:
                return False
            if (mode == "ex" or self.b.kinds[l] == "M") and self.r.get(l):
                return False
        return True

    def take(self, t, cid, mode):
        for l in self.b.locks_of[cid]:
            if mode == "ex" or self.b.kinds[l] == "M":
                self.w[l] = t
            else:
                self.r.setdefault(l, []).append(t)

    def release(self, t, cid, mode):
        for l in self.b.locks_of[cid]:
            if self.w.get(l) == t:
                del self.w[l]
            elif t in self.r.get(l, []):
                self.r[l].remove(t)


def body(rng, b, cid, mode, allow_panic, p_panic=0.3):
    n = len(b.locks_of[cid])
    ops = []
    for _ in range(rng.randint(0, 3)):
        if n and rng.random() < 0.8:
            pos = rng.randrange(n)
            ops.append(("w", pos) if mode == "ex" and rng.random() < 0.5 else ("r", pos))
        else:
            ops.append(("probe",))
    if allow_panic and rng.random() < p_panic:
        ops.insert(rng.randint(0, len(ops)), ("panic",))
    return ops


def gen_history(rng, u, nthreads=1, length=10, profile=None, pre=(), unw=()):
    """profile: weights for op classes; returns list of (tid, op)"""
    pf = dict(key=1.0, acquire=4.0, release=4.0, access=1.0, panic=0.0, poison=0.0, fmt=0.0, forget=0.0,
              invalid=0.15, block=0.03, closure_panic=0.0)
    pf.update(profile or {})
    b = u.b
    sim = Sim(b, pre)
    hist = []
    poisoned = []        # wrapper roots that a panic during an exclusive hold has (probably) poisoned
    for t in range(nthreads):
        sim.key[t] = "free"
    for _ in range(length):
        t = rng.randrange(nthreads)
        st = sim.key[t]
        cands = []
        if st == "free":
            cands.append((3.0, "get"))
            cands.append((pf["invalid"], "acq_nokey"))
            cands.append((pf["invalid"] * 0.5, "get_again"))
        if st == "hand":
            cands += [(pf["acquire"], "acq"), (pf["key"] * 0.5, "kdrop"), (pf["forget"] * 0.5, "kforget"),
                      (pf["invalid"] * 0.5, "get_again"), (pf["panic"] * 0.3, "panic")]
        if st == "guard":
            cands += [(pf["release"], "release"), (pf["access"], "gaccess"), (pf["forget"] * 0.5, "gforget"),
                      (pf["panic"], "panic"), (pf["invalid"] * 0.5, "get_again")]
        if st == "leaked":
            cands += [(1.0, "get_again"), (pf["invalid"], "acq_nokey"), (pf["panic"] * 0.3, "panic")]
        cands += [(pf["poison"], "poisonop"), (pf["fmt"], "fmt")]
        if t not in unw:
            cands += [(pf["invalid"] * 0.3, "gdrop_noguard")]
        cands = [c for c in cands if c[0] > 0]
        tot = sum(c[0] for c in cands)
        x = rng.random() * tot
        for wgt, kind in cands:
            x -= wgt
            if x <= 0:
                break
        if kind in ("get", "get_again"):
            hist.append((t, ("get",)))
            if st == "free":
                sim.key[t] = "hand"
        elif kind == "kdrop":
            hist.append((t, ("kdrop",)))
            sim.key[t] = "free"
        elif kind == "kforget":
            hist.append((t, ("kforget",)))
            sim.key[t] = "leaked"
        elif kind in ("acq", "acq_nokey"):
            cid = rng.choice(u.roots)
            if poisoned and rng.random() < 0.5:
                cid = rng.choice(poisoned)       # acquisitions of a poisoned wrapper, every flavour
            mode = "sh" if b.sharable[cid] and b.locks_of[cid] and rng.random() < 0.4 else "ex"
            if dict(b.defs)[cid][0] == "leaf" and b.kinds[b.leaf_of[cid]] == "M":
                mode = "ex"
            av = sim.avail(cid, mode)
            fl = rng.choice(["guard", "try", "scoped", "scopedtry", "scoped", "guard"])
            if cid in poisoned and rng.random() < 0.5:
                fl = rng.choice(["try", "scopedtry"])
            if not av and fl in ("guard", "scoped") and rng.random() > pf["block"]:
                fl = "try" if fl == "guard" else "scopedtry"
            if fl in ("guard", "try"):
                hist.append((t, ("acq", cid, mode, fl)))
                if kind == "acq" and av:
                    sim.take(t, cid, mode)
                    sim.key[t] = "guard"
                    sim.guard[t] = (cid, mode)
            else:
                lent = rng.random() < 0.5
                bd = body(rng, b, cid, mode, pf["closure_panic"] > 0, pf["closure_panic"])
                hist.append((t, ("acq", cid, mode, fl, lent, bd)))
                if kind == "acq" and av and mode == "ex" and ("panic",) in bd and cid in u.poison_roots:
                    poisoned.append(cid)
                if kind == "acq" and av and not lent:
                    sim.key[t] = "free"
                if kind == "acq" and (not av) and fl == "scoped":
                    break
            if kind == "acq" and not av and fl == "guard":
                break   # the call blocks: the history ends here
        elif kind == "release" and t in unw:
            # a thread that is already unwinding ends every guard hold by a (caught) second panic: PoisonRef::drop
            # consults thread::panicking(), which the model represents only as "dropped by unwinding"
            hist.append((t, ("panic",)))
            cid, mode = sim.guard[t]
            sim.release(t, cid, mode)
            del sim.guard[t]
            sim.key[t] = "free"
        elif kind == "release":
            cid, mode = sim.guard[t]
            if rng.random() < 0.5:
                hist.append((t, ("gdrop",)))
                sim.key[t] = "free"
            else:
                hist.append((t, ("gunlock",)))
                sim.key[t] = "hand"
            sim.release(t, cid, mode)
            del sim.guard[t]
        elif kind == "gaccess":
            cid, mode = sim.guard[t]
            n = len(b.locks_of[cid])
            pos = rng.randrange(n + 1)
            hist.append((t, ("gwrite" if mode == "ex" and rng.random() < 0.5 else "gread", pos)))
        elif kind == "gforget":
            hist.append((t, ("gforget",)))
            sim.key[t] = "leaked"
            del sim.guard[t]
        elif kind == "panic":
            hist.append((t, ("panic",)))
            if st == "guard":
                cid, mode = sim.guard[t]
                if mode == "ex" and cid in u.poison_roots:
                    poisoned.append(cid)
                sim.release(t, cid, mode)
                del sim.guard[t]
            if st in ("guard", "hand"):
                sim.key[t] = "free"
        elif kind == "poisonop":
            if u.poison_roots:
                cid = rng.choice(u.poison_roots)
                hist.append((t, (rng.choice(["ispoisoned", "clear", "ispoisoned"]), cid)))
        elif kind == "fmt":
            hist.append((t, ("fmt", rng.choice(u.roots))))
        elif kind == "gdrop_noguard":
            hist.append((t, (rng.choice(["gdrop", "gunlock", "gread", "kdrop"]),) + ((0,) if False else ())))
    # normalise ops that need an argument
    out = []
    for t, op in hist:
        if op[0] == "gread" and len(op) == 1:
            op = ("gread", 0)
        out.append((t, op))
    return out


def random_pre(rng, b, p=0.3):
    pre = []
    for l, k in enumerate(b.kinds):
        if rng.random() < p:
            if k == "R" and rng.random() < 0.5:
                pre.append((l, "r", [100] if rng.random() < 0.6 else [101, 100]))
            else:
                pre.append((l, "w", 100))
    return pre
