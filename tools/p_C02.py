"""C02 — interleaved (Level B) check: see tools/bprop.py, coq/Conc.v, coq/BMonitors.v."""
import bprop
import common
from common import from_replay, to_replay  # noqa: F401

PID = "C02"
COQ_MODULE = "Prop_C02"
THEOREMS = ["C02_guard_covers", "C02_acquired_is_covered", "C02_position_routes", "C02_closure_under_hold", "C02_guards_exclusive",
            "C02_every_schedule_data_under_hold", "C02_every_schedule_exclusive", "C02_every_schedule_data_stable",
            "C02_every_schedule_data_changes_only_under_exclusive_hold"]
CASE_MODULES = ["Conc", "BMonitors", "WpMain"]
CHECK_WITHOUT_PROOF = True
SHRINK_GUARD = 0      # which of the booleans evaluated with the verdict certifies the theorem's hypotheses
TRUSTED = common.TRUSTED_COMMON + ["deterministic scheduler of the harness: real OS threads, one runnable at a time, "
                                   "every raw lock operation and data access is a scheduling point"]
ASSUMPTIONS = common.ASSUME_COMMON + ["grant policies of the auditing RwLock: reader-preferring and writer-preferring "
                                      "(readers refused while a writer waits); real parking_lot queues and OS scheduling are outside the model"]
RULE = 'programs of 2-4 threads x 1-3 acquisitions over a random universe (2-5 leaves, every collection kind, container, nesting <= 2, poisonable wrappers, shared leaves listed in independent orders), read and write modes, guard / try / scoped / scoped-try flavours, both RwLock grant policies; schedules: random and bursty thread sequences at raw-operation granularity, completed lowest-id-first; a scheduling point inside every critical section (each data access); observation = every data access (position, tag, version) with the holds at that moment; non-trivial = data accessed while another thread waits; distinct = scenario text'
EXHAUSTIVE = {"quick": False, "thorough": False}
classify = bprop.classify
signature = bprop.signature


def gen(tier, rng):
    return bprop.gen(PID, tier, rng)


def coq_expr(s, r):
    return bprop.coq_expr(PID, s, r)


def nontrivial(s, r):
    return bprop.nontrivial(PID, s, r)


def deepen(s, rng):
    return bprop.deepen(PID, s, rng)


release_atomic = bprop.release_atomic
