import sys, os
sys.path.insert(0, os.path.dirname(os.path.abspath(__file__)))
import staticprop
staticprop.main("C14", "Prop_C14", ["C14_table_wf", "C14_key_linear", "C14_key_linear_general", "C14_holds_stay_attached", "C14_refuted_take", "C14_key_never_sent"],
                ["C14"], "one minimal offending program per escape route (Clone / Copy / Send / Default / forging of the key, Keyable "
                "forgery, &ThreadKey, guard API with a borrowed key, key reuse while a guard lives, nested scoped calls, private "
                "fields, Clone / Send of key-holding guards, moving holds out of a collection guard), each with a compiling twin; "
                "rustc's verdict compared with the prediction computed from the regenerated table", None)
