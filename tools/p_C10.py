"""C10 — history-based check (see tools/histprop.py, coq/Monitors.v mon_C10)."""
import re

import common
import histprop
from common import from_replay, to_replay  # noqa: F401

PID = "C10"
COQ_MODULE = "Prop_C10"
THEOREMS = ['C10_every_history_relaxed', 'C10_no_panic_no_poison', 'C10_guard_panic_poisons', 'C10_own_scoped_panic_poisons', 'C10_poisoned_still_acquires', 'C10_refuted_scoped_collection', "C10_every_schedule_never_killed", "C10_every_schedule_no_panic_no_poison", "C10_every_history_panics_release_cleanly"]
CASE_MODULES = ["Pf_Hist", "Monitors", "Conc", "BMonitors"]
CHECK_WITHOUT_PROOF = True
SHRINK_GUARD = 0      # which of the booleans evaluated with the verdict certifies the theorem's hypotheses
TRUSTED = common.TRUSTED_COMMON
ASSUMPTIONS = common.ASSUME_COMMON
RULE = 'random API histories (1-3 threads, 4-14 calls, API-call-atomic) over a random universe of single locks, poisonable wrappers and collections of every kind / container / nesting depth <= 2 sharing leaves, with random holds of other threads present from the start; vocabulary adds panics with a live guard, panicking closures, is_poisoned, clear_poison; observation = is_poisoned of every wrapper after every call + Ok/Err seen at every wrapper position; non-trivial = history contains a panic and a Poisonable; distinct = scenario text; plus interleaved (Level B) programs of 2-4 threads over poisonable roots, most of which panic with a live guard or inside a closure while others wait for the same locks: the Ok / Err of every acquisition must agree with the panics that unwound exclusive holds before it was granted (BMonitors.v mon_C10b); plus, exhaustively, probes inside one hold: wrappers around a Mutex, an RwLock, a boxed and an owned collection x every acquisition flavour x {clean, already poisoned} x {no clear_poison, clear_poison inside the hold, clear_poison after it} x {panic inside the hold or not}, judged by the property clause Monitors.c10_probe_ok'
EXHAUSTIVE = {"quick": False, "thorough": False}


class QCase:
    """a probe inside one hold (harness/src/psn.rs): clear_poison while the hold is live, then possibly a panic — sequences
    outside the model's history vocabulary, judged on the implementation by the property's own clause (Monitors.c10_probe_ok)"""
    def __init__(self, sid, root, flavour, init, clear, panic):
        self.sid, self.root, self.flavour, self.init, self.clear, self.panic = sid, root, flavour, init, clear, panic
        self.hist, self.meta, self.sched = [], {}, None

    def text(self):
        return f"pq {self.sid} {self.root} {self.flavour} {int(self.init)} {self.clear} {int(self.panic)}"


EXCL = ["scoped_lock", "scoped_try_lock", "lock", "try_lock"]
SHARED = ["scoped_read", "scoped_try_read", "read", "try_read"]


def probe_cases():
    out = []
    for root, flavours in (("pm", EXCL), ("pr", EXCL + SHARED), ("pc", EXCL), ("po", EXCL + SHARED)):
        for fl in flavours:
            for init in (False, True):
                for clear in (0, 1, 2):
                    for panic in (False, True):
                        out.append(QCase(f"c10q_{len(out)}", root, fl, init, clear, panic))
    return out


def gen(tier, rng):
    return histprop.gen(PID, tier, rng) + probe_cases()


def coq_expr(s, r):
    if isinstance(s, QCase):
        m = re.match(r"ok (true|false) (true|false)$", r.get("qobs", "") or "")
        if not m:
            return "mkv true true false false"          # the probe waited, was refused or panicked outside user code
        b = lambda x: "true" if x else "false"
        ok = f"c10_probe_ok {b(s.flavour in EXCL)} {b(s.init)} {s.clear} {b(s.panic)} {m.group(1)} {m.group(2)}"
        return f"mkv true true ({ok}) ({ok})"
    return histprop.coq_expr(PID, s, r)


def nontrivial(s, r):
    if isinstance(s, QCase):
        return s.panic or s.init
    return histprop.nontrivial(PID, s, r)


def classify(s, r):
    if isinstance(s, QCase):
        return ["family=probe-inside-one-hold", f"root={s.root}", f"flavour={s.flavour}", f"clear={s.clear}", f"panic={s.panic}"]
    return histprop.classify(s, r)


def signature(s):
    return s.text() if isinstance(s, QCase) else histprop.signature(s)


def to_replay(s):
    return {"case": s.text()} if isinstance(s, QCase) else common.to_replay(s)


def from_replay(j):
    sc = j.get("scenario") or j
    if "case" in sc:
        t = sc["case"].split()
        return [QCase(t[1], t[2], t[3], t[4] == "1", int(t[5]), t[6] == "1")]
    return common.from_replay(j)


def known_class(s, r):
    """F3: a panicking closure of a scoped call on something that contains a Poisonable below its root"""
    if isinstance(s, QCase):
        return None
    defs = dict(s.defs)
    if s.sched:
        return None
    for _, op in s.hist:
        if op[0] == "acq" and op[3] in ("scoped", "scopedtry") and ("panic",) in op[5]:
            root = defs[op[1]]
            inner = s.shape(op[1])
            nested = inner.count("SPoison") - (1 if root[0] == "poison" else 0)
            if nested > 0:
                return "scoped_collection_panic"
    return None
