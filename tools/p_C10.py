"""C10 — history-based check (see tools/histprop.py, coq/Monitors.v mon_C10)."""
import common
import histprop
from common import from_replay, to_replay  # noqa: F401

PID = "C10"
COQ_MODULE = "Prop_C10"
THEOREMS = ['C10_every_history_relaxed', 'C10_no_panic_no_poison', 'C10_guard_panic_poisons', 'C10_own_scoped_panic_poisons', 'C10_poisoned_still_acquires', 'C10_refuted_scoped_collection', "C10_every_schedule_never_killed", "C10_every_schedule_no_panic_no_poison"]
CASE_MODULES = ["Pf_Hist", "Monitors", "Conc", "BMonitors"]
CHECK_WITHOUT_PROOF = True
SHRINK_GUARD = 0      # which of the booleans evaluated with the verdict certifies the theorem's hypotheses
TRUSTED = common.TRUSTED_COMMON
ASSUMPTIONS = common.ASSUME_COMMON
RULE = 'random API histories (1-3 threads, 4-14 calls, API-call-atomic) over a random universe of single locks, poisonable wrappers and collections of every kind / container / nesting depth <= 2 sharing leaves, with random holds of other threads present from the start; vocabulary adds panics with a live guard, panicking closures, is_poisoned, clear_poison; observation = is_poisoned of every wrapper after every call + Ok/Err seen at every wrapper position; non-trivial = history contains a panic and a Poisonable; distinct = scenario text; plus interleaved (Level B) programs of 2-4 threads over poisonable roots, most of which panic with a live guard or inside a closure while others wait for the same locks: the Ok / Err of every acquisition must agree with the panics that unwound exclusive holds before it was granted (BMonitors.v mon_C10b)'
EXHAUSTIVE = {"quick": False, "thorough": False}
classify = histprop.classify
signature = histprop.signature


def gen(tier, rng):
    return histprop.gen(PID, tier, rng)


def coq_expr(s, r):
    return histprop.coq_expr(PID, s, r)


def nontrivial(s, r):
    return histprop.nontrivial(PID, s, r)


def known_class(s, r):
    """F3: a panicking closure of a scoped call on something that contains a Poisonable below its root"""
    defs = dict(s.defs)
    if s.sched:
        return None
    for _, op in s.hist:
        if op[0] == "acq" and op[3] in ("scoped", "scopedtry") and ("panic",) in op[5]:
            root = defs[op[1]]
            inner = s.shape(op[1])
            nested = inner.count("SPoison") - (1 if root[0] == "poison" else 0)
            if nested > 0:
                return "scoped_collection_panic"
    return None
