"""Scenario builder and structured generators of lock / collection shapes."""
import itertools
import random

from hl import Scen

CTOR_RNG = random.Random(1)


def reseed(seed):
    """constructor variety (try_new / new / new_ref) is drawn from this generator"""
    global CTOR_RNG
    CTOR_RNG = random.Random(seed * 7919 + 13)


KINDS = ["boxed", "ref", "retry", "owned"]
CONTS = ["vec", "bslice", "arr", "tup", "vecref", "vecmut", "refvec"]
# "vecref": Vec<&T> (the crate's impls for shared references; not OwnedLockable: checked constructors only, never an owned
# collection); "vecmut": Vec<&mut T> (the impls for exclusive references, which own their referent); "refvec": &Vec<T>, the
# input of a checked constructor is itself a thin reference to the container (`try_new(&vec)`)


class B:
    """builds the `defs` of a scenario; keeps the constraints the harness needs
    (a Poisonable owns what it wraps; members of an owned collection are used nowhere else)"""

    def __init__(self, sid):
        self.sid = sid
        self.kinds = []
        self.defs = []
        self.npids = 0
        self.nuids = 0
        self.leaf_of = {}      # cid -> lock (for plain leaf defs)
        self.locks_of = {}     # cid -> list of leaf locks (declared order)
        self.nestable = {}     # cid -> bool
        self.sharable = {}     # cid -> all leaves are RwLocks
        self.desc = {}         # cid -> short description

    def _new(self, d, locks, nestable, desc):
        cid = len(self.defs)
        self.defs.append((cid, d))
        self.locks_of[cid] = locks
        self.nestable[cid] = nestable
        self.sharable[cid] = all(self.kinds[l] == "R" for l in locks)
        self.desc[cid] = desc
        return cid

    def leaf(self, kind):
        l = len(self.kinds)
        self.kinds.append(kind)
        cid = self._new(("leaf", l), [l], True, kind)
        self.leaf_of[cid] = l
        return cid

    def poison(self, inner):
        p = self.npids
        self.npids += 1
        return self._new(("poison", p, inner), self.locks_of[inner], True, f"P({self.desc[inner]})")

    def coll(self, kind, members, cont="vec", ctor=None):
        uid = None
        if kind == "owned":
            uid = self.nuids
            self.nuids += 1
        if cont == "tup" and not (1 <= len(members) <= 7):
            cont = "vec"
        if cont == "arr" and len(members) > 6:
            cont = "vec"
        if cont == "vecref" and kind == "owned":
            cont = "vecmut"
        if cont == "refvec" and kind == "owned":
            cont = "vec"
        if cont in ("vecref", "refvec"):
            ctor = "try"
        if ctor is None:
            # the unchecked constructors build the same collection (the builder never passes duplicates); new_ref only
            # exists for boxed / retrying and is wired for the non-Vec containers
            r = CTOR_RNG.random()
            if kind == "owned":
                ctor = "new"
            elif r < 0.3:
                ctor = "new"
            elif r < 0.45 and kind in ("boxed", "retry") and cont != "vec":
                ctor = "newref"
            else:
                ctor = "try"
        locks = [l for m in members for l in self.locks_of[m]]
        return self._new((kind, uid, ctor, cont, list(members)), locks, cont == "vec",
                         f"{kind}:{cont}[{','.join(self.desc[m] for m in members)}]")

    def scen(self, **kw):
        return Scen(sid=self.sid, kinds=list(self.kinds), defs=list(self.defs), npids=self.npids, nuids=self.nuids, **kw)


def random_member(rng, b, depth, rw_only, pool, owned_ctx):
    """one member of a container: a leaf, a wrapped leaf, or (depth permitting) a nested collection"""
    r = rng.random()
    if depth > 0 and r < 0.3:
        return random_coll(rng, b, rng.randint(0, 3), depth - 1, rw_only, None if owned_ctx else pool, top=False)
    kind = "R" if rw_only or rng.random() < 0.4 else "M"
    if r < 0.42:
        return b.poison(b.leaf(kind))
    if pool is not None and not owned_ctx and pool.get(kind) and rng.random() < 0.5:
        # share an existing free-standing leaf with other collections of the scenario
        return rng.choice(pool[kind])
    c = b.leaf(kind)
    if pool is not None and not owned_ctx:
        pool.setdefault(kind, []).append(c)
    return c


def random_coll(rng, b, size, depth, rw_only, pool=None, top=True, kind=None, cont=None):
    kind = kind or rng.choice(KINDS)
    owned = kind == "owned"
    members = []
    seen_locks = set()
    for _ in range(size):
        for _try in range(8):
            m = random_member(rng, b, depth, rw_only, pool, owned)
            ls = set(b.locks_of[m])
            if not (ls & seen_locks):
                break
        else:
            continue
        seen_locks |= ls
        members.append(m)
    rng.shuffle(members)
    if cont is None:
        cont = rng.choice(CONTS) if top else "vec"
    c = b.coll(kind, members, cont=cont)
    if top and cont == "vec" and rng.random() < 0.25:
        c = b.poison(c)
    return c


def assignments(n):
    """all assignments of {free, read-held, write-held by another thread} to n locks"""
    return itertools.product("frw", repeat=n)
