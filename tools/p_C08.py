"""C08 — sorting collections agree on one arrangement-independent acquisition order."""
import re

import bprop
import common
import shapes


COQ_MODULE = "Prop_C08"
THEOREMS = ["C08_sort_perm_invariant", "C08_common_same_order", "C08_monitor", "C08_every_schedule_one_order",
            "C08_every_schedule_no_opposite_orders"]
CASE_MODULES = ["Monitors", "Conc", "BMonitors", "WpMain"]
CHECK_WITHOUT_PROOF = True
TRUSTED = common.TRUSTED_COMMON
ASSUMPTIONS = common.ASSUME_COMMON + ["an owned collection's locks are reachable only through that collection"]
RULE = ("pairs of sorting collections (boxed / ref, optionally inside Poisonable, every container kind) over a shared "
        "universe of up to 5 free-standing leaves plus nested boxed / ref / retrying members and owned groups, each "
        "listing a random subset in an independent random order; both modes; second acquisition on another thread; "
        "observation = sequence of blocking raw acquisitions per call; non-trivial = at least 2 common locks listed "
        "in different relative orders or a nested / owned member in common; distinct = distinct pair of descriptions; plus "
        "interleaved (Level B) programs of 2-4 threads taking sorting collections that list the same (mostly RwLock) leaves "
        "in different orders, in both modes, against holders of single leaves: the order in which every blocking "
        "acquisition took the locks it holds when it hands out its guard / enters its closure must agree pairwise on the "
        "common locks (BMonitors.v mon_C08b); plus tightly packed locks: eight one-byte locks inside two machine words, listed "
        "in random orders (and with one repetition) through the checked constructors of the boxed, ref and retrying "
        "collection: taken in address order whatever the listing (listing order for the retrying one), refused when repeated")
BCOUNT = {"quick": 500, "thorough": 8000}
EXHAUSTIVE = {"quick": False, "thorough": False}


class PCase:
    """tightly packed locks (harness/src/packed.rs): one-byte locks next to each other inside one machine word, listed in
    some order (possibly with a repetition) and taken through a checked collection; the order in which the raw locks were
    taken, as positions in memory"""
    def __init__(self, sid, kind, listing):
        self.sid, self.kind, self.listing = sid, kind, listing
        self.hist, self.meta, self.sched = [], {}, None

    def text(self):
        return f"pk {self.sid} {self.kind} " + " ".join(map(str, self.listing))


def packed_cases(rng, tier):
    out = []
    for kind in ("boxed", "ref", "retry"):
        for n in (2, 3, 4, 5, 6, 8):
            for _ in range(6 if tier == "quick" else 40):
                listing = rng.sample(range(8), n)
                out.append(PCase(f"c08p_{len(out)}", kind, listing))
            for _ in range(3 if tier == "quick" else 12):
                listing = rng.sample(range(8), n)
                listing.insert(rng.randrange(n + 1), rng.choice(listing))       # one lock listed twice
                out.append(PCase(f"c08p_{len(out)}", kind, listing))
    return out


def gen(tier, rng):
    return gen_main(tier, rng) + packed_cases(rng, tier)


def gen_main(tier, rng):
    n = 1500 if tier == "quick" else 20000
    scens = []
    for i in range(n):
        b = shapes.B(f"c08_{i}")
        rw = rng.random() < 0.4
        def kind():
            return "R" if rw or rng.random() < 0.3 else "M"
        # one scenario in eight is large (8-12 shared leaves)
        leaves = [b.leaf(kind()) for _ in range(rng.randint(8, 12) if rng.random() < 0.125 else rng.randint(2, 5))]
        cands = list(leaves)
        reach = {c: {c} for c in leaves}
        for k in ("boxed", "ref", "retry"):
            if rng.random() < 0.5:
                sub = rng.sample(leaves, rng.randint(1, min(3, len(leaves))))
                c = b.coll(k, sub)
                cands.append(c)
                reach[c] = set(sub)
        for _ in range(rng.randint(0, 2)):
            own = [b.leaf(kind()) for _ in range(rng.randint(1, 3))]
            c = b.coll("owned", own)
            cands.append(c)
            reach[c] = {("u", c)}
        if rng.random() < 0.3:
            c = b.poison(b.leaf(kind()))
            cands.append(c)
            reach[c] = {("p", c)}

        def pick():
            pool = list(cands)
            rng.shuffle(pool)
            out, used = [], set()
            for c in pool:
                if rng.random() < 0.25 or reach[c] & used:
                    continue
                out.append(c)
                used |= reach[c]
            return out, used
        m1, u1 = pick()
        m2, u2 = pick()
        roots = []
        for ms in (m1, m2):
            c = b.coll(rng.choice(["boxed", "ref"]), ms, cont=rng.choice(shapes.CONTS))
            if dict(b.defs)[c][3] == "vec" and rng.random() < 0.2:
                c = b.poison(c)
            roots.append(c)
        owned_in_1 = [c for c in m1 if dict(b.defs)[c][0] == "owned" and len(b.locks_of[c]) >= 2]
        if owned_in_1 and rng.random() < 0.5:
            # the second acquisition takes an owned collection directly that the first reaches through a sorting
            # collection: "an owned collection is ordered as one indivisible unit"
            roots[1] = rng.choice(owned_in_1)
            m2 = [roots[1]]
        modes = []
        for r in roots:
            modes.append("sh" if b.sharable[r] and rng.random() < 0.5 else "ex")
        un = "gunlock" if rng.random() < 0.7 else "gdrop"
        hist = [(0, ("get",)), (0, ("acq", roots[0], modes[0], "guard")), (0, (un,)),
                (1, ("get",)), (1, ("acq", roots[1], modes[1], "guard")), (1, (un,))]
        common_locks = set(b.locks_of[roots[0]]) & set(b.locks_of[roots[1]])
        nested_common = any(c not in b.leaf_of for c in set(m1) & set(m2))
        scens.append(b.scen(hist=hist, meta={"d1": b.desc[roots[0]], "d2": b.desc[roots[1]], "modes": modes,
                                             "ncommon": len(common_locks), "nested_common": nested_common}))
    bs = bprop.gen("C08", tier, rng, n=BCOUNT[tier] if n >= 1500 else max(1, n // 3))
    for s_ in bs:
        s_.sid = "b" + s_.sid
    return scens + bs


def coq_expr(s, r):
    if isinstance(s, PCase):
        ob = r.get("pkobs", "") or ""
        lst = "[" + "; ".join(map(str, s.listing)) + "]"
        dup = len(set(s.listing)) < len(s.listing)
        if dup:
            ok = "true" if ob.strip() == "none" else "false"       # the checked constructor refuses a repeated lock
        else:
            m = re.match(r"ok (\[.*\])$", ob)
            if not m:
                ok = "false"
            elif s.kind == "retry":
                ok = f"list_eqb Nat.eqb {lst} {m.group(1)}"            # uncontended: the listing order
            else:
                ok = f"list_eqb Nat.eqb (isort (fun x => x) {lst}) {m.group(1)}"   # address order, whatever the listing
        return f"mkv true true ({ok}) ({ok})"
    if s.sched:
        e = bprop.coq_expr("C08", s, r, "b")
        # also evaluate the decidable hypotheses of the every-schedule theorems on this scenario
        return e and f"({e}, wfB ({s.coq_b(*r['adr'])}))"
    return f"check_C08 ({s.coq(*r['adr'])}) {common.obs_list(r)}"


def classify(s, r):
    if isinstance(s, PCase):
        return ["family=packed-locks", f"kind={s.kind}", f"len={len(s.listing)}",
                "repeated=" + str(len(set(s.listing)) < len(s.listing))]
    if s.sched:
        return ["interleaved"] + bprop.classify(s, r)
    return [f"ncommon={s.meta['ncommon']}", f"modes={'/'.join(s.meta['modes'])}",
            "nested_common=" + str(s.meta["nested_common"])]


def nontrivial(s, r):
    if isinstance(s, PCase):
        return True
    if s.sched:
        return "BWait" in (r["bobs"] or "")
    return s.meta["ncommon"] >= 2 or s.meta["nested_common"]


def signature(s):
    if isinstance(s, PCase):
        return s.text()
    if s.sched:
        return s.text()
    return (s.meta["d1"], s.meta["d2"], tuple(s.meta["modes"]))


def to_replay(s):
    return {"case": s.text()} if isinstance(s, PCase) else common.to_replay(s)


def from_replay(j):
    sc = j.get("scenario") or j
    if "case" in sc:
        t = sc["case"].split()
        return [PCase(t[1], t[2], [int(x) for x in t[3:]])]
    return common.from_replay(j)
