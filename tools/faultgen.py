"""C12 scenarios: one acquisition (every flavour) of one root with a one-shot panic at raw-operation index k,
or a persistent per-operation fault as in tests/evil_*.rs, followed by probes of every leaf."""
import shapes

FLAVOURS = ["guard", "try", "scoped", "scopedtry"]


def roots(rng, tier):
    """(builder factory) for single locks, wrappers, each collection kind x container, sizes 1..4, some nesting"""
    out = []
    for kind in "MR":
        out.append(lambda kind=kind: _single(kind, False))
        out.append(lambda kind=kind: _single(kind, True))
    for ck in shapes.KINDS:
        for n in (1, 2, 3, 4, 6):
            for fl in ("M", "R", "X"):
                out.append(lambda ck=ck, n=n, fl=fl: _coll(rng, ck, n, fl))
    nn = 30 if tier == "quick" else 200
    for _ in range(nn):
        seed = rng.randrange(1 << 30)
        out.append(lambda seed=seed: _nested(seed))
    return out


def _single(kind, poisoned):
    b = shapes.B("")
    c = b.leaf(kind)
    if poisoned:
        c = b.poison(c)
    return b, c


def _coll(rng, ck, n, fl):
    b = shapes.B("")
    ms = [b.leaf({"M": "M", "R": "R", "X": "MR"[i % 2]}[fl]) for i in range(n)]
    rng.shuffle(ms)
    c = b.coll(ck, ms, cont=rng.choice(shapes.CONTS))
    return b, c


def _nested(seed):
    import random
    r = random.Random(seed)
    b = shapes.B("")
    c = shapes.random_coll(r, b, r.randint(1, 3), r.choice([1, 2]), r.random() < 0.4)
    return b, c


def gen(tier, rng, n_quick=1800):
    scens = []
    k = 0
    facts = roots(rng, tier)
    for mk in facts:
        b0, root0 = mk()
        locks = b0.locks_of[root0]
        if not locks or len(locks) > 6:
            continue
        nl = len(locks)
        modes = ["ex"] + (["sh"] if b0.sharable[root0] else [])
        for m in modes:
            for fl in FLAVOURS:
                idxs = list(range(0, 2 * nl + 3))
                if tier == "quick" and nl > 2:
                    idxs = rng.sample(idxs, min(len(idxs), 3))      # roots of one or two locks: every fault position
                for fi in idxs + ["p_lock", "p_try"]:
                    b, root = mk() if False else (b0, root0)
                    pre = []
                    if rng.random() < 0.3:
                        # one member pre-held by another thread: exercises rollback / retry under faults
                        l = rng.choice(locks)
                        pre = [(l, "w", 100)]
                    hist = [(0, ("get",))]
                    lent = rng.random() < 0.5
                    if fl in ("guard", "try"):
                        hist.append((0, ("acq", root, m, fl)))
                        hist.append((0, ("gdrop",)))
                    else:
                        body = [("w", 0)] if m == "ex" else [("r", 0)]
                        hist.append((0, ("acq", root, m, fl, lent, body)))
                    # probes: every leaf, by another thread; a leaf that lives inside a wrapper / owned
                    # collection is probed through the root again
                    leafdefs = [c for c, d in b.defs if d[0] == "leaf" and c in b.nestable and _standalone(b, c)]
                    for c in leafdefs:
                        hist += [(1, ("get",)), (1, ("acq", c, "ex", "try")), (1, ("gdrop",))]
                    hist += [(1, ("get",)), (1, ("acq", root, m, "try")), (1, ("gdrop",))]
                    if rng.random() < 0.3:
                        # a non-acquiring call on what may now contain a killed lock: Debug formatting must neither wait nor
                        # spin, whatever state the fault left behind
                        hist += [(1, ("fmt", root))]
                    # and one blocking acquisition at the very end (a call that waits ends the history): a killed
                    # lock must panic instead of waiting, also when its raw lock was left held
                    r = rng.random()
                    if r < 0.45 and leafdefs:
                        c = rng.choice(leafdefs)
                        if rng.random() < 0.5:
                            hist += [(2, ("get",)), (2, ("acq", c, "ex", "guard")), (2, ("gdrop",))]
                        else:
                            hist += [(2, ("get",)), (2, ("acq", c, "ex", "scoped", False, [("w", 0)]))]
                    elif r < 0.6:
                        hist += [(2, ("get",)), (2, ("acq", root, m, "guard")), (2, ("gdrop",))]
                    f1, fp = [], []
                    if fi == "p_lock":
                        l = rng.choice(locks)
                        fp = [(l, "OLock"), (l, "OLockSh")]
                    elif fi == "p_try":
                        l = rng.choice(locks)
                        fp = [(l, "OTry"), (l, "OTrySh")]
                    else:
                        f1 = [fi]
                    b.sid = f"c12_{k}"
                    k += 1
                    # a fifth of the acquisitions are made by a thread that is already unwinding (inside a destructor run
                    # by an unrelated panic): recovery code that consults thread::panicking() behaves differently there.
                    # Not with Poisonable roots: a guard dropped normally in that context poisons, which the model has
                    # no notion of (DESIGN 9)
                    unw = [0] if rng.random() < 0.2 and "P(" not in b.desc[root] else []
                    scens.append(b.scen(hist=hist, pre=pre, f1=f1, fp=fp, unw=unw,
                                        meta={"desc": b.desc[root], "mode": m, "flavour": fl, "fault": str(fi),
                                              "pre": bool(pre)}))
    if tier == "quick" and len(scens) > n_quick:
        # single locks and their wrappers are few: all of them stay, the rest is sampled
        keep = [s for s in scens if s.meta["desc"] in ("M", "R", "P(M)", "P(R)")]
        rest = [s for s in scens if s.meta["desc"] not in ("M", "R", "P(M)", "P(R)")]
        scens = keep + rng.sample(rest, max(0, min(len(rest), n_quick - len(keep))))
        for i, s in enumerate(scens):
            s.sid = f"c12_{i}"
    return scens


def _standalone(b, cid):
    """a leaf definition that is not consumed by a Poisonable"""
    inline = {d[2] for _, d in b.defs if d[0] == "poison"}
    return cid not in inline
