"""C13 — try_* outcomes are exact in quiescent states."""
import itertools

import common
import histprop
import shapes
from common import from_replay, to_replay  # noqa: F401

COQ_MODULE = "Prop_C13"
THEOREMS = ["C13_try_exact", "C13_scoped_try_exact", "C13_every_history"]
CASE_MODULES = ["Pf_Hist", "Pf_Hist4", "Monitors"]
SHRINK_GUARD = 0      # which of the booleans evaluated with the verdict certifies the theorem's hypotheses
CHECK_WITHOUT_PROOF = True
TRUSTED = common.TRUSTED_COMMON
ASSUMPTIONS = common.ASSUME_COMMON
RULE = ("every root template (single lock, poisonable, 4 collection kinds x 4 container kinds, sizes 0..4, random "
        "nestings to depth 2) x {try_lock, try_read, and for a third of the cases scoped_try_lock / scoped_try_read} x every assignment of {free, read-held, write-held by another "
        "thread} to the leaves; plus every template that is or contains a Poisonable, first poisoned by a panicking exclusive scoped call and then tried in every flavour and mode (the poison flag must not change whether the try acquires); non-trivial = at least one leaf held (a refusal or a shared grant next to readers); "
        "distinct = distinct (shape, mode, assignment); plus random API histories (1-3 threads, 4-14 calls: guards, scoped calls, "
        "forgotten guards, panics, poisoning, Debug formatting, holds of other threads from the start) in which EVERY try / scoped "
        "try is judged against the hold table the previous call left (mon_C13h)")
EXHAUSTIVE = {"quick": False, "thorough": False}


def templates(rng, tier):
    """yields (builder, root cid) factories"""
    out = []
    for kind in ("M", "R"):
        def mk(kind=kind):
            b = shapes.B("")
            return b, b.leaf(kind)
        out.append(mk)

        def mkp(kind=kind):
            b = shapes.B("")
            return b, b.poison(b.leaf(kind))
        out.append(mkp)
    for ck in shapes.KINDS:
        for cont in shapes.CONTS:
            for n in (0, 1, 2, 3, 4, 7):
                for flavour in ("M", "R", "X"):
                    if n == 0 and flavour != "M":
                        continue
                    if n == 7 and cont not in ("vec", "tup"):
                        continue
                    if cont == "tup" and n == 0:
                        continue

                    def mkc(ck=ck, cont=cont, n=n, flavour=flavour):
                        b = shapes.B("")
                        ms = [b.leaf({"M": "M", "R": "R", "X": "MR"[i % 2]}[flavour]) for i in range(n)]
                        rng.shuffle(ms)
                        return b, b.coll(ck, ms, cont=cont)
                    out.append(mkc)
    nnest = 60 if tier == "quick" else 600
    for i in range(nnest):
        seed = rng.randrange(1 << 30)

        def mkn(seed=seed):
            import random
            r = random.Random(seed)
            b = shapes.B("")
            rw = r.random() < 0.5
            c = shapes.random_coll(r, b, r.randint(1, 3), 2, rw)
            return b, c
        out.append(mkn)
    return out


def gen(tier, rng):
    scens = []
    k = 0
    for mk in templates(rng, tier):
        b, root = mk()
        locks = b.locks_of[root]
        if len(locks) > 7:
            continue
        modes = ["ex"] + (["sh"] if b.sharable[root] and locks else [])
        sets = [common.leaf_states(b.kinds[l]) for l in locks]
        assigns = list(itertools.product(*sets))
        if tier == "quick" and len(assigns) > 27:
            assigns = rng.sample(assigns, 27)
        for m in modes:
            for a in assigns:
                b.sid = f"c13_{k}"
                k += 1
                s = b.scen(hist=[(0, ("get",)), (0, ("acq", root, m, "try")), (0, ("gdrop",))],
                           pre=common.pre_from_assignment(b, locks, a),
                           meta={"desc": b.desc[root], "mode": m, "assign": "".join(a), "flavour": "try"})
                scens.append(s)
                if rng.random() < 0.35:
                    # the scoped variant: scoped_try_lock / scoped_try_read
                    b.sid = f"c13_{k}"
                    k += 1
                    body = [("w", 0)] if m == "ex" and locks and rng.random() < 0.5 else ([("r", 0)] if locks else [])
                    if rng.random() < 0.2:
                        body.append(("panic",))
                    scens.append(b.scen(hist=[(0, ("get",)), (0, ("acq", root, m, "scopedtry", rng.random() < 0.5, body))],
                                        pre=common.pre_from_assignment(b, locks, a),
                                        meta={"desc": b.desc[root], "mode": m, "assign": "".join(a), "flavour": "scopedtry"}))
    # the same on a poisoned wrapper: every root that is or contains a Poisonable is first poisoned (an exclusive scoped call
    # with a lent key whose closure panics; all leaves free), then tried in every flavour and mode
    for mk in templates(rng, tier):
        b, root = mk()
        locks = b.locks_of[root]
        if not locks or len(locks) > 5 or "P(" not in b.desc[root]:
            continue
        modes = ["ex"] + (["sh"] if b.sharable[root] else [])
        for m in modes:
            for fl in ("try", "scopedtry"):
                b.sid = f"c13_{k}"
                k += 1
                hist = [(0, ("get",)), (0, ("acq", root, "ex", "scoped", True, [("panic",)]))]
                if fl == "try":
                    hist += [(0, ("acq", root, m, "try")), (0, ("gdrop",))]
                else:
                    body = [("w", 0)] if m == "ex" and rng.random() < 0.5 else [("r", 0)]
                    hist += [(0, ("acq", root, m, "scopedtry", rng.random() < 0.5, body))]
                scens.append(b.scen(hist=hist, pre=[],
                                    meta={"desc": b.desc[root], "mode": m, "assign": "f" * len(locks),
                                          "flavour": fl + "-poisoned", "poisoned": True}))
    # whole histories: every non-blocking acquisition of a random history is judged the same way
    for s in histprop.gen("C13", tier, rng, n=700 if tier == "quick" else 12000):
        s.meta["family"] = "history"
        scens.append(s)
    return scens


def coq_expr(s, r):
    if s.meta.get("family") == "history":
        sc_ = s.coq(*r['adr'])
        ob_ = common.obs_list(r)
        return (f"(let sc := {sc_} in let ob := {ob_} in let v := check_C13h sc ob in let x := try_no_bad_release (sc_hist sc) ob in "
                f"(mkv (v_strict v) (v_proj v) (v_mon v && x) (v_monk v && x), wf_histb sc && wf4b sc))")
    chk = "check_C13p" if s.meta.get("poisoned") else "check_C13"
    ob = common.obs_list(r)
    # a try that "leaves the hold state as it was" issues no release of a lock it does not hold (the auditing lock only
    # flags such a release; a real raw lock would change state)
    return (f"(let v := {chk} ({s.coq(*r['adr'])}) {ob} in let x := no_bad_release {ob} in "
            f"mkv (v_strict v) (v_proj v) (v_mon v && x) (v_monk v && x))")


def classify(s, r):
    if s.meta.get("family") == "history":
        return ["family=history"] + histprop.classify(s, r)
    d = s.meta
    kind = d["desc"].split(":")[0].split("[")[0]
    ok = any("(ROk)" in o for o in r["obs"][1:2])
    return [f"root={kind}", f"flavour={d.get('flavour', 'try')}", f"mode={d['mode']}", f"n={len(d['assign'])}", "outcome=" + ("ok" if ok else "wouldblock")]


def nontrivial(s, r):
    if s.meta.get("family") == "history":
        return any(op[0] == "acq" and op[3] in ("try", "scopedtry") for _, op in s.hist)
    return s.meta.get("poisoned", False) or any(c != "f" for c in s.meta["assign"])


def signature(s):
    if s.meta.get("family") == "history":
        return s.text()
    return (s.meta["desc"], s.meta["mode"], s.meta["assign"], s.meta.get("flavour", "try"))
