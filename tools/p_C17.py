"""C17 — history-based check (see tools/histprop.py, coq/Monitors.v mon_C17)."""
import common
import histprop
from common import from_replay, to_replay  # noqa: F401

PID = "C17"
COQ_MODULE = "Prop_C17"
THEOREMS = ['C17_every_history', 'C17_fmt_never_waits', 'C17_fmt_no_disturbance', 'C17_accessors_no_raw_ops']
CASE_MODULES = ["Pf_Hist", "Monitors"]
CHECK_WITHOUT_PROOF = True
TRUSTED = common.TRUSTED_COMMON
ASSUMPTIONS = common.ASSUME_COMMON
RULE = 'random API histories (1-3 threads, 4-14 calls, API-call-atomic) over a random universe of single locks, poisonable wrappers and collections of every kind / container / nesting depth <= 2 sharing leaves, with random holds of other threads present from the start; vocabulary adds Debug formatting of every lock / collection, is_poisoned, clear_poison, while locks are held by other threads and by the caller itself; observation = raw operations + hold table; non-trivial = a non-acquiring call while something is held; distinct = scenario text'
EXHAUSTIVE = {"quick": False, "thorough": False}
classify = histprop.classify
signature = histprop.signature


def gen(tier, rng):
    return histprop.gen(PID, tier, rng)


def coq_expr(s, r):
    return histprop.coq_expr(PID, s, r)


def nontrivial(s, r):
    return histprop.nontrivial(PID, s, r)
