"""C17 — history-based check (see tools/histprop.py, coq/Monitors.v mon_C17)."""
import re

import common
import histprop

PID = "C17"
COQ_MODULE = "Prop_C17"
THEOREMS = ['C17_every_history', 'C17_fmt_never_waits', 'C17_fmt_no_disturbance', 'C17_accessors_no_raw_ops', 'C17_every_schedule_nonacquiring_never_waits']
CASE_MODULES = ["Pf_Hist", "Monitors"]
CHECK_WITHOUT_PROOF = True
SHRINK_GUARD = 0      # which of the booleans evaluated with the verdict certifies the theorem's hypotheses
TRUSTED = common.TRUSTED_COMMON
ASSUMPTIONS = common.ASSUME_COMMON
RULE = 'random API histories (1-3 threads, 4-14 calls, API-call-atomic) over a random universe of single locks, poisonable wrappers and collections of every kind / container / nesting depth <= 2 sharing leaves, with random holds of other threads present from the start; vocabulary adds Debug formatting of every lock / collection, is_poisoned, clear_poison, while locks are held by other threads and by the caller itself; observation = raw operations + hold table; non-trivial = a non-acquiring call while something is held; distinct = scenario text; plus, exhaustively, every accessor (get_mut, as_mut, child_mut, iter_mut, child, as_ref, iter, Debug, is_poisoned, clear_poison, into_child, into_inner) of every owner kind (Mutex, RwLock, Poisonable, owned / retrying / boxed / ref collection of 1-3 locks) on an object whose locks are free or held through a leaked guard: the vector of held member locks seen by another thread must be the same before and after, and the call must not wait; and every non-acquiring operation of every guard type (Debug, Display, Hash, Deref, DerefMut, AsRef, AsMut) on a live guard: holds unchanged while the guard lives, no wait, everything free after the guard is dropped'
EXHAUSTIVE = {"quick": False, "thorough": False}


class ACase:
    """an accessor run on an object whose locks are held through a leaked guard (harness/src/acc.rs); judged on the
    implementation only: the vector of held member locks must be the same before and after, and the call must not wait"""
    def __init__(self, sid, owner, n, held, acc):
        self.sid, self.owner, self.n, self.held, self.acc = sid, owner, n, held, acc
        self.hist, self.meta = [], {}

    def text(self):
        return f"a {self.sid} {self.owner} {self.n} {self.held} {self.acc}"


ACCESSORS = {
    "mutex": (["none", "ex"], ["get_mut", "as_mut", "fmt", "into_inner"], [1]),
    "rwlock": (["none", "ex", "sh"], ["get_mut", "as_mut", "fmt"], [1]),
    "poison": (["none", "ex"], ["get_mut", "is_poisoned", "clear_poison", "fmt"], [1]),
    "owned": (["none", "ex"], ["get_mut", "as_mut", "fmt", "into_child", "into_inner"], [1, 2, 3]),
    "retry": (["none", "ex"], ["get_mut", "child_mut", "as_mut", "as_ref", "iter", "iter_mut", "fmt", "into_child"], [1, 2, 3]),
    "boxed": (["none", "ex"], ["child", "as_ref", "iter", "fmt", "into_child"], [1, 2, 3]),
    "ref": (["none", "ex"], ["as_ref", "iter", "fmt"], [1, 2, 3]),
}
# non-acquiring operations on a LIVE guard: the holds stay as they are while the guard lives, the call does not wait, and
# dropping the guard afterwards frees everything
GUARD_OPS = ["g_fmt", "g_hash", "g_deref", "g_as_ref"]
GUARD_ACCESSORS = {
    "mutex": (["gex"], GUARD_OPS + ["g_display", "g_deref_mut", "g_as_mut"], [1]),
    "rwlock": (["gex", "gsh"], GUARD_OPS + ["g_display", "g_deref_mut", "g_as_mut"], [1]),
    "poison": (["gex"], GUARD_OPS + ["g_display", "g_deref_mut", "g_as_mut"], [1]),
    "owned": (["gex"], GUARD_OPS + ["g_deref_mut", "g_as_mut"], [1, 2, 3]),
    "retry": (["gex"], GUARD_OPS + ["g_deref_mut", "g_as_mut"], [1, 2, 3]),
    "boxed": (["gex"], GUARD_OPS + ["g_deref_mut", "g_as_mut"], [1, 2, 3]),
    "ref": (["gex"], GUARD_OPS + ["g_deref_mut", "g_as_mut"], [1, 2, 3]),
}


def acc_cases():
    out = []
    for owner, (helds, accs, ns) in ACCESSORS.items():
        for n in ns:
            for held in helds:
                for acc in accs:
                    out.append(ACase(f"c17a_{len(out)}", owner, n, held, acc))
    for owner, (helds, accs, ns) in GUARD_ACCESSORS.items():
        for n in ns:
            for held in helds:
                for acc in accs:
                    if held == "gsh" and acc in ("g_deref_mut", "g_as_mut"):
                        continue
                    out.append(ACase(f"c17a_{len(out)}", owner, n, held, acc))
    return out


def gen(tier, rng):
    return histprop.gen(PID, tier, rng) + acc_cases()


def coq_expr(s, r):
    if isinstance(s, ACase):
        m = re.match(r"ok (\[.*?\]) (\[.*\])$", r.get("vobs", "") or "")
        if not m:
            return "mkv true true false false"          # the accessor waited or panicked
        same = f"list_eqb Bool.eqb {m.group(1)} {m.group(2)}"
        return f"mkv true true ({same}) ({same})"
    return histprop.coq_expr(PID, s, r)


def classify(s, r):
    if isinstance(s, ACase):
        return ["family=accessor-on-held-object", f"owner={s.owner}", f"held={s.held}", f"accessor={s.acc}"]
    return histprop.classify(s, r)


def signature(s):
    return s.text() if isinstance(s, ACase) else histprop.signature(s)


def nontrivial(s, r):
    if isinstance(s, ACase):
        return s.held != "none"
    return histprop.nontrivial(PID, s, r)


def to_replay(s):
    return {"case": s.text()} if isinstance(s, ACase) else common.to_replay(s)


def from_replay(j):
    sc = j.get("scenario") or j
    if "case" in sc:
        t = sc["case"].split()
        return [ACase(t[1], t[2], int(t[3]), t[4], t[5])]
    return common.from_replay(j)
