"""Corpus of minimal client programs for the static properties (C14, C15, compile-time half of C07): each offending
program has a twin that differs only in the offending line(s) and must compile.  rustc's verdict on the current
tree is compared with the model's prediction (a boolean expression over coq/ApiTable.v)."""
import json
import os
import re
import subprocess

import hl

PRELUDE = """#![allow(unused, dead_code, unreachable_code)]
use happylock::collection::*;
use happylock::*;
use std::cell::Cell;
use std::rc::Rc;
use std::sync::Arc;
"""


def prog(body):
    return PRELUDE + "fn main() {\n" + body + "\n}\n"


KEY = "    let mut key = ThreadKey::get().unwrap();\n"
SENDRW = """    struct SendRw(std::sync::atomic::AtomicIsize);
    unsafe impl lock_api::RawRwLock for SendRw {
        const INIT: Self = SendRw(std::sync::atomic::AtomicIsize::new(0));
        type GuardMarker = lock_api::GuardSend;
        fn lock_shared(&self) { while !self.try_lock_shared() {} }
        fn try_lock_shared(&self) -> bool {
            let v = self.0.load(std::sync::atomic::Ordering::SeqCst);
            v >= 0 && self.0.compare_exchange(v, v + 1, std::sync::atomic::Ordering::SeqCst, std::sync::atomic::Ordering::SeqCst).is_ok()
        }
        unsafe fn unlock_shared(&self) { self.0.fetch_sub(1, std::sync::atomic::Ordering::SeqCst); }
        fn lock_exclusive(&self) { while !self.try_lock_exclusive() {} }
        fn try_lock_exclusive(&self) -> bool {
            self.0.compare_exchange(0, -1, std::sync::atomic::Ordering::SeqCst, std::sync::atomic::Ordering::SeqCst).is_ok()
        }
        unsafe fn unlock_exclusive(&self) { self.0.store(0, std::sync::atomic::Ordering::SeqCst); }
    }
"""
SENDRAW = """    struct SendRaw(std::sync::atomic::AtomicBool);
    unsafe impl lock_api::RawMutex for SendRaw {
        const INIT: Self = SendRaw(std::sync::atomic::AtomicBool::new(false));
        type GuardMarker = lock_api::GuardSend;
        fn lock(&self) { while !self.try_lock() {} }
        fn try_lock(&self) -> bool { !self.0.swap(true, std::sync::atomic::Ordering::Acquire) }
        unsafe fn unlock(&self) { self.0.store(false, std::sync::atomic::Ordering::Release) }
    }
"""
M = "    let m = Mutex::new(1);\n    let m2 = Mutex::new(2);\n"

# (name, property, route, offending body, twin body, model predicts REJECTED (Coq bool), expected error codes, known class)
ITEMS = [
    ("key_clone", "C14", "Clone of the key", KEY + "    let k2 = key.clone();", KEY + "    drop(key);",
     'negb (has_impl "ThreadKey" "Clone")', ["E0599"], None),
    ("key_copy", "C14", "Copy of the key (use after move)", KEY + "    let a = key;\n    let b = key;", KEY + "    let a = key;",
     'negb (has_impl "ThreadKey" "Copy")', ["E0382"], None),
    ("guard_into_iter", "C14", "a collection guard taken apart by value: the keyless holds go to the caller, the key is dropped and obtainable again",
     KEY + "    let c = LockCollection::new([Mutex::new(1), Mutex::new(2)]);\n    let g = c.lock(key);\n    let holds: Vec<_> = g.into_iter().collect();\n    let key2 = ThreadKey::get();\n    drop(holds);",
     KEY + "    let c = LockCollection::new([Mutex::new(1), Mutex::new(2)]);\n    let g = c.lock(key);\n    let n = g.iter().count();\n    drop(g);",
     "k8", ["E0507", "E0508", "E0599", "E0277"], None),
    ("key_through_shared_rwlock", "C14", "a key stored in an RwLock that is shared by reference: another thread write-locks it and takes the key",
     KEY + "    let slot = RwLock::new(Some(key));\n    std::thread::scope(|s| { s.spawn(|| { let k = ThreadKey::get().unwrap(); let mut g = slot.write(k); let stolen = g.take(); drop(stolen); }); });",
     KEY + "    let slot = RwLock::new(Some(1u8));\n    drop(key);\n    std::thread::scope(|s| { s.spawn(|| { let k = ThreadKey::get().unwrap(); let mut g = slot.write(k); let x = g.take(); drop(x); }); });",
     "k7", ["E0277"], None),
    ("key_through_shared_mutex", "C14", "a key stored in a Mutex that is shared by reference",
     KEY + "    let slot = Mutex::new(Some(key));\n    std::thread::scope(|s| { s.spawn(|| { let k = ThreadKey::get().unwrap(); let mut g = slot.lock(k); let stolen = g.take(); drop(stolen); }); });",
     KEY + "    let slot = Mutex::new(Some(1u8));\n    drop(key);\n    std::thread::scope(|s| { s.spawn(|| { let k = ThreadKey::get().unwrap(); let mut g = slot.lock(k); let x = g.take(); drop(x); }); });",
     "k7", ["E0277"], None),
    ("key_send", "C14", "key moved to another thread", KEY + "    std::thread::spawn(move || { drop(key); });",
     KEY + "    std::thread::spawn(move || { let k = ThreadKey::get(); drop(k); });\n    drop(key);",
     "negb (table_impl MSend TKey)", ["E0277"], None),
    ("key_default", "C14", "forging a key with Default", "    let k: ThreadKey = Default::default();", KEY,
     'negb (has_impl "ThreadKey" "Default")', ["E0277"], None),
    ("key_forge", "C14", "forging a key through its field",
     "    let k = ThreadKey { phantom: std::marker::PhantomData };", KEY,
     "negb key_has_public_field", ["E0451", "E0603"], None),
    ("keyable_forge", "C14", "implementing Keyable for a foreign type",
     "    struct My;\n    unsafe impl Keyable for My {}", "    struct My;",
     "keyable_sealed", ["E0277", "E0603"], None),
    ("keyable_via_borrowmut", "C14", "forging a copyable key-like type through a std trait (BorrowMut<ThreadKey>)",
     "    #[derive(Clone, Copy)] struct Forged;\n"
     "    impl std::borrow::Borrow<ThreadKey> for Forged { fn borrow(&self) -> &ThreadKey { unreachable!() } }\n"
     "    impl std::borrow::BorrowMut<ThreadKey> for Forged { fn borrow_mut(&mut self) -> &mut ThreadKey { unreachable!() } }\n"
     + M + "    m.scoped_lock(Forged, |_| ());",
     "    #[derive(Clone, Copy)] struct Forged;\n"
     "    impl std::borrow::Borrow<ThreadKey> for Forged { fn borrow(&self) -> &ThreadKey { unreachable!() } }\n"
     "    impl std::borrow::BorrowMut<ThreadKey> for Forged { fn borrow_mut(&mut self) -> &mut ThreadKey { unreachable!() } }\n"
     + KEY + M + "    m.scoped_lock(&mut key, |_| ());",
     'str_list_eqb keyable_impls ["&mut ThreadKey"; "ThreadKey"]', ["E0277"], None),
    ("keyable_box", "C14", "a boxed key used as a Keyable", KEY + M + "    m.scoped_lock(Box::new(key), |_| ());",
     KEY + M + "    m.scoped_lock(key, |_| ());",
     'str_list_eqb keyable_impls ["&mut ThreadKey"; "ThreadKey"]', ["E0277"], None),
    ("lock_with_shared_key", "C14", "scoped lock with &ThreadKey", KEY + M + "    m.scoped_lock(&key, |_| ());",
     KEY + M + "    m.scoped_lock(&mut key, |_| ());",
     'negb (str_in "&ThreadKey" keyable_impls)', ["E0277"], None),
    ("guard_with_borrowed_key", "C14", "guard API given a borrowed key", KEY + M + "    let g = m.lock(&mut key);",
     KEY + M + "    let g = m.lock(key);",
     'row_flag "Mutex" "lock" fn_key_val', ["E0308"], None),
    ("key_reuse_while_guard", "C14", "second acquisition while a guard is alive",
     KEY + M + "    let g = m.lock(key);\n    let g2 = m2.lock(key);", KEY + M + "    let g = m.lock(key);\n    let key = Mutex::unlock(g);\n    let g2 = m2.lock(key);",
     'negb (has_impl "ThreadKey" "Copy") && row_flag "Mutex" "lock" fn_key_val', ["E0382"], None),
    ("nested_scoped", "C14", "nested scoped calls with one key",
     KEY + M + "    m.scoped_lock(&mut key, |_| m2.scoped_lock(&mut key, |_| ()));",
     KEY + M + "    m.scoped_lock(&mut key, |_| ());\n    m2.scoped_lock(&mut key, |_| ());",
     'row_flag "Mutex" "scoped_lock" fn_keyable_val', ["E0499", "E0500", "E0501"], None),
    ("guard_private_key", "C14", "taking the key out of a guard's field",
     KEY + M + "    let g = m.lock(key);\n    let k = g.thread_key;", KEY + M + "    let g = m.lock(key);",
     "is_nil_str public_fields", ["E0616"], None),
    ("lockguard_private_key", "C14", "taking the key out of a collection guard's field",
     KEY + "    let c = LockCollection::new((Mutex::new(1),));\n    let g = c.lock(key);\n    let k = g.key;",
     KEY + "    let c = LockCollection::new((Mutex::new(1),));\n    let g = c.lock(key);",
     "is_nil_str public_fields", ["E0616"], None),
    ("guard_clone", "C14", "Clone of a key-holding guard",
     KEY + M + "    let g = m.lock(key);\n    let g2: happylock::mutex::MutexGuard<'_, i32, _> = Clone::clone(&g);",
     KEY + M + "    let g = m.lock(key);\n    let v: i32 = Clone::clone(&*g);",
     'negb (has_impl "MutexGuard" "Clone")', ["E0277", "E0599"], None),
    ("guard_send", "C14", "key-holding guard moved to another thread",
     KEY + "    let m: &'static Mutex<i32> = Box::leak(Box::new(Mutex::new(1)));\n    let g = m.lock(key);\n    std::thread::spawn(move || drop(g));",
     KEY + "    let m: &'static Mutex<i32> = Box::leak(Box::new(Mutex::new(1)));\n    let g = m.lock(key);\n    drop(g);",
     'negb (table_impl MSend (TCon "MutexGuard" (TPay true true)))', ["E0277"], None),
    ("guard_send_guardsend_raw", "C14", "key-holding guard of a Mutex over a raw lock whose guards may be sent (GuardMarker = GuardSend) moved to another thread",
     SENDRAW + KEY + "    let m: &'static happylock::mutex::Mutex<i32, SendRaw> = Box::leak(Box::new(happylock::mutex::Mutex::new(1)));\n    let g = m.lock(key);\n    std::thread::spawn(move || drop(g));",
     SENDRAW + KEY + "    let m: &'static happylock::mutex::Mutex<i32, SendRaw> = Box::leak(Box::new(happylock::mutex::Mutex::new(1)));\n    let g = m.lock(key);\n    drop(g);",
     'negb (impl_auto auto_rules (mkrf true true true true) MSend (TCon "MutexGuard" (TPay true true)))', ["E0277"], None),
    ("collection_guard_send_guardsend_raw", "C14", "collection guard over such mutexes moved to another thread",
     SENDRAW + KEY + "    let c: &'static LockCollection<(happylock::mutex::Mutex<i32, SendRaw>,)> = Box::leak(Box::new(LockCollection::new((happylock::mutex::Mutex::new(1),))));\n    let g = c.lock(key);\n    std::thread::spawn(move || drop(g));",
     SENDRAW + KEY + "    let c: &'static LockCollection<(happylock::mutex::Mutex<i32, SendRaw>,)> = Box::leak(Box::new(LockCollection::new((happylock::mutex::Mutex::new(1),))));\n    let g = c.lock(key);\n    drop(g);",
     'negb (impl_auto auto_rules (mkrf true true true true) MSend (TCon "LockGuard" (TCon "MutexRef" (TPay true true))))', ["E0277"], None),
    ("read_guard_send_guardsend_raw", "C14", "key-holding read guard of an RwLock over a raw lock whose guards may be sent, moved to another thread",
     SENDRW + KEY + "    let l: &'static happylock::rwlock::RwLock<i32, SendRw> = Box::leak(Box::new(happylock::rwlock::RwLock::new(1)));\n    let g = l.read(key);\n    std::thread::spawn(move || drop(g));",
     SENDRW + KEY + "    let l: &'static happylock::rwlock::RwLock<i32, SendRw> = Box::leak(Box::new(happylock::rwlock::RwLock::new(1)));\n    let g = l.read(key);\n    drop(g);",
     'negb (impl_auto auto_rules (mkrf true true true true) MSend (TCon "RwLockReadGuard" (TPay true true)))', ["E0277"], None),
    ("write_guard_send_guardsend_raw", "C14", "key-holding write guard of such an RwLock moved to another thread",
     SENDRW + KEY + "    let l: &'static happylock::rwlock::RwLock<i32, SendRw> = Box::leak(Box::new(happylock::rwlock::RwLock::new(1)));\n    let g = l.write(key);\n    std::thread::spawn(move || drop(g));",
     SENDRW + KEY + "    let l: &'static happylock::rwlock::RwLock<i32, SendRw> = Box::leak(Box::new(happylock::rwlock::RwLock::new(1)));\n    let g = l.write(key);\n    drop(g);",
     'negb (impl_auto auto_rules (mkrf true true true true) MSend (TCon "RwLockWriteGuard" (TPay true true)))', ["E0277"], None),
    ("try_error_send", "C14", "the error of a failed try_lock of a Poisonable (it hands the key back, or carries the guard) moved to another thread",
     "    fn f<G: Send + 'static>(e: happylock::poisonable::TryLockPoisonableError<'static, G>) { std::thread::spawn(move || drop(e)); }",
     "    fn f<G: Send + 'static>(e: happylock::poisonable::TryLockPoisonableError<'static, G>) { drop(e); }",
     'negb (impl_auto all_rules (mkrf true true true true) MSend (TCon "TryLockPoisonableError" (TPay true true)))', ["E0277"], None),
    ("raw_lock_without_key", "C14", "taking a mutex through its raw lock (lock_api's lock() is a safe function) while keeping the key, then locking another one with it",
     KEY + M + "    let r = m.raw();\n    lock_api::RawMutex::lock(r);\n    let g = m2.lock(key);",
     KEY + M + "    let r = unsafe { m.raw() };\n    lock_api::RawMutex::lock(r);\n    let g = m2.lock(key);",
     "k10", ["E0133"], None),
    ("guard_factory_without_key", "C14", "a collection's guard factory called from safe code: data without key and without hold",
     M + "    let c = LockCollection::new((m, m2));\n    let g = happylock::lockable::Lockable::guard(&c);",
     M + "    let c = LockCollection::new((m, m2));\n    let g = unsafe { happylock::lockable::Lockable::guard(&c) };",
     "k10", ["E0133"], None),
    ("collection_guard_field_moved_out", "C14", "moving the holds out of a collection guard through its field (the key is dropped, the holds live on)",
     KEY + "    let c = LockCollection::new((Mutex::new(1), Mutex::new(2)));\n    let holds = c.lock(key).guard;\n    let k2 = ThreadKey::get();",
     KEY + "    let c = LockCollection::new((Mutex::new(1), Mutex::new(2)));\n    let g = c.lock(key);\n    drop(g);\n    let k2 = ThreadKey::get();",
     'is_nil_str public_fields', ["E0616"], None),
    ("hold_ref_cloned", "C14", "duplicating the keyless hold inside a collection read guard, then unlocking the guard: the key is back while the copy still holds",
     KEY + "    let data = (RwLock::new(1), RwLock::new(2));\n    let locks = LockCollection::new_ref(&data);\n    let guard = locks.read(key);\n"
           "    let held: happylock::rwlock::RwLockReadRef<'_, i32, _> = Clone::clone(&guard.0);\n"
           "    let key = LockCollection::<&(RwLock<i32>, RwLock<i32>)>::unlock_read(guard);\n    drop(key);\n    drop(held);",
     KEY + "    let data = (RwLock::new(1), RwLock::new(2));\n    let locks = LockCollection::new_ref(&data);\n    let guard = locks.read(key);\n"
           "    let v: i32 = Clone::clone(&*guard.0);\n"
           "    let key = LockCollection::<&(RwLock<i32>, RwLock<i32>)>::unlock_read(guard);\n    drop(key);",
     'negb (has_impl "RwLockReadRef" "Clone")', ["E0277"], None),
    ("collection_guard_send", "C14", "collection guard moved to another thread",
     KEY + "    let c: &'static LockCollection<(Mutex<i32>,)> = Box::leak(Box::new(LockCollection::new((Mutex::new(1),))));\n    let g = c.lock(key);\n    std::thread::spawn(move || drop(g));",
     KEY + "    let c: &'static LockCollection<(Mutex<i32>,)> = Box::leak(Box::new(LockCollection::new((Mutex::new(1),))));\n    let g = c.lock(key);\n    drop(g);",
     'negb (table_impl MSend (TCon "LockGuard" (TPay true true)))', ["E0277"], None),
    ("take_holds", "C14", "moving the holds out of a collection guard, then unlocking it",
     KEY + "    let c = LockCollection::new(vec![Mutex::new(1), Mutex::new(2)]);\n    let mut g = c.lock(key);\n"
           "    let holds = std::mem::take(&mut *g);\n    let key = LockCollection::<Vec<Mutex<i32>>>::unlock(g);\n    drop(key);\n    drop(holds);",
     KEY + "    let c = LockCollection::new(vec![Mutex::new(1), Mutex::new(2)]);\n    let mut g = c.lock(key);\n"
           "    let key = LockCollection::<Vec<Mutex<i32>>>::unlock(g);\n    drop(key);",
     "k5", [], "f4_take_holds"),
    # ---------------------------------------------------------------- C15
    ("ref_escapes_guard", "C15", "reference outliving its guard",
     KEY + M + "    let r;\n    {\n        let g = m.lock(key);\n        r = &*g;\n    }\n    println!(\"{}\", r);",
     KEY + M + "    {\n        let g = m.lock(key);\n        let r = &*g;\n        println!(\"{}\", r);\n    }",
     "true", ["E0597", "E0505"], None),
    ("guard_outlives_lock", "C15", "guard outliving its lock",
     KEY + "    let g;\n    {\n        let m = Mutex::new(1);\n        g = m.lock(key);\n    }\n    drop(g);",
     KEY + "    {\n        let m = Mutex::new(1);\n        let g = m.lock(key);\n        drop(g);\n    }",
     "true", ["E0597"], None),
    ("scoped_escape", "C15", "reference returned from a scoped closure",
     KEY + M + "    let r: &mut i32 = m.scoped_lock(&mut key, |x| x);\n    let r2: &mut i32 = m.scoped_lock(&mut key, |x| x);\n    *r += 1;\n    *r2 += 1;",
     KEY + M + "    let v: i32 = m.scoped_lock(&mut key, |x| *x);\n    let v2: i32 = m.scoped_lock(&mut key, |x| *x);",
     "e4", [], "f5_scoped_escape"),
    ("scoped_escape_collection", "C15", "data structure returned from a collection's scoped closure",
     KEY + "    let c = LockCollection::new((Mutex::new(1), Mutex::new(2)));\n    let d = c.scoped_lock(&mut key, |d| d);\n    let d2 = c.scoped_lock(&mut key, |d| d);\n    *d.0 += 1;\n    *d2.0 += 1;",
     KEY + "    let c = LockCollection::new((Mutex::new(1), Mutex::new(2)));\n    let v = c.scoped_lock(&mut key, |d| *d.0);",
     "e4", [], "f5_scoped_escape"),
    ("owned_child", "C15", "shared access into an owned collection (child)",
     "    let o = OwnedLockCollection::new((Mutex::new(1),));\n    let c = o.child();",
     "    let mut o = OwnedLockCollection::new((Mutex::new(1),));\n    let c = o.child_mut();",
     "e2", ["E0599"], None),
    ("owned_as_ref", "C15", "shared access into an owned collection (AsRef)",
     "    let o = OwnedLockCollection::new(vec![Mutex::new(1)]);\n    let c: &Vec<Mutex<i32>> = o.as_ref();",
     "    let mut o = OwnedLockCollection::new(vec![Mutex::new(1)]);\n    let c: &mut Vec<Mutex<i32>> = o.as_mut();",
     "e2", ["E0599", "E0277"], None),
    ("owned_iter_ref", "C15", "shared access into an owned collection (iteration by reference)",
     "    let o = OwnedLockCollection::new(vec![Mutex::new(1)]);\n    for x in &o { let _ = x; }",
     "    let o = OwnedLockCollection::new(vec![Mutex::new(1)]);\n    for x in o { let _ = x; }",
     "e2", ["E0277"], None),
    ("mutexref_retarget", "C15", "a keyless guard pointed at another mutex through a public field",
     KEY + "    let a = Mutex::new(1);\n    let b = Mutex::new(2);\n    let c = LockCollection::try_new((&a,)).unwrap();\n    let mut g = c.lock(key);\n    g.0 .0 = &b;",
     KEY + "    let a = Mutex::new(1);\n    let c = LockCollection::try_new((&a,)).unwrap();\n    let mut g = c.lock(key);\n    *g.0 += 1;",
     "e6", ["E0616"], None),
    ("boxed_as_mut", "C15", "exclusive access to the members of a boxed collection (AsMut): a member replaced behind the cached lock list",
     "    let mut c = LockCollection::try_new(vec![Mutex::new(1), Mutex::new(2)]).unwrap();\n    let v: &mut Vec<Mutex<i32>> = c.as_mut();\n    v[0] = Mutex::new(3);",
     "    let c = LockCollection::try_new(vec![Mutex::new(1), Mutex::new(2)]).unwrap();\n    let v: &Vec<Mutex<i32>> = c.as_ref();",
     'negb (has_impl "BoxedLockCollection" "AsMut")', ["E0599", "E0277"], None),
    ("boxed_get_mut", "C15", "exclusive access to the data of a boxed collection without locking (LockableGetMut)",
     "    let mut c = LockCollection::new(vec![Mutex::new(1)]);\n    let v = happylock::lockable::LockableGetMut::get_mut(&mut c);",
     "    let mut c = OwnedLockCollection::new(vec![Mutex::new(1)]);\n    let v = happylock::lockable::LockableGetMut::get_mut(&mut c);",
     'negb (has_impl "BoxedLockCollection" "LockableGetMut")', ["E0277", "E0599"], None),
    ("boxed_extend", "C15", "members added to a boxed collection after its lock list was cached (Extend)",
     "    let mut c = LockCollection::new(vec![Mutex::new(1)]);\n    c.extend(vec![Mutex::new(2)]);",
     "    let mut c = OwnedLockCollection::new(vec![Mutex::new(1)]);\n    c.extend(vec![Mutex::new(2)]);",
     'negb (has_impl "BoxedLockCollection" "Extend")', ["E0599", "E0277"], None),
    ("boxed_iter_mut", "C15", "iteration by exclusive reference over a boxed collection",
     "    let mut c = LockCollection::new(vec![Mutex::new(1)]);\n    for x in &mut c { let _ = x; }",
     "    let mut c = RetryingLockCollection::new(vec![Mutex::new(1)]);\n    for x in &mut c { let _ = x; }",
     'negb (has_impl "BoxedLockCollection" "IntoIterator&mut")', ["E0277"], None),
    ("ref_as_mut", "C15", "exclusive access through a ref collection (AsMut)",
     "    let data = vec![Mutex::new(1), Mutex::new(2)];\n    let mut c = RefLockCollection::new(&data);\n    let v: &mut Vec<Mutex<i32>> = c.as_mut();",
     "    let data = vec![Mutex::new(1), Mutex::new(2)];\n    let c = RefLockCollection::new(&data);\n    let v: &Vec<Mutex<i32>> = c.as_ref();",
     'negb (has_impl "RefLockCollection" "AsMut")', ["E0599", "E0277"], None),
    ("rc_payload_thread", "C15", "Rc payload crossing threads inside a Mutex",
     "    let m = Arc::new(Mutex::new(Rc::new(1)));\n    std::thread::spawn(move || drop(m));",
     "    let m = Arc::new(Mutex::new(Arc::new(1)));\n    std::thread::spawn(move || drop(m));",
     'negb (table_impl MSend (TCon "Mutex" (TPay false false)))', ["E0277"], None),
    ("rc_payload_collection", "C15", "Rc payload crossing threads inside a collection",
     "    let c = Arc::new(LockCollection::new((Mutex::new(Rc::new(1)),)));\n    std::thread::spawn(move || drop(c));",
     "    let c = Arc::new(LockCollection::new((Mutex::new(Arc::new(1)),)));\n    std::thread::spawn(move || drop(c));",
     'negb (table_impl MSend (TCon "BoxedLockCollection" (TTuple [TCon "Mutex" (TPay false false)])))', ["E0277"], None),
    ("cell_rwlock_shared", "C15", "Cell payload shared through an RwLock",
     "    let l: RwLock<Cell<i32>> = RwLock::new(Cell::new(0));\n    std::thread::scope(|s| {\n        s.spawn(|| { let k = ThreadKey::get().unwrap(); let g = l.read(k); g.set(1); });\n    });",
     "    let l: RwLock<i32> = RwLock::new(0);\n    std::thread::scope(|s| {\n        s.spawn(|| { let k = ThreadKey::get().unwrap(); let g = l.read(k); let _ = *g; });\n    });",
     'negb (table_impl MSync (TCon "RwLock" (TPay true false)))', ["E0277"], None),
    ("cell_rwlock_refcoll_sent", "C15", "RefLockCollection over an RwLock<Cell> sent to another thread",
     "    let l: RwLock<Cell<i32>> = RwLock::new(Cell::new(0));\n    let c = RefLockCollection::new(&l);\n    std::thread::scope(|s| {\n        s.spawn(move || { let k = ThreadKey::get().unwrap(); let g = c.read(k); g.set(1); });\n    });",
     "    let l: RwLock<i32> = RwLock::new(0);\n    let c = RefLockCollection::new(&l);\n    std::thread::scope(|s| {\n        s.spawn(move || { let k = ThreadKey::get().unwrap(); let g = c.read(k); let _ = *g; });\n    });",
     'negb (table_impl MSend (TCon "RefLockCollection" (TCon "RwLock" (TPay true false))))', ["E0277"], None),
    ("cell_mutex_shared_ok", "C15", "(control) Cell payload inside a Mutex may be shared",
     "    let l: Mutex<Cell<i32>> = Mutex::new(Cell::new(0));\n    let x: Rc<i32> = Rc::new(1);\n    std::thread::scope(|s| { s.spawn(|| { let _ = &x; }); });",
     "    let l: Mutex<Cell<i32>> = Mutex::new(Cell::new(0));\n    std::thread::scope(|s| {\n        s.spawn(|| { let k = ThreadKey::get().unwrap(); let g = l.lock(k); g.set(1); });\n    });",
     "true", ["E0277"], None),
    ("unsafe_raw", "C15", "raw accessor from safe code", M + "    let r = m.raw();", M + "    let r = unsafe { m.raw() };",
     "e1", ["E0133"], None),
    ("unsafe_new_unchecked", "C15", "unchecked constructor from safe code",
     M + "    let c = LockCollection::new_unchecked((&m, &m2));", M + "    let c = unsafe { LockCollection::new_unchecked((&m, &m2)) };",
     "e1", ["E0133"], None),
    ("unsafe_guard_factory", "C15", "guard factory from safe code",
     M + "    let g = happylock::lockable::Lockable::guard(&m);", M + "    let g = unsafe { happylock::lockable::Lockable::data_mut(&m) };\n    let _ = g;",
     "e1", ["E0133"], None),
    ("unsafe_raw_write", "C15", "raw lock operation from safe code",
     M + "    happylock::lockable::RawLock::raw_write(&m);", M + "    unsafe { happylock::lockable::RawLock::raw_write(&m) };\n    unsafe { happylock::lockable::RawLock::raw_unlock_write(&m) };",
     "e1", ["E0133"], None),
    ("new_with_refs", "C07", "unchecked-at-runtime constructor given references (possible duplicates)",
     M + "    let c = LockCollection::new((&m, &m));", M + "    let c = LockCollection::try_new((&m, &m));\n    assert!(c.is_none());",
     "e3", ["E0277"], None),
    ("new_ref_with_refs", "C07", "new_ref given a container of references",
     M + "    let a = [&m, &m];\n    let c = LockCollection::new_ref(&a);", M + "    let a = [Mutex::new(1), Mutex::new(2)];\n    let c = LockCollection::new_ref(&a);",
     "e3", ["E0277"], None),
    ("owned_new_with_refs", "C07", "OwnedLockCollection given references",
     M + "    let c = OwnedLockCollection::new((&m, &m));", M + "    let c = OwnedLockCollection::new((Mutex::new(1), Mutex::new(2)));",
     "e3", ["E0277"], None),
    ("retry_new_with_refs", "C07", "RetryingLockCollection::new given references",
     M + "    let c = RetryingLockCollection::new((&m, &m));", M + "    let c = RetryingLockCollection::try_new((&m, &m));\n    assert!(c.is_none());",
     "e3", ["E0277"], None),
    ("refcoll_new_with_refs", "C07", "RefLockCollection::new given a container of references",
     M + "    let a = [&m, &m];\n    let c = RefLockCollection::new(&a);", M + "    let a = [&m, &m];\n    let c = RefLockCollection::try_new(&a);\n    assert!(c.is_none());",
     "e3", ["E0277"], None),
    ("owned_new_vec_refs", "C07", "OwnedLockCollection given a Vec of references",
     M + "    let c = OwnedLockCollection::new(vec![&m, &m]);", M + "    let c = OwnedLockCollection::new(vec![Mutex::new(1), Mutex::new(2)]);",
     'negb (ol (TTuple [TRef (TCon "Mutex" (TPay true true)); TRef (TCon "Mutex" (TPay true true))]))', ["E0277"], None),
    ("owned_new_boxed_slice_refs", "C07", "OwnedLockCollection given a boxed slice of references",
     M + "    let c = OwnedLockCollection::new(vec![&m, &m].into_boxed_slice());",
     M + "    let c = OwnedLockCollection::new(vec![Mutex::new(1), Mutex::new(2)].into_boxed_slice());",
     'negb (ol (TTuple [TRef (TCon "Mutex" (TPay true true)); TRef (TCon "Mutex" (TPay true true))]))', ["E0277"], None),
    ("boxed_new_boxed_slice_refs", "C07", "LockCollection::new given a boxed slice of references",
     M + "    let c = LockCollection::new(vec![&m, &m].into_boxed_slice());",
     M + "    let c = LockCollection::try_new(vec![&m, &m].into_boxed_slice());\n    assert!(c.is_none());",
     'negb (ol (TTuple [TRef (TCon "Mutex" (TPay true true)); TRef (TCon "Mutex" (TPay true true))]))', ["E0277"], None),
    ("retry_new_array_refs", "C07", "RetryingLockCollection::new given an array of references",
     M + "    let c = RetryingLockCollection::new([&m, &m]);", M + "    let c = RetryingLockCollection::new([Mutex::new(1), Mutex::new(2)]);",
     'negb (ol (TTuple [TRef (TCon "Mutex" (TPay true true)); TRef (TCon "Mutex" (TPay true true))]))', ["E0277"], None),
    ("owned_new_mutref_of_refs", "C07", "OwnedLockCollection given &mut of a tuple of references",
     M + "    let mut t = (&m, &m);\n    let c = OwnedLockCollection::new(&mut t);",
     "    let mut t = (Mutex::new(1), Mutex::new(2));\n    let c = OwnedLockCollection::new(&mut t);",
     'negb (ol (TMutRef (TTuple [TRef (TCon "Mutex" (TPay true true)); TRef (TCon "Mutex" (TPay true true))])))', ["E0277"], None),
    ("owned_new_nested_ref_collection", "C07", "OwnedLockCollection given a RefLockCollection (which only borrows its locks)",
     M + "    let t = (m, m2);\n    let r = RefLockCollection::new(&t);\n    let c = OwnedLockCollection::new((r,));",
     M + "    let t = (m, m2);\n    let r = LockCollection::new(t);\n    let c = OwnedLockCollection::new((r,));",
     'negb (ol (TTuple [TCon "RefLockCollection" (TTuple [TCon "Mutex" (TPay true true)])]))', ["E0277"], None),
    ("new_of_checked_ref_collections", "C07", "unchecked constructor given two checked collections that borrow the same lock",
     M + "    let a = LockCollection::try_new(&m).unwrap();\n    let b = LockCollection::try_new(&m).unwrap();\n    let c = LockCollection::new((a, b));",
     M + "    let a = LockCollection::new(m);\n    let b = LockCollection::new(m2);\n    let c = LockCollection::new((a, b));",
     'negb (ol (TTuple [TCon "BoxedLockCollection" (TRef (TCon "Mutex" (TPay true true)))]))', ["E0277"], None),
    ("retry_new_ref_of_checked_ref_collections", "C07", "new_ref given a tuple of checked collections that borrow the same lock",
     M + "    let t = (LockCollection::try_new((&m, &m2)).unwrap(), LockCollection::try_new(&m2).unwrap());\n    let c = RetryingLockCollection::new_ref(&t);",
     M + "    let t = (LockCollection::new((m, Mutex::new(3))), LockCollection::new(m2));\n    let c = RetryingLockCollection::new_ref(&t);",
     'negb (ol (TTuple [TCon "BoxedLockCollection" (TTuple [TRef (TCon "Mutex" (TPay true true))]); TCon "BoxedLockCollection" (TRef (TCon "Mutex" (TPay true true)))]))', ["E0277"], None),
    ("owned_new_poisonable_ref", "C07", "OwnedLockCollection given a Poisonable around a reference",
     M + "    let c = OwnedLockCollection::new((happylock::poisonable::Poisonable::new(&m), happylock::poisonable::Poisonable::new(&m)));",
     M + "    let c = OwnedLockCollection::new((happylock::poisonable::Poisonable::new(m), happylock::poisonable::Poisonable::new(m2)));",
     'negb (ol (TTuple [TCon "Poisonable" (TRef (TCon "Mutex" (TPay true true)))]))', ["E0277"], None),
]

# ---------------------------------------------------------------- Send / Sync grid, evaluated by one program
PAYLOADS = {  # (send, sync) -> Rust type
    (True, True): "i32", (True, False): "Cell<i32>", (False, True): "std::sync::MutexGuard<'static, i32>", (False, False): "Rc<i32>"}
CONS = {
    "Mutex": "happylock::mutex::Mutex<{}, parking_lot::RawMutex>",
    "RwLock": "happylock::rwlock::RwLock<{}, parking_lot::RawRwLock>",
    "MutexGuard": "happylock::mutex::MutexGuard<'static, {}, parking_lot::RawMutex>",
    "MutexRef": "happylock::mutex::MutexRef<'static, {}, parking_lot::RawMutex>",
    "RwLockReadGuard": "happylock::rwlock::RwLockReadGuard<'static, {}, parking_lot::RawRwLock>",
    "RwLockReadRef": "happylock::rwlock::RwLockReadRef<'static, {}, parking_lot::RawRwLock>",
    "RwLockWriteGuard": "happylock::rwlock::RwLockWriteGuard<'static, {}, parking_lot::RawRwLock>",
    "RwLockWriteRef": "happylock::rwlock::RwLockWriteRef<'static, {}, parking_lot::RawRwLock>",
    "BoxedLockCollection": "BoxedLockCollection<{}>", "RefLockCollection": "RefLockCollection<'static, {}>",
    "OwnedLockCollection": "OwnedLockCollection<{}>", "RetryingLockCollection": "RetryingLockCollection<{}>",
    "LockGuard": "LockGuard<{}>", "Poisonable": "happylock::poisonable::Poisonable<{}>",
    "PoisonGuard": "happylock::poisonable::PoisonGuard<'static, {}>", "PoisonRef": "happylock::poisonable::PoisonRef<'static, {}>",
    "PoisonError": "happylock::poisonable::PoisonError<{}>", "ThreadKey": "ThreadKey",
}


def grid_types(rng, n):
    """random types of the model's language: (coq term, rust type)"""
    def gen(depth):
        r = rng.random()
        if depth == 0 or r < 0.25:
            k = rng.choice(list(PAYLOADS))
            return f"TPay {str(k[0]).lower()} {str(k[1]).lower()}", PAYLOADS[k]
        if r < 0.35:
            c, t = gen(depth - 1)
            return f"TRef ({c})", f"&'static {t}"
        if r < 0.45:
            a, b = gen(depth - 1), gen(depth - 1)
            return f"TTuple [{a[0]}; {b[0]}]", f"({a[1]}, {b[1]})"
        con = rng.choice([c for c in CONS if c != "ThreadKey"])
        c, t = gen(depth - 1)
        return f'TCon "{con}" ({c})', CONS[con].format(t)
    out = [("TKey", "ThreadKey")]
    for _ in range(n):
        out.append(gen(rng.choice([1, 2, 2, 3])))
    return out


GRID_PRELUDE = PRELUDE + """use std::marker::PhantomData;
struct P<T: ?Sized>(PhantomData<T>);
trait No { fn send(&self) -> bool { false } fn sync(&self) -> bool { false } }
impl<T: ?Sized> No for P<T> {}
struct S<T: ?Sized>(PhantomData<T>);
impl<T: ?Sized + Send> S<T> { fn send(&self) -> bool { true } }
trait NoS { fn send(&self) -> bool { false } }
impl<T: ?Sized> NoS for S<T> {}
struct Y<T: ?Sized>(PhantomData<T>);
impl<T: ?Sized + Sync> Y<T> { fn sync(&self) -> bool { true } }
trait NoY { fn sync(&self) -> bool { false } }
impl<T: ?Sized> NoY for Y<T> {}
"""


def grid_program(types):
    body = []
    for i, (_, rt) in enumerate(types):
        body.append(f'    println!("{i} {{}} {{}}", S::<{rt}>(PhantomData).send(), Y::<{rt}>(PhantomData).sync());')
    return GRID_PRELUDE + "fn main() {\n" + "\n".join(body) + "\n}\n"


# ---------------------------------------------------------------- running rustc
def run_corpus(items, grid=None):
    """returns ({bin: (rejected, [codes], first message)}, grid_output or None, log)"""
    d = os.path.join(hl.BUILD, "corpus")
    bind = os.path.join(d, "src", "bin")
    if os.path.isdir(bind):
        for f in os.listdir(bind):
            os.remove(os.path.join(bind, f))
    os.makedirs(bind, exist_ok=True)
    with open(os.path.join(d, "Cargo.toml"), "w") as f:
        f.write('[package]\nname = "hl-corpus"\nversion = "0.1.0"\nedition = "2021"\n\n[dependencies]\n'
                f'happylock = {{ path = "{hl.REPO}" }}\nparking_lot = "0.12"\nlock_api = "0.4"\n\n[workspace]\n')
    subprocess.run(["cp", os.path.join(hl.REPO, "Cargo.lock"), os.path.join(d, "Cargo.lock")])
    for it in items:
        open(os.path.join(bind, it[0] + "_bad.rs"), "w").write(prog(it[3]))
        open(os.path.join(bind, it[0] + "_ok.rs"), "w").write(prog(it[4]))
    env = dict(hl.ENV, CARGO_TARGET_DIR=os.path.join(hl.BUILD, "corpus-target"))
    p = subprocess.run(["cargo", "check", "--offline", "--bins", "--keep-going", "--message-format=json"], cwd=d, env=env,
                       stdout=subprocess.PIPE, stderr=subprocess.PIPE, text=True, timeout=1200)
    res = {}
    for line in p.stdout.split("\n"):
        if not line.startswith("{"):
            continue
        try:
            m = json.loads(line)
        except ValueError:
            continue
        if m.get("reason") == "compiler-message" and m["message"]["level"] == "error":
            name = m["target"]["name"]
            code = (m["message"].get("code") or {}).get("code")
            e = res.setdefault(name, [True, [], m["message"]["message"]])
            if code:
                e[1].append(code)
    out = {}
    for it in items:
        for suf in ("_bad", "_ok"):
            n = it[0] + suf
            out[n] = tuple(res.get(n, [False, [], ""]))
    gout = None
    if grid is not None:
        gd = os.path.join(hl.BUILD, "grid")
        os.makedirs(os.path.join(gd, "src"), exist_ok=True)
        with open(os.path.join(gd, "Cargo.toml"), "w") as f:
            f.write('[package]\nname = "hl-grid"\nversion = "0.1.0"\nedition = "2021"\n\n[dependencies]\n'
                    f'happylock = {{ path = "{hl.REPO}" }}\nparking_lot = "0.12"\n\n[workspace]\n')
        subprocess.run(["cp", os.path.join(hl.REPO, "Cargo.lock"), os.path.join(gd, "Cargo.lock")])
        open(os.path.join(gd, "src", "main.rs"), "w").write(grid_program(grid))
        g = subprocess.run(["cargo", "run", "--offline", "--quiet"], cwd=gd, env=env, stdout=subprocess.PIPE,
                           stderr=subprocess.PIPE, text=True, timeout=1200)
        if g.returncode == 0:
            gout = {}
            for line in g.stdout.split("\n"):
                mm = re.match(r"(\d+) (true|false) (true|false)", line)
                if mm:
                    gout[int(mm.group(1))] = (mm.group(2) == "true", mm.group(3) == "true")
        else:
            gout = {"error": g.stderr[-2000:]}
    return out, gout, p.stderr[-1500:]
