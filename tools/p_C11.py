"""C11 — history-based check (see tools/histprop.py, coq/Monitors.v mon_C11)."""
import common
import histprop
from common import from_replay, to_replay  # noqa: F401

PID = "C11"
COQ_MODULE = "Prop_C11"
THEOREMS = ['C11_every_history', 'C11_closure_panic', 'C11_guard_panic', 'C11_catch_reraises', "C11_every_schedule_all_released", "C11_every_schedule_panic_holds_nothing"]
CASE_MODULES = ["Pf_Hist", "Monitors"]
CHECK_WITHOUT_PROOF = True
SHRINK_GUARD = 0      # which of the booleans evaluated with the verdict certifies the theorem's hypotheses
TRUSTED = common.TRUSTED_COMMON
ASSUMPTIONS = common.ASSUME_COMMON
RULE = 'random API histories (1-3 threads, 4-14 calls, API-call-atomic) over a random universe of single locks, poisonable wrappers and collections of every kind / container / nesting depth <= 2 sharing leaves, with random holds of other threads present from the start; panic injected with a live guard and inside closures (lent and moved key); observation = result, releases, hold table and key probe after the catch; non-trivial = a panic that propagated; distinct = scenario text'
EXHAUSTIVE = {"quick": False, "thorough": False}
classify = histprop.classify
signature = histprop.signature


def gen(tier, rng):
    return histprop.gen(PID, tier, rng)


def coq_expr(s, r):
    return histprop.coq_expr(PID, s, r)


def nontrivial(s, r):
    return histprop.nontrivial(PID, s, r)
