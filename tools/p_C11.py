"""C11 — history-based check (see tools/histprop.py, coq/Monitors.v mon_C11)."""
import re

import common
import histprop

PID = "C11"
COQ_MODULE = "Prop_C11"
THEOREMS = ['C11_every_history', 'C11_closure_panic', 'C11_guard_panic', 'C11_catch_reraises', "C11_every_schedule_all_released", "C11_every_schedule_panic_holds_nothing"]
CASE_MODULES = ["Pf_Hist", "Monitors"]
CHECK_WITHOUT_PROOF = True
SHRINK_GUARD = 0      # which of the booleans evaluated with the verdict certifies the theorem's hypotheses
TRUSTED = common.TRUSTED_COMMON
ASSUMPTIONS = common.ASSUME_COMMON
RULE = 'random API histories (1-3 threads, 4-14 calls, API-call-atomic) over a random universe of single locks, poisonable wrappers and collections of every kind / container / nesting depth <= 2 sharing leaves, with random holds of other threads present from the start; panic injected with a live guard and inside closures (lent and moved key); observation = result, releases, hold table and key probe after the catch; non-trivial = a panic that propagated; distinct = scenario text'
EXHAUSTIVE = {"quick": False, "thorough": False}


class KCase:
    """a hold during which user code kills the lock it holds (RawLock::poison, a safe public method), then drops the guard,
    returns from the closure or panics (harness/src/kil.rs) — outside the model's history vocabulary, judged on the
    implementation by the property's own clause (Monitors.c11_kill_probe_ok)"""
    LEAVES = {"m": 1, "r": 1, "b": 2, "t": 2, "o": 2}

    def __init__(self, sid, root, mode, flavour, kill, panic):
        self.sid, self.root, self.mode, self.flavour, self.kill, self.panic = sid, root, mode, flavour, kill, panic
        self.hist, self.meta, self.sched = [], {}, None

    def text(self):
        return f"kq {self.sid} {self.root} {self.mode} {self.flavour} {int(self.kill)} {int(self.panic)}"


def probe_cases():
    out = []
    for root, modes in (("m", ["ex"]), ("r", ["ex", "sh"]), ("b", ["ex"]), ("t", ["ex"]), ("o", ["ex", "sh"])):
        for mode in modes:
            for fl in ("guard", "try", "scoped", "scopedtry"):
                for kill in (False, True):
                    for panic in (False, True):
                        out.append(KCase(f"c11k_{len(out)}", root, mode, fl, kill, panic))
    return out


def gen(tier, rng):
    return histprop.gen(PID, tier, rng) + probe_cases()


def coq_expr(s, r):
    if isinstance(s, KCase):
        m = re.match(r"ok (\d+) (\d+) (\d+) (\d+) (true|false) (true|false)$", r.get("kobs", "") or "")
        if not m:
            return "mkv true true false false"          # the probe was refused, would have waited or panicked outside user code
        b = lambda x: "true" if x else "false"
        ok = (f"c11_kill_probe_ok {KCase.LEAVES[s.root]} {b(s.mode == 'sh')} {b(s.panic)} {m.group(1)} {m.group(2)} "
              f"{m.group(3)} {m.group(4)} {m.group(5)} {m.group(6)}")
        return f"mkv true true ({ok}) ({ok})"
    return histprop.coq_expr(PID, s, r)


def nontrivial(s, r):
    if isinstance(s, KCase):
        return s.kill
    return histprop.nontrivial(PID, s, r)


def classify(s, r):
    if isinstance(s, KCase):
        return ["family=lock-killed-by-user-code-inside-its-hold", f"root={s.root}", f"mode={s.mode}", f"flavour={s.flavour}",
                f"kill={s.kill}", f"panic={s.panic}"]
    return histprop.classify(s, r)


def signature(s):
    return s.text() if isinstance(s, KCase) else histprop.signature(s)


def to_replay(s):
    return {"case": s.text()} if isinstance(s, KCase) else common.to_replay(s)


def from_replay(j):
    sc = j.get("scenario") or j
    if "case" in sc:
        t = sc["case"].split()
        return [KCase(t[1], t[2], t[3], t[4], t[5] == "1", t[6] == "1")]
    return common.from_replay(j)
