"""Translator: rustc's own description of the public API (rustdoc JSON of /repo's working tree) -> coq/ApiTable.v.
Regenerated on every run of the C14 / C15 checks; the theorems of ApiModel / Pf_C14 / Pf_C15 are re-checked against it."""
import json
import os
import subprocess
import sys

sys.path.insert(0, os.path.dirname(os.path.abspath(__file__)))
import hl  # noqa: E402

TYPES = ["ThreadKey", "Mutex", "MutexGuard", "MutexRef", "RwLock", "RwLockReadGuard", "RwLockReadRef",
         "RwLockWriteGuard", "RwLockWriteRef", "BoxedLockCollection", "RefLockCollection", "OwnedLockCollection",
         "RetryingLockCollection", "LockGuard", "Poisonable", "PoisonGuard", "PoisonRef", "PoisonError"]
TRAITS = ["Clone", "Copy", "Default", "Deref", "DerefMut", "AsRef", "AsMut", "IntoIterator", "Drop", "Borrow", "BorrowMut",
          "Index", "IndexMut", "Extend", "LockableGetMut", "FromIterator"]
GUARDS = ["MutexGuard", "RwLockReadGuard", "RwLockWriteGuard", "LockGuard", "PoisonGuard"]
REFS = ["MutexRef", "RwLockReadRef", "RwLockWriteRef", "PoisonRef"]
ENTRY = ["raw", "new_unchecked", "guard", "data_mut", "data_ref", "read_guard", "raw_write", "raw_try_write",
         "raw_unlock_write", "raw_read", "raw_try_read", "raw_unlock_read", "try_lock_no_key", "try_read_no_key"]
ACQUIRE = ["lock", "try_lock", "read", "try_read", "write", "try_write", "scoped_lock", "scoped_try_lock",
           "scoped_read", "scoped_try_read", "scoped_write", "scoped_try_write"]


def rustdoc_json():
    tdir = os.path.join(hl.BUILD, "rustdoc")
    os.makedirs(tdir, exist_ok=True)
    env = dict(hl.ENV, CARGO_TARGET_DIR=tdir)
    cmd = ["cargo", "+nightly", "rustdoc", "--offline", "--lib", "--", "-Z", "unstable-options", "--output-format", "json",
           "--document-private-items"]
    p = subprocess.run(cmd, cwd=hl.REPO, env=env, stdout=subprocess.PIPE, stderr=subprocess.STDOUT, text=True, timeout=600)
    fn = os.path.join(tdir, "doc", "happylock.json")
    if p.returncode != 0 or not os.path.exists(fn):
        return None, p.stdout
    return json.load(open(fn)), p.stdout


def mentions(t, name):
    """does the type mention a path whose last segment is `name`"""
    if t is None:
        return False
    if isinstance(t, dict):
        if "resolved_path" in t and t["resolved_path"]["path"].split("::")[-1] == name:
            return True
        return any(mentions(v, name) for v in t.values())
    if isinstance(t, list):
        return any(mentions(v, name) for v in t)
    return False


def mentions_usable(t, name):
    """like `mentions`, but a plain shared reference `&Name` does not count: `&ThreadKey` is not Keyable and gives nothing"""
    if t is None:
        return False
    if isinstance(t, dict):
        br = t.get("borrowed_ref")
        if isinstance(br, dict) and not br.get("is_mutable") and isinstance(br.get("type"), dict) \
                and "resolved_path" in br["type"] and br["type"]["resolved_path"]["path"].split("::")[-1] == name:
            return False
        if "resolved_path" in t and t["resolved_path"]["path"].split("::")[-1] == name:
            return True
        return any(mentions_usable(v, name) for v in t.values())
    if isinstance(t, list):
        return any(mentions_usable(v, name) for v in t)
    return False


def mentions_lifetime(t, lt):
    if isinstance(t, dict):
        if t.get("lifetime") == lt:
            return True
        return any(mentions_lifetime(v, lt) for v in t.values())
    if isinstance(t, list):
        return any(mentions_lifetime(v, lt) for v in t)
    return False


def mentions_assoc(t, names):
    """does the type mention an associated type (`<X as Trait>::Name`, `L::Name`) with one of the given names"""
    if isinstance(t, dict):
        qp = t.get("qualified_path")
        if isinstance(qp, dict) and qp.get("name") in names:
            return True
        return any(mentions_assoc(v, names) for v in t.values())
    if isinstance(t, list):
        return any(mentions_assoc(v, names) for v in t)
    return False


def mentions_ref_to_generic(t, g):
    """a reference (shared or exclusive) whose referent mentions the generic parameter g"""
    if isinstance(t, dict):
        br = t.get("borrowed_ref")
        if isinstance(br, dict) and mentions_generic(br.get("type"), g):
            return True
        return any(mentions_ref_to_generic(v, g) for v in t.values())
    if isinstance(t, list):
        return any(mentions_ref_to_generic(v, g) for v in t)
    return False


def holds_by_value(t, names):
    """does a value of this type contain (own, or reach through `&mut`) a value of one of the named types; shared
    references, raw pointers, generics and associated types do not count"""
    if not isinstance(t, dict):
        return False
    if "resolved_path" in t:
        rp = t["resolved_path"]
        if rp["path"].split("::")[-1] in names:
            return True
        args = (rp.get("args") or {}).get("angle_bracketed", {}).get("args", [])
        return any(holds_by_value(a.get("type"), names) for a in args if isinstance(a, dict))
    if "borrowed_ref" in t:
        return t["borrowed_ref"]["is_mutable"] and holds_by_value(t["borrowed_ref"]["type"], names)
    if "tuple" in t:
        return any(holds_by_value(x, names) for x in t["tuple"])
    if "slice" in t:
        return holds_by_value(t["slice"], names)
    if "array" in t:
        return holds_by_value(t["array"]["type"], names)
    return False


def mentions_ref_to_named(t, names):
    """a reference (shared or exclusive) whose referent is one of the named types"""
    if isinstance(t, dict):
        br = t.get("borrowed_ref")
        if isinstance(br, dict):
            rp = br.get("type", {}).get("resolved_path") if isinstance(br.get("type"), dict) else None
            if rp and rp["path"].split("::")[-1] in names:
                return True
        return any(mentions_ref_to_named(v, names) for v in t.values())
    if isinstance(t, list):
        return any(mentions_ref_to_named(v, names) for v in t)
    return False


LOCKS = ["Mutex", "RwLock", "BoxedLockCollection", "RefLockCollection", "OwnedLockCollection", "RetryingLockCollection", "Poisonable"]


def by_value_named(t, name):
    """parameter type is exactly the named path (not behind a reference)"""
    return isinstance(t, dict) and "resolved_path" in t and t["resolved_path"]["path"].split("::")[-1] == name


def bound_names(bounds):
    return [b["trait_bound"]["trait"]["path"].split("::")[-1] for b in bounds
            if "trait_bound" in b and b["trait_bound"]["modifier"] == "none"]


def generate():
    j, log = rustdoc_json()
    if j is None:
        return None, log
    idx = j["index"]

    def item(i):
        return idx[str(i)]

    rules, timpls, fns = [], [], []
    key_public_field = False
    nonkey_public_fields = []
    keyable_impls, ownedlockable_ref = [], False
    ol_impls = []
    def field_types(v):
        inner = v["inner"]
        ids = []
        if "struct" in inner:
            kind = inner["struct"]["kind"]
            if isinstance(kind, dict) and "plain" in kind:
                ids = kind["plain"]["fields"]
            elif isinstance(kind, dict) and "tuple" in kind:
                ids = [f for f in kind["tuple"] if f is not None]
        elif "enum" in inner:
            for vid in inner["enum"]["variants"]:
                kd = item(vid)["inner"]["variant"]["kind"]
                if isinstance(kd, dict) and "tuple" in kd:
                    ids += [f for f in kd["tuple"] if f is not None]
                elif isinstance(kd, dict) and "struct" in kd:
                    ids += kd["struct"]["fields"]
        elif "union" in inner:
            ids = inner["union"]["fields"]
        return [(item(f), item(f)["inner"]["struct_field"]) for f in ids]

    def adt(v):
        inner = v["inner"]
        return inner.get("struct") or inner.get("enum") or inner.get("union")

    # every public struct / enum / union of the crate that owns a ThreadKey (a field, a variant's field, at any depth
    # through types that own one): the key's carriers, whatever they are called
    adts = {v["name"]: v for v in idx.values()
            if v.get("crate_id") == 0 and v.get("visibility") == "public" and v.get("name") and adt(v) is not None}
    key_holders = {"ThreadKey"}
    grew = True
    while grew:
        grew = False
        for n, v in adts.items():
            if n not in key_holders and any(holds_by_value(t, key_holders) for _, t in field_types(v)):
                key_holders.add(n)
                grew = True
    holder_rules = []

    def auto_rule(name, tname, im):
        bs = []
        for p in im["generics"]["params"]:
            kd = p["kind"]
            if "type" in kd:
                for b in bound_names(kd["type"]["bounds"]):
                    if b in ("Send", "Sync"):
                        bs.append(("BRaw" if p["name"] == "R" else "BParam", b))
        for w in im["generics"]["where_predicates"]:
            if "bound_predicate" in w:
                bp = w["bound_predicate"]
                ty = bp["type"]
                for b in bound_names(bp["bounds"]):
                    if b not in ("Send", "Sync"):
                        continue
                    if "generic" in ty:
                        bs.append(("BRaw" if ty["generic"] == "R" else "BParam", b))
                    elif "qualified_path" in ty and ty["qualified_path"]["name"] == "GuardMarker":
                        bs.append(("BGuardMarker", b))
                    else:
                        bs.append(("BOther", b))
        return (name, tname, im["is_negative"], im["is_synthetic"], bs)

    for name in TYPES + sorted(key_holders - set(TYPES)):
        v = adts.get(name)
        if v is None:
            continue
        extra = name not in TYPES           # a key holder outside the fixed list: auto-trait rules and trait impls only
        for fi, _ in field_types(v):
            if fi["visibility"] == "public" and "struct" in v["inner"]:
                if name == "ThreadKey":
                    key_public_field = True
                else:
                    nonkey_public_fields.append(f"{name}.{fi['name']}")
        for imp in adt(v)["impls"]:
            im = item(imp)["inner"]["impl"]
            tr = im.get("trait")
            if tr is None:
                # inherent impl: functions
                for fid in im["items"]:
                    fitem = item(fid)
                    if "function" in fitem["inner"] and not extra:
                        fns.append(fn_row(name, fitem, im))
                continue
            tname = tr["path"].split("::")[-1]
            if tname in ("Send", "Sync"):
                (holder_rules if extra else rules).append(auto_rule(name, tname, im))
            elif tname in TRAITS and im.get("blanket_impl") is None:
                # for IntoIterator distinguish the impl for a shared reference
                forty = im["for"]
                shared = "borrowed_ref" in forty and not forty["borrowed_ref"]["is_mutable"]
                timpls.append((name, tname + ("&" if shared else "")))
                for fid in im["items"]:
                    fitem = item(fid)
                    if "function" in fitem["inner"] and not extra:
                        fns.append(fn_row(name, fitem, im, trait=tname))
    # IntoIterator for &Type is an impl "for &Type": search all impls
    key_trait_impls = []
    for k, v in idx.items():
        if "impl" in v["inner"]:
            im = v["inner"]["impl"]
            tr = im.get("trait")
            if not tr:
                continue
            tname = tr["path"].split("::")[-1]
            forty = im["for"]
            # an impl of the crate whose trait is parametrised by the key: AsMut<ThreadKey>, Borrow<ThreadKey>, From<..> -> ..
            # only the traits whose methods hand out `&mut ThreadKey` or a `ThreadKey` by value: AsRef / Borrow give `&ThreadKey`
            # (not Keyable) and From<ThreadKey> consumes a key, so impls of those are harmless and are not listed
            if v.get("crate_id") == 0 and tname in ("AsMut", "BorrowMut", "Into") and mentions(tr.get("args"), "ThreadKey"):
                head = forty.get("resolved_path", {}).get("path", "?").split("::")[-1] if isinstance(forty, dict) else "?"
                key_trait_impls.append((head, tname))
            if tname == "Keyable":
                if "borrowed_ref" in forty:
                    keyable_impls.append(("&mut " if forty["borrowed_ref"]["is_mutable"] else "&") +
                                         forty["borrowed_ref"]["type"].get("resolved_path", {}).get("path", "?").split("::")[-1])
                elif "resolved_path" in forty:
                    keyable_impls.append(forty["resolved_path"]["path"].split("::")[-1])
                else:
                    keyable_impls.append("?")
            if tname == "OwnedLockable" and "borrowed_ref" in forty and not forty["borrowed_ref"]["is_mutable"]:
                ownedlockable_ref = True
            if tname == "OwnedLockable":
                # head of the implementing type, and whether every type parameter of the impl is itself OwnedLockable
                if "borrowed_ref" in forty:
                    head = "&mut" if forty["borrowed_ref"]["is_mutable"] else "&"
                elif "tuple" in forty:
                    head = "tuple"
                elif "array" in forty:
                    head = "array"
                elif "slice" in forty:
                    head = "slice"
                elif "resolved_path" in forty:
                    head = forty["resolved_path"]["path"].split("::")[-1]
                elif "generic" in forty:
                    head = "generic"
                else:
                    head = "?"
                owned = {}
                for p in im["generics"]["params"]:
                    if "type" in p["kind"]:
                        owned[p["name"]] = "OwnedLockable" in bound_names(p["kind"]["type"]["bounds"])
                for w in im["generics"]["where_predicates"]:
                    bp = w.get("bound_predicate")
                    if bp and "generic" in bp["type"] and "OwnedLockable" in bound_names(bp["bounds"]):
                        owned[bp["type"]["generic"]] = True
                ol_impls.append((head, all(owned.values())))
            if "borrowed_ref" in forty and not forty["borrowed_ref"]["is_mutable"]:
                inner = forty["borrowed_ref"]["type"]
                if "resolved_path" in inner:
                    n = inner["resolved_path"]["path"].split("::")[-1]
                    if n in TYPES and tname in ("IntoIterator",):
                        timpls.append((n, tname + "&"))
            if "borrowed_ref" in forty and forty["borrowed_ref"]["is_mutable"]:
                inner = forty["borrowed_ref"]["type"]
                if "resolved_path" in inner:
                    n = inner["resolved_path"]["path"].split("::")[-1]
                    if n in TYPES and tname in ("IntoIterator",):
                        timpls.append((n, tname + "&mut"))
    # trait methods of the public traits RawLock / Lockable / Sharable
    for k, v in idx.items():
        if "trait" in v["inner"] and v.get("name") in ("RawLock", "Lockable", "Sharable"):
            for fid in v["inner"]["trait"]["items"]:
                fitem = item(fid)
                if "function" in fitem["inner"]:
                    fns.append(fn_row(v["name"], fitem, None, trait=v["name"], trait_public=(v["visibility"] == "public")))
    # Keyable sealed: its supertrait Sealed is not nameable from outside (private module)
    sealed = False
    for k, v in idx.items():
        if "trait" in v["inner"] and v.get("name") == "Keyable":
            for b in v["inner"]["trait"]["bounds"]:
                if "trait_bound" in b:
                    sid = str(b["trait_bound"]["trait"]["id"])
                    sup = idx.get(sid)
                    path = j["paths"].get(sid, {}).get("path", [])
                    # the supertrait lives in a module that is not public: crate::key::sealed::Sealed with `mod key;` private
                    if sup is not None and sup.get("name") == "Sealed":
                        sealed = not all_public(idx, j, sid)
    return render(rules, timpls, fns, key_public_field, nonkey_public_fields, sorted(set(keyable_impls)), sealed,
                  ownedlockable_ref, sorted(set(ol_impls)), sorted(key_holders), holder_rules, sorted(set(key_trait_impls))), log


def all_public(idx, j, sid):
    """is the item reachable through public modules only (path of `pub` modules from the crate root)?"""
    path = j["paths"].get(sid, {}).get("path", [])
    # walk the module tree from the root
    root = idx[str(j["root"])]
    cur = root
    for seg in path[1:-1]:
        nxt = None
        for cid in cur["inner"]["module"]["items"]:
            c = idx.get(str(cid))
            if c and c.get("name") == seg and "module" in c["inner"]:
                nxt = c
                break
        if nxt is None or nxt["visibility"] != "public":
            return False
        cur = nxt
    return True


def fn_row(owner, fitem, im, trait=None, trait_public=True):
    f = fitem["inner"]["function"]
    sig = f["sig"]
    self_lt = None
    mut_self = False
    shared_self = False
    key_val = keyable_val = guard_val = False
    closure_escapes = False
    for pname, pty in sig["inputs"]:
        if pname == "self" and isinstance(pty, dict) and "borrowed_ref" in pty:
            self_lt = pty["borrowed_ref"].get("lifetime")
            mut_self = bool(pty["borrowed_ref"].get("is_mutable"))
            shared_self = not mut_self
    generic_keyable = set()
    for p in f["generics"]["params"]:
        kd = p["kind"]
        if "type" in kd and "Keyable" in bound_names(kd["type"]["bounds"]):
            generic_keyable.add(p["name"])
    for pname, pty in sig["inputs"]:
        if by_value_named(pty, "ThreadKey"):
            key_val = True
        if isinstance(pty, dict) and "impl_trait" in pty and "Keyable" in bound_names(pty["impl_trait"]):
            keyable_val = True
        if isinstance(pty, dict) and pty.get("generic") in generic_keyable:
            keyable_val = True
        if any(by_value_named(pty, g) for g in GUARDS):
            guard_val = True
        # a closure parameter whose argument type mentions the lifetime of `self` (no higher-ranked binder)
        if isinstance(pty, dict) and "impl_trait" in pty:
            for b in pty["impl_trait"]:
                tb = b.get("trait_bound")
                if tb and tb["trait"]["path"] in ("Fn", "FnOnce", "FnMut") and tb["trait"]["args"]:
                    ins = tb["trait"]["args"].get("parenthesized", {}).get("inputs", [])
                    if self_lt and not tb["generic_params"] and any(mentions_lifetime(x, self_lt) for x in ins):
                        closure_escapes = True
    out = sig["output"]
    vis = fitem["visibility"]
    public = (vis == "public") or (vis == "default" and trait is not None and trait_public)
    returns_shared_child = isinstance(out, dict) and "borrowed_ref" in out and not out["borrowed_ref"]["is_mutable"] \
        and "generic" in out["borrowed_ref"]["type"]
    return dict(owner=owner, name=fitem["name"], public=public, unsafe=f["header"]["is_unsafe"], key_val=key_val,
                keyable_val=keyable_val, guard_val=guard_val, returns_key=mentions_usable(out, "ThreadKey") or
                (isinstance(out, dict) and any(mentions_generic(out, g) for g in generic_keyable)),
                returns_guard=any(mentions(out, g) for g in GUARDS), closure_escapes=closure_escapes,
                returns_shared_child=returns_shared_child, mut_self=mut_self,
                # through `&self`: a reference to the payload, a guard, or the guard / data structure of a Lockable
                shared_self_returns_data=shared_self and ((owner in ("Mutex", "RwLock") and mentions_ref_to_generic(out, "T")) or
                                                          any(mentions(out, g) for g in GUARDS + REFS) or
                                                          mentions_assoc(out, ("Guard", "DataMut", "ReadGuard", "DataRef"))),
                # a reference to a lock / collection / wrapper itself (not to its payload)
                returns_lock_ref=mentions_ref_to_named(out, LOCKS),
                trait=trait or "")


def mentions_generic(t, g):
    if isinstance(t, dict):
        if t.get("generic") == g:
            return True
        return any(mentions_generic(v, g) for v in t.values())
    if isinstance(t, list):
        return any(mentions_generic(v, g) for v in t)
    return False


def cb(b):
    return "true" if b else "false"


def render(rules, timpls, fns, key_public_field, nonkey_public_fields, keyable_impls, sealed, ownedlockable_ref, ol_impls,
           key_holders, holder_rules, key_trait_impls):
    o = ["(* GENERATED by tools/apitable.py from the rustdoc JSON of /repo's working tree — do not edit. *)",
         "From Coq Require Import List String Bool.", "Import ListNotations.", "Open Scope string_scope.", "",
         "Inductive marker := MSend | MSync.",
         "Inductive bound := BParam (m : marker) | BRaw (m : marker) | BGuardMarker (m : marker) | BOther (m : marker).",
         "Record autorule := mkrule { r_ty : string; r_marker : marker; r_negative : bool; r_synthetic : bool; r_bounds : list bound }.",
         "Record fnrow := mkfn { fn_owner : string; fn_name : string; fn_trait : string; fn_public : bool; fn_unsafe : bool;",
         "  fn_key_val : bool; fn_keyable_val : bool; fn_guard_val : bool; fn_returns_key : bool; fn_returns_guard : bool;",
         "  fn_closure_escapes : bool; fn_returns_shared_child : bool; fn_mut_self : bool; fn_shared_self_returns_data : bool;",
         "  fn_returns_lock_ref : bool }.", ""]
    o.append("Definition auto_rules : list autorule := [")
    rl = []
    for name, tr, neg, syn, bs in sorted(rules):
        bl = "; ".join(f"{k} M{b}" for k, b in bs)
        rl.append(f'  mkrule "{name}" M{tr} {cb(neg)} {cb(syn)} [{bl}]')
    o.append(";\n".join(rl))
    o.append("].\n")
    o.append("(* every public struct / enum of the crate that owns a ThreadKey (computed from the field types, private fields included) *)")
    o.append("Definition key_holders : list string := [" + "; ".join(f'"{x}"' for x in key_holders) + "].")
    o.append("(* Send / Sync impls of the key holders that are not in the fixed list of types above *)")
    o.append("Definition holder_rules : list autorule := [")
    o.append(";\n".join(f'  mkrule "{name}" M{tr} {cb(neg)} {cb(syn)} [{"; ".join(f"{k} M{b}" for k, b in bs)}]'
                         for name, tr, neg, syn, bs in sorted(holder_rules)))
    o.append("].\n")
    o.append("(* impls of the crate of AsMut<ThreadKey>, BorrowMut<ThreadKey>, Into<ThreadKey>: (type, trait) *)")
    o.append("Definition key_trait_impls : list (string * string) := [" + "; ".join(f'("{a}", "{b}")' for a, b in key_trait_impls) + "].")
    o.append("Definition trait_impls : list (string * string) := [")
    o.append(";\n".join(f'  ("{a}", "{b}")' for a, b in sorted(set(timpls))))
    o.append("].\n")
    o.append("Definition fns : list fnrow := [")
    fl = []
    seen = set()
    for f in sorted(fns, key=lambda x: (x["owner"], x["name"], x["trait"])):
        key = (f["owner"], f["name"], f["trait"])
        if key in seen:
            continue
        seen.add(key)
        fl.append(f'  mkfn "{f["owner"]}" "{f["name"]}" "{f["trait"]}" {cb(f["public"])} {cb(f["unsafe"])} {cb(f["key_val"])} '
                  f'{cb(f["keyable_val"])} {cb(f["guard_val"])} {cb(f["returns_key"])} {cb(f["returns_guard"])} '
                  f'{cb(f["closure_escapes"])} {cb(f["returns_shared_child"])} {cb(f["mut_self"])} {cb(f["shared_self_returns_data"])} {cb(f["returns_lock_ref"])}')
    o.append(";\n".join(fl))
    o.append("].\n")
    o.append(f"Definition key_has_public_field : bool := {cb(key_public_field)}.")
    o.append("Definition public_fields : list string := [" + "; ".join(f'"{x}"' for x in nonkey_public_fields) + "].")
    o.append("Definition keyable_impls : list string := [" + "; ".join(f'"{x}"' for x in keyable_impls) + "].")
    o.append(f"Definition keyable_sealed : bool := {cb(sealed)}.")
    o.append(f"Definition ownedlockable_for_shared_ref : bool := {cb(ownedlockable_ref)}.")
    o.append("(* every `impl OwnedLockable for ..`: head of the implementing type, are all its type parameters OwnedLockable *)")
    o.append("Definition ownedlockable_impls : list (string * bool) := [" +
             "; ".join(f'("{h}", {cb(b)})' for h, b in ol_impls) + "].")
    return "\n".join(o) + "\n"


if __name__ == "__main__":
    txt, log = generate()
    if txt is None:
        print(log[-3000:])
        sys.exit(2)
    out = sys.argv[1] if len(sys.argv) > 1 else os.path.join(hl.COQ, "ApiTable.v")
    old = open(out).read() if os.path.exists(out) else None
    if old != txt:
        open(out, "w").write(txt)
    print("ApiTable.v", "unchanged" if old == txt else "rewritten", len(txt), "bytes")
