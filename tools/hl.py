"""Shared machinery of the happylock checks: scenario representation (-> harness text, -> Gallina term),
building Coq and the Rust harness from the current trees, running both sides, evidence and verdicts."""
import hashlib
import json
import os
import re
import subprocess
import sys
import time
from concurrent.futures import ThreadPoolExecutor
from dataclasses import dataclass, field

VERIF = os.path.dirname(os.path.dirname(os.path.abspath(__file__)))
REPO = os.environ.get("HL_REPO", "/repo")
BUILD = os.path.join(VERIF, "build")
COQ = os.path.join(VERIF, "coq")
NPROC = min(16, os.cpu_count() or 4)
ENV = dict(os.environ, CARGO_NET_OFFLINE="true")


def sh(cmd, cwd=None, timeout=None, env=None):
    p = subprocess.run(cmd, cwd=cwd, shell=isinstance(cmd, str), stdout=subprocess.PIPE, stderr=subprocess.STDOUT,
                       timeout=timeout, env=env or ENV, text=True)
    return p.returncode, p.stdout


# ------------------------------------------------------------------------------------------ scenarios
@dataclass
class Scen:
    sid: str
    kinds: list                      # 'M' / 'R' per lock
    defs: list                       # (cid, ("leaf", l) | ("poison", pid, inner) | (kind, uid, ctor, cont, [members]))
    hist: list = field(default_factory=list)   # (tid, op) with op a tuple, see op_text / op_coq
    pre: list = field(default_factory=list)    # (lock, 'w', tid) | (lock, 'r', [tids])
    f1: list = field(default_factory=list)
    fp: list = field(default_factory=list)     # (lock, 'OLock' ...)
    unw: list = field(default_factory=list)    # threads that run inside a destructor while already unwinding
    probes: list = field(default_factory=list)  # (tid, op) run after the history, judged on the implementation only
    fuel: int = 8
    npids: int = 0
    nuids: int = 0
    sched: object = None             # None | ("rp"|"wp", [tids]) with progs in self.progs
    progs: list = field(default_factory=list)  # Level B: (tid, [ops])
    ra: bool = False                 # Level B: runs of releases of one thread are atomic (second comparison)
    yr: bool = False                 # Level B: a thread pauses after every release (extra scheduling point)
    meta: dict = field(default_factory=dict)

    # ---- harness text
    def text(self):
        o = [f"scen {self.sid}", "locks " + " ".join(self.kinds), f"npids {self.npids}", f"nuids {self.nuids}"]
        for cid, d in self.defs:
            if d[0] == "leaf":
                o.append(f"def {cid} leaf {d[1]}")
            elif d[0] == "poison":
                o.append(f"def {cid} poison {d[1]} {d[2]}")
            else:
                kind, uid, ctor, cont, mem = d
                o.append(f"def {cid} {kind} {'-' if uid is None else uid} {ctor} {cont} " + " ".join(map(str, mem)))
        for p in self.pre:
            if p[1] == "w":
                o.append(f"pre {p[0]} w {p[2]}")
            else:
                o.append(f"pre {p[0]} r " + " ".join(map(str, p[2])))
        if self.f1:
            o.append("f1 " + " ".join(map(str, self.f1)))
        if self.fp:
            o.append("fp " + " ".join(f"{l} {k}" for l, k in self.fp))
        if self.unw:
            o.append("unw " + " ".join(map(str, self.unw)))
        if self.ra:
            o.append("ra")
        if self.yr and not self.ra:
            o.append("yr")
        if self.sched:
            o.append(f"mode sched {self.sched[0]} " + " ".join(map(str, self.sched[1])))
            if len(self.sched) > 2 and self.sched[2]:
                o.append("pct " + " ".join(map(str, self.sched[2][0])) + " c " + " ".join(map(str, self.sched[2][1])))
            for t, ops in self.progs:
                for op in ops:
                    o.append(f"p {t} " + op_text(op))
        for t, op in self.hist:
            o.append(f"h {t} " + op_text(op))
        for t, op in self.probes:
            o.append(f"q {t} " + op_text(op))
        o.append("end")
        return "\n".join(o)

    # ---- Gallina
    def shape(self, cid):
        d = dict(self.defs)[cid]
        if d[0] == "leaf":
            return f"SLeaf {'KMutex' if self.kinds[d[1]] == 'M' else 'KRw'} {d[1]}"
        if d[0] == "poison":
            return f"SPoison {d[1]} ({self.shape(d[2])})"
        kind, uid, ctor, cont, mem = d
        inner = "SSeq [" + "; ".join(self.shape(m) for m in mem) + "]"
        if kind == "boxed":
            return f"SBoxed ({inner})"
        if kind == "ref":
            return f"SRefC ({inner})"
        if kind == "retry":
            return f"SRetry ({inner})"
        if kind == "owned":
            return f"SOwned {uid} ({inner})"
        raise ValueError(kind)

    def coq(self, laddr, uaddr):
        n = max([c for c, _ in self.defs], default=-1) + 1
        have = dict(self.defs)
        colls = "; ".join(self.shape(c) if c in have else "SSeq []" for c in range(n))
        pre = "; ".join(
            f"({p[0]}, mkraw (Some {p[2]}) [])" if p[1] == "w" else f"({p[0]}, mkraw None [{'; '.join(map(str, p[2]))}])"
            for p in self.pre)
        fp = "; ".join(f"({l}, {k})" for l, k in self.fp)
        hist = "; ".join(f"({t}, {op_coq(op)})" for t, op in self.hist)
        return (f"mks {len(self.kinds)} {self.npids} [{'; '.join(map(str, laddr))}] [{'; '.join(map(str, uaddr))}] "
                f"[{colls}] [{pre}] [{'; '.join(map(str, self.f1))}] [{fp}] {self.fuel} [{hist}]")


def scen_coq_b(self, laddr, uaddr):
    """Level B: mkbs (scenario without history) wp [programs by thread id]"""
    saved = self.hist
    self.hist = []
    base = self.coq(laddr, uaddr)
    self.hist = saved
    progs = dict(self.progs)
    n = max(progs) + 1 if progs else 0
    pl = "; ".join("[" + "; ".join(op_coq(o) for o in progs.get(t, [])) + "]" for t in range(n))
    wp = 'true' if self.sched and self.sched[0] == 'wp' else 'false'
    if self.yr and not self.ra:
        return f"mkbs4 ({base}) {wp} true [{pl}]"
    return f"mkbs ({base}) {wp} [{pl}]"


Scen.coq_b = scen_coq_b


def bobs_coq(line):
    """harness 'bobs' line -> Gallina bobs"""
    st, evs, holds, psn = [x.strip() for x in line.split(" | ")]
    status = {"done": "BDone", "deadlock": "BDeadlock", "selfwait": "BSelfWait"}[st]
    return f"mkbo {status} {evs} {holds} {psn}"


def cs_text(c):
    return {"r": f"r{c[1]}", "w": f"w{c[1]}", "panic": "panic", "probe": "probe"}[c[0]] if c[0] in ("r", "w") else c[0]


def cs_coq(c):
    return {"r": "CRead", "w": "CWrite"}[c[0]] + f" {c[1]}" if c[0] in ("r", "w") else {"panic": "CPanic", "probe": "CProbe"}[c[0]]


def op_text(op):
    k = op[0]
    if k == "acq":
        _, c, m, fl = op[:4]
        s = f"acq {c} {m} {fl}"
        if fl in ("scoped", "scopedtry"):
            s += " " + ("lent" if op[4] else "owned") + " " + " ".join(cs_text(c_) for c_ in op[5])
        return s.strip()
    if k in ("gread", "gwrite", "ispoisoned", "clear", "fmt"):
        return f"{k} {op[1]}"
    if k in ("fmtfail", "fmtpanic"):
        return f"{k} {op[1]} {op[2]}"
    return k


def op_coq(op):
    k = op[0]
    if k == "acq":
        _, c, m, fl = op[:4]
        mm = "Sh" if m == "sh" else "Ex"
        if fl == "guard":
            f = "FGuard"
        elif fl == "try":
            f = "FTry"
        else:
            body = "[" + "; ".join(cs_coq(c_) for c_ in op[5]) + "]"
            f = f"({'FScoped' if fl == 'scoped' else 'FScopedTry'} {'true' if op[4] else 'false'} {body})"
        return f"AAcquire {c} {mm} {f}"
    simple = {"get": "AKeyGet", "kdrop": "AKeyDrop", "kforget": "AKeyForget", "gdrop": "AGuardDrop",
              "gunlock": "AGuardUnlock", "gforget": "AGuardForget", "panic": "APanic"}
    if k in simple:
        return simple[k]
    arg = {"gread": "AGuardRead", "gwrite": "AGuardWrite", "ispoisoned": "AIsPoisoned", "clear": "AClearPoison",
           "fmt": "AFmt"}
    return f"{arg[k]} {op[1]}"


# ------------------------------------------------------------------------------------------ builds
import contextlib
import fcntl


@contextlib.contextmanager
def file_lock(name):
    """checks of different properties may be started side by side: builds of the shared Coq development and of the
    harness (and the regeneration of coq/ApiTable.v) are serialised"""
    os.makedirs(BUILD, exist_ok=True)
    with open(os.path.join(BUILD, name), "w") as f:
        fcntl.flock(f, fcntl.LOCK_EX)
        try:
            yield
        finally:
            fcntl.flock(f, fcntl.LOCK_UN)


def build_harness():
    """build the driver against /repo's current working tree; returns (ok, log, path)"""
    t0 = time.time()
    hdir = os.path.join(VERIF, "harness")
    tdir = os.path.join(BUILD, "harness")
    os.makedirs(tdir, exist_ok=True)
    # the lock file of the repository pins the registry versions available offline
    lock_src = os.path.join(REPO, "Cargo.lock")
    if os.path.exists(lock_src) and not os.path.exists(os.path.join(hdir, "Cargo.lock")):
        subprocess.run(["cp", lock_src, os.path.join(hdir, "Cargo.lock")])
    env = dict(ENV, CARGO_TARGET_DIR=tdir, HL_REPO=REPO)
    with file_lock(".build.lock"):
        rc, out = sh(["cargo", "build", "--offline", "--quiet"], cwd=hdir, timeout=900, env=env)
    return rc == 0, out, os.path.join(tdir, "debug", "hl-driver"), time.time() - t0


def build_coq(targets):
    """full .vo build of the targets (and what they depend on); returns (ok, log)"""
    if not os.path.exists(os.path.join(COQ, "Makefile")):
        rc, out = sh("coq_makefile -f _CoqProject -o Makefile", cwd=COQ, timeout=60)
        if rc != 0:
            return False, out
    with file_lock(".build.lock"):
        rc, out = sh(["make", f"-j{NPROC}"] + targets, cwd=COQ, timeout=3000)
    return rc == 0, out


def coqchk(module, timeout=900):
    """independent re-check of the compiled module and everything it depends on (coqchk -o); returns (ok, summary)"""
    rc, out = sh(["coqchk", "-silent", "-o", "-Q", COQ, "HL", f"HL.{module}"], cwd=COQ, timeout=timeout)
    m = re.search(r"\* Axioms:\s*(.*?)\n\s*\n", out, flags=re.S)
    ax = re.sub(r"\s+", " ", m.group(1)).strip() if m else None
    clean = rc == 0 and ax == "<none>" and all(f"{k}: <none>" in re.sub(r"\s+", " ", out) for k in
                                               ("type-in-type", "unsafe (co)fixpoints", "positivity is assumed"))
    return clean, (f"coqchk -o HL.{module}: Axioms: {ax}" if rc == 0 else f"coqchk failed ({rc}): {out[-600:]}")


FORBIDDEN = re.compile(r"\b(Admitted|admit|Axiom|Axioms|Parameter|Parameters|Conjecture|Conjectures|bypass_check)\b"
                       r"|Unset Guard|Unset Positivity|Unset Universe|Admit Obligations|type-in-type|impredicative-set")
SECTION_ONLY = re.compile(r"^\s*(Variable|Variables|Hypothesis|Hypotheses|Context)\b")


def scan_forbidden():
    """no admitted proofs, no declared axioms, no switched-off checks anywhere in the development;
    Variable / Hypothesis / Context only inside a Section"""
    bad = []
    files = [os.path.join(COQ, f) for f in sorted(os.listdir(COQ)) if f.endswith(".v")] + [os.path.join(COQ, "_CoqProject")]
    for path in files:
        txt = open(path).read()
        txt = re.sub(r"\(\*.*?\*\)", "", txt, flags=re.S)
        depth = 0
        for i, line in enumerate(txt.split("\n")):
            if re.match(r"^\s*Section\b", line):
                depth += 1
            elif re.match(r"^\s*End\b", line) and depth > 0:
                depth -= 1
            if FORBIDDEN.search(line) or (SECTION_ONLY.match(line) and depth == 0):
                bad.append(f"{os.path.basename(path)}:{i + 1}: {line.strip()}")
    return bad


def print_assumptions(prop_module, theorems):
    """compile a fresh file that prints the assumptions of each property theorem; returns {thm: text}"""
    d = os.path.join(BUILD, "assum")
    os.makedirs(d, exist_ok=True)
    fn = os.path.join(d, f"Assum_{prop_module}.v")
    with open(fn, "w") as f:
        f.write(f"From HL Require Import {prop_module}.\n")
        for t in theorems:
            f.write(f'Goal True. idtac "@@ {t}". Abort.\nPrint Assumptions {t}.\n')
    rc, out = sh(["coqc", "-Q", COQ, "HL", fn], cwd=d, timeout=600)
    res = {}
    if rc != 0:
        return None, out
    for chunk in out.split("@@ ")[1:]:
        name, _, rest = chunk.partition("\n")
        res[name.strip()] = rest.strip()
    return res, out


# ------------------------------------------------------------------------------------------ running
def chunks(lst, n):
    k = max(1, (len(lst) + n - 1) // n)
    return [lst[i:i + k] for i in range(0, len(lst), k)]


def run_harness(driver, scens, tag, timeout=600):
    """run the scenarios, sharded; returns {sid: {"adr": ([..],[..]), "ctor": {cid: bool}, "obs": [str], ...}}"""
    d = os.path.join(BUILD, "run", tag)
    os.makedirs(d, exist_ok=True)
    shards = chunks(scens, NPROC)

    def one(i):
        fn = os.path.join(d, f"in_{i}.txt")
        with open(fn, "w") as f:
            f.write("\n".join(s.text() for s in shards[i]) + "\n")
        try:
            p = subprocess.run([driver, fn], stdout=subprocess.PIPE, stderr=subprocess.PIPE, timeout=timeout, text=True)
            return p.returncode, p.stdout, p.stderr
        except subprocess.TimeoutExpired as e:
            return -9, (e.stdout or b"").decode() if isinstance(e.stdout, bytes) else (e.stdout or ""), "timeout"

    res = {}
    errors = []
    with ThreadPoolExecutor(NPROC) as ex:
        outs = list(ex.map(one, range(len(shards))))
    for i, (rc, out, err) in enumerate(outs):
        cur = None
        for line in out.split("\n"):
            if line.startswith("vobs "):
                parts = line.split(" ", 2)
                res[parts[1]] = {"adr": ([], []), "ctor": {}, "obs": [parts[2]], "done": True, "error": None, "sched": None,
                                 "bobs": None, "vobs": parts[2]}
                continue
            if line.startswith("pkobs "):
                parts = line.split(" ", 2)
                res[parts[1]] = {"adr": ([], []), "ctor": {}, "obs": [parts[2]], "done": True, "error": None, "sched": None,
                                 "bobs": None, "pkobs": parts[2]}
                continue
            if line.startswith("kobs "):
                parts = line.split(" ", 2)
                res[parts[1]] = {"adr": ([], []), "ctor": {}, "obs": [parts[2]], "done": True, "error": None, "sched": None,
                                 "bobs": None, "kobs": parts[2]}
                continue
            if line.startswith("qobs "):
                parts = line.split(" ", 2)
                res[parts[1]] = {"adr": ([], []), "ctor": {}, "obs": [parts[2]], "done": True, "error": None, "sched": None,
                                 "bobs": None, "qobs": parts[2]}
                continue
            if line.startswith("tobs "):
                parts = line.split(" ", 2)
                res[parts[1]] = {"adr": ([], []), "ctor": {}, "obs": [parts[2]], "done": True, "error": None, "sched": None,
                                 "bobs": None, "tobs": parts[2]}
                continue
            if line.startswith("scen "):
                cur = {"adr": None, "ctor": {}, "obs": [], "done": False, "error": None, "sched": None, "bobs": None}
                res[line[5:].strip()] = cur
            elif cur is None:
                continue
            elif line.startswith("adr "):
                a, _, b = line[4:].partition("|")
                cur["adr"] = ([int(x) for x in a.split()], [int(x) for x in b.split()])
            elif line.startswith("ctor "):
                _, c, v = line.split()
                cur["ctor"][int(c)] = (v == "some")
            elif line.startswith("obs "):
                cur["obs"].append(line[4:])
            elif line.startswith("pobs "):
                cur.setdefault("pobs", []).append(line[5:])
            elif line.startswith("sched "):
                cur["sched"] = [int(x) for x in line[6:].split()]
            elif line.startswith("bobs "):
                cur["bobs"] = line[5:]
            elif line.startswith("error "):
                cur["error"] = line[6:]
            elif line.startswith("done"):
                cur["done"] = True
        if rc != 0:
            errors.append((i, rc, err[-2000:]))
            # the driver process died (abort, double free, stack overflow, watchdog): the first scenario of this shard
            # without a completed result is the one it died in
            for sc_ in shards[i]:
                r_ = res.get(sc_.sid)
                if r_ is None or not r_.get("done"):
                    res[sc_.sid] = {"adr": None, "ctor": {}, "obs": [], "done": False, "error": None, "sched": None,
                                    "bobs": None, "crashed": f"driver process ended with status {rc} while running this scenario"}
                    break
    return res, errors


COQ_HDR = """From HL Require Import Base Model Shape Algo Api Check {mods}.
Set Printing Width 1000000.
Set Printing Depth 1000000.
Unset Printing Records.
"""


def run_coq_cases(tag, mods, items, timeout=1200, preamble=""):
    """items: list of (key, gallina_expr); evaluates each with vm_compute; returns {key: printed value}"""
    d = os.path.join(BUILD, "cases", tag)
    os.makedirs(d, exist_ok=True)
    # at most 300 cases per file (and at least NPROC files): many short coqc runs balance better over the cores than NPROC
    # long ones, and none of them comes near the per-file time limit when the machine is shared with other runs
    shards = chunks(items, max(NPROC, (len(items) + 299) // 300))

    def one(i):
        fn = os.path.join(d, f"cases_{i}.v")
        with open(fn, "w") as f:
            f.write(COQ_HDR.format(mods=" ".join(mods)) + preamble)
            for key, expr in shards[i]:
                f.write(f'Goal True. idtac "@@{key}". Abort.\nEval vm_compute in ({expr}).\n')
        rc, out = sh(["coqc", "-noglob", "-Q", COQ, "HL", fn], cwd=d, timeout=timeout)
        return rc, out

    res = {}
    errors = []
    with ThreadPoolExecutor(NPROC) as ex:
        outs = list(ex.map(one, range(len(shards))))
    for i, (rc, out) in enumerate(outs):
        if rc != 0:
            errors.append((i, out[-3000:]))
        for chunk in out.split("@@")[1:]:
            key, _, rest = chunk.partition("\n")
            m = re.search(r"=\s*(.*?)\n\s*:\s", rest + "\n : ", flags=re.S)
            res[key.strip()] = re.sub(r"\s+", " ", m.group(1)).strip() if m else None
    return res, errors


def parse_verdict(s):
    """'mkv true true false true' -> (True, True, False, True)"""
    m = re.search(r"mkv (true|false) (true|false) (true|false) (true|false)", s or "")
    if not m:
        return None
    return tuple(x == "true" for x in m.groups())


def parse_extras(s):
    """'(mkv ..., true, false)' -> [True, False]: the booleans that follow the verdict"""
    m = re.search(r"mkv (?:true|false) (?:true|false) (?:true|false) (?:true|false)((?:\s*,\s*(?:true|false))*)\s*\)?\s*$", s or "")
    if not m:
        return []
    return [x == "true" for x in re.findall(r"true|false", m.group(1))]


def parse_covered(s):
    """'(mkv ..., true)' -> True: the scenario meets the decidable hypotheses of the whole-history theorem"""
    m = re.search(r",\s*(true|false)\s*\)\s*$", s or "")
    return None if not m else m.group(1) == "true"


# ------------------------------------------------------------------------------------------ evidence / verdicts
def write_evidence(pid, ev):
    os.makedirs(os.path.join(VERIF, "evidence"), exist_ok=True)
    with open(os.path.join(VERIF, "evidence", f"{pid}.json"), "w") as f:
        json.dump(ev, f, indent=1)


def write_replay(pid, payload):
    os.makedirs(os.path.join(VERIF, "replays"), exist_ok=True)
    h = hashlib.sha1(json.dumps(payload, sort_keys=True).encode()).hexdigest()[:10]
    fn = os.path.join(VERIF, "replays", f"{pid}-{h}.json")
    with open(fn, "w") as f:
        json.dump(payload, f, indent=1)
    return fn


def load_known():
    """known_findings.txt: 'known: property=Cxx class=<name> ...' and 'fixed: ...' lines"""
    known = {}
    fn = os.path.join(VERIF, "known_findings.txt")
    if os.path.exists(fn):
        for line in open(fn):
            m = re.match(r"known:\s+property=(C\d+)\s+class=(\S+)\s+(.*)", line.strip())
            if m:
                known.setdefault(m.group(1), {})[m.group(2)] = m.group(3)
    return known
