"""C07 — duplicate-lock detection of the checked constructors is exact."""
import re

import common
import shapes

COQ_MODULE = "Prop_C07"
THEOREMS = ["C07_sorting_exact", "C07_retry_exact", "C07_monitor"]
CASE_MODULES = ["Monitors"]
STATIC_CORPUS = "C07"
CHECK_WITHOUT_PROOF = True
TRUSTED = common.TRUSTED_COMMON
ASSUMPTIONS = common.ASSUME_COMMON + [
    "the compile-time half (new / new_ref accepted only for OwnedLockable inputs) is decided by the rustc corpus of C15"]
RULE = ("member lists of length 0..6 over up to 5 free-standing leaves plus nested boxed / ref / retrying / owned / "
        "poisonable members; a duplicate pair planted at every pair of positions (same member twice, or a member next "
        "to a nested collection / wrapper containing it) and duplicate-free twins; constructor kinds boxed / ref / "
        "retrying x containers Vec / Box<[T]> / array / tuple; non-trivial = list contains a duplicate or a nested "
        "member; distinct = distinct (kind, container, member description list)")
EXHAUSTIVE = {"quick": False, "thorough": False}


class RCase:
    """the same container handed to a checked constructor twice, its slots overwritten in between (harness/src/packed.rs,
    `reuse-` lines): each answer is decided by the listing of that moment"""

    def __init__(self, sid, kind, l1, l2):
        self.sid, self.kind, self.l1, self.l2 = sid, kind, l1, l2
        self.hist, self.meta, self.sched = [], {}, None

    def text(self):
        return f"pk {self.sid} reuse-{self.kind} {' '.join(map(str, self.l1))} / {' '.join(map(str, self.l2))}"


def reuse_cases(rng, n):
    out = []
    for i in range(n):
        k = rng.randint(1, 5)
        def listing():
            l = rng.sample(range(8), k)
            if k >= 2 and rng.random() < 0.5:
                l[rng.randrange(k)] = l[rng.randrange(k)]          # may plant a repetition
            return l
        out.append(RCase(f"c07r_{i}", rng.choice(["boxed", "ref", "retry"]), listing(), listing()))
    return out


def universe(rng, b):
    # one universe in eight is large: sorting, the adjacent-duplicate scan and the hash set over 8-12 locks
    big = rng.random() < 0.125
    ls = [b.leaf(rng.choice("MR")) for _ in range(rng.randint(8, 12) if big else rng.randint(2, 5))]
    cands = list(ls)
    contains = {c: {c} for c in ls}     # candidate -> set of leaf cids it reaches
    for kind in ("boxed", "ref", "retry"):
        if rng.random() < 0.7:
            sub = rng.sample(ls, rng.randint(0, min(3, len(ls))))
            c = b.coll(kind, sub)
            cands.append(c)
            contains[c] = set(sub)
    if rng.random() < 0.6:
        own = [b.leaf(rng.choice("MR")) for _ in range(rng.randint(0, 2))]
        c = b.coll("owned", own)
        cands.append(c)
        contains[c] = {("u", c)}
    if rng.random() < 0.6:
        c = b.poison(b.leaf(rng.choice("MR")))
        cands.append(c)
        contains[c] = {("p", c)}
    if rng.random() < 0.4 and len(ls) >= 2:
        sub = rng.sample(ls, 2)
        c = b.poison(b.coll(rng.choice(["boxed", "retry"]), sub))
        cands.append(c)
        contains[c] = set(sub)
    if rng.random() < 0.4 and len(cands) > len(ls):
        # depth 2: a collection containing a nested collection
        inner = rng.choice(cands[len(ls):])
        c = b.coll(rng.choice(["boxed", "ref", "retry"]), [inner])
        cands.append(c)
        contains[c] = set(contains[inner])
    return cands, contains


def gen(tier, rng):
    n = 2500 if tier == "quick" else 30000
    scens = []
    for i in range(n):
        b = shapes.B(f"c07_{i}")
        cands, contains = universe(rng, b)
        def pick():
            size = rng.randint(0, 6) if len(cands) < 8 else rng.randint(5, 12)
            want_dup = size >= 2 and rng.random() < 0.5
            members = []
            used = set()
            pool = list(cands)
            rng.shuffle(pool)
            for c in pool:
                if len(members) >= size:
                    break
                if contains[c] & used:
                    continue
                members.append(c)
                used |= contains[c]
            planted = None
            if want_dup and len(members) >= 1:
                i0 = rng.randrange(len(members))
                victim = members[i0]
                # something that reaches a lock of the victim: the victim itself, or another candidate overlapping it
                overlapping = [c for c in cands if contains[c] & contains[victim]]
                if overlapping:
                    dup = rng.choice(overlapping)
                    j = rng.randrange(len(members) + 1)
                    members.insert(j, dup)
                    planted = (i0, j)
            return members, planted
        # half of the scenarios: an earlier checked construction over the same locks, on the same thread (accepted or
        # rejected): the answer of the second one must not depend on it
        pre = None
        if rng.random() < 0.5:
            pm, pp = pick()
            pk = rng.choice(["boxed", "ref", "retry"])
            pre = (b.coll(pk, pm, cont=rng.choice(shapes.CONTS), ctor="try"), pk, pm, pp)
        members, planted = pick()
        kind = rng.choice(["boxed", "ref", "retry"])
        cont = rng.choice(shapes.CONTS)
        t = b.coll(kind, members, cont=cont, ctor="try")
        s = b.scen(meta={"kind": kind, "tested": t, "members": members, "planted": planted, "pre": pre,
                         "desc": (b.desc[pre[0]] + " then " if pre else "") + b.desc[t],
                         "nested": any(c not in b.leaf_of for c in members)})
        scens.append(s)
    return scens + reuse_cases(rng, 150 if tier == "quick" else 3000)


def one_expr(s, r, t, kind, members):
    inner = "SSeq [" + "; ".join(s.shape(m) for m in members) + "]"
    la, ua = r["adr"]
    return (f"check_C07 {'false' if kind == 'retry' else 'true'} [{'; '.join(map(str, la))}] "
            f"[{'; '.join(map(str, ua))}] ({inner}) {'true' if r['ctor'][t] else 'false'}")


def shape_of_listing(l):
    return "SSeq [" + "; ".join(f"SLeaf KMutex {i}" for i in l) + "]"


def coq_expr(s, r):
    if isinstance(s, RCase):
        m = re.match(r"reuse (some|none) (some|none)$", r.get("pkobs", "") or "")
        if not m:
            return "mkv true true false false"
        ok = " && ".join(f"mon_C07 ({shape_of_listing(l)}) {'true' if g == 'some' else 'false'}"
                         for l, g in ((s.l1, m.group(1)), (s.l2, m.group(2))))
        return f"mkv true true ({ok}) ({ok})"
    t = s.meta["tested"]
    if t not in r["ctor"]:
        return None
    e = one_expr(s, r, t, s.meta["kind"], s.meta["members"])
    pre = s.meta.get("pre")
    if not pre:
        return e
    if pre[0] not in r["ctor"]:
        return None
    e0 = one_expr(s, r, pre[0], pre[1], pre[2])
    return (f"let a := {e0} in let b := {e} in mkv (v_strict a && v_strict b) (v_proj a && v_proj b) "
            f"(v_mon a && v_mon b) (v_monk a && v_monk b)")


def classify(s, r):
    if isinstance(s, RCase):
        return ["family=same-container-checked-twice", f"kind={s.kind}", f"len={len(s.l1)}",
                "dup1=" + str(len(set(s.l1)) < len(s.l1)), "dup2=" + str(len(set(s.l2)) < len(s.l2))]
    return [f"kind={s.meta['kind']}", f"len={len(s.meta['members'])}",
            "dup=" + ("planted" if s.meta["planted"] else "none"),
            "earlier_try_new=" + ("none" if not s.meta.get("pre") else "rejected" if not r["ctor"].get(s.meta["pre"][0]) else "accepted"),
            "result=" + ("some" if r["ctor"].get(s.meta["tested"]) else "none")]


def nontrivial(s, r):
    if isinstance(s, RCase):
        return len(set(s.l1)) < len(s.l1) or len(set(s.l2)) < len(s.l2)
    return bool(s.meta["planted"]) or s.meta["nested"]


def signature(s):
    return s.text() if isinstance(s, RCase) else s.meta["desc"]


def to_replay(s):
    return {"case": s.text()} if isinstance(s, RCase) else common.to_replay(s)


def from_replay(j):
    sc = j.get("scenario") or j
    if "case" in sc:
        t = sc["case"].split()
        cut = t.index("/")
        return [RCase(t[1], t[2][len("reuse-"):], [int(x) for x in t[3:cut]], [int(x) for x in t[cut + 1:]])]
    return common.from_replay(j)
