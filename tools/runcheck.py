"""Generic driver of one property check: proofs, harness, correspondence, monitors, verdict, evidence."""
import importlib
import json
import os
import random
import sys
import time

import hl


def main():
    pid = sys.argv[1]
    tier = sys.argv[2] if len(sys.argv) > 2 else "quick"
    replay = None
    if tier == "--replay":
        replay = sys.argv[3]
        tier = "quick"
    tier = os.environ.get("VERIF_TIER", tier)
    seed = int(os.environ.get("VERIF_SEED", "1"))
    t0 = time.time()
    P = importlib.import_module(f"p_{pid}")
    notes = []
    assumptions = []
    proof_broken = None

    # ---- 1. proof obligations
    ok, log = hl.build_coq(["Check.vo", f"{P.COQ_MODULE}.vo"] + [f"{m}.vo" for m in P.CASE_MODULES])
    bad = hl.scan_forbidden()
    assum = None
    if not ok:
        proof_broken = "coq build failed: " + log[-1500:]
    elif bad:
        proof_broken = "forbidden construct: " + "; ".join(bad[:5])
    else:
        assum, alog = hl.print_assumptions(P.COQ_MODULE, P.THEOREMS)
        if assum is None:
            proof_broken = "Print Assumptions failed: " + alog[-1000:]
        else:
            for t in P.THEOREMS:
                a = assum.get(t, "<missing>")
                if "Closed under the global context" not in a:
                    names = [ln.split(":")[0].strip() for ln in a.split("\n") if ":" in ln and not ln.startswith(" ")]
                    extra = [n for n in names if n not in getattr(P, "ALLOWED_AXIOMS", [])]
                    if extra or a == "<missing>":
                        proof_broken = f"theorem {t} depends on {extra or a}"
    # thorough tier: the compiled property module and everything it depends on re-checked by the independent checker
    if tier == "thorough" and not proof_broken and not replay:
        cok, csum = hl.coqchk(P.COQ_MODULE)
        notes.append(csum)
        if not cok:
            proof_broken = csum
    obligations = len(P.THEOREMS)
    discharged = 0 if proof_broken else obligations

    # ---- 2. harness from the current tree
    hok, hlog, driver, hsecs = hl.build_harness()
    if not hok:
        # a tree that does not compile gives no verdict about the property
        print(f"FRAMEWORK-ERROR: harness does not build against {hl.REPO}\n{hlog[-3000:]}")
        sys.exit(2)

    # ---- 3. scenarios
    rng = random.Random(seed)
    import shapes
    shapes.reseed(seed)
    ncorpus = 0
    if replay:
        scens = P.from_replay(json.load(open(replay)))
    else:
        # the regression corpus runs first: scenarios on which a seeded change of /repo made this property fail
        # (corpus/<pid>/*.json, harvested by tools/harvest.py); on the unchanged tree they behave like any other scenario
        scens = []
        cdir = os.path.join(hl.VERIF, "corpus", pid)
        if os.path.isdir(cdir) and hasattr(P, "from_replay"):
            for fn in sorted(os.listdir(cdir)):
                try:
                    for sc_ in P.from_replay(json.load(open(os.path.join(cdir, fn)))):
                        sc_.sid = "k_" + fn.split(".")[0].replace("-", "_")[:40] + "_" + str(len(scens))
                        scens.append(sc_)
                except Exception as ex:          # a corpus entry that no longer parses is reported, not fatal
                    notes.append(f"corpus entry {fn} skipped: {ex}")
        ncorpus = len(scens)
        scens += P.gen(tier, rng)
    res, herr = hl.run_harness(driver, scens, pid)
    if herr:
        notes.append(f"harness shard errors: {herr[:2]}")
    items = []
    framework = []
    crashed = []
    for s in scens:
        r = res.get(s.sid)
        if r is not None and r.get("crashed"):
            crashed.append(s.sid)
            continue
        if r is None or not r["done"] or r["error"] or r["adr"] is None:
            framework.append((s.sid, None if r is None else r.get("error")))
            continue
        expr = P.coq_expr(s, r)
        if expr is not None:
            items.append((s.sid, expr))
    vals, cerr = hl.run_coq_cases(pid, P.CASE_MODULES, items) if not proof_broken or P.CHECK_WITHOUT_PROOF else ({}, [])
    if cerr:
        notes.append(f"coqc case errors: {cerr[:1]}")

    # ---- 4. verdicts
    byid = {s.sid: s for s in scens}
    known = hl.load_known().get(pid, {})
    mon_fail, proj_fail, strict_fail, unparsed = [], [], [], []
    known_hits = {}
    ntriv = set()
    dist = {}
    covered = [0, 0]
    covered2 = [0, 0]
    for sid, _ in items:
        v = hl.parse_verdict(vals.get(sid))
        ex = hl.parse_extras(vals.get(sid))
        if ex:
            covered[0] += 1
            covered[1] += int(ex[0])
            if len(ex) > 1:
                covered2[0] += 1
                covered2[1] += int(ex[1])
        s = byid[sid]
        for k in P.classify(s, res[sid]):
            dist[k] = dist.get(k, 0) + 1
        if v is None:
            unparsed.append(sid)
            continue
        strict, proj, mon, monk = v
        if P.nontrivial(s, res[sid]):
            ntriv.add(P.signature(s))
        if not mon:
            # a failure is a known finding only if the monitor relaxed by the listed classes accepts the
            # observation and the scenario belongs to a class listed in known_findings.txt
            cls = P.known_class(s, res[sid]) if hasattr(P, "known_class") else None
            if monk and cls and cls in known:
                known_hits.setdefault(cls, []).append(sid)
            else:
                mon_fail.append(sid)
        elif not proj:
            proj_fail.append(sid)
        elif not strict:
            strict_fail.append(sid)

    # ---- 4a. interleaved (Level B) comparisons that failed are repeated under release-atomic scheduling: runs of
    #          consecutive releases of one thread are one step on both sides and are compared as sets (coq/BMonitors.v,
    #          bcheck_ra).  A scenario whose only difference is the order of releases inside such runs agrees there;
    #          its monitor has already accepted the implementation's execution under the original schedule.
    tolerated = []
    if proj_fail and not mon_fail and not crashed and hasattr(P, "release_atomic") and not replay:
        cand = proj_fail[:3000]
        variants = [P.release_atomic(byid[x]) for x in cand]
        res3, _ = hl.run_harness(driver, variants, pid + "ra")
        items3 = []
        for v in variants:
            r3 = res3.get(v.sid)
            if r3 is None or r3.get("crashed") or not r3["done"] or r3["error"] or r3["adr"] is None:
                continue
            e3 = P.coq_expr(v, r3)
            if e3 is not None:
                items3.append((v.sid, e3))
        vals3, _ = hl.run_coq_cases(pid + "ra", P.CASE_MODULES, items3)
        for x, v in zip(cand, variants):
            vv = hl.parse_verdict(vals3.get(v.sid))
            if vv is not None and vv[1] and vv[2]:
                tolerated.append(x)
            elif vv is not None and not vv[2]:
                # the monitor rejects the implementation's execution under the release-atomic schedule: a failing input
                byid[v.sid] = v
                res[v.sid] = res3[v.sid]
                vals[v.sid] = vals3[v.sid]
                mon_fail.append(v.sid)
        proj_fail = [x for x in proj_fail if x not in tolerated]
        if tolerated:
            notes.append(f"{len(tolerated)} interleaved scenario(s) differ from the model only in the order of releases inside "
                         f"uninterrupted release runs (agree under release-atomic scheduling), e.g. {tolerated[0]}")

    # ---- 4a'. a property may define a second, coarser comparison for scenarios on which the first one fails and the
    #           monitor has accepted the implementation (C12: equal up to the release run that contains the faulted release)
    if proj_fail and not mon_fail and not crashed and hasattr(P, "second_expr") and not replay:
        items4 = [(x, P.second_expr(byid[x], res[x])) for x in proj_fail]
        items4 = [(k, e) for k, e in items4 if e]
        vals4, _ = hl.run_coq_cases(pid + "s2", P.CASE_MODULES, items4)
        tol2 = [k for k, _ in items4 if (vals4.get(k) or "").strip() == "true"]
        if tol2:
            tolerated += tol2
            proj_fail = [x for x in proj_fail if x not in tol2]
            notes.append(f"{len(tol2)} scenario(s) differ from the model only from the run of releases that contains the "
                         f"faulted release onwards (the order of releases decides which one panics); judged by the monitor, "
                         f"e.g. {tol2[0]}")

    # ---- 4b. when only the correspondence (or the discipline a theorem rests on) broke, look harder for an input on
    #          which the property itself fails: the module proposes variants of the diverging scenarios
    deep_tried = 0
    if proj_fail and not mon_fail and not crashed and hasattr(P, "deepen") and not replay:
        # scenarios whose second component is false (C01: cyclic lock-order graph) first
        cands = sorted(proj_fail, key=lambda x: (hl.parse_extras(vals.get(x)) or [None])[0] is not False)
        for sid0 in cands[:6]:
            variants = P.deepen(byid[sid0], rng)
            deep_tried += len(variants)
            res2, _ = hl.run_harness(driver, variants, pid + "d")
            items2 = []
            for v in variants:
                r2 = res2.get(v.sid)
                if r2 is None or r2.get("crashed") or not r2["done"] or r2["error"] or r2["adr"] is None:
                    continue
                e2 = P.coq_expr(v, r2)
                if e2 is not None:
                    items2.append((v.sid, e2))
            vals2, _ = hl.run_coq_cases(pid + "d", P.CASE_MODULES, items2)
            hit = None
            for vsid, _ in items2:
                vv = hl.parse_verdict(vals2.get(vsid))
                if vv is not None and not vv[2]:
                    hit = vsid
                    break
            if hit:
                v = next(x for x in variants if x.sid == hit)
                byid[hit] = v
                res[hit] = res2[hit]
                vals[hit] = vals2[hit]
                mon_fail.append(hit)
                notes.append(f"failing input found by varying scenario {sid0} ({deep_tried} variants tried)")
                break

    violations = 0
    lines = []
    # ---- 4c. compile-time half of the property, if it has one: the corpus programs tagged with it are given to rustc
    #          (offending program accepted = failing input; a twin that no longer compiles = the corpus no longer checks)
    static_accepted, static_twins = [], []
    if getattr(P, "STATIC_CORPUS", None) and not replay:
        import corpus
        citems = [it for it in corpus.ITEMS if it[1] == P.STATIC_CORPUS]
        rust, _, _ = corpus.run_corpus(citems, None)
        for it in citems:
            if not rust[it[0] + "_bad"][0] and not (it[7] and it[7] in known):
                static_accepted.append(it)
            if rust[it[0] + "_ok"][0]:
                static_twins.append((it[0], rust[it[0] + "_ok"][2][:200]))
        dist["family=compile-time corpus"] = len(citems)
        if static_accepted:
            it = static_accepted[0]
            fn = hl.write_replay(pid, {"property": pid, "kind": "offending-program-accepted-by-rustc", "route": it[2],
                                       "program": corpus.prog(it[3]), "twin": corpus.prog(it[4]),
                                       "others": [x[0] for x in static_accepted[1:]]})
            lines.append(f"VIOLATION property={pid} replay={fn}")
            violations += len(static_accepted)
        elif static_twins:
            framework.append(("corpus twin no longer compiles", static_twins[:5]))
    if crashed:
        # a crash of the real code on a concrete scenario is a failing input
        s = byid[crashed[0]]
        fn = hl.write_replay(pid, {"property": pid, "kind": "implementation-crashed-on-scenario",
                                   "scenario": P.to_replay(s), "scenario_text": s.text(),
                                   "what": res[s.sid]["crashed"], "others": crashed[1:10]})
        lines.append(f"VIOLATION property={pid} replay={fn}")
        violations += len(crashed)
    for cls, sids in known_hits.items():
        lines.append(f"KNOWN-FINDING: property={pid} class={cls} {known[cls]} (e.g. scenario {sids[0]}; {len(sids)} hit(s))")
    if mon_fail and not crashed:
        s = byid[mon_fail[0]]
        # the reported failing input is minimised: calls / operations / threads are removed while the monitor still rejects
        # what the implementation does (tools/shrink.py); the scenario as generated is kept beside it
        original_text = s.text()
        shrunk_from = None
        if not replay and os.environ.get("VERIF_NO_SHRINK") is None:
            try:
                import shrink
                s2, r2, ntried = shrink.shrink(P, driver, pid, s, res[s.sid])
                if s2 is not s:
                    shrunk_from = {"scenario_text": original_text, "candidates_run": ntried}
                    res[s2.sid] = r2
                    s = s2
            except Exception as ex:
                notes.append(f"shrinking failed: {ex}")
        fn = hl.write_replay(pid, {"property": pid, "kind": "monitor-failed-on-implementation",
                                   "scenario": P.to_replay(s), "scenario_text": s.text(),
                                   "implementation_observation": res[s.sid]["obs"] or res[s.sid]["bobs"],
                                   "minimised_from": shrunk_from,
                                   "others": mon_fail[1:20]})
        lines.append(f"VIOLATION property={pid} replay={fn}")
        violations += len(mon_fail)
    elif (proj_fail or proof_broken or unparsed or framework) and not crashed and not mon_fail:
        what = {}
        if proof_broken:
            what["theorem"] = proof_broken
        if proj_fail:
            s = byid[proj_fail[0]]
            what["correspondence"] = {"scenario": P.to_replay(s), "scenario_text": s.text(),
                                      "implementation_observation": res[s.sid]["obs"] or res[s.sid]["bobs"],
                                      "model_check": vals.get(s.sid), "others": proj_fail[1:20]}
        if unparsed:
            what["model_evaluation_failed"] = unparsed[:10]
        if framework:
            what["harness_failed_on"] = framework[:10]
        fn = hl.write_replay(pid, {"property": pid, "kind": "no-longer-checks", "what": what})
        lines.append(f"VIOLATION property={pid} replay={fn} no-failing-input-found")
        violations += 1

    samples = [{"scenario": byid[sid].text().split("\n"), "impl_obs": (res[sid]["obs"] or [res[sid]["bobs"]])[:6],
                "verdict": vals.get(sid)} for sid, _ in items[:3]]
    ev = {
        "property_id": pid, "tier": tier, "seed": seed, "level": "proof",
        "coverage": {
            "obligations": obligations, "discharged": discharged,
            "checker_cmd": f"make -C coq {P.COQ_MODULE}.vo (coqc 8.16.1, full .vo) + Print Assumptions on {', '.join(P.THEOREMS)}",
            "trusted_base": P.TRUSTED + [f"Print Assumptions {t}: {(assum or {}).get(t, 'n/a')}" for t in P.THEOREMS],
            "theorems": P.THEOREMS,
            "traces_validated_against_impl": len(items) - len(unparsed),
            "evaluations": len(items), "distinct_nontrivial": len(ntriv),
            "rule": P.RULE, "samples": samples, "input_distribution": dist,
            "strict_trace_equal": len(items) - len(strict_fail) - len(proj_fail) - len(tolerated) - len(mon_fail) - len(unparsed),
            "projection_mismatches": len(proj_fail), "monitor_failures_on_impl": len(mon_fail),
            "known_finding_hits": {k: len(v) for k, v in known_hits.items()},
            ("executions_with_acyclic_lock_order_graph" if pid == "C01" else
             "scenarios_meeting_whole_history_theorem_hypotheses"): (f"{covered[1]} of {covered[0]}") if covered[0] else "n/a",
            **({"scenarios_meeting_the_hypotheses_of_C01_every_schedule": f"{covered2[1]} of {covered2[0]}"} if covered2[0] else {}),
            "variants_tried_after_a_mismatch": deep_tried,
            "regression_corpus_scenarios": ncorpus,
            "agree_only_up_to_release_order_within_runs": len(tolerated),
            "compile_time_corpus_offending_programs_accepted": len(static_accepted),
            "framework_errors": len(framework), "exhaustive": bool(getattr(P, "EXHAUSTIVE", {}).get(tier, False)),
        },
        "assumptions": P.ASSUMPTIONS, "wall_s": round(time.time() - t0, 1), "violations": violations,
        "notes": notes,
    }
    hl.write_evidence(pid, ev)
    for ln in lines:
        print(ln)
    print(f"{pid} {tier}: {len(items)} scenarios, {len(ntriv)} distinct non-trivial, strict-equal "
          f"{ev['coverage']['strict_trace_equal']}, proj mismatches {len(proj_fail)}, monitor failures {len(mon_fail)}, "
          f"theorems {discharged}/{obligations}, {ev['wall_s']} s")
    sys.exit(1 if violations else 0)


if __name__ == "__main__":
    main()
