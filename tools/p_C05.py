"""C05 — history-based check (see tools/histprop.py, coq/Monitors.v mon_C05)."""
import common
import histprop
from common import from_replay, to_replay  # noqa: F401

PID = "C05"
COQ_MODULE = "Prop_C05"
THEOREMS = ['C05_every_history', 'C05_every_history_partial', 'C05_hold_accounting', 'C05_guard_drop_exact', 'C05_collection_unlock_exact', "C05_every_schedule_all_released", "C05_every_schedule_release_by_holder"]
CASE_MODULES = ["Pf_Hist", "Monitors", "Conc", "BMonitors"]
CHECK_WITHOUT_PROOF = True
SHRINK_GUARD = 0      # which of the booleans evaluated with the verdict certifies the theorem's hypotheses
TRUSTED = common.TRUSTED_COMMON
ASSUMPTIONS = common.ASSUME_COMMON
RULE = 'random API histories (1-3 threads, 4-14 calls, API-call-atomic) over a random universe of single locks, poisonable wrappers and collections of every kind / container / nesting depth <= 2 sharing leaves, with random holds of other threads present from the start; observation = release operations with audit verdicts + hold table; non-trivial = at least one release; distinct = scenario text; plus interleaved (Level B) programs of 2-4 threads at raw-operation granularity (as for C01 / C09, half of them with a retrying collection under contention), judged by the replaying monitor of BMonitors.v (holds per thread at every call return)'
EXHAUSTIVE = {"quick": False, "thorough": False}
classify = histprop.classify
signature = histprop.signature


def gen(tier, rng):
    return histprop.gen(PID, tier, rng)


def coq_expr(s, r):
    return histprop.coq_expr(PID, s, r)


def nontrivial(s, r):
    return histprop.nontrivial(PID, s, r)
