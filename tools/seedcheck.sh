#!/bin/bash
# usage: tools/seedcheck.sh <seed dir under /tmp> <name> <check ids...>
# 1. re-validates the seed's claims in its scratch worktree  2. copies it to /verif/seeded/<name>/
# 3. applies it to /repo, runs the given checks, reverts /repo
set -u
W=$1; NAME=$2; shift 2
export CARGO_TARGET_DIR=$W/target CARGO_NET_OFFLINE=true
cd "$W" || exit 2
DEMO=$(ls tests/seed_demo*.rs 2>/dev/null | head -1)
[ -z "$DEMO" ] && { echo "no demo test"; exit 2; }
DT=$(basename "$DEMO" .rs)
mkdir -p /tmp/seedtmp && mv "$DEMO" /tmp/seedtmp/demo.rs
echo "== existing suite WITH the change"
SUITE=$(cargo test --offline 2>&1 | grep -E "^test result" | awk '{p+=$4; f+=$6} END {print "passed="p" failed="f}')
echo "   $SUITE"
mv /tmp/seedtmp/demo.rs "$DEMO"
echo "== demo WITH the change (must fail)"
WITH=$(timeout 300 cargo test --offline --test "$DT" 2>&1 | grep -E "^test result" | tail -1)
echo "   $WITH"
git stash push -q -- src
echo "== demo WITHOUT the change (must pass)"
WITHOUT=$(timeout 300 cargo test --offline --test "$DT" 2>&1 | grep -E "^test result" | tail -1)
echo "   $WITHOUT"
git stash pop -q
D=/verif/seeded/$NAME; mkdir -p "$D"
git diff -- src > "$D/patch.diff"
cp "$DEMO" "$D/demo.rs"; cp meta.txt "$D/agent_notes.txt" 2>/dev/null
cd /verif || exit 2
git -C /repo apply "$D/patch.diff" || { echo "patch does not apply to /repo"; exit 2; }
RES=""
for c in "$@"; do
  OUT=$(./check "$c" quick 2>&1 | grep -E "VIOLATION|^C[0-9]+ quick" | cut -c1-220)
  echo "-- $c: $OUT"
  if echo "$OUT" | grep -q "VIOLATION"; then
    if echo "$OUT" | grep -q "no-failing-input-found"; then RES="$RES $c:mismatch"; else RES="$RES $c:failing-input"; fi
  else RES="$RES $c:silent"; fi
done
git -C /repo checkout -- .
git -C /verif checkout -- coq/ApiTable.v 2>/dev/null
# the evidence files describe the unchanged tree: put back what these runs overwrote
git -C /verif checkout -- evidence 2>/dev/null
git -C /repo status --short | head -3
echo "SUMMARY name=$NAME suite[$SUITE] demo_with[$WITH] demo_without[$WITHOUT] checks[$RES]"
echo "$RES" > "$D/checks.txt"; echo "suite[$SUITE] demo_with[$WITH] demo_without[$WITHOUT]" > "$D/validation.txt"
