import sys, os
sys.path.insert(0, os.path.dirname(os.path.abspath(__file__)))
import staticprop
staticprop.main("C15", "Prop_C15", ["C15_auto_traits_at_least_std", "C15_auto_traits_at_least_reference", "C15_table_wf", "C15_ownedlockable_owns", "C15_refuted_scoped_escape"],
                ["C15", "C07"], "offending programs (reference escaping a guard / a closure / a collection, guard outliving its lock, shared "
                "access into an owned collection, Rc / Cell payloads crossing threads through Mutex, RwLock, collections, unsafe-only "
                "entry points from safe code, unchecked constructors given references) with compiling twins, plus a random sample of "
                "the type language (nesting <= 3) whose Send / Sync is decided by rustc in one program and compared with impl_auto "
                "over the regenerated table", None)
