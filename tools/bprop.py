"""Level B (interleaved) scenario generation and glue shared by C01, C02, C09."""
import common
import histgen
import hl
import shapes

COUNT = {"quick": 1200, "thorough": 30000}


def thread_prog(rng, u, nacq, allow_panic, data_ops, only=None, sh=0.35, sweep=0.0, nonacq=0.0):
    """nonacq: probability of a non-acquiring call (Debug formatting, is_poisoned) before an acquisition and inside a
    guard's hold: they must neither wait nor disturb what any thread holds (their raw try operations are scheduling points)"""
    b = u.b
    ops = []

    def quiet():
        c = rng.choice(u.roots)
        if b.desc[c].startswith("P(") and rng.random() < 0.3:
            return ("ispoisoned", c)
        return ("fmt", c)
    for _ in range(nacq):
        ops.append(("get",))
        if rng.random() < nonacq:
            ops.append(quiet())
        cid = rng.choice(only or u.roots)
        mode = "sh" if b.sharable[cid] and b.locks_of[cid] and rng.random() < sh else "ex"
        n = len(b.locks_of[cid])
        fl = rng.choice(["guard", "guard", "scoped", "try", "scopedtry"])
        sw = n and rng.random() < sweep      # touch every position of the guard / closure argument, in order
        if fl in ("guard", "try"):
            ops.append(("acq", cid, mode, fl))
            if sw:
                ops += [("gread", pos) for pos in range(n)]
            for _ in range(0 if sw else rng.randint(0, data_ops)):
                if n:
                    pos = rng.randrange(n)
                    ops.append(("gwrite", pos) if mode == "ex" and rng.random() < 0.6 else ("gread", pos))
            if rng.random() < nonacq:
                ops.append(("fmt", cid) if rng.random() < 0.5 else quiet())
            if allow_panic and rng.random() < (0.5 if data_ops == 10 else 0.15):
                ops.append(("panic",))
            else:
                ops.append((rng.choice(["gdrop", "gunlock"]),))
        else:
            lent = rng.random() < 0.6
            body = histgen.body(rng, b, cid, mode, allow_panic, 0.2)
            if sw:
                body = [("r", pos) for pos in range(n)] + ([("w", rng.randrange(n))] if mode == "ex" else [])
            ops.append(("acq", cid, mode, fl, lent, body))
    return ops


def failed_try_progs(rng, b):
    """one thread holds a member of a small collection while another tries the whole collection (shared or exclusive,
    guard or scoped flavour), then acquires the collection or one of its members blocking, twice over: a failed try that
    keeps anything makes that thread wait for itself, or makes the members unavailable for good"""
    k = rng.choice([2, 2, 2, 3, 4])
    rw = rng.random() < 0.65
    leaves = [b.leaf("R" if rw or rng.random() < 0.5 else "M") for _ in range(k)]
    listing = list(leaves)
    rng.shuffle(listing)
    c = b.coll(rng.choice(["boxed", "ref", "retry"]), listing, cont=rng.choice(shapes.CONTS))
    held = rng.choice(leaves)
    hm = "ex" if rng.random() < 0.8 or not b.sharable[held] else "sh"
    p0 = [("get",), ("acq", held, hm, "guard")] + [("gread", 0)] * rng.randint(0, 2) + [("gdrop",)]
    tm = "sh" if b.sharable[c] and rng.random() < 0.6 else "ex"
    fl = rng.choice(["try", "scopedtry"])
    p1 = [("get",)]
    if fl == "try":
        p1 += [("acq", c, tm, "try"), ("gdrop",)]
    else:
        p1.append(("acq", c, tm, "scopedtry", rng.random() < 0.6, [("r", rng.randrange(k))]))
    for _ in range(rng.randint(1, 2)):
        nxt = c if rng.random() < 0.5 else rng.choice(leaves)
        p1 += [("get",), ("acq", nxt, "ex", "guard"), ("gdrop",)]
    progs = [(0, p0), (1, p1)]
    if rng.random() < 0.4:
        other = rng.choice(leaves)
        progs.append((2, [("get",), ("acq", other, "ex", "guard"), ("gdrop",)]))
    return progs, [c] + leaves


def gen_c08(tier, rng, n):
    """threads take sorting collections that list the same RwLock-heavy leaves in different orders, in both modes, while
    others hold single leaves: members are contended in the middle of an acquisition"""
    scens = []
    for i in range(n):
        b = shapes.B(f"c08b_{i}")
        rw = rng.random() < 0.7
        leaves = [b.leaf("R" if rw or rng.random() < 0.4 else "M") for _ in range(rng.randint(2, 4))]
        roots = []
        for _ in range(rng.randint(2, 3)):
            ms = rng.sample(leaves, rng.randint(2, len(leaves)))
            if rng.random() < 0.25 and len(ms) >= 3:
                # a nested boxed / ref / retrying member contributes its leaves to the outer order
                inner = b.coll(rng.choice(["boxed", "ref", "retry"]), ms[:2], cont="vec")
                ms = [inner] + ms[2:]
            c = b.coll(rng.choice(["boxed", "ref"]), ms, cont=rng.choice(shapes.CONTS))
            if dict(b.defs)[c][3] == "vec" and rng.random() < 0.3:
                c = b.poison(c)      # the harness wraps Vec-based collections only
            roots.append(c)
        nt = rng.randint(2, 4)
        progs = []
        for t in range(nt):
            ops = []
            for _ in range(rng.randint(1, 3)):
                ops.append(("get",))
                if rng.random() < 0.35:
                    cid = rng.choice(leaves)
                    mode = "ex" if rng.random() < 0.75 or not b.sharable[cid] else "sh"
                else:
                    cid = rng.choice(roots)
                    mode = "sh" if b.sharable[cid] and rng.random() < 0.6 else "ex"
                if rng.random() < 0.7:
                    ops += [("acq", cid, mode, "guard"), (rng.choice(["gdrop", "gunlock"]),)]
                else:
                    nl = len(b.locks_of[cid])
                    ops.append(("acq", cid, mode, "scoped", rng.random() < 0.6, [("r", rng.randrange(nl))] if nl else []))
            progs.append((t, ops))
        total = sum(len(p) for _, p in progs)
        sched = [rng.randrange(nt) for _ in range(rng.randint(total, 4 * total + 4))]
        if rng.random() < 0.3:
            sched = []
            while len(sched) < 3 * total:
                sched += [rng.randrange(nt)] * rng.randint(1, 6)
        pol = "wp" if rng.random() < 0.5 else "rp"
        sc_ = b.scen(progs=progs, sched=(pol, sched, None), fuel=len(sched) + 4 * total + 8,
                     meta={"nt": nt, "policy": pol, "pct": False, "roots": [b.desc[c] for c in roots]})
        if rng.random() < 0.25:
            sc_.yr = True
            sc_.fuel = 2 * sc_.fuel
            sc_.meta["yield_after_release"] = True
        scens.append(sc_)
    return scens


def gen(pid, tier, rng, n=None):
    scens = []
    n = n or COUNT[tier]
    if pid == "C08":
        return gen_c08(tier, rng, n)
    for i in range(n):
        b = shapes.B(f"{pid.lower()}_{i}")
        u = histgen.Universe(rng, b, nleaves=(2, 5), ncolls=(1, 4), poison=0.9 if pid == "C10" else (0.5 if pid == "C02" else 0.25),
                             depth=rng.choice([0, 1, 1, 2]), big=rng.random() < 0.25)
        if pid == "C10":
            # contended wrappers: a few acquirable roots only, most of them poisonable or containing one
            pr = [c for c in u.roots if "P(" in b.desc[c]]
            if pr:
                u.roots = pr + [c for c in u.roots if c not in pr][:1]
        nt = rng.randint(2, 4)
        only = None
        others = None
        sh0 = 0.35
        twin = pid == "C01" and rng.random() < 0.35
        if pid == "C09" or twin or (pid in ("C03", "C04", "C05") and rng.random() < 0.5):
            # thread 0 acquires a retrying collection; the others contend through anything else
            size = rng.randint(1, 4)
            members = []
            pool = [c for c in u.roots if c in b.leaf_of]
            rng.shuffle(pool)
            members = pool[:size]
            if rng.random() < 0.4:
                # a reader-heavy retrying acquisition: RwLock members only, contended by writers
                rws = [c for c in pool if b.sharable[c]]
                while len(rws) < size:
                    c = b.leaf("R")
                    rws.append(c)
                    u.roots.append(c)
                members = rws[:size]
                sh0 = 0.8
            if rng.random() < 0.3:
                own = [b.leaf(rng.choice("MR")) for _ in range(rng.randint(1, 2))]
                members.append(b.coll("owned", own))
            rc = b.coll("retry", members, cont=rng.choice(shapes.CONTS))
            u.roots.append(rc)
            only = [rc]
            others = None
            if twin:
                # C01: the other threads use the same locks singly and through a sorting collection over them
                leafm = [c for c in members if c in b.leaf_of]
                others = list(leafm)
                if len(leafm) >= 2:
                    sm = list(leafm)
                    rng.shuffle(sm)
                    others.append(b.coll(rng.choice(["boxed", "ref"]), sm, cont=rng.choice(shapes.CONTS)))
                    u.roots.append(others[-1])
        progs = []
        for t in range(nt):
            progs.append((t, thread_prog(rng, u, rng.randint(1, 3), (pid in ("C01", "C02", "C03", "C05") and rng.random() < 0.3) or (pid == "C10" and rng.random() < 0.8),
                                         2 if pid == "C02" else 1, only if t == 0 else (others if others and rng.random() < 0.8 else None),
                                         sh0 if t == 0 else 0.35, sweep=0.35 if pid == "C02" else 0.0,
                                         nonacq=0.2 if rng.random() < 0.4 else 0.0)))
        if pid in ("C01", "C03", "C05") and rng.random() < 0.12:
            progs, extra = failed_try_progs(rng, b)
            nt = len(progs)
            u.roots += extra
        handoff = None
        if pid == "C10" and rng.random() < 0.2:
            # hand-off template: thread 0 panics while it holds a poisonable root exclusively; thread 1 is already waiting
            # for that root and runs as soon as thread 0 has released (with a pause after every release this is the moment
            # between the release and whatever the unwinding code does next)
            pr = [c for c in u.roots if b.desc[c].startswith("P(") and 1 <= len(b.locks_of[c]) <= 3]
            if pr:
                root = rng.choice(pr)
                nl_ = len(b.locks_of[root])
                if rng.random() < 0.6:
                    body = [("r", rng.randrange(nl_))] * rng.randint(0, 1) + [("panic",)]
                    p0 = [("get",), ("acq", root, "ex", rng.choice(["scoped", "scopedtry"]), rng.random() < 0.5, body)]
                else:
                    p0 = [("get",), ("acq", root, "ex", rng.choice(["guard", "try"])), ("panic",)]
                m1 = "sh" if b.sharable[root] and rng.random() < 0.3 else "ex"
                fl1 = rng.choice(["guard", "guard", "scoped"])
                p1 = [("get",), ("acq", root, m1, fl1)] + ([("gdrop",)] if fl1 == "guard" else [])
                if fl1 == "scoped":
                    p1[-1] = ("acq", root, m1, "scoped", True, [("r", 0)])
                p1 += [("get",), ("acq", root, "ex", "try"), ("gdrop",)]
                progs = [(0, p0), (1, p1)]
                nt = 2
                handoff = [0] * (1 + nl_) + [1, 1] + [0, 1, 1, 1, 1] * (nl_ + 2) + [0] * 6 + [1] * 12
        total = sum(len(p) for _, p in progs)
        sched = [rng.randrange(nt) for _ in range(rng.randint(total, 4 * total + 4))]
        if rng.random() < 0.2:
            # bursts: run one thread for a while (run-to-block style)
            sched = []
            while len(sched) < 3 * total:
                sched += [rng.randrange(nt)] * rng.randint(1, 8)
        pol = "wp" if rng.random() < 0.5 else "rp"
        pct = None
        fuel = len(sched) + 4 * total + 8
        if rng.random() < 0.4:
            # priority scheduling with a few demotion points (PCT): each thread runs until it has to wait, which piles
            # up hold-and-wait situations; the harness reports the effective schedule, which the model replays
            prios = list(range(nt))
            rng.shuffle(prios)
            steps = 6 * total + 10
            pct = (prios, sorted(rng.sample(range(steps), rng.randint(0, 3))))
            sched = []
            fuel = 40 * total + 60
        if handoff:
            sched, pct = handoff, None
        sc_ = b.scen(progs=progs, sched=(pol, sched, pct), fuel=fuel,
                     meta={"nt": nt, "policy": pol, "pct": bool(pct), "roots": [b.desc[c] for c in u.roots]})
        # a quarter of the runs (half for C10): every thread pauses after each release, so that the others can see the
        # state between a release and what the releasing code does next (flag stores, key drop)
        if rng.random() < (0.5 if pid == "C10" else 0.25) or (handoff and rng.random() < 0.8):
            sc_.yr = True
            sc_.fuel = 2 * fuel
            sc_.meta["yield_after_release"] = True
        scens.append(sc_)
    return scens


def coq_expr(pid, s, r, suffix=""):
    if r["bobs"] is None or r["sched"] is None:
        return None
    sched = "[" + "; ".join(map(str, r["sched"])) + "]"
    if getattr(s, "ra", False):
        # second comparison (release-atomic schedules, runs of releases compared as sets): coq/BMonitors.v
        return f"check_{pid}_ra ({s.coq_b(*r['adr'])}) {sched} ({hl.bobs_coq(r['bobs'])})"
    if pid == "C01" and not suffix:
        # check_C01': + acyclic lock-order graph of the implementation's execution (also reported on its own: a cyclic
        # graph marks the scenario as the best candidate for the search of a deadlocking schedule)
        return (f"(check_C01' ({s.coq_b(*r['adr'])}) {sched} ({hl.bobs_coq(r['bobs'])}), "
                f"acyclic_impl ({s.coq_b(*r['adr'])}) ({hl.bobs_coq(r['bobs'])}), wfB ({s.coq_b(*r['adr'])}))")
    if pid == "C09" and not suffix:
        return f"(check_C09 ({s.coq_b(*r['adr'])}) {sched} ({hl.bobs_coq(r['bobs'])}), wfB09 ({s.coq_b(*r['adr'])}))"
    if pid == "C02" and not suffix:
        return f"(check_C02 ({s.coq_b(*r['adr'])}) {sched} ({hl.bobs_coq(r['bobs'])}), wfB ({s.coq_b(*r['adr'])}))"
    return f"check_{pid}{suffix} ({s.coq_b(*r['adr'])}) {sched} ({hl.bobs_coq(r['bobs'])})"


def classify(s, r):
    out = [f"threads={s.meta['nt']}", f"policy={s.meta['policy']}", f"scheduler={'priority' if s.meta.get('pct') else 'list'}", "status=" + (r["bobs"] or "?").split(" | ")[0],
           f"pause_after_release={'yes' if getattr(s, 'yr', False) else 'no'}"]
    if r["bobs"] and "BWait" in r["bobs"]:
        out.append("waits=yes")
    return out


def nontrivial(pid, s, r):
    bo = r["bobs"] or ""
    if pid == "C09":
        return "BWait 0" in bo or "RBool false" in bo
    if pid == "C02":
        return "EData" in bo and "BWait" in bo
    if pid == "C10":
        return "RPanicked" in bo and "BWait" in bo
    return "BWait" in bo


def signature(s):
    return s.text()


def _sched_variants(s, rng, n, tag):
    import copy
    out = []
    nt = max(t for t, _ in s.progs) + 1
    total = sum(len(p) for _, p in s.progs)
    for i in range(n):
        v = copy.copy(s)
        v.sid = f"{s.sid}_{tag}{i}"
        pol = s.sched[0]
        if i % 2 == 0:
            prios = list(range(nt))
            rng.shuffle(prios)
            steps = 8 * total + 10
            v.sched = (pol, [], (prios, sorted(rng.sample(range(steps), rng.randint(1, 4)))))
        else:
            v.sched = (pol, [rng.randrange(nt) for _ in range(rng.randint(total, 6 * total + 4))], None)
        v.fuel = 40 * total + 60
        v.meta = dict(s.meta, pct=i % 2 == 0, nt=nt)
        out.append(v)
    return out


def release_atomic(s):
    """the same scenario under release-atomic scheduling (tools/runcheck.py step 4a)"""
    import copy
    v = copy.copy(s)
    v.sid = s.sid + "_ra"
    v.ra = True
    v.meta = dict(s.meta, ra=True)
    return v


def deepen(pid, s, rng, n=300):
    """used when the correspondence or the lock-order discipline broke, to find an execution on which the monitor
    fails: the same programs under many other schedules (random lists and priority scheduling with up to 4
    demotions); for C01 also the same programs plus one more thread that takes, through a sorting collection built
    with try_new, the locks that one of the acquired collections lists directly (a partner for a wrong lock order)"""
    import copy
    out = _sched_variants(s, rng, n if pid != "C01" else n // 3, "d")
    if pid != "C01":
        return out
    defs = dict(s.defs)
    inline = {d[2] for d in defs.values() if d[0] == "poison"}
    used = []
    for _, ops in s.progs:
        for op in ops:
            if op[0] == "acq" and op[1] not in used:
                used.append(op[1])
    nt = max(t for t, _ in s.progs) + 1
    k = 0
    for c in used:
        d = defs.get(c)
        if d is None or d[0] in ("leaf", "poison") or d[0] == "owned":
            continue
        leafm = [m for m in d[4] if defs.get(m, ("?",))[0] == "leaf" and m not in inline]
        if len(leafm) < 2:
            continue
        v = copy.copy(s)
        newc = max(defs) + 1 + k
        members = sorted(leafm)
        v.defs = list(s.defs) + [(newc, ("boxed", None, "try", "vec", members))]
        prog = []
        for _ in range(2):
            prog += [("get",), ("acq", newc, "ex", "guard"), ("gdrop",)]
        v.progs = list(s.progs) + [(nt, prog)]
        v.sid = f"{s.sid}_t{k}"
        v.meta = dict(s.meta, nt=nt + 1)
        out += _sched_variants(v, rng, n // 3, "s")
        k += 1
        if k >= 2:
            break
    return out
