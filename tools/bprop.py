"""Level B (interleaved) scenario generation and glue shared by C01, C02, C09."""
import common
import histgen
import hl
import shapes

COUNT = {"quick": 1200, "thorough": 30000}


def thread_prog(rng, u, nacq, allow_panic, data_ops, only=None, sh=0.35):
    b = u.b
    ops = []
    for _ in range(nacq):
        ops.append(("get",))
        cid = rng.choice(only or u.roots)
        mode = "sh" if b.sharable[cid] and b.locks_of[cid] and rng.random() < sh else "ex"
        n = len(b.locks_of[cid])
        fl = rng.choice(["guard", "guard", "scoped", "try", "scopedtry"])
        if fl in ("guard", "try"):
            ops.append(("acq", cid, mode, fl))
            for _ in range(rng.randint(0, data_ops)):
                if n:
                    pos = rng.randrange(n)
                    ops.append(("gwrite", pos) if mode == "ex" and rng.random() < 0.6 else ("gread", pos))
            if allow_panic and rng.random() < 0.15:
                ops.append(("panic",))
            else:
                ops.append((rng.choice(["gdrop", "gunlock"]),))
        else:
            lent = rng.random() < 0.6
            body = histgen.body(rng, b, cid, mode, allow_panic, 0.2)
            ops.append(("acq", cid, mode, fl, lent, body))
    return ops


def gen(pid, tier, rng, n=None):
    scens = []
    n = n or COUNT[tier]
    for i in range(n):
        b = shapes.B(f"{pid.lower()}_{i}")
        u = histgen.Universe(rng, b, nleaves=(2, 5), ncolls=(1, 4), poison=0.25, depth=rng.choice([0, 1, 1, 2]))
        nt = rng.randint(2, 4)
        only = None
        sh0 = 0.35
        if pid == "C09" or (pid in ("C03", "C04", "C05") and rng.random() < 0.5):
            # thread 0 acquires a retrying collection; the others contend through anything else
            size = rng.randint(1, 4)
            members = []
            pool = [c for c in u.roots if c in b.leaf_of]
            rng.shuffle(pool)
            members = pool[:size]
            if rng.random() < 0.4:
                # a reader-heavy retrying acquisition: RwLock members only, contended by writers
                rws = [c for c in pool if b.sharable[c]]
                while len(rws) < size:
                    c = b.leaf("R")
                    rws.append(c)
                    u.roots.append(c)
                members = rws[:size]
                sh0 = 0.8
            if rng.random() < 0.3:
                own = [b.leaf(rng.choice("MR")) for _ in range(rng.randint(1, 2))]
                members.append(b.coll("owned", own))
            rc = b.coll("retry", members, cont=rng.choice(shapes.CONTS))
            u.roots.append(rc)
            only = [rc]
        progs = []
        for t in range(nt):
            progs.append((t, thread_prog(rng, u, rng.randint(1, 3), pid in ("C01", "C03", "C05") and rng.random() < 0.3,
                                         2 if pid == "C02" else 1, only if t == 0 else None,
                                         sh0 if t == 0 else 0.35)))
        total = sum(len(p) for _, p in progs)
        sched = [rng.randrange(nt) for _ in range(rng.randint(total, 4 * total + 4))]
        if rng.random() < 0.2:
            # bursts: run one thread for a while (run-to-block style)
            sched = []
            while len(sched) < 3 * total:
                sched += [rng.randrange(nt)] * rng.randint(1, 8)
        pol = "wp" if rng.random() < 0.5 else "rp"
        scens.append(b.scen(progs=progs, sched=(pol, sched), fuel=len(sched) + 4 * total + 8,
                            meta={"nt": nt, "policy": pol, "roots": [b.desc[c] for c in u.roots]}))
    return scens


def coq_expr(pid, s, r, suffix=""):
    if r["bobs"] is None or r["sched"] is None:
        return None
    sched = "[" + "; ".join(map(str, r["sched"])) + "]"
    return f"check_{pid}{suffix} ({s.coq_b(*r['adr'])}) {sched} ({hl.bobs_coq(r['bobs'])})"


def classify(s, r):
    out = [f"threads={s.meta['nt']}", f"policy={s.meta['policy']}", "status=" + (r["bobs"] or "?").split(" | ")[0]]
    if r["bobs"] and "BWait" in r["bobs"]:
        out.append("waits=yes")
    return out


def nontrivial(pid, s, r):
    bo = r["bobs"] or ""
    if pid == "C09":
        return "BWait 0" in bo or "RBool false" in bo
    if pid == "C02":
        return "EData" in bo and "BWait" in bo
    return "BWait" in bo


def signature(s):
    return s.text()
