"""C06 — history-based check (see tools/histprop.py, coq/Monitors.v mon_C06)."""
import common
import histprop
from common import from_replay, to_replay  # noqa: F401

PID = "C06"
COQ_MODULE = "Prop_C06"
THEOREMS = ['C06_one_key', 'C06_call_effect', 'C06_every_schedule_key_in_use_flag_set']
CASE_MODULES = ["Monitors"]
CHECK_WITHOUT_PROOF = True
TRUSTED = common.TRUSTED_COMMON
ASSUMPTIONS = common.ASSUME_COMMON
RULE = 'random API histories (1-2 threads, 4-14 calls) over a random universe of locks, poisonable wrappers and collections of every kind: get / drop / forget of the key, every acquisition flavour with lent and moved key (success, WouldBlock, poisoned), unlock, guard drop / forget, panicking closures, panics with a live guard, plus calls that Rust would reject (skipped by both sides); observation = ThreadKey::get() probe after every call and inside every closure; non-trivial = history contains a failed get, a leak, a panic or a key-returning failure; distinct = distinct scenario text'
EXHAUSTIVE = {"quick": False, "thorough": False}
classify = histprop.classify
signature = histprop.signature


def gen(tier, rng):
    return histprop.gen(PID, tier, rng)


def coq_expr(s, r):
    return histprop.coq_expr(PID, s, r)


def nontrivial(s, r):
    return histprop.nontrivial(PID, s, r)
