#!/bin/bash
# usage: tools/withrefactor.sh <name under /verif/refactors> <check ids...>
# applies a behaviour-preserving refactor to /repo, runs the quick checks, reverts /repo; writes checks.txt
D=/verif/refactors/$1; shift
git -C /repo apply "$D/patch.diff" || { echo "patch does not apply"; exit 2; }
RES=""
for c in "$@"; do
  OUT=$(/verif/check "$c" quick 2>&1 | grep -E "VIOLATION|KNOWN-FINDING|^C[0-9]+ quick|FRAMEWORK" | cut -c1-260)
  echo "-- $c: $OUT"
  if echo "$OUT" | grep -q "VIOLATION"; then
    if echo "$OUT" | grep -q "no-failing-input-found"; then RES="$RES $c:mismatch"; else RES="$RES $c:FAILING-INPUT"; fi
  elif echo "$OUT" | grep -q "FRAMEWORK"; then RES="$RES $c:framework-error"
  else RES="$RES $c:silent"; fi
done
git -C /repo checkout -- .
git -C /verif checkout -- coq/ApiTable.v 2>/dev/null
# the evidence files describe the unchanged tree: put back what these runs overwrote
git -C /verif checkout -- evidence 2>/dev/null
git -C /repo status --short | head -3
echo "RESULT $RES"
echo "$RES" > "$D/checks.txt"
