"""C01 — interleaved (Level B) check: see tools/bprop.py, coq/Conc.v, coq/BMonitors.v."""
import bprop
import common
from common import from_replay, to_replay  # noqa: F401

PID = "C01"
COQ_MODULE = "Prop_C01"
THEOREMS = ["C01_no_deadlock", "C01_no_self_wait", "C01_stable_test_sound", "C01_model_state_not_deadlocked",
            "C01_every_schedule", "C01_every_schedule_deadlock_free", "C01_every_schedule_no_self_wait", "C01_model_never_deadlocks"]
CASE_MODULES = ["Conc", "BMonitors", "WpMain"]
CHECK_WITHOUT_PROOF = True
SHRINK_GUARD = 1      # which of the booleans evaluated with the verdict certifies the theorem's hypotheses
TRUSTED = common.TRUSTED_COMMON + ["deterministic scheduler of the harness: real OS threads, one runnable at a time, "
                                   "every raw lock operation and data access is a scheduling point"]
ASSUMPTIONS = common.ASSUME_COMMON + ["grant policies of the auditing RwLock: reader-preferring and writer-preferring "
                                      "(readers refused while a writer waits); real parking_lot queues and OS scheduling are outside the model"]
RULE = 'programs of 2-4 threads x 1-3 acquisitions over a random universe (2-5 leaves, every collection kind, container, nesting <= 2, poisonable wrappers, shared leaves listed in independent orders), read and write modes, guard / try / scoped / scoped-try flavours, both RwLock grant policies; schedules: random and bursty thread sequences at raw-operation granularity, completed lowest-id-first; some programs panic with a live guard or inside a closure; a third of the programs make thread 0 acquire a retrying collection while the others use the same locks singly and through a sorting collection; 40% of the runs use priority scheduling with 0-3 demotion points; observation = per-thread raw operations, returns, final status, and the lock-order graph of the execution (must be acyclic); non-trivial = some thread had to wait; distinct = scenario text'
EXHAUSTIVE = {"quick": False, "thorough": False}
classify = bprop.classify
signature = bprop.signature


def gen(tier, rng):
    return bprop.gen(PID, tier, rng)


def coq_expr(s, r):
    return bprop.coq_expr(PID, s, r)


def nontrivial(s, r):
    return bprop.nontrivial(PID, s, r)


def deepen(s, rng):
    return bprop.deepen(PID, s, rng)


release_atomic = bprop.release_atomic
