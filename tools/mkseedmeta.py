"""usage: mkseedmeta.py <seed dir name> <props comma> <what> <needs> [strengthened]  — writes seeded/<name>/meta.json from checks.txt / validation.txt"""
import json, sys, os
name, props, what, needs = sys.argv[1:5]
strengthened = sys.argv[5] if len(sys.argv) > 5 else ""
d = f"/verif/seeded/{name}"
m = {"properties": props.split(","), "what": what, "needs": needs, "from_agents": [os.environ.get("SEED_BATCH", "batch 9")],
     "checks": " | ".join(l.strip() for l in open(f"{d}/checks.txt") if l.strip()),
     "validation": open(f"{d}/validation.txt").read().strip(),
     "ran": "tools/seedcheck.sh (existing suite with the change; demo with / without the change in the scratch worktree; then git -C /repo apply patch.diff; ./check <ids> quick; git -C /repo checkout -- .)"}
if strengthened:
    m["strengthened"] = strengthened
json.dump(m, open(f"{d}/meta.json", "w"), indent=1)
print("wrote", d)
