"""usage: harvest.py <seed dir name> <pid>...  — applies the seeded change to /repo, runs each check, and stores the failing
scenario the check reports (if it is a concrete failing input) under /verif/corpus/<pid>/<seed>.json; reverts /repo."""
import json, os, re, subprocess, sys
seed, pids = sys.argv[1], sys.argv[2:]
D = f"/verif/seeded/{seed}"
if subprocess.run(["git", "-C", "/repo", "apply", f"{D}/patch.diff"]).returncode != 0:
    sys.exit("patch does not apply")
try:
    for pid in pids:
        out = subprocess.run(["/verif/check", pid, "quick"], capture_output=True, text=True).stdout
        m = re.search(r"VIOLATION property=%s replay=(\S+)(.*)" % pid, out)
        if not m or "no-failing-input-found" in m.group(2):
            print(seed, pid, "no failing input"); continue
        j = json.load(open(m.group(1)))
        if "scenario" not in j:
            print(seed, pid, "replay of kind", j.get("kind"), "has no scenario"); continue
        os.makedirs(f"/verif/corpus/{pid}", exist_ok=True)
        json.dump({"from": seed, "kind": j.get("kind"), "scenario": j["scenario"]}, open(f"/verif/corpus/{pid}/{seed}.json", "w"), indent=1)
        print(seed, pid, "stored")
finally:
    subprocess.run(["git", "-C", "/repo", "checkout", "--", "."])
# an entry is kept only if the unchanged tree passes it
for pid in pids:
    fn = f"/verif/corpus/{pid}/{seed}.json"
    if os.path.exists(fn):
        out = subprocess.run(["/verif/check", pid, "--replay", fn], capture_output=True, text=True).stdout
        if "VIOLATION" in out or "FRAMEWORK" in out:
            os.remove(fn)
            print(seed, pid, "dropped: the unchanged tree does not pass it")
subprocess.run(["git", "-C", "/verif", "checkout", "--", "coq/ApiTable.v", "evidence"])
