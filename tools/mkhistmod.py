"""(development helper) writes the thin p_Cxx.py modules of the history-based properties"""
import textwrap
MODS = {
    "C06": dict(thms=["C06_one_key", "C06_call_effect"],
                rule="random API histories (1-2 threads, 4-14 calls) over a random universe of locks, poisonable wrappers and "
                     "collections of every kind: get / drop / forget of the key, every acquisition flavour with lent and moved key "
                     "(success, WouldBlock, poisoned), unlock, guard drop / forget, panicking closures, panics with a live guard, "
                     "plus calls that Rust would reject (skipped by both sides); observation = ThreadKey::get() probe after every "
                     "call and inside every closure; non-trivial = history contains a failed get, a leak, a panic or a key-returning "
                     "failure; distinct = distinct scenario text"),
}
COMMON_RULE = ("random API histories (1-3 threads, 4-14 calls, API-call-atomic) over a random universe of single locks, "
               "poisonable wrappers and collections of every kind / container / nesting depth <= 2 sharing leaves, with "
               "random holds of other threads present from the start; ")
MODS.update({
    "C03": dict(thms=["C03_guard_drop_releases_all", "C03_unlock_step", "C03_scoped_restores", "C03_no_self_wait"],
                rule=COMMON_RULE + "vocabulary: every acquisition flavour, unlock / drop / forget, panics; observation = hold table after "
                     "every call + blocked requests; non-trivial = at least three successful calls incl. a release; distinct = scenario text"),
    "C04": dict(thms=["C04_leaves_get_ptrs", "C04_lock_all_or_wait", "C04_try_all_or_nothing", "C04_scoped_call"],
                rule=COMMON_RULE + "vocabulary: lock/try/scoped/scoped-try in both modes against pre-held members; observation = hold table, "
                     "raw operations and closure markers per call; non-trivial = a refusal, a closure run or a blocked call; distinct = scenario text"),
    "C05": dict(thms=["C05_guard_drop_exact", "C05_collection_unlock_exact"],
                rule=COMMON_RULE + "observation = release operations with audit verdicts + hold table; non-trivial = at least one release; "
                     "distinct = scenario text"),
    "C10": dict(thms=["C10_no_panic_no_poison", "C10_guard_panic_poisons", "C10_own_scoped_panic_poisons",
                      "C10_poisoned_still_acquires", "C10_refuted_scoped_collection"],
                rule=COMMON_RULE + "vocabulary adds panics with a live guard, panicking closures, is_poisoned, clear_poison; observation = "
                     "is_poisoned of every wrapper after every call + Ok/Err seen at every wrapper position; non-trivial = history "
                     "contains a panic and a Poisonable; distinct = scenario text"),
    "C11": dict(thms=["C11_closure_panic", "C11_guard_panic", "C11_catch_reraises"],
                rule=COMMON_RULE + "panic injected with a live guard and inside closures (lent and moved key); observation = result, releases, "
                     "hold table and key probe after the catch; non-trivial = a panic that propagated; distinct = scenario text"),
    "C17": dict(thms=["C17_fmt_never_waits", "C17_fmt_no_disturbance", "C17_accessors_no_raw_ops"],
                rule=COMMON_RULE + "vocabulary adds Debug formatting of every lock / collection, is_poisoned, clear_poison, while locks are held "
                     "by other threads and by the caller itself; observation = raw operations + hold table; non-trivial = a non-acquiring "
                     "call while something is held; distinct = scenario text"),
})
TEMPLATE = '''"""{pid} — history-based check (see tools/histprop.py, coq/Monitors.v mon_{pid})."""
import common
import histprop
from common import from_replay, to_replay  # noqa: F401

PID = "{pid}"
COQ_MODULE = "Prop_{pid}"
THEOREMS = {thms!r}
CASE_MODULES = ["Monitors"]
CHECK_WITHOUT_PROOF = True
TRUSTED = common.TRUSTED_COMMON
ASSUMPTIONS = common.ASSUME_COMMON
RULE = {rule!r}
EXHAUSTIVE = {{"quick": False, "thorough": False}}
classify = histprop.classify
signature = histprop.signature


def gen(tier, rng):
    return histprop.gen(PID, tier, rng)


def coq_expr(s, r):
    return histprop.coq_expr(PID, s, r)


def nontrivial(s, r):
    return histprop.nontrivial(PID, s, r)
'''
if __name__ == "__main__":
    import sys
    for pid, d in MODS.items():
        open(f"/verif/tools/p_{pid}.py", "w").write(TEMPLATE.format(pid=pid, **d))
