"""(development helper) writes the thin p_Cxx.py modules of the history-based properties"""
import textwrap
MODS = {
    "C06": dict(thms=["C06_one_key", "C06_call_effect"],
                rule="random API histories (1-2 threads, 4-14 calls) over a random universe of locks, poisonable wrappers and "
                     "collections of every kind: get / drop / forget of the key, every acquisition flavour with lent and moved key "
                     "(success, WouldBlock, poisoned), unlock, guard drop / forget, panicking closures, panics with a live guard, "
                     "plus calls that Rust would reject (skipped by both sides); observation = ThreadKey::get() probe after every "
                     "call and inside every closure; non-trivial = history contains a failed get, a leak, a panic or a key-returning "
                     "failure; distinct = distinct scenario text"),
}
TEMPLATE = '''"""{pid} — history-based check (see tools/histprop.py, coq/Monitors.v mon_{pid})."""
import common
import histprop
from common import from_replay, to_replay  # noqa: F401

PID = "{pid}"
COQ_MODULE = "Prop_{pid}"
THEOREMS = {thms!r}
CASE_MODULES = ["Monitors"]
CHECK_WITHOUT_PROOF = True
TRUSTED = common.TRUSTED_COMMON
ASSUMPTIONS = common.ASSUME_COMMON
RULE = {rule!r}
EXHAUSTIVE = {{"quick": False, "thorough": False}}
classify = histprop.classify
signature = histprop.signature


def gen(tier, rng):
    return histprop.gen(PID, tier, rng)


def coq_expr(s, r):
    return histprop.coq_expr(PID, s, r)


def nontrivial(s, r):
    return histprop.nontrivial(PID, s, r)
'''
if __name__ == "__main__":
    import sys
    for pid, d in MODS.items():
        open(f"/verif/tools/p_{pid}.py", "w").write(TEMPLATE.format(pid=pid, **d))
