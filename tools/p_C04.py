"""C04 — history-based check (see tools/histprop.py, coq/Monitors.v mon_C04)."""
import common
import histprop
from common import from_replay, to_replay  # noqa: F401

PID = "C04"
COQ_MODULE = "Prop_C04"
THEOREMS = ['C04_every_history', 'C04_leaves_get_ptrs', 'C04_lock_all_or_wait', 'C04_try_all_or_nothing', 'C04_scoped_call', "C04_every_schedule_guard_holds_exactly", "C04_every_schedule_try_never_waits"]
CASE_MODULES = ["Pf_Hist", "Pf_Hist4", "Monitors", "Conc", "BMonitors"]
CHECK_WITHOUT_PROOF = True
SHRINK_GUARD = 0      # which of the booleans evaluated with the verdict certifies the theorem's hypotheses
TRUSTED = common.TRUSTED_COMMON
ASSUMPTIONS = common.ASSUME_COMMON
RULE = 'random API histories (1-3 threads, 4-14 calls, API-call-atomic) over a random universe of single locks, poisonable wrappers and collections of every kind / container / nesting depth <= 2 sharing leaves, with random holds of other threads present from the start; vocabulary: lock/try/scoped/scoped-try in both modes against pre-held members; observation = hold table, raw operations and closure markers per call; non-trivial = a refusal, a closure run or a blocked call; distinct = scenario text; plus interleaved (Level B) programs of 2-4 threads at raw-operation granularity (as for C01 / C09, half of them with a retrying collection under contention), judged by the replaying monitor of BMonitors.v (holds per thread at every call return)'
EXHAUSTIVE = {"quick": False, "thorough": False}
classify = histprop.classify
signature = histprop.signature


def gen(tier, rng):
    return histprop.gen(PID, tier, rng)


def coq_expr(s, r):
    return histprop.coq_expr(PID, s, r)


def nontrivial(s, r):
    return histprop.nontrivial(PID, s, r)
