"""Delta-debugging of a failing scenario: remove calls / operations / threads / pre-holds one at a time while the property's
monitor still rejects what the implementation does; all candidates of a round run in one harness batch and one coqc batch."""
import copy

import hl


def size(s):
    return len(s.hist) + sum(len(ops) for _, ops in s.progs) + len(s.pre) + len(getattr(s, "probes", []))


def variants(s):
    out = []

    def add(v):
        v.sid = f"{s.sid}_m{len(out)}"
        out.append(v)
    for i in range(len(s.hist)):
        v = copy.deepcopy(s)
        del v.hist[i]
        add(v)
    for ti, (t, ops) in enumerate(s.progs):
        # a thread keeps at least one operation: a thread without a line in the scenario text does not exist for the
        # harness, and the schedule would name a thread that is not there
        if len(ops) > 1:
            v = copy.deepcopy(s)
            v.progs[ti] = (t, ops[:1])
            add(v)
        for i in range(len(ops)):
            if len(ops) == 1:
                break
            v = copy.deepcopy(s)
            v.progs[ti] = (t, ops[:i] + ops[i + 1:])
            add(v)
    for i in range(len(s.pre)):
        v = copy.deepcopy(s)
        del v.pre[i]
        add(v)
    for i in range(len(getattr(s, "probes", []))):
        v = copy.deepcopy(s)
        del v.probes[i]
        add(v)
    # closure bodies: drop one closure operation
    def drop_body(op):
        if len(op) >= 6 and isinstance(op[5], list):
            for j in range(len(op[5])):
                yield op[:5] + (op[5][:j] + op[5][j + 1:],) + op[6:]
    for i, (t, op) in enumerate(s.hist):
        for op2 in drop_body(op):
            v = copy.deepcopy(s)
            v.hist[i] = (t, op2)
            add(v)
    for ti, (t, ops) in enumerate(s.progs):
        for i, op in enumerate(ops):
            for op2 in drop_body(op):
                v = copy.deepcopy(s)
                v.progs[ti] = (t, ops[:i] + [op2] + ops[i + 1:])
                add(v)
    return out


def shrink(P, driver, pid, s, r, rounds=10):
    """returns (scenario, harness result) of a smaller scenario on which the monitor still fails, or the input.
    A candidate only counts if the scenario still meets the decidable hypotheses of the property's whole-history /
    every-schedule theorem (P.SHRINK_GUARD: index of that flag among the booleans evaluated with the verdict): then the
    model satisfies the monitor on it by the theorem, and the implementation's failure is a genuine discrepancy."""
    guard = getattr(P, "SHRINK_GUARD", None)
    if guard is None or not hasattr(s, "hist") or not hasattr(s, "progs") or not hasattr(s, "pre"):
        return s, r, 0
    cur, curr, tried = s, r, 0
    for _ in range(rounds):
        cands = variants(cur)
        if not cands:
            break
        tried += len(cands)
        res, _ = hl.run_harness(driver, cands, pid + "m")
        items = []
        for c in cands:
            rc = res.get(c.sid)
            if rc is None or rc.get("crashed") or not rc["done"] or rc["error"] or rc["adr"] is None:
                continue
            try:
                e = P.coq_expr(c, rc)
            except Exception:
                continue
            if e is not None:
                items.append((c.sid, e))
        vals, _ = hl.run_coq_cases(pid + "m", P.CASE_MODULES, items)
        failing = []
        for c in cands:
            v = hl.parse_verdict(vals.get(c.sid))
            ex = hl.parse_extras(vals.get(c.sid))
            if v is not None and not v[2] and len(ex) > guard and ex[guard] \
                    and not (v[3] and hasattr(P, "known_class") and P.known_class(c, res[c.sid])):
                failing.append(c)
        if not failing:
            break
        best = min(failing, key=size)
        if size(best) >= size(cur):
            break
        cur, curr = best, res[best.sid]
    return cur, curr, tried
