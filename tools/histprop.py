"""Shared implementation of the history-based property modules."""
import bprop
import common
import histgen
import shapes

PROFILES = {
    "C03": dict(acquire=5, release=5, access=0.5, forget=0.15, panic=0.3, closure_panic=0.2, block=0.08),
    "C04": dict(acquire=6, release=4, access=0.5, block=0.05),
    "C05": dict(acquire=5, release=5, access=0.5, forget=0.05, panic=0.5, closure_panic=0.35, poison=0.4),
    "C06": dict(key=3, acquire=4, release=3, forget=0.6, panic=0.6, closure_panic=0.3, invalid=0.5, access=0.2),
    "C10": dict(acquire=5, release=3, panic=1.5, closure_panic=0.45, poison=2.0, access=0.3, invalid=0.05),
    "C11": dict(acquire=5, release=2, panic=2.5, closure_panic=0.6, access=0.3, invalid=0.05),
    "C17": dict(acquire=4, release=2, fmt=5, poison=1.5, access=1, key=1),
    "C13": dict(acquire=6, release=3, access=0.3, fmt=1.5, panic=0.5, closure_panic=0.2, poison=0.6, forget=0.1),
}
NTHREADS = {"C03": (1, 2), "C04": (1, 2), "C05": (1, 3), "C06": (1, 2), "C10": (1, 3), "C11": (1, 2), "C17": (1, 2), "C13": (1, 3)}
PRE = {"C03": 0.1, "C04": 0.3, "C05": 0.15, "C06": 0.1, "C10": 0.05, "C11": 0.1, "C17": 0.35, "C13": 0.4}
COUNT = {"quick": 1500, "thorough": 25000}
# C03 / C04 / C05 are also judged on interleaved (Level B) executions: BMonitors.v check_C03b / C04b / C05b
BCOUNT = {"quick": 500, "thorough": 8000}
BPIDS = ("C03", "C04", "C05", "C10")
WHOLE_HISTORY = ("C03", "C04", "C05", "C10", "C11", "C17")


def gen(pid, tier, rng, n=None, poison=None):
    scens = []
    full = n is None
    n = n or COUNT[tier]
    for i in range(n):
        b = shapes.B(f"{pid.lower()}_{i}")
        u = histgen.Universe(rng, b, poison=poison if poison is not None else (0.8 if pid == "C10" else 0.35),
                             depth=rng.choice([0, 1, 1, 2]))
        pre = histgen.random_pre(rng, b, PRE[pid]) if rng.random() < 0.6 else []
        nt = rng.randint(*NTHREADS[pid])
        # C10 / C11 / C06 / C05 / C03: some threads run their whole history inside a destructor during an unrelated unwind
        unw = [t for t in range(nt) if pid in ("C10", "C11", "C06", "C05", "C03") and rng.random() < 0.12]
        # a fifth of the histories are drawn with the profile of another history property (panic- / poison- / forget-heavy
        # mixes this property's own profile rarely produces); the monitor evaluated stays this property's
        prof = PROFILES[pid] if rng.random() < 0.8 else PROFILES[rng.choice(sorted(PROFILES))]
        hist = histgen.gen_history(rng, u, nthreads=nt, length=rng.randint(4, 14), profile=prof, pre=pre, unw=unw)
        if not hist:
            hist = [(0, ("get",))]
        probes = []
        if pid == "C17":
            # Debug formatting with a payload whose own Debug impl reports an error or panics (what a failing sink does to the
            # lock's impl): not in the model's vocabulary, judged directly: no blocking operation, hold table unchanged
            tids = sorted({t for t, _ in hist})
            for c in u.roots:
                for l in b.locks_of[c][:3]:
                    if rng.random() < 0.5:
                        probes.append((rng.choice(tids), (rng.choice(["fmtfail", "fmtpanic"]), c, l)))
            probes = probes[:6]
        f1 = []
        panics = any(op[0] == "panic" or (op[0] == "acq" and len(op) > 5 and ("panic",) in op[5]) for _, op in hist)
        if pid == "C06" and not unw and not panics and rng.random() < 0.3:
            # C06 has no hypotheses (C06_one_key holds of every scenario, fault plans included): one raw lock operation of the
            # history panics; whatever the recovery code does, the key is obtainable again exactly when it is not alive
            # (not next to user-code panics or inside an unwinding context: a second panic during unwinding aborts the process)
            f1 = [rng.randrange(0, 10)]
        scens.append(b.scen(hist=hist, pre=pre, unw=unw, probes=probes, f1=f1,
                            meta={"roots": [b.desc[c] for c in u.roots], "nt": nt, "fault": bool(f1)}))
    if pid in BPIDS:
        bs = bprop.gen(pid, tier, rng, n=BCOUNT[tier] if full else max(1, n // 3))
        for s in bs:
            s.sid = "b" + s.sid
        scens += bs
    return scens


def coq_expr(pid, s, r):
    if s.sched:
        return bprop.coq_expr(pid, s, r, "b")
    if pid == "C17" and r.get("pobs"):
        # probes: "(rc) [evs] before after" judged by the property's own clause
        conj = []
        for po in r["pobs"]:
            rc, rest = po.split(") ", 1)
            evs, rest = rest[1:].split("] [", 1)
            before, after = ("[" + rest).split("] [", 1)
            conj.append(f"(negb (rcode_eqb ({rc.strip('(')}) RBlockedC) && nonblocking_evs [{evs}] && "
                        f"holds_sim [{after} ({before}]))")
        P = " && ".join(conj)
        base = f"check_{pid} ({s.coq(*r['adr'])}) {common.obs_list(r)}"
        return (f"(let v := {base} in mkv (v_strict v) (v_proj v) (v_mon v && ({P})) (v_monk v && ({P})), "
                f"wf_histb ({s.coq(*r['adr'])}))")
    if pid == "C10":
        sc_, ob_ = s.coq(*r['adr']), common.obs_list(r)
        # the scenario and the observation are bound once: the terms are large, and the file is parsed by coqc
        X = "still_acquires sc (pre_holds sc) (sc_hist sc) ob && mon_C10u sc ob"
        return (f"(let sc := {sc_} in let ob := {ob_} in let v := check_C10 sc ob in "
                f"(mkv (v_strict v) (v_proj v) (v_mon v && {X}) (v_monk v && {X}), wf_histb sc))")
    if pid == "C17":
        sc_, ob_ = s.coq(*r['adr']), common.obs_list(r)
        X = "nonacq_no_bad_release (sc_hist sc) ob"
        return (f"(let sc := {sc_} in let ob := {ob_} in let v := check_C17 sc ob in "
                f"(mkv (v_strict v) (v_proj v) (v_mon v && {X}) (v_monk v && {X}), wf_histb sc))")
    if pid == "C04":
        sc_, ob_ = s.coq(*r['adr']), common.obs_list(r)
        return (f"(let sc := {sc_} in let ob := {ob_} in let v := check_C04 sc ob in let x := no_bad_release ob in "
                f"(mkv (v_strict v) (v_proj v) (v_mon v && x) (v_monk v && x), wf_histb sc && wf4b sc))")
    if pid in WHOLE_HISTORY:
        # also evaluate the decidable hypotheses of the whole-history theorem (Pf_Hist.v) on this scenario
        return f"(let sc := {s.coq(*r['adr'])} in (check_{pid} sc {common.obs_list(r)}, wf_histb sc))"
    return f"check_{pid} ({s.coq(*r['adr'])}) {common.obs_list(r)}"


def classify(s, r):
    if s.sched:
        return ["level=B"] + bprop.classify(s, r)
    out = ["level=A", "unwinding-context=" + str(bool(s.unw)), f"threads={s.meta['nt']}", f"len={len(s.hist)}"]
    if s.meta.get("fault"):
        out.append("one-raw-operation-panics=yes")
    codes = {}
    for o in r["obs"]:
        c = o.split("(", 1)[1].split(")", 1)[0].split()[0]
        codes[c] = codes.get(c, 0) + 1
    out += [f"ret={k}" for k in codes]
    for t, op in s.hist:
        out.append("op=" + op[0] + (":" + op[3] if op[0] == "acq" else ""))
    return sorted(set(out))


def signature(s):
    return s.text()


def nontrivial(pid, s, r):
    """a history is non-trivial for a property when it reaches the branches that property is about"""
    if s.sched:
        return bprop.nontrivial(pid, s, r)
    obs = " ".join(r["obs"])
    ops = [op for _, op in s.hist]
    has_panic = any(op[0] == "panic" or (op[0] == "acq" and len(op) > 5 and ("panic",) in op[5]) for op in ops)
    if pid == "C06":
        return "RB false" in obs or has_panic or any(op[0] in ("kforget", "gforget") for op in ops) or "RWouldBlock" in obs
    if pid == "C03":
        return obs.count("(ROk)") >= 3 and any(op[0] in ("gdrop", "gunlock") for op in ops)
    if pid == "C04":
        return "RWouldBlock" in obs or "EMark" in obs or "RBlocked" in obs
    if pid == "C05":
        return "OUnlock" in obs
    if pid == "C10":
        return has_panic and s.npids > 0
    if pid == "C11":
        return has_panic and "RPanicked" in obs
    if pid == "C17":
        return any(op[0] in ("fmt", "ispoisoned", "clear") for op in ops) and ("Some" in obs or "[1" in obs)
    return True
