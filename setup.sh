#!/bin/sh
# builds the Coq development (full .vo) and the Rust harness from files on disk only
cd "$(dirname "$0")" || exit 2
export CARGO_NET_OFFLINE=true
mkdir -p build
(cd coq && coq_makefile -f _CoqProject -o Makefile && timeout 3000 make -j16) || exit 1
cp -n /repo/Cargo.lock harness/Cargo.lock 2>/dev/null
(cd harness && CARGO_TARGET_DIR=../build/harness cargo build --offline --quiet) || exit 1
echo setup ok
