(* Wp03.v — C03 on every schedule: a thread that waits inside an acquisition holds nothing from before the call — every
   lock in its hands is a leaf of the very lock / collection it is acquiring. *)
From HL Require Import Base Model Shape Algo Api Conc Check Monitors Lemmas ShapeLemmas Wp WpAlgo WpApi WpMain.

Definition blc03 (sc : scen) (c : nat) (H : list hold) (l : lock) : Prop :=
  forall x, In x H -> In (fst x) (leaves (shape_of sc c)).

Definition blc03b (sc : scen) (c : nat) (H : list hold) (l : lock) : bool :=
  forallb (fun x => memb (fst x) (leaves (shape_of sc c))) H.

Lemma blc03b_ok sc c H l : blc03b sc c H l = true -> blc03 sc c H l.
Proof. unfold blc03b, blc03. intros E x Hx. rewrite forallb_forall in E. apply memb_In. now apply E. Qed.

Definition wfB03 (b : bscen) : bool := wfB_gen (blc03b (bs_sc b)) b.

Theorem every_schedule_waits_with_own_locks_only b sched t k l c m f p l' :
  wfB03 b = true ->
  let sc := bs_sc b in
  let s := fst (run_sched (bs_wp b) (sc_env sc) (sc_nlocks sc) (binit b) sched) in
  parked (get_thr (b_thr s) t) = Some (ORaw k l) -> rop_blocking k = true ->
  th_cur (get_thr (b_thr s) t) = Some (AAcquire c m f, p) ->
  holds_b (b_w s) t l' = true -> In l' (leaves (shape_of sc c)).
Proof.
  intros W sc s PK BL CU HB.
  pose proof (reach_GI_dec (blc03 sc) (blc03b sc) (blc03b_ok sc) false false b sched W) as G.
  change (run_sched_g false false false) with run_sched in G. fold sc in G. fold s in G.
  destruct (GI_blocked b _ _ _ _ _ t k l G PK BL) as [H [K [o [p' [A [CU' B]]]]]].
  rewrite CU in CU'. inversion CU'; subst o p'. cbn [blk_of] in B. destruct (blocking_flavour f); [|contradiction].
  assert (HH : writer_is (w_raw (b_w s) l') t = true \/ memb t (readers (w_raw (b_w s) l')) = true).
  { unfold holds_b in HB. apply orb_true_iff in HB. exact HB. }
  destruct (agree_holds b _ _ _ _ _ A HH) as [x Hx]. apply (B _ Hx).
Qed.
