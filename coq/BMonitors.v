(* BMonitors.v — Level B: comparison of interleaved observations and the monitors that read them. *)
From HL Require Import Base Model Shape Algo Api Conc Check Monitors.

Definition bstatus_eqb (a b : bstatus) : bool :=
  match a, b with
  | BDone, BDone | BDeadlock, BDeadlock | BSelfWait, BSelfWait | BUnfinished, BUnfinished | BBadSchedule, BBadSchedule => true
  | _, _ => false
  end.

Definition bev_eqb (a b : bev) : bool :=
  match a, b with
  | BE x, BE y => ev_eqb x y
  | BRet t r k, BRet t' r' k' => Nat.eqb t t' && rcode_eqb r r' && Bool.eqb k k'
  | BWait t l h, BWait t' l' h' => Nat.eqb t t' && Nat.eqb l l' && list_eqb Nat.eqb h h'
  | _, _ => false
  end.

Definition bobs_eqb (a b : bobs) : bool :=
  bstatus_eqb (bo_status a) (bo_status b) && list_eqb bev_eqb (bo_evs a) (bo_evs b) &&
  list_eqb rawst_sim (bo_holds a) (bo_holds b) && list_eqb Bool.eqb (bo_psn a) (bo_psn b).

Definition bproject (f : bev -> bool) (holds psn : bool) (o : bobs) : bobs :=
  mkbo (bo_status o) (filter f (bo_evs o)) (if holds then bo_holds o else []) (if psn then bo_psn o else []).

(* ---------------------------------------------------------------- replaying an interleaved trace *)
Record bsim := mkbsim {
  bh : list (tid * lock * bool);      (* holds: thread, lock, exclusive? — one entry per hold *)
  blast : lock -> nat;                (* version left by the latest exclusive section *)
  bcalls : tid -> nat;                (* calls completed per thread *)
  bfresh : tid -> bool;               (* no raw operation yet in the current call *)
  ok02 : bool; ok03 : bool; ok04 : bool; ok05 : bool; ok09 : bool
}.

Definition holds_lock (h : list (tid * lock * bool)) (t : tid) (l : lock) (need_ex : bool) : bool :=
  existsb (fun x => match x with (t', l', ex) => Nat.eqb t t' && Nat.eqb l l' && (ex || negb need_ex) end) h.

Definition thread_has (h : list (tid * lock * bool)) (t : tid) : bool :=
  existsb (fun x => match x with (t', _, _) => Nat.eqb t t' end) h.

Fixpoint remove_hold (h : list (tid * lock * bool)) (t : tid) (l : lock) (ex : bool) : list (tid * lock * bool) :=
  match h with
  | [] => []
  | (t', l', ex') :: r =>
      if Nat.eqb t t' && Nat.eqb l l' && Bool.eqb ex ex' then r else (t', l', ex') :: remove_hold r t l ex
  end.

Definition count_hold (h : list (tid * lock * bool)) (t : tid) (l : lock) (ex : bool) : nat :=
  length (filter (fun x => match x with (t', l', ex') => Nat.eqb t t' && Nat.eqb l l' && Bool.eqb ex ex' end) h).

Definition nilb {A} (l : list A) : bool := match l with [] => true | _ => false end.

Definition cur_op (b : bscen) (s : bsim) (t : tid) : option apiop :=
  nth_error (nth t (bs_progs b) []) (bcalls s t).

(* the leaves of the owned unit of shape s that contains lock l (empty if l is a free-standing member) *)
Fixpoint unit_of (s : shape) (l : lock) : list lock :=
  match s with
  | SLeaf _ _ => []
  | SSeq ss => flat_map (fun x => unit_of x l) ss
  | SOwned _ s' => if memb l (leaves s') then leaves s' else []
  | SBoxed s' | SRefC s' | SRetry s' | SPoison _ s' => unit_of s' l
  end.

Fixpoint is_retry_root (s : shape) : bool :=
  match s with SRetry _ => true | SPoison _ s' => is_retry_root s' | _ => false end.

Definition is_ex_rop (k : rop) : bool := match k with OLock | OTry | OUnlock => true | _ => false end.

Definition bstep (b : bscen) (s : bsim) (e : bev) : bsim :=
  let sc := bs_sc b in
  match e with
  | BE (ERaw t k l r) =>
      let first := bfresh s t in
      let acq_call := match cur_op b s t with Some (AAcquire _ _ _) => true | _ => false end in
      (* C03: an acquisition starts with nothing held *)
      let o3 := ok03 s && (if first && acq_call then negb (thread_has (bh s) t) else true) in
      let s1 := mkbsim (bh s) (blast s) (bcalls s) (upd (bfresh s) t false) (ok02 s) o3 (ok04 s) (ok05 s) (ok09 s) in
      match r with
      | RUnit | RBool true =>
          if is_acq_rop k then
            mkbsim ((t, l, is_ex_rop k) :: bh s1) (blast s1) (bcalls s1) (bfresh s1)
                   (ok02 s1 &&
                    (* exclusive sections exclude everything else; shared ones only exclusive ones *)
                    negb (existsb (fun x => match x with (t', l', ex) => Nat.eqb l l' && (ex || is_ex_rop k) end) (bh s1)))
                   (ok03 s1) (ok04 s1) (ok05 s1) (ok09 s1)
          else
            (* a release: must be of a hold this thread has, in its mode *)
            mkbsim (remove_hold (bh s1) t l (is_ex_rop k)) (blast s1) (bcalls s1) (bfresh s1) (ok02 s1) (ok03 s1) (ok04 s1)
                   (ok05 s1 && holds_lock (bh s1) t l (is_ex_rop k) &&
                    (if is_ex_rop k then true else negb (holds_lock (bh s1) t l true) || true))
                   (ok09 s1)
      | RBad => mkbsim (bh s1) (blast s1) (bcalls s1) (bfresh s1) (ok02 s1) (ok03 s1) (ok04 s1) false (ok09 s1)
      | _ => s1
      end
  | BE (EData t wr pos tag ver) =>
      (* data is reached only under a hold of that very lock (exclusive for writes), and is what the latest
         exclusive section left *)
      let o2 := ok02 s && holds_lock (bh s) t tag wr &&
                (if wr then Nat.eqb ver (S (blast s tag)) else Nat.eqb ver (blast s tag)) in
      mkbsim (bh s) (if wr then upd (blast s) tag ver else blast s) (bcalls s) (bfresh s) o2 (ok03 s) (ok04 s) (ok05 s) (ok09 s)
  | BE (EMark t 1) =>
      (* the closure runs only while all of its locks are held *)
      let o4 := ok04 s && match cur_op b s t with
                          | Some (AAcquire c m _) =>
                              forallb (fun l => holds_lock (bh s) t l (match m with Ex => true | Sh => false end))
                                      (leaves (shape_of sc c))
                          | _ => false
                          end in
      mkbsim (bh s) (blast s) (bcalls s) (bfresh s) (ok02 s) (ok03 s) o4 (ok05 s) (ok09 s)
  | BE _ => s
  | BRet t r kf =>
      let mine := filter (fun x => match x with (t', _, _) => Nat.eqb t t' end) (bh s) in
      (* C03 / C05: a call that hands the key back (guard dropped or unlocked, scoped call over, failed try,
         unwinding) leaves the thread holding nothing *)
      let o3 := ok03 s && match cur_op b s t with
                          | Some AGuardDrop | Some AGuardUnlock | Some APanic => nilb mine
                          | Some (AAcquire _ _ (FScoped _ _)) | Some (AAcquire _ _ (FScopedTry _ _)) => nilb mine
                          | Some (AAcquire _ _ FTry) => match r with RWouldBlock => nilb mine | _ => true end
                          | _ => true
                          end in
      (* C04: a guard is returned only with every leaf held exactly once, in the requested mode, and nothing else *)
      let o4 := ok04 s && match cur_op b s t, r with
                          | Some (AAcquire c m FGuard), (ROk | RPoisoned)
                          | Some (AAcquire c m FTry), (ROk | RPoisoned) =>
                              let lv := leaves (shape_of sc c) in
                              let ex := match m with Ex => true | Sh => false end in
                              forallb (fun l => Nat.eqb (count_hold mine t l ex) 1) lv && Nat.eqb (length mine) (length lv)
                          | _, _ => true
                          end in
      mkbsim (bh s) (blast s) (upd (bcalls s) t (S (bcalls s t))) (upd (bfresh s) t true)
             (ok02 s) o3 o4 (ok05 s) (ok09 s)
  | BWait t l held =>
      (* a retrying acquisition waits only with nothing of it in hand (inside an owned member: only that
         member's own lower locks) *)
      let o9 := ok09 s && match cur_op b s t with
                          | Some (AAcquire c _ _) =>
                              let sh := shape_of sc c in
                              if is_retry_root sh then forallb (fun h => memb h (unit_of sh l)) held else true
                          | _ => true
                          end in
      mkbsim (bh s) (blast s) (bcalls s) (bfresh s) (ok02 s) (ok03 s) (ok04 s) (ok05 s) o9
  end.

Definition bsim0 : bsim := mkbsim [] (fun _ => 0) (fun _ => 0) (fun _ => true) true true true true true.

Definition breplay (b : bscen) (o : bobs) : bsim := fold_left (bstep b) (bo_evs o) bsim0.

Definition is_done (o : bobs) : bool := bstatus_eqb (bo_status o) BDone.

(* C01: every thread ran to completion *)
Definition mon_C01 (b : bscen) (o : bobs) : bool := is_done o.
(* C02: exclusion, data continuity, closures under the full hold *)
(* position i of a guard / closure argument is the data of member i: every data access names the lock that the declared
   structure has at that position *)
Record b02 := mkb02 { gc02 : tid -> option nat; calls02 : tid -> nat; okr02 : bool }.
Definition step02 (b : bscen) (s : b02) (e : bev) : b02 :=
  let sc := bs_sc b in
  let cur := fun t => nth_error (nth t (bs_progs b) []) (calls02 s t) in
  match e with
  | BE (EData t wr pos tag _) =>
      let items := match cur t with
                   | Some (AAcquire c _ (FScoped _ _ | FScopedTry _ _)) => Some (gitems (shape_of sc c))
                   | Some (AGuardRead _ | AGuardWrite _) =>
                       match gc02 s t with Some c => Some (gitems (shape_of sc c)) | None => Some [] end
                   | _ => None                      (* Debug formatting reads are not positional *)
                   end in
      let good := match items with
                  | Some it => match nth_leaf it pos with Some (_, l) => Nat.eqb l tag | None => false end
                  | None => true
                  end in
      mkb02 (gc02 s) (calls02 s) (okr02 s && good)
  | BRet t r _ =>
      let g := match cur t with
               | Some (AAcquire c _ (FGuard | FTry)) => match r with ROk | RPoisoned => Some c | _ => gc02 s t end
               | Some (AGuardDrop | AGuardUnlock | APanic | AGuardForget) => match r with RSkipped => gc02 s t | _ => None end
               | _ => gc02 s t
               end in
      mkb02 (upd (gc02 s) t g) (upd (calls02 s) t (S (calls02 s t))) (okr02 s)
  | _ => s
  end.
Definition mon_C02r (b : bscen) (o : bobs) : bool :=
  okr02 (fold_left (step02 b) (bo_evs o) (mkb02 (fun _ => None) (fun _ => 0) true)).

Definition no_bad_release_b (o : bobs) : bool :=
  forallb (fun e => match e with BE (ERaw _ _ _ RBad) => false | _ => true end) (bo_evs o).
Definition mon_C02 (b : bscen) (o : bobs) : bool :=
  let s := breplay b o in ok02 s && ok04 s && mon_C02r b o && no_bad_release_b o.
(* C09: retrying acquisitions never wait while holding, and the run completes *)
Definition mon_C09 (b : bscen) (o : bobs) : bool := ok09 (breplay b o) && is_done o.
(* the interleaved parts of C03 / C05 *)
(* a thread found waiting for a lock it holds itself: it began to acquire while a hold it had obtained earlier was still
   live (C03), and that hold can no longer be released by anybody (C05) *)
Definition no_selfwait (o : bobs) : bool := negb (bstatus_eqb (bo_status o) BSelfWait).
Definition mon_C03b (b : bscen) (o : bobs) : bool := ok03 (breplay b o) && no_selfwait o.
Definition mon_C04b (b : bscen) (o : bobs) : bool := ok04 (breplay b o).
Definition mon_C05b (b : bscen) (o : bobs) : bool :=
  let s := breplay b o in
  ok05 s && ok03 s && no_selfwait o && (if is_done o then list_eqb rawst_sim (bo_holds o) (pre_holds (bs_sc b)) else true).

(* ---------------------------------------------------------------- C08 on interleaved executions
   The order in which a blocking acquisition of a sorting collection (boxed / ref, possibly inside Poisonable) took the
   locks it holds at the moment it hands out its guard / enters its closure: for any two such acquisitions the locks they
   have in common were taken in the same relative order — also when members were contended on the way. *)
Fixpoint is_sorting (s : shape) : bool :=
  match s with SBoxed _ | SRefC _ => true | SPoison _ s' => is_sorting s' | _ => false end.

Record b08 := mkb08 { held08 : tid -> list lock; calls08 : tid -> nat; snaps08 : list (list lock) }.

Definition step08 (b : bscen) (s : b08) (e : bev) : b08 :=
  let sc := bs_sc b in
  let cur := fun t => nth_error (nth t (bs_progs b) []) (calls08 s t) in
  let sorting_guard := fun t => match cur t with
                                | Some (AAcquire c _ FGuard) => is_sorting (shape_of sc c)
                                | _ => false
                                end in
  let sorting_scoped := fun t => match cur t with
                                 | Some (AAcquire c _ (FScoped _ _)) => is_sorting (shape_of sc c)
                                 | _ => false
                                 end in
  match e with
  | BE (ERaw t k l r) =>
      match k, r with
      | OLock, RUnit | OLockSh, RUnit | OTry, RBool true | OTrySh, RBool true =>
          mkb08 (upd (held08 s) t (held08 s t ++ [l])) (calls08 s) (snaps08 s)
      | OUnlock, RUnit | OUnlockSh, RUnit =>
          mkb08 (upd (held08 s) t (remove1 l (held08 s t))) (calls08 s) (snaps08 s)
      | _, _ => s
      end
  | BE (EMark t _) =>
      if sorting_scoped t then mkb08 (held08 s) (calls08 s) (held08 s t :: snaps08 s) else s
  | BRet t r _ =>
      let snap := match r with ROk | RPoisoned => sorting_guard t | _ => false end in
      mkb08 (held08 s) (upd (calls08 s) t (S (calls08 s t))) (if snap then held08 s t :: snaps08 s else snaps08 s)
  | _ => s
  end.

Definition same_order (a b : list lock) : bool :=
  list_eqb Nat.eqb (filter (fun l => memb l b) a) (filter (fun l => memb l a) b).

Definition mon_C08b (b : bscen) (o : bobs) : bool :=
  let s := fold_left (step08 b) (bo_evs o) (mkb08 (fun _ => []) (fun _ => 0) []) in
  forallb (fun a => forallb (same_order a) (snaps08 s)) (snaps08 s).

Definition bev_is_raw (e : bev) : bool := match e with BE (ERaw _ _ _ _) => true | BRet _ _ _ => true | _ => false end.
Definition bev_is_data (e : bev) : bool := match e with BE (EData _ _ _ _ _) | BE (EMark _ _) => true | BE (ERaw _ _ _ _) => true | _ => false end.
Definition bev_is_wait (e : bev) : bool := match e with BWait _ _ _ => true | BRet _ _ _ => true | _ => false end.

Definition bcheck (f : bev -> bool) (holds psn : bool) (mon : bscen -> bobs -> bool)
           (b : bscen) (sched : list tid) (impl : bobs) : verdict :=
  let m := model_bobs b sched in
  let ok := mon b impl in
  mkv (bobs_eqb m impl) (bobs_eqb (bproject f holds psn m) (bproject f holds psn impl)) ok ok.

(* C01 additionally evaluates, on the model side, the hypotheses of the deadlock-freedom theorem (the rank
   discipline) in every state the schedule goes through *)
Definition check_C01 (b : bscen) (sched : list tid) (impl : bobs) : verdict :=
  let v := bcheck bev_is_raw true false (fun b o => mon_C01 b o && mon_C03b b o && mon_C05b b o) b sched impl in
  mkv (v_strict v) (v_proj v && model_stable b sched) (v_mon v) (v_monk v).
Definition check_C02 := bcheck bev_is_data true false mon_C02.
Definition check_C09 := bcheck bev_is_wait false false mon_C09.
(* the interleaved parts of the C03 / C04 / C05 checks *)
(* these interleaved runs are an additional search for failing inputs (the correspondence of C03 / C04 / C05 / C10 is
   checked on API-call-atomic histories, that of the interleaved model in C01 / C02 / C09): only the monitor decides *)
Definition bcheck_mon (mon : bscen -> bobs -> bool) (b : bscen) (sched : list tid) (impl : bobs) : verdict :=
  let ok := mon b impl in mkv (bobs_eqb (model_bobs b sched) impl) true ok ok.
Definition check_C03b := bcheck_mon mon_C03b.
Definition check_C04b := bcheck_mon mon_C04b.
Definition check_C05b := bcheck_mon mon_C05b.
Definition check_C08b := bcheck_mon mon_C08b.

(* ---------------------------------------------------------------- lock-order graph of an execution (C01) *)
(* Every blocking acquisition made (or waited for) while holding other locks adds the edges held -> wanted.  The
   deadlock-freedom theorem rests on a rank function that every such edge ascends; an execution of the
   implementation whose edges form a cycle has left that discipline, whether or not this schedule deadlocked. *)
Fixpoint drop_hold (t : tid) (l : lock) (h : list (tid * lock)) : list (tid * lock) :=
  match h with
  | [] => []
  | (t', l') :: r => if Nat.eqb t t' && Nat.eqb l l' then r else (t', l') :: drop_hold t l r
  end.

Definition locks_held (t : tid) (h : list (tid * lock)) : list lock :=
  map snd (filter (fun x => Nat.eqb t (fst x)) h).

Fixpoint order_edges (h : list (tid * lock)) (evs : list bev) : list (lock * lock) :=
  match evs with
  | [] => []
  | BE (ERaw t k l (RUnit | RBool true)) :: r =>
      if is_acq_rop k
      then (if rop_blocking k then map (fun l' => (l', l)) (locks_held t h) else []) ++ order_edges ((t, l) :: h) r
      else order_edges (drop_hold t l h) r
  | BWait t l held :: r => map (fun l' => (l', l)) held ++ order_edges h r
  | _ :: r => order_edges h r
  end.

Definition has_edge (es : list (lock * lock)) (a b : lock) : bool :=
  existsb (fun e => Nat.eqb (fst e) a && Nat.eqb (snd e) b) es.

Definition close_once (nodes : list lock) (es : list (lock * lock)) : list (lock * lock) :=
  es ++ flat_map (fun a => flat_map (fun c =>
          if negb (has_edge es a c) && existsb (fun b => has_edge es a b && has_edge es b c) nodes then [(a, c)] else [])
        nodes) nodes.

Fixpoint close_n (n : nat) (nodes : list lock) (es : list (lock * lock)) : list (lock * lock) :=
  match n with 0 => es | S n' => close_n n' nodes (close_once nodes es) end.

Definition acyclic_order (nl : nat) (evs : list bev) : bool :=
  let nodes := seq 0 nl in
  let es := close_n (S (Nat.log2 nl)) nodes (order_edges [] evs) in   (* each round doubles the path length covered *)
  negb (existsb (fun a => has_edge es a a) nodes).

Definition check_C01' (b : bscen) (sched : list tid) (impl : bobs) : verdict :=
  let v := check_C01 b sched impl in
  mkv (v_strict v) (v_proj v && acyclic_order (sc_nlocks (bs_sc b)) (bo_evs impl)) (v_mon v) (v_monk v).
Definition acyclic_impl (b : bscen) (impl : bobs) : bool := acyclic_order (sc_nlocks (bs_sc b)) (bo_evs impl).

(* ---------------------------------------------------------------- second comparison: release-atomic schedules *)
(* When the comparison above fails, the scenario is run again, on both sides, with runs of consecutive releases of one
   thread made atomic (Conc.drain_g with ra = true; the harness does not yield between them).  The order of the
   releases inside such a run is then invisible to the other threads, and the two observations are compared in full
   (every event, final holds, poison flags) after sorting each run by lock.  A difference that survives only in the
   order of releases inside a run does not bear on any of the properties. *)
Definition bev_rel_of (e : bev) : option tid :=
  match e with BE (ERaw t (OUnlock | OUnlockSh) _ RUnit) => Some t | _ => None end.
Definition bev_lockid (e : bev) : nat := match e with BE x => ev_lockid x | _ => 0 end.
Fixpoint bnorm_runs (rt : tid) (run : list bev) (evs : list bev) : list bev :=
  match evs with
  | [] => isort bev_lockid run
  | e :: r => match bev_rel_of e with
              | Some t => if Nat.eqb t rt then bnorm_runs rt (e :: run) r
                          else isort bev_lockid run ++ bnorm_runs t [e] r
              | None => isort bev_lockid run ++ e :: bnorm_runs rt [] r
              end
  end.
Definition bnorm (o : bobs) : bobs := mkbo (bo_status o) (bnorm_runs 0 [] (bo_evs o)) (bo_holds o) (bo_psn o).

Definition bcheck_ra (mon : bscen -> bobs -> bool) (b : bscen) (sched : list tid) (impl : bobs) : verdict :=
  let m := model_bobs_g true b sched in
  let ok := mon b impl in
  mkv (bobs_eqb m impl) (bobs_eqb (bnorm m) (bnorm impl)) ok ok.
Definition check_C01_ra (b : bscen) (sched : list tid) (impl : bobs) : verdict :=
  let v := bcheck_ra (fun b o => mon_C01 b o && mon_C03b b o && mon_C05b b o) b sched impl in
  mkv (v_strict v) (v_proj v && model_stable_g true b sched && acyclic_order (sc_nlocks (bs_sc b)) (bo_evs impl)) (v_mon v) (v_monk v).
Definition check_C02_ra := bcheck_ra mon_C02.
Definition check_C09_ra := bcheck_ra mon_C09.

(* ---------------------------------------------------------------- C10 on interleaved executions *)
(* What an acquisition returns (Ok / Err(poisoned)) must agree with the panics that unwound exclusive holds before the
   acquisition was granted.  A hold's poisoning is dated at the first release of the unwinding guard (the flag is set
   before it), a panicking closure's at its entry: no other thread can have acquired the lock in between.  Only the
   results of acquisitions are judged (an is_poisoned probe may run while a panic is in flight). *)
Record b10 := mkb10 {
  pz : pid -> pst;
  gcoll : tid -> option (nat * mode);
  calls10 : tid -> nat;
  ok10 : bool
}.

(* the guard just acquired is ended by a panic of its thread (possibly after accesses through it) *)
Fixpoint hold_ends_in_panic (ops : list apiop) : bool :=
  match ops with
  | [] => false
  | APanic :: _ => true
  | (AGuardDrop | AGuardUnlock | AGuardForget) :: _ => false
  | _ :: r => hold_ends_in_panic r
  end.

Definition cur_op10 (b : bscen) (s : b10) (t : tid) : option apiop := nth_error (nth t (bs_progs b) []) (calls10 s t).

Definition step10 (b : bscen) (s : b10) (e : bev) : b10 :=
  let sc := bs_sc b in
  match e with
  | BE (EMark t 1) =>
      match cur_op10 b s t with
      | Some (AAcquire c m f) =>
          if has_panic f then
            let ps := pz s in
            let ps' := match root_poison (shape_of sc c) with
                       | Some p => upd_all (upd ps p (pst_after_panic m (ps p)))
                                           (filter (fun q => negb (Nat.eqb q p)) (pids_of sc c)) (fun _ => PDontCare)
                       | None => upd_all ps (pids_of sc c) (fun _ => PDontCare)
                       end in
            mkb10 ps' (gcoll s) (calls10 s) (ok10 s)
          else s
      | _ => s
      end
  | BE (ERaw t k l RUnit) =>
      if is_rel_rop k then
        match cur_op10 b s t, gcoll s t with
        | Some APanic, Some (c, m) => mkb10 (upd_all (pz s) (pids_of sc c) (pst_after_panic m)) (gcoll s) (calls10 s) (ok10 s)
        | _, _ => s
        end
      else s
  | BRet t r _ =>
      let s1 :=
        match cur_op10 b s t with
        | Some (AAcquire c m (FGuard | FTry)) =>
            match r with
            | ROk | RPoisoned =>
                let good := match root_poison (shape_of sc c) with
                            | Some p => pst_agrees (pz s p) (rcode_eqb r RPoisoned)
                            | None => rcode_eqb r ROk
                            end in
                (* a SHARED guard that its thread will end by a panic: PoisonRef::drop sets the flag before it releases, and
                   other readers can come in between — from here on what they see is left open *)
                let ends_in_panic := hold_ends_in_panic (skipn (S (calls10 s t)) (nth t (bs_progs b) [])) in
                let ps := match m with
                          | Sh => if ends_in_panic then upd_all (pz s) (pids_of sc c) (pst_after_panic Sh) else pz s
                          | Ex => pz s
                          end in
                mkb10 ps (upd (gcoll s) t (Some (c, m))) (calls10 s) (ok10 s && good)
            | _ => s
            end
        | Some APanic =>
            (* a guard over a structure without any lock (an empty collection) is unwound without a release event: its
               poisoning is dated at the return of the panic *)
            let ps := match gcoll s t with
                      | Some (c, m) => if is_nil (leaves (shape_of sc c)) then upd_all (pz s) (pids_of sc c) (pst_after_panic m)
                                       else pz s
                      | None => pz s
                      end in
            mkb10 ps (upd (gcoll s) t None) (calls10 s) (ok10 s)
        | Some (AGuardDrop | AGuardUnlock | AGuardForget) => mkb10 (pz s) (upd (gcoll s) t None) (calls10 s) (ok10 s)
        | Some (AClearPoison c) =>
            match root_poison (shape_of sc c) with
            | Some p => mkb10 (upd (pz s) p PDontCare) (gcoll s) (calls10 s) (ok10 s)
            | None => s
            end
        | _ => s
        end in
      mkb10 (pz s1) (gcoll s1) (upd (calls10 s1) t (S (calls10 s1 t))) (ok10 s1)
  | _ => s
  end.

Definition mon_C10b (b : bscen) (o : bobs) : bool :=
  ok10 (fold_left (step10 b) (bo_evs o) (mkb10 (fun _ => PClean) (fun _ => None) (fun _ => 0) true)).

Definition bev_is_poison (e : bev) : bool :=
  match e with BE (ESee _ _) | BRet _ _ _ => true | BE (ERaw _ _ _ _) => true | _ => false end.
Definition check_C10b := bcheck_mon mon_C10b.
