(* Pf_Hist10.v — C10 over whole histories, for the relaxed monitor (the strict one is refuted: known finding F3): in EVERY
   fault-free history, what is_poisoned reports, what lock / try_lock / read return (Ok or Err(poisoned)) and what user code
   sees at every wrapper position agree with the panics that unwound exclusive holds (through a guard, or through the
   wrapper's own scoped call) and with clear_poison; executions without panics never poison. *)
From HL Require Import Base Model Shape Algo Api OpsLemmas Lemmas ShapeLemmas ApiLemmas QuietLemmas NoRel Pf_Calls Check Monitors
  Pf_C06 Pf_C13 SeeLemmas Pf_Acct Pf_Hist Pf_Hist5 Pf_Hist4 Pf_Hist11.

Definition PS (ps : pid -> pst) (psn : pid -> bool) : Prop := forall p, pst_agrees (ps p) (psn p) = true.

Lemma pst_agrees_dontcare b : pst_agrees PDontCare b = true.
Proof. reflexivity. Qed.

Lemma after_panic_true m s : pst_agrees (pst_after_panic m s) true = true.
Proof. destruct s, m; reflexivity. Qed.

(* upd_all: members get f applied (at least once), the others are untouched *)
Lemma upd_all_other ps pids f p : ~ In p pids -> upd_all ps pids f p = ps p.
Proof.
  unfold upd_all. revert ps. induction pids as [|q r IH]; intros ps H; [reflexivity|]. cbn [fold_left].
  rewrite IH by (intros X; apply H; now right). apply upd_other. intros ->. apply H. now left.
Qed.

Lemma upd_all_prop (P : pst -> Prop) ps pids f :
  (forall s, P (f s)) -> (forall s, P s -> P (f s)) -> forall p, In p pids -> P (upd_all ps pids f p).
Proof.
  intros H1 H2. unfold upd_all. revert ps. induction pids as [|q r IH]; intros ps p Hin; [destruct Hin|]. cbn [fold_left].
  destruct (in_dec Nat.eq_dec p r) as [Hr|Hr].
  - now apply IH.
  - destruct Hin as [->|Hin]; [|contradiction].
    change (fold_left (fun acc p0 => upd acc p0 (f (acc p0))) r (upd ps p (f (ps p))) p) with (upd_all (upd ps p (f (ps p))) r f p).
    rewrite upd_all_other by exact Hr. rewrite upd_same. apply H1.
Qed.

Lemma nth_snapshot_psn n w p : p < n -> nth p (snapshot_psn n w) false = w_psn w p.
Proof.
  intros H. unfold snapshot_psn.
  rewrite (nth_indep _ false (w_psn w 0)) by (now rewrite map_length, seq_length).
  rewrite (map_nth (w_psn w) (seq 0 n) 0 p). now rewrite seq_nth.
Qed.

Lemma probes_agree ps np w : PS ps (w_psn w) ->
  forallb (fun p => pst_agrees (ps p) (nth p (snapshot_psn np w) false)) (seq 0 np) = true.
Proof.
  intros H. apply forallb_forall. intros p Hp. apply in_seq in Hp. rewrite nth_snapshot_psn by lia. apply H.
Qed.

Lemma zip_agree_map ps psn pids : PS ps psn -> zip_agree ps pids (map psn pids) = true.
Proof. intros H. induction pids as [|p r IH]; [reflexivity|]. cbn [map zip_agree]. now rewrite H, IH. Qed.

Lemma set_psn_all_cases f ps p : set_psn_all f ps p = if memb p ps then true else f p.
Proof.
  destruct (memb p ps) eqn:M.
  - apply set_psn_all_in. now apply memb_In.
  - apply set_psn_all_other. intros H. apply memb_In in H. congruence.
Qed.

Lemma bind_throw_not_done pw t m w v w' : run pw t (Bind m (fun _ => Throw)) w = (ODone v, w') -> False.
Proof. cbn [run]. destruct (run pw t m w) as [[x| | | |] w1]; intros H; inversion H. Qed.

Lemma scoped_panic_closure_count sc t c m body w w' :
  scoped_shape sc t c m body w w' -> w_trace w = [] -> (forall l, hc t (w_raw w l) = 0) ->
  NoDup (leaves (shape_of sc c)) ->
  fst (closure_scan [] (rev (w_trace w')) []) = 1.
Proof.
  intros Sh Tw H0 ND.
  assert (Can : can_all m (kleaves (shape_of sc c)) (w_raw w) = true).
  { destruct Sh as [w1 [w2 [evA [evR [_ [_ [_ [_ [_ [_ [_ [_ [_ [_ [_ X]]]]]]]]]]]]]]]. exact X. }
  rewrite (closure_scan_fst _ [] (leaves (shape_of sc c))).
  now rewrite (scoped_shape_scan sc t c m body w w' Sh Tw H0 Can ND).
Qed.

(* one step of the relaxed C10 monitor *)
Lemma step_C10 sc h ms ps t o h' co :
  wf_hist sc -> qinv sc h ms -> PS ps (w_psn (h_w h)) -> In (t, o) (sc_hist sc) ->
  hstep (sc_env sc) (sc_nlocks sc) (sc_npids sc) h (t, o) = (h', [co]) -> stop_code (co_ret co) = false ->
  c10_judge sc ps (c10_step false sc ms ps t o co) t o co = true /\
  PS (c10_step false sc ms ps t o co) (w_psn (h_w h')).
Proof.
  intros W Q HPS Hin St Hstop. pose proof (real_in _ _ _ Hin) as Rt.
  destruct (hstep_cases sc (sc_nlocks sc) (sc_npids sc) h ms t o W Q Hin) as [[Hp E]|[p [out [w' [Hp [Rn [CO E]]]]]]];
    rewrite E in St; inversion St; subst h' co; clear St E.
  - (* not possible in this user state: nothing happens *)
    assert (Eps : c10_step false sc ms ps t o
                    (mkco t RSkipped [] (snapshot_holds (sc_nlocks sc) (h_w h)) (snapshot_psn (sc_npids sc) (h_w h))
                          (negb (w_keyf (h_w h) t))) = ps).
    { destruct o as [| | |c m f| | | | | | | |c|]; try reflexivity.
      - cbn [c10_step co_ret co_evs closure_scan]. now rewrite !andb_false_r.
      - cbn [c10_step co_ret]. destruct (mt_guard (ms t)) as [[c m]|]; reflexivity.
      - cbn [c10_step co_ret]. destruct (root_poison (shape_of sc c)); reflexivity. }
    rewrite Eps. split; [|exact HPS].
    unfold c10_judge. cbn [co_ret co_psn co_evs]. rewrite (probes_agree ps _ _ HPS). cbn [andb].
    destruct o as [| | |c m f| | | | | | |c| |]; try reflexivity.
    destruct (root_poison (shape_of sc c)); reflexivity.
  - cbn [co_ret] in Hstop. cbn [h_w].
    set (lc := h_loc h t) in *. set (w := clear_trace (h_w h)) in *.
    set (rc := snd (api_fin (sc_env sc) lc o out)) in *.
    destruct (cq_poison _ _ _ _ _ _ _ CO) as [Hpsn Hpf]. fold rc in Hpsn, Hpf. specialize (Hpsn Hstop).
    destruct (qi_J _ _ _ Q t) as [_ HRk]. fold lc in HRk.
    assert (Pw : forall x, w_psn w x = w_psn (h_w h) x) by reflexivity.
    assert (Tw : forall evs, w_trace w' = evs ++ w_trace w -> rev (w_trace w') = rev evs)
      by (intros evs T; rewrite T; cbn [w clear_trace w_trace]; now rewrite app_nil_r).
    unfold c10_judge. cbn [co_ret co_psn co_evs].
    destruct o as [| | |c m f| | | | | | |c|c|c]; cbn [c10_step co_ret co_evs];
      try (split; [rewrite (probes_agree ps _ w'); [reflexivity|]|]; intros q; rewrite Hpsn; cbn [psn_after]; apply HPS).
    + (* AAcquire *)
      destruct Hpf as [Hsee Hres].
      set (pids := gpoisons (gitems (shape_of sc c))) in *.
      assert (Pids : pids_of sc c = pids) by reflexivity.
      destruct Hres as [Erc|[Erc|Erc]].
      * (* WouldBlock *)
        rewrite Erc in *. destruct (closure_scan [] (rev (w_trace w')) []) as [nclos x].
        rewrite !andb_false_r. split.
        -- rewrite (probes_agree ps _ w'); [reflexivity|]. intros q. rewrite Hpsn. destruct f; cbn [psn_after]; apply HPS.
        -- intros q. rewrite Hpsn. destruct f; cbn [psn_after]; apply HPS.
      * rewrite Erc in Hstop. discriminate Hstop.
      * destruct f as [| |lent body|lent body].
        -- (* FGuard *)
           destruct (closure_scan [] (rev (w_trace w')) []) as [nclos x]. cbn [has_panic andb].
           assert (PS' : PS ps (w_psn w')) by (intros q; rewrite Hpsn; cbn [psn_after]; apply HPS).
           split; [|exact PS']. rewrite (probes_agree ps _ w' PS'). cbn [andb].
           destruct (Hsee ltac:(rewrite Erc; destruct (root_poison (shape_of sc c)) as [p0|]; [destruct (w_psn w p0)|]; auto)) as [evs [T S]].
           rewrite (Tw _ T), S, Pids. rewrite (zip_agree_map ps (w_psn w) pids HPS). cbn [andb].
           rewrite Erc. destruct (root_poison (shape_of sc c)) as [p0|]; [|reflexivity].
           pose proof (HPS p0) as A. rewrite <- Pw in A. destruct (w_psn w p0); exact A.
        -- (* FTry *)
           destruct (closure_scan [] (rev (w_trace w')) []) as [nclos x]. cbn [has_panic andb].
           assert (PS' : PS ps (w_psn w')) by (intros q; rewrite Hpsn; cbn [psn_after]; apply HPS).
           split; [|exact PS']. rewrite (probes_agree ps _ w' PS'). cbn [andb].
           destruct (Hsee ltac:(rewrite Erc; destruct (root_poison (shape_of sc c)) as [p0|]; [destruct (w_psn w p0)|]; auto)) as [evs [T S]].
           rewrite (Tw _ T), S, Pids. rewrite (zip_agree_map ps (w_psn w) pids HPS). cbn [andb].
           rewrite Erc. destruct (root_poison (shape_of sc c)) as [p0|]; [|reflexivity].
           pose proof (HPS p0) as A. rewrite <- Pw in A. destruct (w_psn w p0); exact A.
        -- (* FScoped *)
           cbn [has_panic]. change (existsb (fun c0 => match c0 with CPanic => true | _ => false end) body) with (existsb is_cpanic body).
           destruct (existsb is_cpanic body) eqn:HP.
           ++ (* the closure panicked *)
              assert (IS : is_scoped (AAcquire c m (FScoped lent body)) = Some (c, m, body)) by reflexivity.
              pose proof (cq_scoped _ _ _ _ _ _ _ CO c m body IS) as Sh. fold lc rc in Sh. rewrite Erc in Sh.
              assert (H0 : forall l, hc t (w_raw w l) = 0).
              { intros l. apply hc_not_holding. apply (haskey_holds_nothing sc h ms t Q Rt). eapply acq_haskey. exact Hp. }
              destruct (wh_colls _ W t c m _ Hin) as [s [Hn [_ ND]]].
              assert (Hs : shape_of sc c = s) by (unfold shape_of; now rewrite Hn).
              pose proof (scoped_panic_closure_count sc t c m body w w' Sh eq_refl H0 ltac:(now rewrite Hs)) as NC.
              destruct (closure_scan [] (rev (w_trace w')) []) as [nclos x]. cbn [fst] in NC. subst nclos.
              rewrite Erc. cbn [Nat.eqb rcode_eqb andb].
              assert (PS' : PS (match root_poison (shape_of sc c) with
                                | Some p0 => upd_all (upd ps p0 (pst_after_panic m (ps p0)))
                                                     (filter (fun q => negb (Nat.eqb q p0)) (pids_of sc c)) (fun _ => PDontCare)
                                | None => upd_all ps (pids_of sc c) (fun _ => PDontCare)
                                end) (w_psn w')).
              { intros q. rewrite Hpsn, Erc. cbn [psn_after]. destruct (root_poison (shape_of sc c)) as [p0|].
                - destruct (in_dec Nat.eq_dec q (filter (fun q0 => negb (Nat.eqb q0 p0)) (pids_of sc c))) as [Hq|Hq].
                  + apply (upd_all_prop (fun s0 => pst_agrees s0 (upd (w_psn w) p0 true q) = true)); auto.
                  + rewrite upd_all_other by exact Hq. unfold upd. destruct (Nat.eqb_spec q p0) as [->|Hn0].
                    * apply after_panic_true.
                    * apply HPS.
                - destruct (in_dec Nat.eq_dec q (pids_of sc c)) as [Hq|Hq].
                  + apply (upd_all_prop (fun s0 => pst_agrees s0 (w_psn w q) = true)); auto.
                  + rewrite upd_all_other by exact Hq. apply HPS. }
              split; [|exact PS']. rewrite (probes_agree _ _ w' PS'). cbn [andb].
              destruct (Hsee ltac:(rewrite Erc; auto)) as [evs [T S]].
              rewrite (Tw _ T), S, Pids. rewrite (zip_agree_map ps (w_psn w) pids HPS). cbn [andb]. reflexivity.
           ++ rewrite Erc. destruct (closure_scan [] (rev (w_trace w')) []) as [nclos x]. cbn [andb].
              assert (PS' : PS ps (w_psn w')) by (intros q; rewrite Hpsn, Erc; cbn [psn_after]; apply HPS).
              split; [|exact PS']. rewrite (probes_agree ps _ w' PS'). cbn [andb].
              destruct (Hsee ltac:(rewrite Erc; auto)) as [evs [T S]].
              rewrite (Tw _ T), S, Pids. now rewrite (zip_agree_map ps (w_psn w) pids HPS).
        -- (* FScopedTry *)
           cbn [has_panic]. change (existsb (fun c0 => match c0 with CPanic => true | _ => false end) body) with (existsb is_cpanic body).
           destruct (existsb is_cpanic body) eqn:HP.
           ++ assert (IS : is_scoped (AAcquire c m (FScopedTry lent body)) = Some (c, m, body)) by reflexivity.
              pose proof (cq_scoped _ _ _ _ _ _ _ CO c m body IS) as Sh. fold lc rc in Sh. rewrite Erc in Sh.
              assert (H0 : forall l, hc t (w_raw w l) = 0).
              { intros l. apply hc_not_holding. apply (haskey_holds_nothing sc h ms t Q Rt). eapply acq_haskey. exact Hp. }
              destruct (wh_colls _ W t c m _ Hin) as [s [Hn [_ ND]]].
              assert (Hs : shape_of sc c = s) by (unfold shape_of; now rewrite Hn).
              pose proof (scoped_panic_closure_count sc t c m body w w' Sh eq_refl H0 ltac:(now rewrite Hs)) as NC.
              destruct (closure_scan [] (rev (w_trace w')) []) as [nclos x]. cbn [fst] in NC. subst nclos.
              rewrite Erc. cbn [Nat.eqb rcode_eqb andb].
              assert (PS' : PS (match root_poison (shape_of sc c) with
                                | Some p0 => upd_all (upd ps p0 (pst_after_panic m (ps p0)))
                                                     (filter (fun q => negb (Nat.eqb q p0)) (pids_of sc c)) (fun _ => PDontCare)
                                | None => upd_all ps (pids_of sc c) (fun _ => PDontCare)
                                end) (w_psn w')).
              { intros q. rewrite Hpsn, Erc. cbn [psn_after]. destruct (root_poison (shape_of sc c)) as [p0|].
                - destruct (in_dec Nat.eq_dec q (filter (fun q0 => negb (Nat.eqb q0 p0)) (pids_of sc c))) as [Hq|Hq].
                  + apply (upd_all_prop (fun s0 => pst_agrees s0 (upd (w_psn w) p0 true q) = true)); auto.
                  + rewrite upd_all_other by exact Hq. unfold upd. destruct (Nat.eqb_spec q p0) as [->|Hn0].
                    * apply after_panic_true.
                    * apply HPS.
                - destruct (in_dec Nat.eq_dec q (pids_of sc c)) as [Hq|Hq].
                  + apply (upd_all_prop (fun s0 => pst_agrees s0 (w_psn w q) = true)); auto.
                  + rewrite upd_all_other by exact Hq. apply HPS. }
              split; [|exact PS']. rewrite (probes_agree _ _ w' PS'). cbn [andb].
              destruct (Hsee ltac:(rewrite Erc; auto)) as [evs [T S]].
              rewrite (Tw _ T), S, Pids. rewrite (zip_agree_map ps (w_psn w) pids HPS). cbn [andb]. reflexivity.
           ++ rewrite Erc. destruct (closure_scan [] (rev (w_trace w')) []) as [nclos x]. cbn [andb].
              assert (PS' : PS ps (w_psn w')) by (intros q; rewrite Hpsn, Erc; cbn [psn_after]; apply HPS).
              split; [|exact PS']. rewrite (probes_agree ps _ w' PS'). cbn [andb].
              destruct (Hsee ltac:(rewrite Erc; auto)) as [evs [T S]].
              rewrite (Tw _ T), S, Pids. now rewrite (zip_agree_map ps (w_psn w) pids HPS).
    + (* APanic *)
      assert (Erc : rc = RPanicked).
      { unfold rc. destruct out as [v| | | |]; try reflexivity; try (cbn in Hstop; discriminate Hstop).
        exfalso. cbn [api_prog] in Hp. destruct (guard lc) as [g|]; injection Hp as <-; apply (bind_throw_not_done _ _ _ _ _ _ Rn). }
      rewrite Erc in *. destruct (guard lc) as [[gm items]|] eqn:G.
      * destruct (qi_guard _ _ _ Q t gm items G) as [_ [_ [_ [c [MG Hi]]]]]. rewrite MG.
        assert (PS' : PS (upd_all ps (pids_of sc c) (pst_after_panic gm)) (w_psn w')).
        { intros q. rewrite Hpsn. cbn [psn_after]. rewrite G. cbn [g_items]. rewrite Hi. fold (pids_of sc c).
          rewrite set_psn_all_cases. destruct (memb q (pids_of sc c)) eqn:Mq.
          - apply memb_In in Mq. apply (upd_all_prop (fun s0 => pst_agrees s0 true = true)); auto; intros s0; try intros _; apply after_panic_true.
          - rewrite upd_all_other; [apply HPS|]. intros X. apply memb_In in X. congruence. }
        split; [|exact PS']. now rewrite (probes_agree _ _ w' PS').
      * rewrite (Rk_noguard _ _ HRk G).
        assert (PS' : PS ps (w_psn w')) by (intros q; rewrite Hpsn; cbn [psn_after]; rewrite G; apply HPS).
        split; [|exact PS']. now rewrite (probes_agree _ _ w' PS').
    + (* AIsPoisoned *)
      assert (PS' : PS ps (w_psn w')) by (intros q; rewrite Hpsn; cbn [psn_after]; apply HPS).
      split; [|exact PS']. rewrite (probes_agree _ _ w' PS'). cbn [andb].
      destruct (root_poison (shape_of sc c)) as [p0|]; [|reflexivity]. rewrite Hpf. apply HPS.
    + (* AClearPoison *)
      rewrite Hpf. destruct (root_poison (shape_of sc c)) as [p0|] eqn:Rp.
      * assert (PS' : PS (upd ps p0 PClean) (w_psn w')).
        { intros q. rewrite Hpsn. cbn [psn_after]. rewrite Rp. unfold upd. destruct (Nat.eqb q p0); [reflexivity|apply HPS]. }
        split; [|exact PS']. now rewrite (probes_agree _ _ w' PS').
      * assert (PS' : PS ps (w_psn w')) by (intros q; rewrite Hpsn; cbn [psn_after]; rewrite Rp; apply HPS).
        split; [|exact PS']. now rewrite (probes_agree _ _ w' PS').
Qed.

(* ---------------------------------------------------------------- whole histories *)
Lemma fold_C10 sc :
  wf_hist sc ->
  forall hist, (forall x, In x hist -> In x (sc_hist sc)) ->
  forall h ms ps, qinv sc h ms -> PS ps (w_psn (h_w h)) ->
  c10_fold false sc ms ps hist (snd (hrun (sc_env sc) (sc_nlocks sc) (sc_npids sc) h hist)) = true.
Proof.
  intros W. induction hist as [|[t o] r IH]; intros Hsub h ms ps Q HPS; [reflexivity|].
  destruct (qstep sc (sc_nlocks sc) (sc_npids sc) h ms t o W Q (Hsub _ (or_introl eq_refl)))
    as [h' [co [St [Ht [_ [_ [Hh [Hs' Q']]]]]]]].
  rewrite (hrun_cons _ _ _ h (t, o) r h' [co] St). cbn [app c10_fold].
  rewrite Ht, Nat.eqb_refl. cbn [andb].
  destruct (stop_code (co_ret co)) eqn:Sc; [reflexivity|].
  destruct (step_C10 sc h ms ps t o h' co W Q HPS (Hsub _ (or_introl eq_refl)) St Sc) as [J P'].
  rewrite J. cbn [andb]. apply IH; [|now apply Q'|exact P'].
  intros x Hx. apply Hsub. now right.
Qed.

Theorem C10_all_histories_relaxed sc : wf_hist sc -> mon_C10 false sc (model_obs sc) = true.
Proof.
  intros W. unfold mon_C10, model_obs.
  apply (fold_C10 sc W (sc_hist sc) (fun x H => H) _ _ _ (qinv_init sc W)).
  intros p. reflexivity.
Qed.

Corollary C10_all_histories_relaxed_dec sc : wf_histb sc = true -> mon_C10 false sc (model_obs sc) = true.
Proof. intros H. apply C10_all_histories_relaxed. now apply wf_histb_ok. Qed.
