(* Pf_C15.v — Send / Sync of every type built from the crate's locks, guards and collections is at least
   as strict as the standard library's, for the impls rustc reports for the current tree. *)
From Coq Require Import List String Bool.
From HL Require Import ApiTable ApiModel.
Import ListNotations.
Open Scope string_scope.

Section TyInd.
  Variable P : ty -> Prop.
  Hypothesis Hpay : forall s y, P (TPay s y).
  Hypothesis Href : forall t, P t -> P (TRef t).
  Hypothesis Hmut : forall t, P t -> P (TMutRef t).
  Hypothesis Htup : forall ts, Forall P ts -> P (TTuple ts).
  Hypothesis Hcon : forall c t, P t -> P (TCon c t).
  Fixpoint ty_ind' (t : ty) : P t :=
    match t with
    | TPay s y => Hpay s y
    | TRef t' => Href t' (ty_ind' t')
    | TMutRef t' => Hmut t' (ty_ind' t')
    | TTuple ts => Htup ts ((fix go (l : list ty) : Forall P l :=
                               match l with [] => Forall_nil _ | x :: r => Forall_cons _ (ty_ind' x) (go r) end) ts)
    | TCon c t' => Hcon c t' (ty_ind' t')
    end.
End TyInd.

Definition good_rf (rf : rawflags) (t : ty) : Prop :=
  (impl_auto auto_rules rf MSend t = true -> ref_auto rf MSend t = true) /\
  (impl_auto auto_rules rf MSync t = true -> ref_auto rf MSync t = true).

(* one rule of the table is no weaker than the reference, whatever raw lock type the crate is instantiated with *)
Definition rule_ok (r : autorule) : Prop :=
  forall rf t, good_rf rf t ->
    negb (r_negative r) &&
    forallb (fun b => match b with
                      | BParam m' => impl_auto auto_rules rf m' t
                      | BRaw m' => flag m' (raw_send rf) (raw_sync rf)
                      | BGuardMarker m' => flag m' (gm_send rf) (gm_sync rf)
                      | BOther _ => false
                      end) (r_bounds r) = true ->
    ref_auto rf (r_marker r) (TCon (r_ty r) t) = true.

Ltac rule_tac :=
  intros [a b c d] t [Gs Gy] H; destruct a, b, c, d; cbn in H |- *;
  repeat match goal with
         | H : _ && _ = true |- _ => apply andb_true_iff in H; destruct H
         | H : true = true |- _ => clear H
         | H : false = true |- _ => discriminate H
         end;
  try reflexivity;
  repeat match goal with |- _ && _ = true => apply andb_true_iff; split end;
  auto.

Lemma all_rules_ok : Forall rule_ok auto_rules.
Proof. unfold auto_rules. repeat (constructor; [rule_tac|]). constructor. Qed.

Lemma find_rule_in rules c m r : find_rule rules c m = Some r -> In r rules /\ r_ty r = c /\ r_marker r = m.
Proof.
  induction rules as [|x rest IH]; simpl; [discriminate|].
  destruct (String.eqb (r_ty x) c && marker_eqb (r_marker x) m) eqn:E.
  - intros H. inversion H; subst. apply andb_true_iff in E. destruct E as [E1 E2].
    apply String.eqb_eq in E1. split; [now left|]. split; [exact E1|].
    destruct (r_marker r), m; simpl in E2; try discriminate; reflexivity.
  - intros H. destruct (IH H) as [A B]. split; [now right|exact B].
Qed.

Lemma con_good rf c t : good_rf rf t -> good_rf rf (TCon c t).
Proof.
  intros G. pose proof all_rules_ok as OK. rewrite Forall_forall in OK.
  split; intros H; cbn [impl_auto] in H.
  - destruct (find_rule auto_rules c MSend) as [r|] eqn:F; [|discriminate].
    destruct (find_rule_in _ _ _ _ F) as [Hin [Hc Hm]]. specialize (OK r Hin rf t G H). now rewrite Hc, Hm in OK.
  - destruct (find_rule auto_rules c MSync) as [r|] eqn:F; [|discriminate].
    destruct (find_rule_in _ _ _ _ F) as [Hin [Hc Hm]]. specialize (OK r Hin rf t G H). now rewrite Hc, Hm in OK.
Qed.

Theorem auto_at_least_ref : forall rf t, good_rf rf t.
Proof.
  intros rf. induction t using ty_ind'.
  - split; auto.
  - destruct IHt as [_ Gy]. split; exact Gy.
  - exact IHt.
  - split; intros Hf; cbn [impl_auto ref_auto] in *;
      rewrite forallb_forall in Hf; apply forallb_forall; intros x Hx;
      rewrite Forall_forall in H; destruct (H x Hx) as [Gs Gy]; [apply Gs|apply Gy]; now apply Hf.
  - now apply con_good.
Qed.

Definition good (t : ty) : Prop :=
  (table_impl MSend t = true -> std_auto MSend t = true) /\ (table_impl MSync t = true -> std_auto MSync t = true).

Theorem auto_at_least_std : forall t, good t.
Proof. intros t. exact (auto_at_least_ref parking_lot_flags t). Qed.

(* ---------------------------------------------------------------- E3: OwnedLockable types own their locks *)
Lemma has_ol_in h : has_ol h = true -> exists b, In (h, b) ownedlockable_impls.
Proof.
  unfold has_ol. intros H. apply existsb_exists in H. destruct H as [[h' b] [Hin E]]. cbn [fst] in E.
  apply String.eqb_eq in E. subst. now exists b.
Qed.

Lemma allowed_not_ref c : str_in c ol_allowed = true -> String.eqb c "RefLockCollection" = false.
Proof.
  unfold str_in, ol_allowed. cbn [existsb]. intros H.
  repeat (apply orb_true_iff in H; destruct H as [H|H]; [apply String.eqb_eq in H; subst; reflexivity|]).
  discriminate H.
Qed.

Lemma e3_head h : e3 = true -> has_ol h = true ->
  str_in h ol_allowed = true /\ (ol_leaf h = true \/ ol_needs_elem h = true).
Proof.
  unfold e3. intros E H. apply andb_true_iff in E. destruct E as [_ E]. rewrite forallb_forall in E.
  destruct (has_ol_in _ H) as [b Hin]. pose proof (E _ Hin) as X. cbn [fst snd] in X.
  apply andb_true_iff in X. destruct X as [A B]. split; [exact A|].
  destruct (ol_leaf h) eqn:L; [now left|]. right.
  unfold ol_needs_elem. apply forallb_forall. intros [h' b'] Hin'. cbn [fst snd].
  destruct (String.eqb_spec h' h) as [->|]; [|reflexivity]. cbn [implb].
  pose proof (E _ Hin') as Y. cbn [fst snd] in Y. rewrite L in Y. apply andb_true_iff in Y. destruct Y as [_ Y]. exact Y.
Qed.

Lemma no_shared_ref_impl : e3 = true -> has_ol "&" = false.
Proof.
  intros E. destruct (has_ol "&") eqn:H; [|reflexivity]. destruct (e3_head "&" E H) as [A _]. vm_compute in A. discriminate A.
Qed.

Theorem ownedlockable_owns : e3 = true -> forall t, ol t = true -> owns t = true.
Proof.
  intros E. induction t as [s y|t IH|t IH|ts IH|c t IH] using ty_ind'; cbn [ol owns]; intros H.
  - discriminate H.
  - rewrite (no_shared_ref_impl E) in H. discriminate H.
  - apply andb_true_iff in H. destruct H as [H1 H2].
    destruct (e3_head _ E H1) as [_ [L|N]]; [vm_compute in L; discriminate L|]. rewrite N in H2. now apply IH.
  - apply andb_true_iff in H. destruct H as [H1 H2].
    assert (N : forallb ol_needs_elem seq_heads = true).
    { (* every sequence head that has an impl needs owned elements; heads without an impl need nothing *)
      apply forallb_forall. intros h Hh. destruct (has_ol h) eqn:Hh'.
      - destruct (e3_head _ E Hh') as [_ [L|N]]; [|exact N].
        unfold seq_heads in Hh. cbn in Hh. repeat (destruct Hh as [<-|Hh]; [vm_compute in L; discriminate L|]). destruct Hh.
      - unfold ol_needs_elem. apply forallb_forall. intros [h' b'] Hin'. cbn [fst snd].
        destruct (String.eqb_spec h' h) as [->|]; [|reflexivity]. exfalso.
        assert (X : has_ol h = true) by (unfold has_ol; apply existsb_exists; exists (h, b'); split; [exact Hin'|apply String.eqb_refl]).
        congruence. }
    rewrite N in H2. rewrite forallb_forall in H2 |- *. rewrite Forall_forall in IH. intros x Hx. apply IH; auto.
  - apply andb_true_iff in H. destruct H as [H1 H2]. destruct (ol_leaf c) eqn:L; [reflexivity|]. cbn [orb] in H2 |- *.
    destruct (e3_head _ E H1) as [A [L'|N]]; [congruence|]. rewrite N in H2.
    rewrite (allowed_not_ref _ A). cbn [negb andb]. now apply IH.
Qed.
