(* Pf_C15.v — Send / Sync of every type built from the crate's locks, guards and collections is at least
   as strict as the standard library's, for the impls rustc reports for the current tree. *)
From Coq Require Import List String Bool.
From HL Require Import ApiTable ApiModel.
Import ListNotations.
Open Scope string_scope.

Section TyInd.
  Variable P : ty -> Prop.
  Hypothesis Hpay : forall s y, P (TPay s y).
  Hypothesis Href : forall t, P t -> P (TRef t).
  Hypothesis Hmut : forall t, P t -> P (TMutRef t).
  Hypothesis Htup : forall ts, Forall P ts -> P (TTuple ts).
  Hypothesis Hcon : forall c t, P t -> P (TCon c t).
  Fixpoint ty_ind' (t : ty) : P t :=
    match t with
    | TPay s y => Hpay s y
    | TRef t' => Href t' (ty_ind' t')
    | TMutRef t' => Hmut t' (ty_ind' t')
    | TTuple ts => Htup ts ((fix go (l : list ty) : Forall P l :=
                               match l with [] => Forall_nil _ | x :: r => Forall_cons _ (ty_ind' x) (go r) end) ts)
    | TCon c t' => Hcon c t' (ty_ind' t')
    end.
End TyInd.

Definition good (t : ty) : Prop :=
  (table_impl MSend t = true -> std_auto MSend t = true) /\ (table_impl MSync t = true -> std_auto MSync t = true).

(* one rule of the table is no weaker than the standard library *)
Definition rule_ok (r : autorule) : Prop :=
  forall t, good t ->
    negb (r_negative r) &&
    forallb (fun b => match b with
                      | BParam m' => table_impl m' t
                      | BRaw m' => flag m' true true
                      | BGuardMarker m' => flag m' false true
                      | BOther _ => false
                      end) (r_bounds r) = true ->
    std_auto (r_marker r) (TCon (r_ty r) t) = true.

Ltac rule_tac :=
  intros t [Gs Gy] H; cbn in H |- *;
  repeat match goal with
         | H : _ && _ = true |- _ => apply andb_true_iff in H; destruct H
         | H : true = true |- _ => clear H
         | H : false = true |- _ => discriminate H
         end;
  try reflexivity;
  repeat match goal with |- _ && _ = true => apply andb_true_iff; split end;
  auto.

Lemma all_rules_ok : Forall rule_ok auto_rules.
Proof. unfold auto_rules. repeat (constructor; [rule_tac|]). constructor. Qed.

Lemma find_rule_in rules c m r : find_rule rules c m = Some r -> In r rules /\ r_ty r = c /\ r_marker r = m.
Proof.
  induction rules as [|x rest IH]; simpl; [discriminate|].
  destruct (String.eqb (r_ty x) c && marker_eqb (r_marker x) m) eqn:E.
  - intros H. inversion H; subst. apply andb_true_iff in E. destruct E as [E1 E2].
    apply String.eqb_eq in E1. split; [now left|]. split; [exact E1|].
    destruct (r_marker r), m; simpl in E2; try discriminate; reflexivity.
  - intros H. destruct (IH H) as [A B]. split; [now right|exact B].
Qed.

Lemma con_good c t : good t -> good (TCon c t).
Proof.
  intros G. pose proof all_rules_ok as OK. rewrite Forall_forall in OK.
  split; intros H; unfold table_impl in H; cbn [impl_auto] in H.
  - destruct (find_rule auto_rules c MSend) as [r|] eqn:F; [|discriminate].
    destruct (find_rule_in _ _ _ _ F) as [Hin [Hc Hm]]. specialize (OK r Hin t G H). now rewrite Hc, Hm in OK.
  - destruct (find_rule auto_rules c MSync) as [r|] eqn:F; [|discriminate].
    destruct (find_rule_in _ _ _ _ F) as [Hin [Hc Hm]]. specialize (OK r Hin t G H). now rewrite Hc, Hm in OK.
Qed.

Theorem auto_at_least_std : forall t, good t.
Proof.
  induction t using ty_ind'.
  - split; auto.
  - destruct IHt as [_ Gy]. split; exact Gy.
  - exact IHt.
  - split; intros Hf; unfold table_impl in *; cbn [impl_auto std_auto] in *;
      rewrite forallb_forall in Hf; apply forallb_forall; intros x Hx;
      rewrite Forall_forall in H; destruct (H x Hx) as [Gs Gy]; [apply Gs|apply Gy]; now apply Hf.
  - now apply con_good.
Qed.
