(* Pf_C06.v — at most one live ThreadKey per thread, over EVERY history (faults, panics, leaks included). *)
From HL Require Import Base Model Shape Algo Api OpsLemmas Lemmas Check Monitors.

Definition nokeyop (o : op) : Prop := match o with OKeyTry | OKeyUnlock => False | _ => True end.
Definition noprobe_ev (e : ev) : Prop := match e with EProbe _ _ => False | _ => True end.
Definition probe_false (e : ev) : Prop := match e with EProbe _ true => False | _ => True end.

Lemma alg_nokey o : alg_op o -> nokeyop o.
Proof. destruct o; simpl; tauto. Qed.
Lemma drop_nokey o : drop_op o -> nokeyop o.
Proof. destruct o; simpl; tauto. Qed.

Section Run.
  Variables (pw : lock -> bool) (t : tid).

  (* operations other than the two key operations leave every key flag alone; a probe reports the flag *)
  Lemma run_nokey p w out w' :
    ops_in nokeyop p -> run pw t p w = (out, w') ->
    (forall x, w_keyf w' x = w_keyf w x) /\
    exists evs, w_trace w' = evs ++ w_trace w /\
                Forall (fun e => match e with EProbe _ b => b = negb (w_keyf w t) | _ => True end) evs.
  Proof.
    intros Ho R.
    apply (run_ops_inv pw t nokeyop (fun w1 => forall x, w_keyf w1 x = w_keyf w x)
             (fun e => match e with EProbe _ b => b = negb (w_keyf w t) | _ => True end)) with (p := p) (out := out);
      [|exact Ho|reflexivity|exact R].
    intros o w1 Ao Hi. destruct o; simpl in Ao; try destruct Ao; simpl.
    - (* ORaw *) destruct (faulty w1 k l); [split; [exact Hi|eexists [_]; split; [reflexivity|repeat constructor]]|].
      destruct (raw_apply t k (w_raw w1 l) (pw l)); (split; [exact Hi|eexists [_]; split; [reflexivity|repeat constructor]]).
    - split; [exact Hi|exists []; split; [reflexivity|constructor]].
    - split; [exact Hi|exists []; split; [reflexivity|constructor]].
    - split; [exact Hi|exists []; split; [reflexivity|constructor]].
    - split; [exact Hi|exists []; split; [reflexivity|constructor]].
    - split; [exact Hi|exists []; split; [reflexivity|constructor]].
    - split; [exact Hi|eexists [_]; split; [reflexivity|repeat constructor]].
    - split; [exact Hi|eexists [_]; split; [reflexivity|repeat constructor]].
    - split; [exact Hi|eexists [_]; split; [reflexivity|repeat constructor]].
    - split; [exact Hi|eexists [_]; split; [reflexivity|]]. constructor; [|constructor]. now rewrite Hi.
    - split; [exact Hi|eexists [_]; split; [reflexivity|repeat constructor]].
  Qed.

  (* the algorithms and guard drops emit no probe events at all *)
  Lemma run_drop_noprobe p w out w' :
    ops_in drop_op p -> run pw t p w = (out, w') ->
    exists evs, w_trace w' = evs ++ w_trace w /\ Forall noprobe_ev evs.
  Proof.
    intros Ho R.
    apply (run_ops_inv pw t drop_op (fun _ => True) noprobe_ev) with (p := p) (out := out) (w := w); auto.
    intros o w1 Ao _. destruct o; simpl in Ao; try destruct Ao; simpl.
    - destruct (faulty w1 k l); [split; [exact I|eexists [_]; split; [reflexivity|repeat constructor]]|].
      destruct (raw_apply t k (w_raw w1 l) (pw l)); (split; [exact I|eexists [_]; split; [reflexivity|repeat constructor]]).
    - split; [exact I|exists []; split; [reflexivity|constructor]].
    - split; [exact I|exists []; split; [reflexivity|constructor]].
    - split; [exact I|exists []; split; [reflexivity|constructor]].
  Qed.

  Definition key_after (dp dd : bool) (out : outcome) (old : bool) : bool :=
    match out with
    | ODone _ => if dd then false else old
    | OPanic => if dp then false else old
    | _ => old
    end.

  Lemma run_keydrop w : run pw t keydrop w = (ODone VUnit, set_keyf w t false).
  Proof. reflexivity. Qed.

  (* a function holding the key by value *)
  Lemma run_with_key dp dd body w out w' :
    ops_in nokeyop body -> run pw t (with_key dp dd body) w = (out, w') ->
    (forall x, x <> t -> w_keyf w' x = w_keyf w x) /\
    (match out with ODone _ | OPanic => w_keyf w' t = key_after dp dd out (w_keyf w t) | _ => True end) /\
    exists evs, w_trace w' = evs ++ w_trace w /\
                Forall (fun e => match e with EProbe _ b => b = negb (w_keyf w t) | _ => True end) evs.
  Proof.
    intros Ho R. unfold with_key in R. rewrite run_bind in R. simpl in R.
    destruct (run pw t body w) as [o1 w1] eqn:R1.
    destruct (run_nokey body w o1 w1 Ho R1) as [K [evs [T F]]].
    destruct o1 as [v| | | |].
    - (* body returned *)
      destruct dd; simpl in R; inversion R; subst; clear R.
      + split; [intros x Hx; simpl; rewrite upd_other by exact Hx; apply K|].
        split; [simpl; apply upd_same|]. exists evs. split; [exact T|exact F].
      + split; [intros x _; apply K|]. split; [simpl; apply K|]. exists evs. now split.
    - (* body panicked: the handler runs, the panic goes on *)
      destruct dp; simpl in R; inversion R; subst; clear R.
      + split; [intros x Hx; simpl; rewrite upd_other by exact Hx; apply K|].
        split; [simpl; apply upd_same|]. exists evs. now split.
      + split; [intros x _; apply K|]. split; [simpl; apply K|]. exists evs. now split.
    - inversion R; subst. split; [intros x _; apply K|]. split; [exact I|]. exists evs. now split.
    - inversion R; subst. split; [intros x _; apply K|]. split; [exact I|]. exists evs. now split.
    - inversion R; subst. split; [intros x _; apply K|]. split; [exact I|]. exists evs. now split.
  Qed.
End Run.

(* ---------------------------------------------------------------- the API programs use the key as declared *)
Lemma see_all_nokey ps : ops_in nokeyop (see_all ps).
Proof. unfold see_all. apply ops_in_seqs_map. intros p. apply ops_in_op_. exact I. Qed.

Lemma poison_result_nokey s : ops_in nokeyop (poison_result s).
Proof.
  unfold poison_result. destruct (root_poison s); [|constructor].
  constructor; [exact I|]. intros v. constructor.
Qed.

Lemma cs_prog_nokey m items c : ops_in nokeyop (cs_prog m items c).
Proof.
  destruct c; simpl.
  - destruct (nth_leaf items pos) as [[k l]|]; [apply ops_in_op_; exact I|constructor].
  - destruct m; [constructor|]. destruct (nth_leaf items pos) as [[k l]|]; [apply ops_in_op_; exact I|constructor].
  - constructor.
  - apply ops_in_op_. exact I.
Qed.

Lemma closure_nokey m items body : ops_in nokeyop (closure m items body).
Proof.
  unfold closure. apply ops_in_then; [apply ops_in_op_; exact I|].
  apply ops_in_then; [apply see_all_nokey|]. apply ops_in_seqs_map. intros; apply cs_prog_nokey.
Qed.

Lemma nk_alg p : ops_in alg_op p -> ops_in nokeyop p.
Proof. apply ops_in_weaken. apply alg_nokey. Qed.
Lemma nk_drop p : ops_in drop_op p -> ops_in nokeyop p.
Proof. apply ops_in_weaken. apply drop_nokey. Qed.
Lemma dr_alg p : ops_in alg_op p -> ops_in drop_op p.
Proof. apply ops_in_weaken. intros o; destruct o; simpl; tauto. Qed.

Lemma fmt_list_nokey ls : forall acc, ops_in nokeyop (fmt_list acc ls).
Proof.
  induction ls as [|[k l] r IH]; intros acc; simpl; [constructor|].
  constructor; [|intros v; apply IH].
  unfold fmt_leaf. constructor; [apply nk_alg, leaf_try_ops|].
  intros v. destruct (vtrue v); [|constructor].
  apply ops_in_then; [apply ops_in_op_; exact I|]. apply ops_in_then; [apply nk_alg, leaf_unlock_ops|constructor].
Qed.

(* ---------------------------------------------------------------- programs that never touch or probe the key *)
Definition quietop (o : op) : Prop := match o with OKeyTry | OKeyUnlock | OKeyProbe => False | _ => True end.

Lemma run_quietop pw t p w out w' :
  ops_in quietop p -> run pw t p w = (out, w') ->
  (forall x, w_keyf w' x = w_keyf w x) /\ exists evs, w_trace w' = evs ++ w_trace w /\ Forall noprobe_ev evs.
Proof.
  intros Ho R.
  apply (run_ops_inv pw t quietop (fun w1 => forall x, w_keyf w1 x = w_keyf w x) noprobe_ev) with (p := p) (out := out);
    [|exact Ho|reflexivity|exact R].
  intros o w1 Ao Hi. destruct o; simpl in Ao; try destruct Ao; simpl.
  - destruct (faulty w1 k l); [split; [exact Hi|eexists [_]; split; [reflexivity|repeat constructor]]|].
    destruct (raw_apply t k (w_raw w1 l) (pw l)); (split; [exact Hi|eexists [_]; split; [reflexivity|repeat constructor]]).
  - split; [exact Hi|exists []; split; [reflexivity|constructor]].
  - split; [exact Hi|exists []; split; [reflexivity|constructor]].
  - split; [exact Hi|exists []; split; [reflexivity|constructor]].
  - split; [exact Hi|exists []; split; [reflexivity|constructor]].
  - split; [exact Hi|exists []; split; [reflexivity|constructor]].
  - split; [exact Hi|eexists [_]; split; [reflexivity|repeat constructor]].
  - split; [exact Hi|eexists [_]; split; [reflexivity|repeat constructor]].
  - split; [exact Hi|eexists [_]; split; [reflexivity|repeat constructor]].
  - split; [exact Hi|eexists [_]; split; [reflexivity|repeat constructor]].
Qed.

Lemma q_alg p : ops_in alg_op p -> ops_in quietop p.
Proof. apply ops_in_weaken. intros o; destruct o; simpl; tauto. Qed.
Lemma q_drop p : ops_in drop_op p -> ops_in quietop p.
Proof. apply ops_in_weaken. intros o; destruct o; simpl; tauto. Qed.

Lemma fmt_list_quiet ls : forall acc, ops_in quietop (fmt_list acc ls).
Proof.
  induction ls as [|[k l] r IH]; intros acc; simpl; [constructor|].
  constructor; [|intros v; apply IH].
  unfold fmt_leaf. constructor; [apply q_alg, leaf_try_ops|].
  intros v. destruct (vtrue v); [|constructor].
  apply ops_in_then; [apply ops_in_op_; exact I|]. apply ops_in_then; [apply q_alg, leaf_unlock_ops|constructor].
Qed.

Lemma probe_false_of_noprobe evs : Forall noprobe_ev evs -> Forall probe_false evs.
Proof. apply Forall_impl. intros e; destruct e; simpl; tauto. Qed.

Lemma probe_false_of_true (old : bool) evs :
  old = true ->
  Forall (fun e => match e with EProbe _ b => b = negb old | _ => True end) evs -> Forall probe_false evs.
Proof. intros ->. apply Forall_impl. intros e; destruct e; simpl; auto. intros ->. exact I. Qed.

(* value returned by `a ;; Ret v` *)
Lemma run_then_ret pw t a v w out w' :
  run pw t (a ;; Ret v) w = (out, w') -> match out with ODone v' => v' = v | _ => True end.
Proof.
  unfold pthen. simpl. destruct (run pw t a w) as [o1 w1]. destruct o1; intros H; inversion H; subst; auto.
Qed.

Section Scoped.
  Variables (t : tid) (m : mode) (s : shape) (a : alg) (lent : bool) (body : list csop) (acq : prog).
  Hypothesis Hacq : ops_in nokeyop acq.

  Lemma run_scoped_rest w out w' :
    w_keyf w t = true ->
    run nopw t (scoped_rest m s a lent body acq) w = (out, w') ->
    (forall x, x <> t -> w_keyf w' x = w_keyf w x) /\
    (exists evs, w_trace w' = evs ++ w_trace w /\ Forall probe_false evs) /\
    match out with
    | ODone v => v = VNat 0 /\ w_keyf w' t = lent
    | OPanic => w_keyf w' t = lent
    | _ => True
    end.
  Proof.
    intros Hk R. unfold scoped_rest in R.
    (* both variants: Bind (with_key own own B) K with B nokeyop and K quiet *)
    assert (G : forall B K,
               ops_in nokeyop B -> (forall v, ops_in quietop (K v)) ->
               (forall v w1 o2 w2, run nopw t (K v) w1 = (o2, w2) -> match o2 with ODone v' => v' = VNat 0 | _ => True end) ->
               run nopw t (Bind (with_key (negb lent) (negb lent) B) K) w = (out, w') ->
               (forall x, x <> t -> w_keyf w' x = w_keyf w x) /\
               (exists evs, w_trace w' = evs ++ w_trace w /\ Forall probe_false evs) /\
               match out with
               | ODone v => v = VNat 0 /\ w_keyf w' t = lent
               | OPanic => w_keyf w' t = lent
               | _ => True
               end).
    { intros B K HB HK HKv R'. rewrite run_bind in R'.
      destruct (run nopw t (with_key (negb lent) (negb lent) B) w) as [o1 w1] eqn:R1.
      destruct (run_with_key nopw t _ _ B w o1 w1 HB R1) as [Ko [Kt [evs [T F]]]].
      apply (probe_false_of_true _ _ Hk) in F.
      assert (KA : forall o, key_after (negb lent) (negb lent) o true = match o with ODone _ | OPanic => lent | _ => true end).
      { intros o. destruct o, lent; reflexivity. }
      destruct o1 as [v1| | | |]; try (inversion R'; subst; split; [exact Ko|]; split; [exists evs; now split|]; auto).
      - destruct (run_quietop nopw t (K v1) w1 out w' (HK v1) R') as [Kq [e2 [T2 F2]]].
        split; [intros x Hx; rewrite Kq; now apply Ko|]. split.
        + exists (e2 ++ evs). split; [rewrite T2, T; now rewrite app_assoc|].
          apply Forall_app. split; [now apply probe_false_of_noprobe|exact F].
        + rewrite Hk, KA in Kt. pose proof (HKv v1 w1 out w' R') as Hv.
          destruct out; auto; rewrite Kq; auto.
      - rewrite Hk, KA in Kt. exact Kt. }
    destruct (root_poison s) as [p|].
    - apply (G _ _) in R; [exact R| | |].
      + apply ops_in_then; [exact Hacq|]. apply ops_in_then.
        * constructor; [apply closure_nokey|]. apply ops_in_then; [apply ops_in_op_; exact I|apply nk_alg, raw_unlock_ops].
        * apply nk_alg, raw_unlock_ops.
      + intros v. constructor.
      + intros v w1 o2 w2 H. simpl in H. inversion H; subst. reflexivity.
    - apply (G _ _) in R; [exact R| | |].
      + apply ops_in_then; [exact Hacq|]. constructor; [apply closure_nokey|apply nk_alg, raw_unlock_ops].
      + intros v. apply ops_in_then; [apply q_alg, raw_unlock_ops|constructor].
      + intros v w1 o2 w2 H. apply (run_then_ret _ _ _ _ _ _ _ H).
  Qed.
End Scoped.

(* ---------------------------------------------------------------- the invariant *)
(* the model's user state agrees with what a client can infer from the calls and their results *)
Definition Rk (lc : tlocal) (mt : mthread) : Prop :=
  match haskey lc, guard lc with
  | true, None => mt_key mt = KHeld /\ mt_guard mt = None
  | false, Some _ => mt_key mt = KHeld /\ mt_guard mt <> None
  | false, None => mt_key mt <> KHeld /\ mt_guard mt = None
  | true, Some _ => False
  end.

Definition keyflag (mt : mthread) : bool := negb (key_free (mt_key mt)).

Lemma vtrue_vbool b : vtrue (VBool b) = b.
Proof. destruct b; reflexivity. Qed.

Lemma stops_stop_code r : stops r = stop_code r.
Proof. destruct r; reflexivity. Qed.

(* what one call does to the key flag and to the client's knowledge *)
Definition call_spec (t : tid) (mt : mthread) (o : apiop) (w w' : world) (lc' : tlocal) (rc : rcode) : Prop :=
  (forall x, x <> t -> w_keyf w' x = w_keyf w x) /\
  (exists evs, w_trace w' = evs ++ w_trace w /\ Forall probe_false evs) /\
  (o = AKeyGet -> rc = RB (key_free (mt_key mt))) /\
  (stop_code rc = false -> w_keyf w' t = keyflag (track mt o rc) /\ Rk lc' (track mt o rc)).

Ltac nostop := let H := fresh in (intros H; discriminate H).

Lemma call_C06 e t lc mt o p w out w' :
  api_prog e lc o = Some p -> Rk lc mt -> w_keyf w t = keyflag mt ->
  run nopw t p w = (out, w') ->
  call_spec t mt o w w' (fst (api_fin e lc o out)) (snd (api_fin e lc o out)).
Proof.
  intros Hp HR Hk Rn. destruct lc as [hk g]. destruct mt as [mk mg ml].
  unfold Rk in HR. cbn [haskey guard mt_key mt_guard] in HR.
  unfold call_spec, keyflag in *. cbn [mt_key] in *.
  destruct o; cbn [api_prog haskey guard] in Hp.
  - (* AKeyGet *)
    inversion Hp; subst p. simpl in Rn. inversion Rn; subst out w'. clear Rn Hp.
    cbn [api_fin fst snd haskey guard]. rewrite vtrue_vbool.
    split; [intros x Hx; simpl; now rewrite upd_other|].
    split; [exists []; split; [reflexivity|constructor]|].
    split; [intros _; rewrite Hk, negb_involutive; reflexivity|].
    intros _. cbn [set_keyf w_keyf]. rewrite upd_same. rewrite Hk, negb_involutive.
    destruct hk, g as [gr|]; try contradiction; destruct HR as [HR1 HR2]; subst;
      try (cbn; split; [reflexivity|]; unfold Rk; cbn; now split).
    destruct mk; try contradiction; cbn; (split; [reflexivity|]); unfold Rk; cbn; split; auto; discriminate.
  - (* AKeyDrop *)
    destruct hk; [|discriminate]. inversion Hp; subst p. simpl in Rn. inversion Rn; subst out w'.
    destruct g; [contradiction|]. destruct HR as [HR1 HR2]. subst.
    cbn [api_fin fst snd]. split; [intros x Hx; simpl; now rewrite upd_other|].
    split; [exists []; split; [reflexivity|constructor]|]. split; [discriminate|].
    intros _. cbn. rewrite upd_same. split; [reflexivity|]. unfold Rk. cbn. split; [discriminate|reflexivity].
  - (* AKeyForget *)
    destruct hk; [|discriminate]. inversion Hp; subst p. simpl in Rn. inversion Rn; subst out w'.
    destruct g; [contradiction|]. destruct HR as [HR1 HR2]. subst.
    cbn [api_fin fst snd]. split; [auto|].
    split; [exists []; split; [reflexivity|constructor]|]. split; [discriminate|].
    intros _. cbn. rewrite Hk. split; [reflexivity|]. unfold Rk. cbn. split; [discriminate|reflexivity].
  - (* AAcquire *)
    destruct (coll e c) as [s|] eqn:Hc; [|discriminate]. destruct hk; [|discriminate].
    destruct g; [contradiction|]. destruct HR as [HR1 HR2]. subst.
    assert (Hkt : w_keyf w t = true) by (rewrite Hk; reflexivity).
    destruct f as [| |lent body|lent body]; inversion Hp; subst p; clear Hp.
    + (* FGuard *)
      destruct (run_with_key nopw t true false _ w out w'
                  (ops_in_then _ _ _ (nk_alg _ (raw_lock_ops _ _ _))
                     (ops_in_then _ _ _ (see_all_nokey _) (poison_result_nokey _))) Rn) as [Ko [Kt [evs [T F]]]].
      apply (probe_false_of_true _ _ Hkt) in F. rewrite Hkt in Kt.
      split; [exact Ko|]. split; [exists evs; now split|]. split; [discriminate|].
      destruct out as [v| | | |]; cbn [api_fin fst snd is_lent]; try nostop.
      * assert (Y : (v = VNat 1) \/ (v <> VNat 1)) by (destruct v as [|b|[|[|n]]]; auto; right; discriminate).
        destruct Y as [->|Hv].
        -- intros _. cbn. rewrite Kt. split; [reflexivity|]. unfold Rk. cbn. now split.
        -- assert (Z : forall X Y : tlocal * rcode,
                     (match v with VNat 1 => X | _ => Y end) = Y)
             by (intros; destruct v as [|b|[|[|n]]]; try reflexivity; contradiction).
           rewrite Hc. intros _.
           assert (Rv : match v with VNat 2 => RPoisoned | _ => ROk end = ROk \/ match v with VNat 2 => RPoisoned | _ => ROk end = RPoisoned)
             by (destruct v as [|b|[|[|[|n]]]]; auto).
           destruct v as [|b|[|[|[|n]]]]; try contradiction; cbn; rewrite Kt;
             (split; [reflexivity|]); unfold Rk; cbn; (split; [reflexivity|discriminate]).
      * intros _. cbn. rewrite Kt. split; [reflexivity|]. unfold Rk. cbn. split; [discriminate|reflexivity].
    + (* FTry *)
      assert (Hb : ops_in nokeyop (Bind (raw_try m (alg_of (e_am e) s))
                     (fun v => if vtrue v then see_all (gpoisons (gitems s)) ;; poison_result s else Ret (VNat 1)))).
      { constructor; [apply nk_alg, raw_try_ops|]. intros v. destruct (vtrue v); [|constructor].
        apply ops_in_then; [apply see_all_nokey|apply poison_result_nokey]. }
      destruct (run_with_key nopw t true false _ w out w' Hb Rn) as [Ko [Kt [evs [T F]]]].
      apply (probe_false_of_true _ _ Hkt) in F. rewrite Hkt in Kt.
      split; [exact Ko|]. split; [exists evs; now split|]. split; [discriminate|].
      destruct out as [v| | | |]; cbn [api_fin fst snd is_lent]; try nostop.
      * destruct v as [|b|[|[|[|n]]]]; try rewrite Hc; intros _; cbn; rewrite Kt;
          (split; [reflexivity|]); unfold Rk; cbn; try (split; [reflexivity|discriminate]); now split.
      * intros _. cbn. rewrite Kt. split; [reflexivity|]. unfold Rk. cbn. split; [discriminate|reflexivity].
    + (* FScoped *)
      destruct (run_scoped_rest t m s (alg_of (e_am e) s) lent body _ (nk_alg _ (raw_lock_ops _ _ _)) w out w' Hkt Rn)
        as [Ko [Pr Ks]].
      split; [exact Ko|]. split; [exact Pr|]. split; [discriminate|].
      destruct out as [v| | | |]; cbn [api_fin fst snd is_lent]; try nostop.
      * destruct Ks as [-> Ks]. intros _. rewrite Ks. destruct lent; cbn;
          (split; [reflexivity|]); unfold Rk; cbn; [now split|split; [discriminate|reflexivity]].
      * intros _. rewrite Ks. destruct lent; cbn;
          (split; [reflexivity|]); unfold Rk; cbn; [now split|split; [discriminate|reflexivity]].
    + (* FScopedTry *)
      rewrite run_bind in Rn.
      destruct (run nopw t (with_key (negb lent) false (raw_try m (alg_of (e_am e) s))) w) as [o1 w1] eqn:R1.
      destruct (run_with_key nopw t _ _ _ w o1 w1 (nk_alg _ (raw_try_ops _ _)) R1) as [Ko [Kt [evs [T F]]]].
      apply (probe_false_of_true _ _ Hkt) in F. rewrite Hkt in Kt.
      destruct o1 as [v1| | | |].
      * cbn [key_after] in Kt. destruct (vtrue v1).
        -- destruct (run_scoped_rest t m s (alg_of (e_am e) s) lent body skip (ops_in_skip _) w1 out w' Kt Rn)
             as [Ko2 [[e2 [T2 F2]] Ks]].
           split; [intros x Hx; rewrite Ko2 by exact Hx; now apply Ko|].
           split; [exists (e2 ++ evs); split; [rewrite T2, T; now rewrite app_assoc|apply Forall_app; now split]|].
           split; [discriminate|].
           destruct out as [v| | | |]; cbn [api_fin fst snd is_lent]; try nostop.
           ++ destruct Ks as [-> Ks]. intros _. rewrite Ks. destruct lent; cbn;
                (split; [reflexivity|]); unfold Rk; cbn; [now split|split; [discriminate|reflexivity]].
           ++ intros _. rewrite Ks. destruct lent; cbn;
                (split; [reflexivity|]); unfold Rk; cbn; [now split|split; [discriminate|reflexivity]].
        -- simpl in Rn. inversion Rn; subst out w'.
           split; [exact Ko|]. split; [exists evs; now split|]. split; [discriminate|].
           cbn [api_fin fst snd]. intros _. cbn. rewrite Kt. destruct lent; cbn; (split; [reflexivity|]); unfold Rk; cbn; now split.
      * inversion Rn; subst out w'. cbn [key_after] in Kt.
        split; [exact Ko|]. split; [exists evs; now split|]. split; [discriminate|].
        cbn [api_fin fst snd is_lent]. intros _. rewrite Kt. destruct lent; cbn;
          (split; [reflexivity|]); unfold Rk; cbn; [now split|split; [discriminate|reflexivity]].
      * inversion Rn; subst. split; [exact Ko|]. split; [exists evs; now split|]. split; [discriminate|]. cbn; nostop.
      * inversion Rn; subst. split; [exact Ko|]. split; [exists evs; now split|]. split; [discriminate|]. cbn; nostop.
      * inversion Rn; subst. split; [exact Ko|]. split; [exists evs; now split|]. split; [discriminate|]. cbn; nostop.
  - (* AGuardDrop *)
    destruct g as [gr|]; [|discriminate]. destruct hk; [contradiction|]. destruct HR as [HR1 HR2]. subst.
    assert (Hkt : w_keyf w t = true) by (rewrite Hk; reflexivity).
    inversion Hp; subst p; clear Hp.
    destruct (run_with_key nopw t true true _ w out w' (nk_drop _ (drop_items_ops _ _ _)) Rn) as [Ko [Kt [evs [T F]]]].
    apply (probe_false_of_true _ _ Hkt) in F.
    split; [exact Ko|]. split; [exists evs; now split|]. split; [discriminate|].
    destruct out as [v| | | |]; cbn [api_fin fst snd]; try nostop;
      intros _; cbn; rewrite Kt; cbn; (split; [reflexivity|]); unfold Rk; cbn; (split; [discriminate|reflexivity]).
  - (* AGuardUnlock *)
    destruct g as [gr|]; [|discriminate]. destruct hk; [contradiction|]. destruct HR as [HR1 HR2]. subst.
    assert (Hkt : w_keyf w t = true) by (rewrite Hk; reflexivity).
    inversion Hp; subst p; clear Hp.
    destruct (run_with_key nopw t true false _ w out w' (nk_drop _ (drop_items_ops _ _ _)) Rn) as [Ko [Kt [evs [T F]]]].
    apply (probe_false_of_true _ _ Hkt) in F. rewrite Hkt in Kt.
    split; [exact Ko|]. split; [exists evs; now split|]. split; [discriminate|].
    destruct out as [v| | | |]; cbn [api_fin fst snd]; try nostop;
      intros _; cbn; rewrite Kt; cbn; (split; [reflexivity|]); unfold Rk; cbn.
    + split; reflexivity.
    + split; [discriminate|reflexivity].
  - (* AGuardForget *)
    destruct g as [gr|]; [|discriminate]. destruct hk; [contradiction|]. destruct HR as [HR1 HR2]. subst.
    inversion Hp; subst p. simpl in Rn. inversion Rn; subst out w'.
    split; [auto|]. split; [exists []; split; [reflexivity|constructor]|]. split; [discriminate|].
    cbn [api_fin fst snd haskey]. intros _. cbn. destruct mg as [g'|]; [|contradiction].
    cbn. rewrite Hk. split; [reflexivity|]. unfold Rk. cbn. split; [discriminate|reflexivity].
  - (* AGuardRead *)
    destruct g as [gr|]; [|discriminate]. destruct hk; [contradiction|]. destruct HR as [HR1 HR2]. subst.
    assert (Hkt : w_keyf w t = true) by (rewrite Hk; reflexivity).
    inversion Hp; subst p; clear Hp.
    pose proof (cs_prog_nokey (g_mode gr) (g_items gr) (CRead pos)) as Hn. cbn [cs_prog] in Hn.
    destruct (run_nokey nopw t _ w out w' Hn Rn) as [K [evs [T F]]].
    apply (probe_false_of_true _ _ Hkt) in F.
    split; [intros x _; apply K|]. split; [exists evs; now split|]. split; [discriminate|].
    cbn [api_fin fst snd]. intros Hs.
    destruct out; cbn in *; try discriminate; rewrite K, Hk; (split; [reflexivity|]); unfold Rk; cbn; now split.
  - (* AGuardWrite *)
    destruct g as [gr|]; [|discriminate]. destruct hk; [contradiction|]. destruct HR as [HR1 HR2]. subst.
    assert (Hkt : w_keyf w t = true) by (rewrite Hk; reflexivity).
    inversion Hp; subst p; clear Hp.
    pose proof (cs_prog_nokey (g_mode gr) (g_items gr) (CWrite pos)) as Hn. cbn [cs_prog] in Hn.
    destruct (run_nokey nopw t _ w out w' Hn Rn) as [K [evs [T F]]].
    apply (probe_false_of_true _ _ Hkt) in F.
    split; [intros x _; apply K|]. split; [exists evs; now split|]. split; [discriminate|].
    cbn [api_fin fst snd]. intros Hs.
    destruct out; cbn in *; try discriminate; rewrite K, Hk; (split; [reflexivity|]); unfold Rk; cbn; now split.
  - (* APanic *)
    destruct g as [gr|].
    + destruct hk; [contradiction|]. destruct HR as [HR1 HR2]. subst.
      assert (Hkt : w_keyf w t = true) by (rewrite Hk; reflexivity).
      inversion Hp; subst p; clear Hp. rewrite run_bind in Rn.
      destruct (run nopw t (with_key true true (drop_items (g_mode gr) true (g_items gr))) w) as [o1 w1] eqn:R1.
      destruct (run_with_key nopw t true true _ w o1 w1 (nk_drop _ (drop_items_ops _ _ _)) R1) as [Ko [Kt [evs [T F]]]].
      apply (probe_false_of_true _ _ Hkt) in F.
      assert (X : out = (match o1 with ODone _ => OPanic | x => x end) /\ w' = w1)
        by (destruct o1; simpl in Rn; inversion Rn; auto).
      destruct X as [-> ->].
      split; [exact Ko|]. split; [exists evs; now split|]. split; [discriminate|].
      destruct o1 as [v| | | |]; cbn [api_fin fst snd]; try nostop;
        intros _; cbn; rewrite Kt; cbn; (split; [reflexivity|]); unfold Rk; cbn; (split; [discriminate|reflexivity]).
    + inversion Hp; subst p; clear Hp. rewrite run_bind in Rn.
      destruct (run nopw t (with_key false hk skip) w) as [o1 w1] eqn:R1.
      destruct (run_with_key nopw t false hk skip w o1 w1 (ops_in_skip _) R1) as [Ko [Kt [evs [T F]]]].
      assert (O1 : o1 = ODone VUnit) by (unfold with_key in R1; simpl in R1; destruct hk; simpl in R1; inversion R1; reflexivity).
      subst o1. simpl in Rn. inversion Rn; subst out w'. cbn [key_after] in Kt.
      assert (Fp : Forall probe_false evs).
      { unfold with_key in R1. simpl in R1. destruct hk; simpl in R1; inversion R1; subst w1; simpl in T;
          (assert (evs = []) by (destruct evs; [reflexivity|]; exfalso;
             apply (f_equal (@length ev)) in T; simpl in T; rewrite app_length in T; lia)); subst; constructor. }
      split; [exact Ko|]. split; [exists evs; now split|]. split; [discriminate|].
      cbn [api_fin fst snd]. intros _. cbn. rewrite Kt.
      destruct hk.
      * destruct HR as [HR1 HR2]. subst. cbn. split; [reflexivity|]. unfold Rk. cbn. split; [discriminate|reflexivity].
      * destruct HR as [HR1 HR2]. subst. rewrite Hk. destruct mk; try contradiction; cbn;
          (split; [reflexivity|]); unfold Rk; cbn; (split; [discriminate|reflexivity]).
  - (* AIsPoisoned *)
    destruct (coll e c) as [[]|] eqn:Hc; try discriminate. inversion Hp; subst p; clear Hp.
    assert (Hq : ops_in quietop (Op (OPoisoned p0) Ret)) by (constructor; [exact I|intros; constructor]).
    destruct (run_quietop nopw t _ w out w' Hq Rn) as [K [evs [T F]]].
    split; [intros x _; apply K|]. split; [exists evs; split; [exact T|now apply probe_false_of_noprobe]|].
    split; [discriminate|]. intros Hs. rewrite K, Hk.
    assert (Tr : forall r, track (mkmt mk mg ml) (AIsPoisoned c) r = mkmt mk mg ml) by (intros r; destruct r; reflexivity).
    rewrite Tr. split; [reflexivity|]. cbn [api_fin fst]. exact HR.
  - (* AClearPoison *)
    destruct (coll e c) as [[]|] eqn:Hc; try discriminate. inversion Hp; subst p; clear Hp.
    assert (Hq : ops_in quietop (op_ (OClearPoison p0))) by (apply ops_in_op_; exact I).
    destruct (run_quietop nopw t _ w out w' Hq Rn) as [K [evs [T F]]].
    split; [intros x _; apply K|]. split; [exists evs; split; [exact T|now apply probe_false_of_noprobe]|].
    split; [discriminate|]. intros Hs. rewrite K, Hk.
    assert (Tr : forall r, track (mkmt mk mg ml) (AClearPoison c) r = mkmt mk mg ml) by (intros r; destruct r; reflexivity).
    rewrite Tr. split; [reflexivity|]. cbn [api_fin fst]. exact HR.
  - (* AFmt *)
    destruct (coll e c) as [s|] eqn:Hc; try discriminate. inversion Hp; subst p; clear Hp.
    destruct (run_quietop nopw t _ w out w' (fmt_list_quiet _ _) Rn) as [K [evs [T F]]].
    split; [intros x _; apply K|]. split; [exists evs; split; [exact T|now apply probe_false_of_noprobe]|].
    split; [discriminate|]. intros Hs. rewrite K, Hk.
    assert (Tr : forall r, track (mkmt mk mg ml) (AFmt c) r = mkmt mk mg ml) by (intros r; destruct r; reflexivity).
    rewrite Tr. split; [reflexivity|]. cbn [api_fin fst]. exact HR.
Qed.

(* ---------------------------------------------------------------- histories *)
Definition J (h : hstate) (ms : tid -> mthread) : Prop :=
  forall x, w_keyf (h_w h) x = keyflag (ms x) /\ Rk (h_loc h x) (ms x).

Lemma existsb_probe_false evs : Forall probe_false evs -> existsb ev_probe_true (rev evs) = false.
Proof.
  intros H. apply Forall_rev in H. induction H as [|e r He Hr IH]; simpl; [reflexivity|].
  rewrite IH, orb_false_r. destruct e; try reflexivity. destruct got; [destruct He|reflexivity].
Qed.

Lemma track_skipped mt o : track mt o RSkipped = mt.
Proof. reflexivity. Qed.

Lemma step_C06 e nl np h ms t o prev :
  h_stop h = false -> J h ms ->
  exists h' co, hstep e nl np h (t, o) = (h', [co]) /\ co_tid co = t /\
     judge_C06 ms prev t o co = true /\
     h_stop h' = stop_code (co_ret co) /\
     (stop_code (co_ret co) = false -> J h' (upd ms t (track (ms t) o (co_ret co)))).
Proof.
  intros Hs HJ. destruct (HJ t) as [Hk HR]. unfold hstep. rewrite Hs.
  destruct (api_prog e (h_loc h t) o) as [p|] eqn:Hp.
  - destruct (run nopw t p (clear_trace (h_w h))) as [out w'] eqn:Rn.
    pose proof (call_C06 e t (h_loc h t) (ms t) o p (clear_trace (h_w h)) out w' Hp HR Hk Rn) as [Ko [[evs [T F]] [Hget Hfin]]].
    destruct (api_fin e (h_loc h t) o out) as [lc' rc] eqn:Fin. cbn [fst snd] in *.
    eexists. eexists. split; [reflexivity|]. split; [reflexivity|]. split; [|split].
    + unfold judge_C06. cbn [co_ret co_evs co_keyfree]. apply andb_true_iff. split; [apply andb_true_iff; split|].
      * destruct o; try reflexivity. rewrite (Hget eq_refl). apply eqb_reflx.
      * cbn [clear_trace w_trace] in T. rewrite app_nil_r in T. rewrite T.
        now rewrite existsb_probe_false.
      * destruct (stop_code rc) eqn:St; [reflexivity|]. destruct (Hfin eq_refl) as [Hk' _].
        rewrite Hk'. unfold keyflag. rewrite negb_involutive. apply eqb_reflx.
    + cbn [h_stop co_ret]. apply stops_stop_code.
    + cbn [co_ret]. intros St. destruct (Hfin St) as [Hk' HR']. intros x. cbn [h_w h_loc].
      destruct (Nat.eq_dec x t) as [->|Hx].
      * rewrite !upd_same. now split.
      * rewrite !upd_other by exact Hx. rewrite (Ko x Hx). apply HJ.
  - eexists. eexists. split; [reflexivity|]. split; [reflexivity|]. split; [|split].
    + unfold judge_C06. cbn [co_ret co_evs co_keyfree]. rewrite track_skipped.
      apply andb_true_iff. split; [apply andb_true_iff; split|].
      * destruct o; try reflexivity. discriminate Hp.
      * reflexivity.
      * cbn [stop_code]. rewrite Hk. unfold keyflag. rewrite negb_involutive. apply eqb_reflx.
    + cbn. exact Hs.
    + intros _. cbn [co_ret]. rewrite track_skipped. intros x.
      destruct (Nat.eq_dec x t) as [->|Hx]; [rewrite upd_same|rewrite upd_other by exact Hx]; apply HJ.
Qed.

Lemma hrun_cons' e nl np h x r h1 o1 :
  hstep e nl np h x = (h1, o1) ->
  snd (hrun e nl np h (x :: r)) = o1 ++ snd (hrun e nl np h1 r).
Proof. intros H. cbn [hrun]. rewrite H. destruct (hrun e nl np h1 r). reflexivity. Qed.

Lemma hrun_stopped e nl np hist : forall h, h_stop h = true -> snd (hrun e nl np h hist) = [].
Proof.
  induction hist as [|x r IH]; intros h Hs; [reflexivity|].
  cbn [hrun]. unfold hstep at 1. rewrite Hs. specialize (IH h Hs).
  destruct (hrun e nl np h r). cbn in *. exact IH.
Qed.

Lemma mfold_C06 e nl np hist :
  forall h ms prev, h_stop h = false -> J h ms ->
  mfold judge_C06 ms prev hist (snd (hrun e nl np h hist)) = true.
Proof.
  induction hist as [|[t o] r IH]; intros h ms prev Hs HJ; [reflexivity|].
  destruct (step_C06 e nl np h ms t o prev Hs HJ) as [h' [co [St [Ht [Hj [Hs' HJ']]]]]].
  rewrite (hrun_cons' e nl np h (t, o) r h' [co] St). cbn [app mfold].
  rewrite Ht, Nat.eqb_refl, Hj. cbn [andb].
  destruct (stop_code (co_ret co)) eqn:Sc; [reflexivity|].
  apply IH; [congruence|]. now apply HJ'.
Qed.

Theorem C06_main : forall sc, mon_C06 sc (model_obs sc) = true.
Proof.
  intros sc. unfold mon_C06, run_monitor, model_obs.
  apply mfold_C06; [reflexivity|].
  intros x. split; [reflexivity|]. unfold Rk. cbn. split; [discriminate|reflexivity].
Qed.
