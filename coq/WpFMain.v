(* WpFMain.v — C12 at the level of API calls, for every shape, size and fault position. *)
From HL Require Import Base Model Shape Algo Api Conc OpsLemmas Lemmas ShapeLemmas Wp WpAlgo WpF WpFAlgo.

Implicit Types (Qr : val -> postf) (Qt QB : postf) (H : list hold) (F : bool) (D : list lock).

Lemma wpf_with_key dp dd body H F D Qr Qt QB :
  wpf body H F D Qr Qt QB -> wpf (with_key dp dd body) H F D Qr Qt QB.
Proof.
  intros W. unfold with_key. cbn [wpf]. eapply wpf_mono; [| | |exact W]; cbn beta.
  - intros v H' F' D' Q. apply wpf_then. destruct dd; [cbn [wpf keydrop op_]|cbn [wpf skip]]; exact Q.
  - intros H' F' D' Q. destruct dp; [cbn [wpf keydrop op_]|cbn [wpf skip]]; exact Q.
  - auto.
Qed.

Lemma wpf_see_all ps H F D Qr Qt QB : Qr VUnit H F D -> wpf (see_all ps) H F D Qr Qt QB.
Proof.
  intros Q. unfold see_all. induction ps as [|p r IH]; cbn [map seqs]; [exact Q|].
  apply wpf_then. cbn [wpf op_]. intros b. exact IH.
Qed.

Lemma wpf_poison_result s H F D Qr Qt QB :
  (forall n, Qr (VNat n) H F D) -> wpf (poison_result s) H F D Qr Qt QB.
Proof.
  intros Q. unfold poison_result. destruct (root_poison s); [|apply Q]. cbn [wpf]. intros b. apply Q.
Qed.

(* ---------------------------------------------------------------- blocking acquisition of a lock, a sorting collection
   or an owned collection (lock / read / write of Mutex, RwLock, LockCollection, RefLockCollection, OwnedLockCollection and
   Poisonable around them), with at most one panicking raw operation anywhere in the run *)
Definition ordered_alg (a : alg) : bool := match a with AlgLeaf _ _ | AlgOrdered _ => true | _ => false end.

Theorem guard_acquire_one_fault e lc c m s p t w F D out w' :
  coll e c = Some s -> ordered_alg (alg_of (e_am e) s) = true ->
  api_prog e lc (AAcquire c m FGuard) = Some p ->
  agreeF t w [] F D -> INV F D ->
  run nopw t p w = (out, w') ->
  let ls := alg_leaves (alg_of (e_am e) s) in
  match out with
  | ODone _ => (* every member held, nothing killed, the budget untouched *)
      exists H', Permutation H' (holds_of m ls) /\ agreeF t w' H' F D
  | OPanic => (* the panic reaches the caller; nothing stays held; exactly the lock whose operation panicked is killed
                 (or, with no fault left, a member was already dead and nothing changes) *)
      (F = true /\ exists l, In l (locks_of ls) /\ agreeF t w' [] false [l]) \/ (F = false /\ agreeF t w' [] false D)
  | OBlocked => (* waiting: holds a proper prefix of the acquisition order, nothing killed *)
      exists pre suf, ls = pre ++ suf /\ suf <> [] /\ exists H', Permutation H' (holds_of m pre) /\ agreeF t w' H' F D
  | OAbort | OFuel => False
  end.
Proof.
  intros Ec OA EP A I R ls. cbn [api_prog] in EP. rewrite Ec in EP. destruct (haskey lc); [|discriminate]. injection EP as <-.
  set (Qr := fun (_ : val) H' F' D' => F' = F /\ D' = D /\ Permutation H' (holds_of m ls)).
  set (Qt := fun H' (F' : bool) D' => H' = [] /\ F' = false /\
                ((F = true /\ exists l, In l (locks_of ls) /\ D' = [l]) \/ (F = false /\ D' = D))).
  set (QB := fun H' F' D' => F' = F /\ D' = D /\ exists pre suf, ls = pre ++ suf /\ suf <> [] /\ Permutation H' (holds_of m pre)).
  assert (W : wpf (with_key true false (raw_lock (e_fuel e) m (alg_of (e_am e) s);; see_all (gpoisons (gitems s));; poison_result s))
                  [] F D Qr Qt QB).
  { apply wpf_with_key. apply wpf_then.
    assert (K : forall H', Permutation H' (holds_of m ls) ->
                wpf (see_all (gpoisons (gitems s));; poison_result s) H' F D Qr Qt QB).
    { intros H' P. apply wpf_then. apply wpf_see_all. apply wpf_poison_result. intros n. unfold Qr. auto. }
    unfold ls, alg_leaves in *. destruct (alg_of (e_am e) s) as [k l|rs|rs|]; try discriminate OA; cbn [raw_lock alg_refs] in *.
    - apply wpf_leaf_lock.
      + intros M. unfold Qt. split; [reflexivity|]. destruct F.
        * rewrite (I eq_refl) in M. discriminate.
        * split; [reflexivity|]. right. auto.
      + intros M. split; [|split].
        * intros Ft. unfold Qt. split; [reflexivity|]. split; [reflexivity|]. left. split; [exact Ft|].
          exists l. split; [cbn; now left|]. now rewrite (I Ft).
        * unfold QB. split; [reflexivity|]. split; [reflexivity|]. exists [], [(k, l)]. cbn. split; [reflexivity|]. split; [discriminate|reflexivity].
        * apply K. cbn. reflexivity.
    - apply wpf_ordered_lock; [exact I| | | |].
      + apply K. rewrite app_nil_r. symmetry. apply Permutation_rev.
      + intros l Hl Ft H' P'. apply Permutation_sym, Permutation_nil in P'. subst H'. unfold Qt. split; [reflexivity|]. split; [reflexivity|].
        left. split; [exact Ft|]. exists l. split; [exact Hl|]. now rewrite (I Ft).
      + intros Ff H' P'. apply Permutation_sym, Permutation_nil in P'. subst H'. unfold Qt. split; [reflexivity|]. split; [reflexivity|]. right. auto.
      + intros pre suf Ep Ns. unfold QB. split; [reflexivity|]. split; [reflexivity|]. exists pre, suf. split; [exact Ep|]. split; [exact Ns|].
        rewrite app_nil_r. symmetry. apply Permutation_rev. }
  destruct (wpf_run t _ w [] F D Qr Qt QB out w' W A R) as [H' [F' [D' [A' P']]]].
  destruct out as [v| | | |]; cbn [outf] in P'; try contradiction.
  - destruct P' as [-> [-> P']]. exists H'. split; assumption.
  - destruct P' as [-> [-> [[Ft [l [Hl ->]]]|[Ff ->]]]]; [left|right]; split; try assumption. exists l. split; assumption.
  - destruct P' as [-> [-> [pre [suf [E1 [E2 P']]]]]]. exists pre, suf. split; [exact E1|]. split; [exact E2|]. exists H'. split; assumption.
Qed.

(* ---------------------------------------------------------------- dropping / unlocking a guard of any shape *)
Theorem guard_drop_one_fault e lc g o p t w H F D out w' :
  (o = AGuardDrop \/ o = AGuardUnlock) -> guard lc = Some g ->
  api_prog e lc o = Some p ->
  Permutation H (holds_of (g_mode g) (gleaves (g_items g))) -> agreeF t w H F D ->
  run nopw t p w = (out, w') ->
  match out with
  | ODone _ => (* everything released, nothing killed *) agreeF t w' [] F D
  | OPanic => (* a release panicked: that lock is killed and is the only one still held; every other lock of the guard
                 was released exactly once; the panic reaches the caller *)
      F = true /\ exists x, In x (gleaves (g_items g)) /\ agreeF t w' [hold_of (g_mode g) x] false (snd x :: D)
  | _ => False
  end.
Proof.
  intros Ho G EP P A R.
  assert (EP' : p = with_key true (match o with AGuardDrop => true | _ => false end) (drop_items (g_mode g) false (g_items g))).
  { destruct Ho as [-> | ->]; cbn [api_prog] in EP; rewrite G in EP; injection EP as <-; reflexivity. }
  subst p.
  set (Qr := fun (_ : val) H' F' D' => H' = [] /\ F' = F /\ D' = D).
  set (Qt := fun H' (F' : bool) D' => F = true /\ F' = false /\ exists x, In x (gleaves (g_items g)) /\ H' = [hold_of (g_mode g) x] /\ D' = snd x :: D).
  set (QB := fun (_ : list hold) (_ : bool) (_ : list lock) => False).
  assert (W : wpf (with_key true (match o with AGuardDrop => true | _ => false end) (drop_items (g_mode g) false (g_items g))) H F D Qr Qt QB).
  { apply wpf_with_key. apply (wpf_drop_items _ _ H F D []).
    - now rewrite app_nil_r.
    - intros H' P'. apply Permutation_sym, Permutation_nil in P'. subst H'. unfold Qr. auto.
    - intros x Hx Ft H' P'. apply Permutation_sym, Permutation_length_1_inv in P'. subst H'.
      unfold Qt. split; [exact Ft|]. split; [reflexivity|]. exists x. auto. }
  destruct (wpf_run t _ w H F D Qr Qt QB out w' W A R) as [H' [F' [D' [A' P']]]].
  destruct out as [v| | | |]; cbn [outf] in P'; try contradiction.
  - destruct P' as [-> [-> ->]]. exact A'.
  - destruct P' as [Ft [-> [x [Hx [-> ->]]]]]. split; [exact Ft|]. exists x. split; assumption.
Qed.

(* ---------------------------------------------------------------- the same, stated on worlds *)
Definition holds_nothing (t : tid) (w : world) : Prop :=
  forall l, writer_is (w_raw w l) t = false /\ cnt t (readers (w_raw w l)) = 0.

Lemma agreeF_nil_iff t w F D : agreeF t w [] F D ->
  holds_nothing t w /\ forall l, w_kill w l = memb l D.
Proof.
  intros [A1 [A2 [_ [_ A5]]]]. split; [|exact A5]. intros l. specialize (A1 l). specialize (A2 l). cbn [hcount] in *.
  split; [destruct (writer_is (w_raw w l) t); [discriminate|reflexivity]|now symmetry].
Qed.

Lemma agreeF_start t w :
  holds_nothing t w -> w_fp w = [] -> length (w_f1 w) <= 1 -> (forall l, w_kill w l = false) -> agreeF t w [] true [].
Proof.
  intros HN FP F1 K. split; [|split; [|split; [exact FP|split]]].
  - intros l. cbn [hcount]. now rewrite (proj1 (HN l)).
  - intros l. cbn [hcount]. now rewrite (proj2 (HN l)).
  - unfold future_faults. pose proof (filter_le_length (fun i => Nat.leb (w_opc w) i) (fun _ => true) (w_f1 w) (fun _ _ => eq_refl)) as X.
    assert (E : filter (fun _ : nat => true) (w_f1 w) = w_f1 w) by (clear; induction (w_f1 w) as [|a r IH]; cbn [filter]; [reflexivity|now rewrite IH]).
    rewrite E in X. lia.
  - intros l. cbn [memb]. apply K.
Qed.

Theorem guard_acquire_any_fault_position e lc c m s p t w out w' :
  coll e c = Some s -> ordered_alg (alg_of (e_am e) s) = true ->
  api_prog e lc (AAcquire c m FGuard) = Some p ->
  holds_nothing t w -> w_fp w = [] -> length (w_f1 w) <= 1 -> (forall l, w_kill w l = false) ->
  run nopw t p w = (out, w') ->
  match out with
  | OPanic => holds_nothing t w' /\
              exists l, In l (locks_of (alg_leaves (alg_of (e_am e) s))) /\ forall l', w_kill w' l' = memb l' [l]
  | OAbort | OFuel => False
  | _ => forall l', w_kill w' l' = false
  end.
Proof.
  intros Ec OA EP HN FP F1 K R.
  pose proof (guard_acquire_one_fault e lc c m s p t w true [] out w' Ec OA EP (agreeF_start t w HN FP F1 K) (fun _ => eq_refl) R) as X.
  cbn zeta in X. destruct out as [v| | | |]; try exact X.
  - destruct X as [H' [_ A]]. exact (proj2 (proj2 (proj2 (proj2 A)))).
  - destruct X as [[_ [l [Hl A]]]|[X _]]; [|discriminate]. destruct (agreeF_nil_iff _ _ _ _ A) as [N1 N2].
    split; [exact N1|]. exists l. split; [exact Hl|exact N2].
  - destruct X as [pre [suf [_ [_ [H' [_ A]]]]]]. exact (proj2 (proj2 (proj2 (proj2 A)))).
Qed.

(* ---------------------------------------------------------------- a single Mutex / RwLock (or a Poisonable around one):
   every flavour (lock, try_lock, scoped, scoped_try), closures that may themselves panic, and at most one panicking raw
   operation: nothing stays held except the lock itself when its own release panicked (it is then dead), and no other
   lock is ever killed *)
Lemma wpf_leaf_try m k l H F D Qr Qt QB :
  (memb l D = true -> Qr (VBool false) H F D) ->
  (memb l D = false -> (F = true -> Qt H false (l :: D)) /\ Qr (VBool true) (hold_of m (k, l) :: H) F D /\ Qr (VBool false) H F D) ->
  wpf (leaf_try m k l) H F D Qr Qt QB.
Proof.
  intros Hd Ha. unfold leaf_try. cbn [wpf]. destruct (memb l D) eqn:M; cbn [vtrue].
  - cbn [wpf]. now apply Hd.
  - destruct (Ha eq_refl) as [A1 [A2 A3]]. unfold hold_of in A2. cbn [fst snd] in A2. rewrite <- hx_try in A2.
    cbn [wpf]. split; [exact A1|]. destruct k, m; cbn [try_op rop_ex] in *; split; assumption.
Qed.

Lemma wpf_leaf_unlock m k l H F D Qr Qt QB :
  In (hold_of m (k, l)) H -> (F = true -> Qt H false (l :: D)) -> Qr VUnit (rem1 (hold_of m (k, l)) H) F D ->
  wpf (leaf_unlock m k l) H F D Qr Qt QB.
Proof.
  intros I T Q. unfold leaf_unlock, hold_of in *. cbn [fst snd] in *. rewrite <- hx_rel in I, Q.
  cbn [wpf op_]. split; [exact T|]. destruct k, m; cbn [rel_op rop_ex] in *; split; assumption.
Qed.

Lemma wpf_cs_list m items body H F D Qr Qt QB :
  Qr VUnit H F D -> Qt H F D -> wpf (seqs (map (cs_prog m items) body)) H F D Qr Qt QB.
Proof.
  intros Q T. induction body as [|o r IH]; cbn [map seqs]; [exact Q|]. apply wpf_then.
  destruct o as [pos|pos| |]; cbn [cs_prog].
  - destruct (nth_leaf items pos) as [[k l]|]; [|exact IH]. cbn [wpf op_]. intros n. exact IH.
  - destruct m; [exact IH|]. destruct (nth_leaf items pos) as [[k l]|]; [|exact IH]. cbn [wpf op_]. exact IH.
  - exact T.
  - cbn [wpf op_]. intros b. exact IH.
Qed.

Lemma wpf_closure m items body H F D Qr Qt QB :
  Qr VUnit H F D -> Qt H F D -> wpf (closure m items body) H F D Qr Qt QB.
Proof.
  intros Q T. unfold closure. apply wpf_then. cbn [wpf op_]. apply wpf_then. apply wpf_see_all. apply wpf_cs_list; assumption.
Qed.

Definition single_post (h : hold) (D : list lock) : postf :=
  fun H' _ D' => (H' = [] \/ (H' = [h] /\ memb (fst h) D' = true)) /\ (D' = D \/ D' = fst h :: D).

Theorem single_lock_one_fault e lc c m f s k l p t w F D out w' :
  coll e c = Some s -> alg_of (e_am e) s = AlgLeaf k l ->
  api_prog e lc (AAcquire c m f) = Some p ->
  agreeF t w [] F D ->
  run nopw t p w = (out, w') ->
  let h := hold_of m (k, l) in
  match out with
  | ODone _ | OPanic =>
      exists H' F' D', agreeF t w' H' F' D' /\
        (match f with FGuard | FTry => True | _ => H' = [] \/ (H' = [h] /\ memb l D' = true) end) /\
        (match out with OPanic => H' = [] \/ (H' = [h] /\ memb l D' = true) | _ => True end) /\
        (D' = D \/ D' = l :: D)
  | OBlocked => agreeF t w' [] F D
  | OAbort | OFuel => False
  end.
Proof.
  intros Ec EA EP A R h. cbn [api_prog] in EP. rewrite Ec in EP. destruct (haskey lc); [|discriminate]. rewrite EA in EP.
  cbn [raw_lock raw_try] in EP.
  (* the three posts *)
  set (gd := fun (H' : list hold) (D' : list lock) => (H' = [] \/ (H' = [h] /\ memb l D' = true)) /\ (D' = D \/ D' = l :: D)).
  set (Qr := fun (_ : val) H' (F' : bool) D' =>
               (match f with FGuard | FTry => (H' = [] \/ H' = [h]) /\ (D' = D \/ D' = l :: D) | _ => gd H' D' end)).
  set (Qt := fun H' (F' : bool) D' => gd H' D').
  set (QB := fun H' F' D' => H' = [] /\ F' = F /\ D' = D).
  assert (KILL : memb l (l :: D) = true) by (cbn [memb]; now rewrite Nat.eqb_refl).
  (* release of the lock from [h], in any fault state, towards gd *)
  assert (REL : forall F0 D0 (Q1 : val -> postf) (Q2 : postf), (D0 = D \/ D0 = l :: D) ->
                  (F0 = true -> D0 = D) ->
                  (forall F1 D1, (D1 = D \/ D1 = l :: D) -> Q1 VUnit [] F1 D1) ->
                  (forall F1, Q2 [h] F1 (l :: D)) ->
                  wpf (leaf_unlock m k l) [h] F0 D0 Q1 Q2 QB).
  { intros F0 D0 Q1 Q2 HD HF X1 X2. apply wpf_leaf_unlock; [now left| |].
    - intros Ft. rewrite (HF Ft). apply X2.
    - rewrite rem1_head. apply X1. exact HD. }
  (* the scoped calls from the acquisition on: [acq] either takes the lock (from H0, leaving F and D as they are) or ends
     in Qt / QB *)
  assert (SC : forall lent body acq H0,
                 (forall (Q1 : val -> postf), Q1 VUnit [h] F D -> wpf acq H0 F D Q1 Qt QB) ->
                 wpf (scoped_rest m s (AlgLeaf k l) lent body acq) H0 F D
                     (fun _ H' F' D' => gd H' D') Qt QB).
  { intros lent body acq H0 ACQ. unfold scoped_rest. cbn [raw_unlock].
    assert (G0 : forall D1, D1 = D \/ D1 = l :: D -> gd [] D1) by (intros D1 X; unfold gd; auto).
    assert (G1 : gd [h] (l :: D)) by (unfold gd; split; [right; split; [reflexivity|exact KILL]|auto]).
    destruct (root_poison s) as [p0|].
    - cbn [wpf]. apply wpf_with_key. apply wpf_then. apply ACQ. apply wpf_then. cbn [wpf]. apply wpf_closure.
      + apply (REL F D); [auto|auto| |].
        * intros F1 D1 X. cbn [wpf]. now apply G0.
        * intros F1. exact G1.
      + apply wpf_then. cbn [wpf op_]. apply (REL F D); [auto|auto| |].
        * intros F1 D1 X. now apply G0.
        * intros F1. exact G1.
    - cbn [wpf]. apply wpf_with_key. apply wpf_then. apply ACQ. cbn [wpf]. apply wpf_closure.
      + apply wpf_then. apply (REL F D); [auto|auto| |].
        * intros F1 D1 X. cbn [wpf]. now apply G0.
        * intros F1. exact G1.
      + apply (REL F D); [auto|auto| |].
        * intros F1 D1 X. now apply G0.
        * intros F1. exact G1. }
  assert (W : wpf p [] F D Qr Qt QB).
  { destruct f as [| |lent body|lent body]; injection EP as <-.
    - (* guard *) apply wpf_with_key. apply wpf_then. apply wpf_leaf_lock.
      + intros M. unfold Qt, gd. auto.
      + intros M. split; [intros Ft; unfold Qt, gd; auto|]. split; [unfold QB; auto|].
        apply wpf_then. apply wpf_see_all. apply wpf_poison_result. intros n. unfold Qr. auto.
    - (* try *) apply wpf_with_key. cbn [wpf]. apply wpf_leaf_try.
      + intros M. cbn [vtrue wpf]. unfold Qr. auto.
      + intros M. split; [intros Ft; unfold Qt, gd; auto|]. split.
        * cbn [vtrue]. apply wpf_then. apply wpf_see_all. apply wpf_poison_result. intros n. unfold Qr. auto.
        * cbn [vtrue wpf]. unfold Qr. auto.
    - (* scoped *)
      apply (SC lent body (leaf_lock m k l) []). intros Q1. intros X. apply wpf_leaf_lock.
      + intros M. unfold Qt, gd. auto.
      + intros M. split; [intros Ft; unfold Qt, gd; auto|]. split; [unfold QB; auto|exact X].
    - (* scoped try *)
      cbn [wpf]. apply wpf_with_key. apply wpf_leaf_try.
      + intros M. cbn [vtrue wpf]. unfold Qr, gd. auto.
      + intros M. split; [intros Ft; unfold Qt, gd; auto|]. split.
        * cbn [vtrue]. apply (SC lent body skip [h]). intros Q1 X. cbn [wpf skip]. exact X.
        * cbn [vtrue wpf]. unfold Qr, gd. auto. }
  destruct (wpf_run t p w [] F D Qr Qt QB out w' W A R) as [H' [F' [D' [A' P']]]].
  destruct out as [v| | | |]; cbn [outf] in P'; try contradiction.
  - exists H', F', D'. split; [exact A'|]. unfold Qr, gd in P'. destruct f; tauto.
  - exists H', F', D'. split; [exact A'|]. unfold Qt, gd in P'. destruct f; tauto.
  - unfold QB in P'. destruct P' as [-> [-> ->]]. exact A'.
Qed.
