(* Prop_C15.v — C15 (partial; known finding F5): the type system confines protected data to live holds. *)
From Coq Require Import List String Bool.
From HL Require Import ApiTable ApiModel Pf_C15.
Import ListNotations.
Open Scope string_scope.

(* for EVERY type built (to any depth) from payloads, references, tuples / arrays / vectors and the crate's locks,
   guards, collections and wrappers: if rustc considers it Send (Sync) given the impls of the current tree, then the
   standard library's bounds for Mutex / RwLock / their guards (and the structural rules for what merely owns or
   borrows) make it Send (Sync) too *)
Theorem C15_auto_traits_at_least_std :
  forall t, (table_impl MSend t = true -> std_auto MSend t = true) /\
            (table_impl MSync t = true -> std_auto MSync t = true).
Proof. exact auto_at_least_std. Qed.


(* the same for EVERY raw lock type the crate can be instantiated with (R: Send / Sync or not, R::GuardMarker: Send /
   Sync or not), against lock_api's own rules: a *Ref guard may be sent only if R::GuardMarker: Send and the payload is
   Send; the guards that carry the thread's key are never Send *)
Theorem C15_auto_traits_at_least_reference :
  forall rf t, (impl_auto auto_rules rf MSend t = true -> ref_auto rf MSend t = true) /\
               (impl_auto auto_rules rf MSync t = true -> ref_auto rf MSync t = true).
Proof. exact auto_at_least_ref. Qed.

Example C15_guardsend_raw :
  let rf := mkrf true true true true in
  impl_auto auto_rules rf MSend (TCon "MutexRef" (TPay true false)) = true /\      (* lock_api: sendable guard *)
  impl_auto auto_rules rf MSend (TCon "MutexGuard" (TPay true true)) = false /\    (* but not with the key inside *)
  impl_auto auto_rules rf MSync (TCon "MutexRef" (TPay true false)) = false.
Proof. vm_compute. auto. Qed.

(* raw accessors, unchecked constructors and guard factories are unsafe or private; an owned collection gives no
   shared access to its members; a shared reference is never OwnedLockable *)
Theorem C15_table_wf : wf_data_known = true.
Proof. vm_compute. reflexivity. Qed.

(* constructors that skip the duplicate check (new, new_ref, OwnedLockCollection) demand OwnedLockable: for EVERY type of
   the (unboundedly nested) language, if rustc derives OwnedLockable for it from the impls of the current tree, the type
   owns every lock reachable through it — no shared reference and no RefLockCollection on the way — so it cannot contain
   the same lock twice *)
Theorem C15_ownedlockable_owns : forall t, ol t = true -> owns t = true.
Proof. apply ownedlockable_owns. vm_compute. reflexivity. Qed.
Check C15_ownedlockable_owns : forall t, ol t = true -> owns t = true.

Example C15_ownedlockable_examples :
  ol (TTuple [TCon "Mutex" (TPay true true); TCon "Poisonable" (TCon "RwLock" (TPay false false))]) = true /\
  ol (TCon "OwnedLockCollection" (TTuple [TMutRef (TCon "Mutex" (TPay true true))])) = true /\
  ol (TTuple [TRef (TCon "Mutex" (TPay true true))]) = false /\
  ol (TCon "BoxedLockCollection" (TTuple [TCon "Mutex" (TPay true true); TRef (TCon "Mutex" (TPay true true))])) = false /\
  ol (TCon "RefLockCollection" (TCon "Mutex" (TPay true true))) = false.
Proof. vm_compute. repeat split. Qed.

(* a non-thread-safe payload cannot be shared through any lock of the crate *)
Example C15_cell_not_shared :
  table_impl MSync (TCon "RwLock" (TPay true false)) = false /\
  table_impl MSync (TCon "BoxedLockCollection" (TTuple [TCon "RwLock" (TPay true false); TCon "Mutex" (TPay true true)])) = false /\
  table_impl MSend (TCon "RefLockCollection" (TCon "RwLock" (TPay true false))) = false /\
  table_impl MSync (TCon "Mutex" (TPay true false)) = true.      (* a Mutex serialises access: Cell payloads are fine *)
Proof. vm_compute. auto. Qed.

(* KNOWN FINDING F5: the argument of every scoped closure carries the caller-chosen lifetime of `&self` (no
   higher-ranked binder), so the reference can be returned from the closure and outlive the hold *)
Theorem C15_refuted_scoped_escape :
  e4 = false /\ exists f, In f fns /\ fn_closure_escapes f = true /\ fn_public f = true /\ fn_unsafe f = false.
Proof.
  split; [vm_compute; reflexivity|].
  destruct (find (fun f => fn_closure_escapes f && fn_public f && negb (fn_unsafe f)) fns) as [f|] eqn:F.
  - destruct (find_some _ _ F) as [Hin H]. exists f.
    apply andb_true_iff in H. destruct H as [H C]. apply andb_true_iff in H. destruct H as [A B].
    apply negb_true_iff in C. auto.
  - vm_compute in F. discriminate F.
Qed.

Print Assumptions C15_auto_traits_at_least_std.
Print Assumptions C15_table_wf.
Print Assumptions C15_refuted_scoped_escape.
Print Assumptions C15_ownedlockable_owns.
Print Assumptions C15_auto_traits_at_least_reference.
