(* WpFAlgo.v — C12 for whole collections: with at most one panicking raw operation, the blocking acquisition of a
   lock / sorting collection / owned collection and the destruction of a guard release only what they hold, leave
   nothing held but (possibly) the lock whose own release panicked, and kill exactly the lock whose operation panicked. *)
From HL Require Import Base Model Shape Algo Api Conc OpsLemmas Lemmas ShapeLemmas Wp WpAlgo WpF.

(* at most one fault in the whole run: while it has not fired no lock is dead *)
Definition INV (F : bool) (D : list lock) : Prop := F = true -> D = [].

Implicit Types (Qr : val -> postf) (Qt QB : postf) (H : list hold) (F : bool) (D : list lock).

Lemma wpf_then a b H F D Qr Qt QB :
  wpf a H F D (fun _ H' F' D' => wpf b H' F' D' Qr Qt QB) Qt QB -> wpf (a ;; b) H F D Qr Qt QB.
Proof. intros W. unfold pthen. cbn [wpf]. exact W. Qed.

(* ---------------------------------------------------------------- releases once the fault has fired (or cannot) *)
Lemma wpf_leaf_unlock_nf m k l H D Qr Qt QB :
  In (hold_of m (k, l)) H -> Qr VUnit (rem1 (hold_of m (k, l)) H) false D -> wpf (leaf_unlock m k l) H false D Qr Qt QB.
Proof.
  intros I Q. unfold leaf_unlock, hold_of in *. cbn [fst snd] in *. rewrite <- hx_rel in I, Q.
  cbn [wpf op_]. split; [discriminate|]. destruct k, m; cbn [rel_op rop_ex] in *; split; assumption.
Qed.

Definition unlock_spec_nf (m : mode) (x : rawref) : Prop :=
  forall H D Qr Qt QB, sub_ok (holds_of m (rleaves x)) H -> Qr VUnit (rel_all (holds_of m (rleaves x)) H) false D ->
                       wpf (rr_unlock m x) H false D Qr Qt QB.

Lemma wpf_unlock_seq_nf m rs : Forall (unlock_spec_nf m) rs ->
  forall H D Qr Qt QB, sub_ok (holds_of m (rsleaves rs)) H -> Qr VUnit (rel_all (holds_of m (rsleaves rs)) H) false D ->
                       wpf (seqs (map (rr_unlock m) rs)) H false D Qr Qt QB.
Proof.
  induction 1 as [|x r Hx Hr IH]; intros H D Qr Qt QB S Q; cbn [map seqs].
  - exact Q.
  - rewrite rsleaves_cons, holds_of_app in S, Q. apply sub_ok_app in S. destruct S as [S1 S2]. rewrite rel_all_app in Q.
    apply wpf_then. apply Hx; [exact S1|]. apply IH; assumption.
Qed.

Lemma rr_unlock_spec_nf m r : unlock_spec_nf m r.
Proof.
  induction r as [k l|u inner IH] using rawref_ind2; intros H D Qr Qt QB S Q.
  - cbn [rr_unlock rleaves holds_of map sub_ok rel_all fold_left] in *. apply wpf_leaf_unlock_nf; [exact (proj1 S)|exact Q].
  - cbn [rr_unlock rleaves]. apply (wpf_unlock_seq_nf m inner IH); assumption.
Qed.

Lemma wpf_recover_nf m rs H D Qr Qt QB :
  sub_ok (holds_of m (rsleaves rs)) H -> Qr VUnit (rel_all (holds_of m (rsleaves rs)) H) false D ->
  wpf (recover m rs) H false D Qr Qt QB.
Proof.
  intros S Q. unfold recover. cbn [wpf]. apply wpf_unlock_seq_nf; [|exact S|exact Q].
  apply Forall_forall. intros x _. apply rr_unlock_spec_nf.
Qed.

(* ---------------------------------------------------------------- blocking acquisition, a fault possible *)
Lemma wpf_leaf_lock m k l H F D Qr Qt QB :
  (memb l D = true -> Qt H F D) ->
  (memb l D = false -> (F = true -> Qt H false (l :: D)) /\ QB H F D /\ Qr VUnit (hold_of m (k, l) :: H) F D) ->
  wpf (leaf_lock m k l) H F D Qr Qt QB.
Proof.
  intros Hd Ha. unfold leaf_lock. cbn [wpf]. destruct (memb l D) eqn:M; cbn [vtrue].
  - cbn [wpf]. now apply Hd.
  - destruct (Ha eq_refl) as [A1 [A2 A3]]. unfold hold_of in A3. cbn [fst snd] in A3. rewrite <- hx_acq in A3.
    cbn [wpf op_]. split; [exact A1|]. destruct k, m; cbn [acq_op rop_ex] in *; split; assumption.
Qed.

Definition lock_spec (m : mode) (lk : rawref -> prog) (x : rawref) : Prop :=
  forall H F D Qr Qt QB, INV F D ->
    Qr VUnit (rev (holds_of m (rleaves x)) ++ H) F D ->
    (forall l, In l (locks_of (rleaves x)) -> F = true -> forall H', Permutation H' H -> Qt H' false (l :: D)) ->
    (F = false -> forall H', Permutation H' H -> Qt H' false D) ->
    (forall pre suf, rleaves x = pre ++ suf -> suf <> [] -> QB (rev (holds_of m pre) ++ H) F D) ->
    wpf (lk x) H F D Qr Qt QB.

Lemma wpf_ordered_lock_from m lk todo : Forall (lock_spec m lk) todo ->
  forall done H0 F D Qr Qt QB, INV F D ->
    Qr VUnit (rev (holds_of m (rsleaves todo)) ++ rev (holds_of m (rsleaves done)) ++ H0) F D ->
    (forall l, In l (locks_of (rsleaves todo)) -> F = true -> forall H', Permutation H' H0 -> Qt H' false (l :: D)) ->
    (F = false -> forall H', Permutation H' H0 -> Qt H' false D) ->
    (forall pre suf, rsleaves todo = pre ++ suf -> suf <> [] ->
                     QB (rev (holds_of m pre) ++ rev (holds_of m (rsleaves done)) ++ H0) F D) ->
    wpf (ordered_lock_from m lk done todo) (rev (holds_of m (rsleaves done)) ++ H0) F D Qr Qt QB.
Proof.
  induction 1 as [|x r Hx Hr IH]; intros done H0 F D Qr Qt QB I Q Qf Qd Qb; cbn [ordered_lock_from].
  - cbn [wpf skip]. exact Q.
  - assert (PD : Permutation (rev (holds_of m (rsleaves done)) ++ H0) (holds_of m (rsleaves done) ++ H0))
      by (apply Permutation_app_tail; symmetry; apply Permutation_rev).
    apply wpf_then. cbn [wpf]. apply Hx; [exact I| | | |].
    + (* acquired: go on *)
      assert (E : rev (holds_of m (rleaves x)) ++ rev (holds_of m (rsleaves done)) ++ H0 =
                  rev (holds_of m (rsleaves (done ++ [x]))) ++ H0).
      { rewrite rsleaves_app, rsleaves_one, holds_of_app, rev_app_distr, <- app_assoc. reflexivity. }
      rewrite E. apply IH; [exact I| | | |].
      * rewrite <- E. rewrite rsleaves_cons, holds_of_app, rev_app_distr, <- app_assoc in Q. exact Q.
      * intros l Hl. apply Qf. rewrite rsleaves_cons, locks_of_app. apply in_or_app. now right.
      * exact Qd.
      * intros pre suf Ep Ns. rewrite <- E.
        specialize (Qb (rleaves x ++ pre) suf). rewrite holds_of_app, rev_app_distr in Qb.
        rewrite (app_assoc (rev (holds_of m pre))). apply Qb; [|exact Ns].
        rewrite rsleaves_cons, Ep, app_assoc. reflexivity.
    + (* a fault inside: release what was taken before *)
      intros l Hl Ft H' P'. apply wpf_recover_nf.
      * apply (sub_ok_perm _ _ H0). now rewrite P'.
      * apply Qf; [rewrite rsleaves_cons, locks_of_app; apply in_or_app; now left|exact Ft|].
        apply rel_all_perm. now rewrite P'.
    + (* a dead member: release what was taken before *)
      intros Ff H' P'. apply wpf_recover_nf.
      * apply (sub_ok_perm _ _ H0). now rewrite P'.
      * apply Qd; [exact Ff|]. apply rel_all_perm. now rewrite P'.
    + intros pre suf Ep Ns. apply (Qb pre (suf ++ rsleaves r)).
      * rewrite rsleaves_cons, Ep, app_assoc. reflexivity.
      * intros X. apply app_eq_nil in X. destruct X as [X _]. contradiction.
Qed.

Lemma rr_lock_spec m r : lock_spec m (rr_lock m) r.
Proof.
  induction r as [k l|u inner IH] using rawref_ind2; intros H F D Qr Qt QB I Q Qf Qd Qb.
  - cbn [rr_lock rleaves holds_of map rev app] in *. apply wpf_leaf_lock.
    + intros M. destruct F.
      * rewrite (I eq_refl) in M. discriminate.
      * apply Qd; reflexivity.
    + intros M. split; [intros Ft; apply Qf; [now left|exact Ft|reflexivity]|]. split; [|exact Q].
      apply (Qb [] [(k, l)]); [reflexivity|discriminate].
  - cbn [rr_lock rleaves].
    apply (wpf_ordered_lock_from m (rr_lock m) inner IH [] H F D Qr Qt QB I); cbn [rsleaves flat_map holds_of map rev app].
    + exact Q.
    + exact Qf.
    + exact Qd.
    + exact Qb.
Qed.

Lemma wpf_ordered_lock m rs H0 F D Qr Qt QB : INV F D ->
  Qr VUnit (rev (holds_of m (rsleaves rs)) ++ H0) F D ->
  (forall l, In l (locks_of (rsleaves rs)) -> F = true -> forall H', Permutation H' H0 -> Qt H' false (l :: D)) ->
  (F = false -> forall H', Permutation H' H0 -> Qt H' false D) ->
  (forall pre suf, rsleaves rs = pre ++ suf -> suf <> [] -> QB (rev (holds_of m pre) ++ H0) F D) ->
  wpf (ordered_lock m rs) H0 F D Qr Qt QB.
Proof.
  intros I Q Qf Qd Qb. unfold ordered_lock.
  apply (wpf_ordered_lock_from m (rr_lock m) rs) with (done := []) (H0 := H0); try assumption.
  apply Forall_forall. intros x _. apply rr_lock_spec.
Qed.

(* ---------------------------------------------------------------- destruction of a guard *)
Lemma wpf_drop_items_unw_nf m items : forall H D Qr Qt QB,
  sub_ok (holds_of m (gleaves items)) H -> Qr VUnit (rel_all (holds_of m (gleaves items)) H) false D ->
  wpf (drop_items m true items) H false D Qr Qt QB.
Proof.
  induction items as [|[k l|p] r IH]; intros H D Qr Qt QB S Q; cbn [drop_items gleaves].
  - exact Q.
  - cbn [gleaves holds_of map sub_ok rel_all fold_left] in S, Q. destruct S as [S1 S2].
    apply wpf_then. cbn [wpf]. apply wpf_leaf_unlock_nf; [exact S1|]. apply IH; assumption.
  - apply wpf_then. cbn [wpf op_]. apply IH; assumption.
Qed.

Lemma wpf_drop_items m items : forall H F D B Qr Qt QB,
  Permutation H (holds_of m (gleaves items) ++ B) ->
  (forall H', Permutation H' B -> Qr VUnit H' F D) ->
  (forall x, In x (gleaves items) -> F = true -> forall H', Permutation H' (hold_of m x :: B) -> Qt H' false (snd x :: D)) ->
  wpf (drop_items m false items) H F D Qr Qt QB.
Proof.
  induction items as [|[k l|p] r IH]; intros H F D B Qr Qt QB P Q Qf; cbn [drop_items gleaves].
  - cbn [wpf skip]. apply Q. exact P.
  - cbn [gleaves holds_of map app] in P. fold (holds_of m (gleaves r)) in P.
    apply wpf_then. cbn [wpf]. unfold leaf_unlock. cbn [wpf op_].
    assert (X : (F = true -> wpf (drop_items m true r) H false (l :: D) (fun _ H'' F'' D'' => Qt H'' F'' D'') Qt QB) /\
                In (hold_of m (k, l)) H /\
                wpf (drop_items m false r) (rem1 (hold_of m (k, l)) H) F D Qr Qt QB).
    { split; [|split].
      - intros Ft. apply wpf_drop_items_unw_nf.
        + apply (sub_ok_perm _ _ (hold_of m (k, l) :: B)). rewrite P. rewrite <- Permutation_middle. reflexivity.
        + apply (Qf (k, l)); [now left|exact Ft|]. apply rel_all_perm. rewrite P. rewrite <- Permutation_middle. reflexivity.
      - eapply Permutation_in; [symmetry; exact P|now left].
      - apply (IH _ F D B); [apply rem1_perm; exact P|exact Q|].
        intros x Hx. apply Qf. now right. }
    destruct X as [X1 [X2 X3]]. unfold hold_of in X2, X3. cbn [fst snd] in X2, X3. rewrite <- hx_rel in X2, X3.
    destruct k, m; cbn [rel_op rop_ex] in *; (split; [exact X1|split; [exact X2|exact X3]]).
  - apply wpf_then. cbn [wpf skip]. apply (IH _ F D B); assumption.
Qed.
