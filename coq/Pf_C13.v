(* Pf_C13.v — try_* outcomes are exact in quiescent states: proof. *)
From HL Require Import Base Model Shape Algo Api Lemmas ShapeLemmas ApiLemmas Check Monitors.

Record wf_C13 (sc : scen) (c : nat) (m : mode) (s : shape) (t : tid) : Prop := {
  wf13_hist : sc_hist sc = [(t, AKeyGet); (t, AAcquire c m FTry); (t, AGuardDrop)];
  wf13_coll : nth_error (sc_colls sc) c = Some s;
  wf13_acq : acquirable s = true;
  wf13_nodup : NoDup (leaves s);
  wf13_range : forall l, In l (leaves s) -> l < sc_nlocks sc;
  wf13_f1 : sc_f1 sc = [];
  wf13_fp : sc_fp sc = [];
  wf13_sh : m = Sh -> forall k l, In (k, l) (kleaves s) -> k = KRw
}.



Lemma hrun3 e nl np h x1 x2 x3 h1 o1 h2 o2 h3 o3 :
  hstep e nl np h x1 = (h1, [o1]) -> hstep e nl np h1 x2 = (h2, [o2]) -> hstep e nl np h2 x3 = (h3, [o3]) ->
  snd (hrun e nl np h [x1; x2; x3]) = [o1; o2; o3].
Proof. intros A B C. cbn [hrun]. rewrite A, B, C. reflexivity. Qed.

Lemma api_fin_try_ok e lc c m s :
  coll e c = Some s ->
  api_fin e lc (AAcquire c m FTry) (ODone (VNat 0)) = (mkt false (Some (mkg m (gitems s))), ROk).
Proof. intros H. cbn. rewrite H. reflexivity. Qed.


Lemma rawst_sim_refl s : rawst_sim s s = true.
Proof.
  unfold rawst_sim. destruct s as [w r]. simpl. apply andb_true_iff. split.
  - destruct w; simpl; [apply Nat.eqb_refl|reflexivity].
  - unfold perm_eqb. rewrite Nat.eqb_refl. simpl. apply forallb_forall. intros x _. apply Nat.eqb_refl.
Qed.

Lemma holds_sim_refl l : holds_sim l l = true.
Proof. unfold holds_sim. induction l as [|x r IH]; cbn [list_eqb]; [reflexivity|]. now rewrite rawst_sim_refl, IH. Qed.

Lemma leaf_avail_can1 k m s : (m = Sh -> k = KRw) -> can1 k m s = leaf_avail m s.
Proof. intros H. destruct k, m; try reflexivity. now specialize (H eq_refl). Qed.

Lemma held_in_held1 t k m s : (m = Sh -> k = KRw) -> held1 t k m s = held_in m t s.
Proof. intros H. destruct k, m; try reflexivity. now specialize (H eq_refl). Qed.

Lemma forallb_map' {A B} (f : A -> B) (p : B -> bool) l : forallb p (map f l) = forallb (fun x => p (f x)) l.
Proof. induction l as [|x r IH]; simpl; [reflexivity|]. now rewrite IH. Qed.

Section Main.
  Variables (sc : scen) (c : nat) (m : mode) (s : shape) (t : tid).
  Hypothesis WF : wf_C13 sc c m s t.

  Let e := sc_env sc.
  Let nl := sc_nlocks sc.
  Let np := sc_npids sc.
  Let w0 := sc_world sc.

  Lemma q0 : quiet w0.
  Proof.
    unfold w0, sc_world. repeat split; simpl; [apply (wf13_f1 _ _ _ _ _ WF)|apply (wf13_fp _ _ _ _ _ WF)].
  Qed.

  Lemma psn0 : forall p, w_psn w0 p = false.
  Proof. reflexivity. Qed.

  Lemma expect_eq (pre : list rawst) (f : St) :
    (forall l, l < nl -> nth l pre raw_free = f l) ->
    forallb (fun l => leaf_avail m (nth l pre raw_free)) (leaves s) = can_all m (kleaves s) f.
  Proof.
    intros H. rewrite leaves_kleaves. unfold can_all, locks_of. rewrite forallb_map'.
    apply forallb_ext_in'. intros [k l] Hin. cbn [fst snd].
    rewrite H.
    - symmetry. apply leaf_avail_can1. intros Hm. eapply (wf13_sh _ _ _ _ _ WF); eauto.
    - apply (wf13_range _ _ _ _ _ WF). rewrite leaves_kleaves. unfold locks_of.
      now apply (in_map snd) in Hin.
  Qed.

  Lemma all_held_eq (holds : list rawst) (f : St) :
    (forall l, l < nl -> nth l holds raw_free = f l) ->
    all_held m t (leaves s) holds = held_all t m (kleaves s) f.
  Proof.
    intros H. unfold all_held. rewrite leaves_kleaves. unfold held_all, locks_of. rewrite forallb_map'.
    apply forallb_ext_in'. intros [k l] Hin. cbn [fst snd].
    rewrite H.
    - symmetry. apply held_in_held1. intros Hm. eapply (wf13_sh _ _ _ _ _ WF); eauto.
    - apply (wf13_range _ _ _ _ _ WF). rewrite leaves_kleaves. unfold locks_of.
      now apply (in_map snd) in Hin.
  Qed.

  Theorem C13_main : mon_C13 sc (model_obs sc) = true.
  Proof.
    pose proof WF as [Hh Hc Ha Hnd Hrg Hf1 Hfp Hsh].
    unfold model_obs. fold e nl np w0. rewrite Hh.
    (* ---- call 1: ThreadKey::get *)
    set (h0 := mkh w0 (fun _ => tl0) false).
    set (w1 := set_keyf (clear_trace w0) t true).
    set (h1 := mkh w1 (upd (fun _ => tl0) t (mkt true None)) false).
    assert (S1 : hstep e nl np h0 (t, AKeyGet) =
                 (h1, [mkco t (RB true) [] (snapshot_holds nl w0) (snapshot_psn np w0) false])).
    { erewrite hstep_some; [|reflexivity|reflexivity|reflexivity]. cbn. rewrite upd_same. reflexivity. }
    assert (Q1 : quiet (clear_trace w1)) by (apply quiet_clear; apply q0).
    (* ---- call 2: try_lock / try_read *)
    assert (Hcoll : coll e c = Some s) by exact Hc.
    destruct (run_raw_try t m (e_am e) s (clear_trace w1) Q1 Ha Hnd) as [w2 [R2 E2]].
    assert (Hraw1 : forall x, w_raw (clear_trace w1) x = w_raw w0 x) by reflexivity.
    rewrite (can_all_ext m (kleaves s) _ (w_raw w0) (fun x _ => Hraw1 x)) in R2, E2.
    assert (Hpre : forall l, l < nl -> nth l (pre_holds sc) raw_free = w_raw w0 l).
    { intros l Hl. unfold pre_holds. fold nl w0. now apply nth_snapshot_holds. }
    assert (Hprog2 : api_prog e (h_loc h1 t) (AAcquire c m FTry) =
              Some (with_key true false (Bind (raw_try m (alg_of (e_am e) s))
                         (fun v => if vtrue v then see_all (gpoisons (gitems s)) ;; poison_result s
                                   else Ret (VNat 1))))).
    { unfold h1. cbn [h_loc]. rewrite upd_same. cbn [api_prog haskey]. rewrite Hcoll. reflexivity. }
    destruct (can_all m (kleaves s) (w_raw w0)) eqn:Can.
    - (* every leaf available: Ok, all held, drop restores *)
      destruct (run_see_all t (gpoisons (gitems s)) w2) as [w3 [R3 E3]].
      assert (P3 : forall p, w_psn w3 p = false).
      { intros p. rewrite (eff_psn _ _ _ E3), (eff_psn _ _ _ E2). reflexivity. }
      assert (Rcall2 : run nopw t (with_key true false (Bind (raw_try m (alg_of (e_am e) s))
                         (fun v => if vtrue v then see_all (gpoisons (gitems s)) ;; poison_result s
                                   else Ret (VNat 1)))) (clear_trace (h_w h1)) = (ODone (VNat 0), w3)).
      { apply (run_with_key_done nopw t true false _ _ (VNat 0) w3).
        unfold h1. cbn [h_w]. rewrite (run_bind_done _ _ _ _ _ _ _ R2). cbn [vtrue].
        rewrite (run_then_done _ _ _ _ _ _ _ R3). now apply run_poison_result. }
      pose proof (hstep_some e nl np h1 t _ _ _ _ eq_refl Hprog2 Rcall2) as S2.
      rewrite (api_fin_try_ok e _ c m s Hcoll) in S2. cbn [fst snd stops] in S2.
      match type of S2 with _ = (?hh, _) => set (h2 := hh) in * end.
      assert (E23 : eff (clear_trace w1) w3 (acq_all t m (kleaves s) (w_raw w0))).
      { eapply eff_ext; [eapply eff_trans; [exact E2|exact E3]|].
        intros x. rewrite (eff_raw _ _ _ E2). reflexivity. }
      assert (Q3 : quiet (clear_trace w3)) by (apply quiet_clear; eapply eff_quiet; eauto).
      (* ---- call 3: drop the guard *)
      assert (NDk : NoDup (locks_of (gleaves (gitems s)))) by (rewrite gleaves_gitems, <- leaves_kleaves; exact Hnd).
      assert (H3 : held_all t m (gleaves (gitems s)) (w_raw (clear_trace w3)) = true).
      { rewrite gleaves_gitems. rewrite (held_all_ext t m _ _ (acq_all t m (kleaves s) (w_raw w0))).
        - apply held_after_acq. rewrite <- leaves_kleaves. exact Hnd.
        - intros x _. apply (eff_raw _ _ _ E23). }
      destruct (run_drop_items t m (gitems s) (clear_trace w3) Q3 NDk H3) as [w4 [R4 E4]].
      assert (Hprog3 : api_prog e (h_loc h2 t) AGuardDrop =
                Some (with_key true true (drop_items m false (gitems s)))).
      { unfold h2. cbn [h_loc]. rewrite upd_same. reflexivity. }
      assert (Rcall3 : run nopw t (with_key true true (drop_items m false (gitems s))) (clear_trace (h_w h2))
                       = (ODone VUnit, set_keyf w4 t false)).
      { unfold h2. cbn [h_w]. apply (run_with_key_done nopw t true true _ _ _ _ R4). }
      pose proof (hstep_some e nl np h2 t _ _ _ _ eq_refl Hprog3 Rcall3) as S3.
      rewrite (hrun3 _ _ _ _ _ _ _ _ _ _ _ _ _ S1 S2 S3).
      unfold mon_C13. rewrite Hh, Hc. rewrite (expect_eq (pre_holds sc) (w_raw w0) Hpre), Can.
      cbn [co_ret co_holds api_fin fst snd rcode_eqb andb].
      (* the snapshots *)
      assert (Hs2 : forall l, l < nl -> nth l (snapshot_holds nl w3) raw_free = acq_all t m (kleaves s) (w_raw w0) l).
      { intros l Hl. rewrite nth_snapshot_holds by exact Hl. apply (eff_raw _ _ _ E23). }
      rewrite (all_held_eq _ _ Hs2). rewrite held_after_acq by (rewrite <- leaves_kleaves; exact Hnd).
      cbn [andb].
      replace (snapshot_holds nl (set_keyf w4 t false)) with (pre_holds sc); [apply holds_sim_refl|].
      unfold pre_holds. fold nl w0. apply snapshot_holds_ext. intros x. cbn [set_keyf w_raw].
      rewrite (eff_raw _ _ _ E4). rewrite gleaves_gitems.
      rewrite (rel_all_ext t m _ _ (acq_all t m (kleaves s) (w_raw w0))).
      + symmetry. apply rel_acq_all; [rewrite <- leaves_kleaves; exact Hnd|exact Can].
      + intros y. apply (eff_raw _ _ _ E23).
    - (* some leaf unavailable: WouldBlock, nothing changed *)
      assert (Rcall2 : run nopw t (with_key true false (Bind (raw_try m (alg_of (e_am e) s))
                         (fun v => if vtrue v then see_all (gpoisons (gitems s)) ;; poison_result s
                                   else Ret (VNat 1)))) (clear_trace (h_w h1)) = (ODone (VNat 1), w2)).
      { apply (run_with_key_done nopw t true false _ _ (VNat 1) w2).
        unfold h1. cbn [h_w]. rewrite (run_bind_done _ _ _ _ _ _ _ R2). reflexivity. }
      pose proof (hstep_some e nl np h1 t _ _ _ _ eq_refl Hprog2 Rcall2) as S2.
      cbn [api_fin fst snd stops] in S2.
      match type of S2 with _ = (?hh, _) => set (h2 := hh) in * end.
      assert (Hprog3 : api_prog e (h_loc h2 t) AGuardDrop = None).
      { unfold h2, h1. cbn [h_loc]. rewrite !upd_same. reflexivity. }
      pose proof (hstep_none e nl np h2 t _ eq_refl Hprog3) as S3.
      rewrite (hrun3 _ _ _ _ _ _ _ _ _ _ _ _ _ S1 S2 S3).
      unfold mon_C13. rewrite Hh, Hc. rewrite (expect_eq (pre_holds sc) (w_raw w0) Hpre), Can.
      cbn [co_ret co_holds rcode_eqb andb h_w h2].
      assert (Hs : snapshot_holds nl w2 = pre_holds sc).
      { unfold pre_holds. fold nl w0. apply snapshot_holds_ext. intros x. rewrite (eff_raw _ _ _ E2). reflexivity. }
      rewrite Hs. now rewrite holds_sim_refl.
  Qed.
End Main.
