(* Shape.v — what the user passes to happylock (declared structure), and what happylock makes of it:
   the list of `&dyn RawLock` that Lockable::get_ptrs yields, its address-sorted version, and the guard /
   data structure in declared order. *)
From HL Require Import Base.

Inductive shape :=
| SLeaf  (k : lkind) (l : lock)       (* Mutex<T,R> / RwLock<T,R>, or a `&`/`&mut` to one *)
| SSeq   (ss : list shape)            (* tuple / array / Vec / Box<[T]> *)
| SBoxed (s : shape)                  (* BoxedLockCollection<L> (= LockCollection<L>) *)
| SRefC  (s : shape)                  (* RefLockCollection<'_, L> *)
| SRetry (s : shape)                  (* RetryingLockCollection<L> *)
| SOwned (u : uid) (s : shape)        (* OwnedLockCollection<L>: itself one RawLock, with its own address *)
| SPoison (p : pid) (s : shape).      (* Poisonable<L> *)

(* a `&dyn RawLock` *)
Inductive rawref :=
| RLeaf  (k : lkind) (l : lock)
| ROwned (u : uid) (inner : list rawref).

Record addrmap := mkam { laddr : lock -> nat; uaddr : uid -> nat }.

Definition raddr (am : addrmap) (r : rawref) : nat :=
  match r with RLeaf _ l => laddr am l | ROwned u _ => uaddr am u end.

Section GetPtrs.
  Variable am : addrmap.

  (* Lockable::get_ptrs, impl by impl *)
  Fixpoint get_ptrs (s : shape) : list rawref :=
    match s with
    | SLeaf k l    => [RLeaf k l]                                  (* mutex.rs / rwlock.rs: ptrs.push(self) *)
    | SSeq ss      => flat_map get_ptrs ss                         (* lockable.rs: tuples, arrays, Vec, Box<[T]> *)
    | SBoxed s'    => isort (raddr am) (get_ptrs s')               (* boxed.rs: extend_from_slice(&self.locks) *)
    | SRefC s'     => isort (raddr am) (get_ptrs s')               (* ref.rs *)
    | SRetry s'    => get_ptrs s'                                  (* retry.rs: self.data.get_ptrs *)
    | SOwned u s'  => [ROwned u (get_ptrs s')]                     (* owned.rs: ptrs.push(self) *)
    | SPoison _ s' => get_ptrs s'                                  (* poisonable.rs: self.inner.get_ptrs *)
    end.
End GetPtrs.

(* leaves (with kind) behind a rawref / a list of rawrefs, in the unit's own order *)
Fixpoint rleaves (r : rawref) : list (lkind * lock) :=
  match r with
  | RLeaf k l => [(k, l)]
  | ROwned _ inner => flat_map rleaves inner
  end.
Definition rsleaves (rs : list rawref) : list (lkind * lock) := flat_map rleaves rs.

(* the guard / DataMut structure, flattened in declared order.  A Poisonable contributes a marker
   (its PoisonRef / Ok-Err wrapper) in front of the positions of what it wraps. *)
Inductive gitem := GLeaf (k : lkind) (l : lock) | GPoison (p : pid).

Fixpoint gitems (s : shape) : list gitem :=
  match s with
  | SLeaf k l    => [GLeaf k l]
  | SSeq ss      => flat_map gitems ss
  | SBoxed s' | SRefC s' | SRetry s' | SOwned _ s' => gitems s'
  | SPoison p s' => GPoison p :: gitems s'
  end.

(* the leaf locks of the declared structure, in declared order *)
Fixpoint leaves (s : shape) : list lock :=
  match s with
  | SLeaf _ l    => [l]
  | SSeq ss      => flat_map leaves ss
  | SBoxed s' | SRefC s' | SRetry s' | SOwned _ s' | SPoison _ s' => leaves s'
  end.

Fixpoint gleaves (g : list gitem) : list (lkind * lock) :=
  match g with
  | [] => []
  | GLeaf k l :: r => (k, l) :: gleaves r
  | GPoison _ :: r => gleaves r
  end.

Fixpoint gpoisons (g : list gitem) : list pid :=
  match g with
  | [] => []
  | GLeaf _ _ :: r => gpoisons r
  | GPoison p :: r => p :: gpoisons r
  end.

(* checked constructors *)
Definition try_new_sorting (am : addrmap) (s : shape) : bool :=     (* boxed.rs / ref.rs try_new: is_some *)
  negb (adjdup (raddr am) (isort (raddr am) (get_ptrs am s))).
Definition try_new_retry (am : addrmap) (s : shape) : bool :=       (* retry.rs try_new: is_some *)
  negb (scandup (raddr am) [] (get_ptrs am s)).

(* ---------------------------------------------------------------- C07 vocabulary *)
(* what a collection lists, at the granularity at which happylock sees it: a leaf lock, or an owned
   collection as one indivisible unit *)
Inductive tref := TL (l : lock) | TU (u : uid).

Definition tref_eqb (a b : tref) : bool :=
  match a, b with
  | TL x, TL y | TU x, TU y => Nat.eqb x y
  | _, _ => false
  end.

Definition tref_of (r : rawref) : tref := match r with RLeaf _ l => TL l | ROwned u _ => TU u end.
Definition taddr (am : addrmap) (x : tref) : nat := match x with TL l => laddr am l | TU u => uaddr am u end.

(* the locks and units reachable through the declared structure, each as often as it is reachable *)
Fixpoint trefs (s : shape) : list tref :=
  match s with
  | SLeaf _ l => [TL l]
  | SSeq ss => flat_map trefs ss
  | SBoxed s' | SRefC s' | SRetry s' | SPoison _ s' => trefs s'
  | SOwned u _ => [TU u]
  end.

Fixpoint tmem (x : tref) (l : list tref) : bool :=
  match l with [] => false | y :: r => tref_eqb x y || tmem x r end.
Fixpoint nodupb (l : list tref) : bool :=
  match l with [] => true | x :: r => negb (tmem x r) && nodupb r end.

