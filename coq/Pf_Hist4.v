(* Pf_Hist4.v — C04 over whole histories: for EVERY fault-free history the monitor of the check holds of the model:
   a returned guard holds every leaf exactly once in the requested mode; try_* never waits, fails holding nothing and
   with the key; a scoped closure is entered exactly once, with every leaf held, iff the acquisition succeeded. *)
From HL Require Import Base Model Shape Algo Api OpsLemmas Lemmas ShapeLemmas ApiLemmas QuietLemmas Pf_Calls Check Monitors
  Pf_C06 Pf_C13 Pf_Acct Pf_Hist Pf_Hist5.

(* ---------------------------------------------------------------- closure_scan on structured traces *)
Fixpoint scan_held (held : list lock) (evs : list ev) : list lock :=
  match evs with
  | [] => held
  | ERaw _ k l (RUnit | RBool true) :: r => scan_held (if is_acq_rop k then l :: held else remove1 l held) r
  | _ :: r => scan_held held r
  end.

Lemma scan_app_nomark held A B want :
  Forall nomark_ev A -> closure_scan held (A ++ B) want = closure_scan (scan_held held A) B want.
Proof.
  intros H. revert held. induction H as [|e r He Hr IH]; intros held; [reflexivity|]. cbn [app].
  destruct e as [t0 k l0 r0| | | |]; cbn [closure_scan scan_held]; try apply IH; try contradiction.
  destruct r0 as [|b| | |]; try apply IH. destruct b; apply IH.
Qed.

Lemma scan_nomark held B want : Forall nomark_ev B -> closure_scan held B want = (0, true).
Proof.
  intros H. revert held. induction H as [|e r He Hr IH]; intros held; [reflexivity|].
  destruct e as [t0 k l0 r0| | | |]; cbn [closure_scan]; try apply IH; try contradiction.
  destruct r0 as [|b| | |]; try apply IH. destruct b; apply IH.
Qed.

(* successful releases as closure_scan sees them *)
Definition relB (l : lock) (evs : list ev) : nat :=
  length (filter (fun e => match e with
                           | ERaw _ k l' (RUnit | RBool true) => negb (is_acq_rop k) && Nat.eqb l l'
                           | _ => false
                           end) evs).

Lemma count_scan_held l A : forall held, count l held + acquires_of l A <= count l (scan_held held A) + relB l A.
Proof.
  induction A as [|e r IH]; intros held; [cbn; lia|].
  assert (Skip : acquires_of l (e :: r) = acquires_of l r -> relB l (e :: r) = relB l r -> scan_held held (e :: r) = scan_held held r ->
                 count l held + acquires_of l (e :: r) <= count l (scan_held held (e :: r)) + relB l (e :: r)).
  { intros -> -> ->. apply IH. }
  destruct e as [t0 k l0 r0| | | |]; try (apply Skip; reflexivity).
  assert (Ok : forall rr, (rr = RUnit \/ rr = RBool true) -> r0 = rr ->
               count l held + acquires_of l (ERaw t0 k l0 r0 :: r) <= count l (scan_held held (ERaw t0 k l0 r0 :: r)) + relB l (ERaw t0 k l0 r0 :: r)).
  { intros rr Hrr ->. specialize (IH (if is_acq_rop k then l0 :: held else remove1 l0 held)).
    assert (E1 : acquires_of l (ERaw t0 k l0 rr :: r) = (if is_acq_rop k && Nat.eqb l l0 then 1 else 0) + acquires_of l r).
    { unfold acquires_of. cbn [filter]. destruct Hrr as [-> | ->]; destruct (is_acq_rop k && Nat.eqb l l0); reflexivity. }
    assert (E2 : relB l (ERaw t0 k l0 rr :: r) = (if negb (is_acq_rop k) && Nat.eqb l l0 then 1 else 0) + relB l r).
    { unfold relB. cbn [filter]. destruct Hrr as [-> | ->]; destruct (negb (is_acq_rop k) && Nat.eqb l l0); reflexivity. }
    assert (E3 : scan_held held (ERaw t0 k l0 rr :: r) = scan_held (if is_acq_rop k then l0 :: held else remove1 l0 held) r).
    { destruct Hrr as [-> | ->]; reflexivity. }
    rewrite E1, E2, E3. destruct (is_acq_rop k); cbn [andb negb] in *.
    - cbn [count] in IH. destruct (Nat.eqb l l0); lia.
    - rewrite count_remove1 in IH. destruct (Nat.eqb l l0); destruct (memb l0 held); cbn [andb] in IH; lia. }
  destruct r0 as [|b| | |]; try (apply Skip; reflexivity).
  - apply (Ok RUnit); auto.
  - destruct b; [apply (Ok (RBool true)); auto|apply Skip; reflexivity].
Qed.

Lemma relB_releases l evs : Forall rel_res_ok evs -> relB l evs = releases_of l evs.
Proof.
  unfold relB, releases_of. induction 1 as [|e r He Hr IH]; [reflexivity|]. cbn [filter].
  destruct e as [t0 k l0 r0| | | |]; try exact IH. simpl in He.
  destruct k; cbn [is_acq_rop is_rel_rop negb andb] in *; try (destruct r0 as [|b| | |]; try exact IH; destruct b; exact IH).
  - destruct (He eq_refl) as [-> | [-> | ->]]; [destruct (Nat.eqb l l0); cbn [length]; now rewrite IH|exact IH|exact IH].
  - destruct (He eq_refl) as [-> | [-> | ->]]; [destruct (Nat.eqb l l0); cbn [length]; now rewrite IH|exact IH|exact IH].
Qed.

Lemma relB_rev l evs : relB l (rev evs) = relB l evs.
Proof. unfold relB. apply filter_rev_length. Qed.

Lemma uev_nomark e : uev e -> nomark_ev e.
Proof. destruct e; simpl; tauto. Qed.
Lemma tail_nomark e : tail_ev e -> nomark_ev e.
Proof. destruct e; simpl; tauto. Qed.

(* a scoped call that ran its closure: exactly one closure entry, with every leaf held *)
Lemma scoped_shape_scan sc t c m body w w' :
  scoped_shape sc t c m body w w' -> w_trace w = [] -> (forall l, hc t (w_raw w l) = 0) ->
  can_all m (kleaves (shape_of sc c)) (w_raw w) = true -> NoDup (leaves (shape_of sc c)) ->
  closure_scan [] (rev (w_trace w')) (leaves (shape_of sc c)) = (1, true).
Proof.
  intros [w1 [w2 [evA [evR [TA [NA [BA [RA [_ [HA [Hraw [_ [F [TR [FR _]]]]]]]]]]]]]]] Tw H0 Can ND.
  destruct (fr_tr _ _ F) as [U [TU FU]]. cbn [emit w_trace] in TU.
  rewrite TR, TU, TA, Tw, app_nil_r.
  rewrite !rev_app_distr. cbn [rev]. rewrite <- !app_assoc. cbn [app].
  rewrite scan_app_nomark by (now apply Forall_rev).
  cbn [closure_scan].
  rewrite scan_nomark.
  2:{ apply Forall_app. split; apply Forall_rev; (eapply Forall_impl; [|eassumption]); [apply uev_nomark|apply tail_nomark]. }
  cbn [andb]. f_equal.
  apply forallb_forall. intros l Hl.
  rewrite memb_count. apply negb_true_iff, Nat.eqb_neq.
  pose proof (count_scan_held l (rev evA) []) as X. cbn [count] in X.
  rewrite acquires_of_rev, relB_rev, (relB_releases l evA RA) in X.
  specialize (HA l). rewrite H0 in HA.
  assert (H1 : hc t (w_raw w1 l) = 1).
  { rewrite Hraw. rewrite leaves_kleaves in Hl, ND. destruct (in_locks_of _ _ Hl) as [k Hk].
    rewrite (acq_all_in t m _ _ k l ND Hk). apply hc_acq1; [|apply H0].
    unfold can_all in Can. rewrite forallb_forall in Can. apply (Can (k, l) Hk). }
  rewrite H1 in HA. unfold lock, tid in *. lia.
Qed.

(* ---------------------------------------------------------------- extra well-formedness: what Rust's types guarantee *)
(* every leaf of an acquired collection is one of the scenario's locks, and read access is requested only of
   collections whose leaves are all RwLocks (the Sharable bound) *)
Definition wf4 (sc : scen) : Prop :=
  forall t c m f, In (t, AAcquire c m f) (sc_hist sc) ->
  forall k l, In (k, l) (kleaves (shape_of sc c)) -> l < sc_nlocks sc /\ (m = Sh -> k = KRw).

Definition lkind_is_rw (k : lkind) : bool := match k with KRw => true | KMutex => false end.
Definition mode_is_sh (m : mode) : bool := match m with Sh => true | Ex => false end.

Definition wf4b (sc : scen) : bool :=
  forallb (fun x : tid * apiop =>
             match snd x with
             | AAcquire c m _ =>
                 forallb (fun kl : lk => Nat.ltb (snd kl) (sc_nlocks sc) && implb (mode_is_sh m) (lkind_is_rw (fst kl)))
                         (kleaves (shape_of sc c))
             | _ => true
             end) (sc_hist sc).

Lemma wf4b_ok sc : wf4b sc = true -> wf4 sc.
Proof.
  unfold wf4b, wf4. intros H t c m f Hin k l Hk. rewrite forallb_forall in H. specialize (H _ Hin). cbn [snd] in H.
  rewrite forallb_forall in H. specialize (H _ Hk). cbn [fst snd] in H. apply andb_true_iff in H. destruct H as [A B].
  split; [now apply Nat.ltb_lt|]. intros ->. destruct k; [discriminate B|reflexivity].
Qed.

Lemma held_once_acq1 t k m s : (m = Sh -> k = KRw) -> can1 k m s = true -> count t (readers s) = 0 ->
  held_once m t (acq1 t k m s) = true.
Proof.
  intros Hm C H0. unfold held_once, acq1, can1 in *. destruct m, k; cbn [shared] in *; try reflexivity;
    try (specialize (Hm eq_refl); discriminate Hm);
    try (unfold writer_is; cbn [writer readers is_nil]; now rewrite Nat.eqb_refl).
  unfold count_reader, no_writer. cbn [readers writer]. rewrite count_cons_self, H0. reflexivity.
Qed.

(* ---------------------------------------------------------------- the try flavours are made of non-blocking operations *)
Lemma nb_with_key dp dd body : ops_in nbop body -> ops_in nbop (with_key dp dd body).
Proof.
  intros H. unfold with_key. constructor.
  - constructor; [exact H|]. destruct dp; [apply ops_in_op_; exact I|constructor].
  - intros v. apply ops_in_then; [|constructor]. destruct dd; [apply ops_in_op_; exact I|constructor].
Qed.

Lemma nb_see_all ps : ops_in nbop (see_all ps).
Proof. unfold see_all. apply ops_in_seqs_map. intros p. apply ops_in_op_. exact I. Qed.

Lemma nb_poison_result s : ops_in nbop (poison_result s).
Proof. unfold poison_result. destruct (root_poison s); [constructor; [exact I|intros; constructor]|constructor]. Qed.

Lemma nb_closure m items body : ops_in nbop (closure m items body).
Proof.
  unfold closure. apply ops_in_then; [apply ops_in_op_; exact I|]. apply ops_in_then; [apply nb_see_all|].
  apply ops_in_seqs_map. intros c. destruct c; cbn [cs_prog].
  - destruct (nth_leaf items pos) as [[k l]|]; [apply ops_in_op_; exact I|constructor].
  - destruct m; [constructor|]. destruct (nth_leaf items pos) as [[k l]|]; [apply ops_in_op_; exact I|constructor].
  - constructor.
  - apply ops_in_op_. exact I.
Qed.

Lemma nb_scoped_rest m s a lent body acq : ops_in nbop acq -> ops_in nbop (scoped_rest m s a lent body acq).
Proof.
  intros Ha.
  assert (U : ops_in nbop (raw_unlock m a)) by (eapply ops_in_weaken; [apply nbalg_nbop|apply raw_unlock_nb]).
  unfold scoped_rest. destruct (root_poison s).
  - constructor; [|intros; constructor]. apply nb_with_key. apply ops_in_then; [exact Ha|].
    apply ops_in_then; [|exact U]. constructor; [apply nb_closure|]. apply ops_in_then; [apply ops_in_op_; exact I|exact U].
  - constructor; [|intros v; apply ops_in_then; [exact U|constructor]]. apply nb_with_key.
    apply ops_in_then; [exact Ha|]. constructor; [apply nb_closure|exact U].
Qed.

Lemma try_prog_nb e lc c m f p :
  match f with FTry | FScopedTry _ _ => True | _ => False end ->
  api_prog e lc (AAcquire c m f) = Some p -> ops_in nbop p.
Proof.
  intros Hf Hp. cbn [api_prog] in Hp. destruct (coll e c) as [s|]; [|discriminate]. destruct (haskey lc); [|discriminate].
  assert (T : ops_in nbop (raw_try m (alg_of (e_am e) s))) by (eapply ops_in_weaken; [apply nbalg_nbop|apply raw_try_nb]).
  destruct f as [| |lent body|lent body]; try contradiction; injection Hp as <-.
  - apply nb_with_key. constructor; [exact T|]. intros v. destruct (vtrue v); [|constructor].
    apply ops_in_then; [apply nb_see_all|apply nb_poison_result].
  - constructor; [apply nb_with_key; exact T|]. intros v. destruct (vtrue v); [|constructor].
    apply nb_scoped_rest. constructor.
Qed.

(* ---------------------------------------------------------------- one history step *)
Lemma hc_zero_count t s : hc t s = 0 -> count t (readers s) = 0.
Proof. unfold hc. lia. Qed.

Lemma step_C04 sc h ms t o h' co :
  wf_hist sc -> wf4 sc -> qinv sc h ms -> In (t, o) (sc_hist sc) ->
  hstep (sc_env sc) (sc_nlocks sc) (sc_npids sc) h (t, o) = (h', [co]) ->
  judge_C04 sc ms (snapshot_holds (sc_nlocks sc) (h_w h)) t o co = true.
Proof.
  intros W W4 Q Hin St. pose proof (real_in _ _ _ Hin) as Rt.
  destruct (qstep sc (sc_nlocks sc) (sc_npids sc) h ms t o W Q Hin) as [h2 [co2 [St2 [_ [_ [_ [_ [_ Q']]]]]]]].
  rewrite St in St2. inversion St2; subst h2 co2. clear St2.
  destruct (hstep_cases sc (sc_nlocks sc) (sc_npids sc) h ms t o W Q Hin) as [[Hp E]|[p [out [w' [Hp [Rn [CO E]]]]]]];
    rewrite E in St; inversion St; subst h' co; clear St E.
  - unfold judge_C04. cbn [co_ret co_evs co_holds]. destruct o; try reflexivity.
  - destruct o as [| | |c m f| | | | | | | | |]; try reflexivity.
    set (lc := h_loc h t) in *. set (rc := snd (api_fin (sc_env sc) lc (AAcquire c m f) out)) in *.
    set (w := clear_trace (h_w h)) in *. set (nl := sc_nlocks sc) in *.
    pose proof (acq_haskey _ _ _ _ _ _ Hp) as Hk.
    assert (Hnone : forall l, holds_by t (w_raw w l) = false) by (apply (haskey_holds_nothing sc h ms t Q Rt Hk)).
    assert (H0 : forall l, hc t (w_raw w l) = 0) by (intros l; apply hc_not_holding, Hnone).
    destruct (wh_colls _ W t c m f Hin) as [s [Hn [Ha ND]]].
    assert (Hs : shape_of sc c = s) by (unfold shape_of; now rewrite Hn).
    (* the pieces *)
    assert (AllHeld : got_guard (AAcquire c m f) rc = true ->
              forallb (fun l => held_once m t (nth l (snapshot_holds nl w') raw_free)) (leaves (shape_of sc c)) = true).
    { intros GG. pose proof (cq_can _ _ _ _ _ _ _ CO c m f eq_refl GG) as Can.
      assert (Sc : stop_code rc = false) by (destruct f, rc; try discriminate GG; reflexivity).
      apply forallb_forall. intros l Hl. rewrite leaves_kleaves in Hl. destruct (in_locks_of _ _ Hl) as [k Hk'].
      destruct (W4 t c m f Hin k l Hk') as [Hlt Hm]. rewrite nth_snapshot_holds by exact Hlt.
      rewrite (cq_raw _ _ _ _ _ _ _ CO Sc l). fold rc.
      assert (RA : raw_after sc t lc (AAcquire c m f) rc (w_raw w) = acq_all t m (kleaves (shape_of sc c)) (w_raw w))
        by (destruct f, rc; try discriminate GG; reflexivity).
      rewrite RA. rewrite Hs in *. rewrite leaves_kleaves in ND. rewrite (acq_all_in t m _ _ k l ND Hk').
      apply held_once_acq1; [exact Hm| |apply hc_zero_count, H0].
      unfold can_all in Can. rewrite forallb_forall in Can. apply (Can (k, l) Hk'). }
    assert (Unch : rc = RWouldBlock -> holds_sim (snapshot_holds nl w') (snapshot_holds nl (h_w h)) = true).
    { intros Erc. assert (Sc : stop_code rc = false) by (rewrite Erc; reflexivity).
      rewrite (snapshot_holds_ext nl w' (h_w h)); [apply holds_sim_refl|]. intros x.
      rewrite (cq_raw _ _ _ _ _ _ _ CO Sc x). fold rc. rewrite Erc. destruct f; reflexivity. }
    assert (NB : match f with FTry | FScopedTry _ _ => True | _ => False end -> nonblocking_evs (rev (w_trace w')) = true).
    { intros Hf. destruct (run_nonblocking nopw t p (try_prog_nb _ _ _ _ _ _ Hf Hp) w out w' Rn) as [_ [evs [T F]]].
      unfold w in T. cbn [clear_trace w_trace] in T. rewrite app_nil_r in T. rewrite T. apply nb_evs_bool. now apply Forall_rev. }
    assert (Clos : forall lent body, (f = FScoped lent body \/ f = FScopedTry lent body) ->
              closure_scan [] (rev (w_trace w')) (leaves (shape_of sc c)) =
              match rc with ROk | RPanicked => (1, true) | _ => (0, true) end).
    { intros lent body Hf.
      assert (IS : is_scoped (AAcquire c m f) = Some (c, m, body)) by (destruct Hf as [-> | ->]; reflexivity).
      pose proof (cq_scoped _ _ _ _ _ _ _ CO c m body IS) as X. fold rc in X.
      assert (Can : (rc = ROk \/ rc = RPanicked) -> can_all m (kleaves (shape_of sc c)) (w_raw w) = true).
      { intros Hrc. destruct (can_all m (kleaves (shape_of sc c)) (w_raw w)) eqn:Cn; [reflexivity|]. exfalso.
        (* a refused acquisition never runs the closure: the scoped_shape would have every leaf taken from a table
           in which one is unavailable; use the call lemmas instead: outcome is blocked / would-block *)
        rewrite Hs in Cn. cbn [api_prog] in Hp. unfold coll in Hp. cbn [sc_env e_colls] in Hp. rewrite Hn, Hk in Hp.
        destruct Hf as [-> | ->]; injection Hp as <-.
        - pose proof (raw_lock_all_or_wait t m (e_am (sc_env sc)) s Ha ND (e_fuel (sc_env sc)) w
                        (quiet_clear _ (qi_quiet _ _ _ Q)) (wh_fuel _ W)) as L. rewrite Cn in L. destruct L as [w1 R1].
          rewrite (run_scoped_rest_blocked _ _ _ _ _ _ _ _ _ R1) in Rn. inversion Rn; subst out w'.
          unfold rc in Hrc. cbn in Hrc. destruct Hrc; discriminate.
        - destruct (run_raw_try t m (e_am (sc_env sc)) s w (quiet_clear _ (qi_quiet _ _ _ Q)) Ha ND) as [w1 [R1 _]].
          rewrite Cn in R1. pose proof (run_with_key_done nopw t (negb lent) false _ _ _ _ R1) as Rk. cbn iota in Rk.
          rewrite (run_bind_done _ _ _ _ _ _ _ Rk) in Rn. cbn in Rn. inversion Rn; subst out w'.
          unfold rc in Hrc. cbn in Hrc. destruct Hrc; discriminate. }
      destruct rc eqn:Erc;
        try (destruct X as [evs [T F]]; unfold w in T; cbn [clear_trace w_trace] in T; rewrite app_nil_r in T; rewrite T;
             apply scan_nomark; now apply Forall_rev).
      - apply (scoped_shape_scan sc t c m body w w' X eq_refl H0); [apply Can; now left|now rewrite Hs].
      - apply (scoped_shape_scan sc t c m body w w' X eq_refl H0); [apply Can; now right|now rewrite Hs]. }
    unfold judge_C04. cbn [co_ret co_evs co_holds co_keyfree]. fold lc rc.
    destruct f as [| |lent body|lent body].
    + (* FGuard *)
      destruct (closure_scan [] (rev (w_trace w')) (leaves (shape_of sc c))).
      destruct rc eqn:Erc; try reflexivity; apply AllHeld; reflexivity.
    + (* FTry *)
      destruct (closure_scan [] (rev (w_trace w')) (leaves (shape_of sc c))).
      destruct rc eqn:Erc; try reflexivity; rewrite (NB I); cbn [andb]; try reflexivity; try (apply AllHeld; reflexivity).
      rewrite (Unch eq_refl). cbn [andb]. rewrite negb_involutive.
      (* the key is still alive *)
      specialize (Q' eq_refl). cbn [co_ret] in Q'. destruct (qi_J _ _ _ Q' t) as [Kf HR]. cbn [h_w h_loc] in Kf, HR.
      repeat rewrite upd_same in Kf. repeat rewrite upd_same in HR. rewrite Kf. cbn [track] in HR |- *.
      assert (Lc : fst (api_fin (sc_env sc) lc (AAcquire c m FTry) out) = lc).
      { unfold rc in Erc. destruct out as [v| | | |]; cbn in Erc |- *; try discriminate Erc.
        destruct v as [|b0|n0]; try (destruct (coll (sc_env sc) c); discriminate Erc).
        destruct n0 as [|[|[|n0]]]; try reflexivity; destruct (coll (sc_env sc) c); discriminate Erc. }
      rewrite Lc in HR. unfold Rk in HR. fold lc in Hk. rewrite Hk in HR. destruct (guard lc); [contradiction|].
      destruct HR as [HR _]. unfold keyflag. now rewrite HR.
    + (* FScoped *)
      rewrite (Clos lent body (or_introl eq_refl)). destruct rc; reflexivity.
    + (* FScopedTry *)
      rewrite (Clos lent body (or_intror eq_refl)).
      destruct rc eqn:Erc; try reflexivity; rewrite (NB I); cbn [andb]; try reflexivity.
      cbn. apply (Unch eq_refl).
Qed.

(* ---------------------------------------------------------------- whole histories *)
Lemma mfold_C04 sc :
  wf_hist sc -> wf4 sc ->
  forall hist, (forall x, In x hist -> In x (sc_hist sc)) ->
  forall h ms, qinv sc h ms ->
  mfold (judge_C04 sc) ms (snapshot_holds (sc_nlocks sc) (h_w h)) hist
        (snd (hrun (sc_env sc) (sc_nlocks sc) (sc_npids sc) h hist)) = true.
Proof.
  intros W W4. induction hist as [|[t o] r IH]; intros Hsub h ms Q; [reflexivity|].
  destruct (qstep sc (sc_nlocks sc) (sc_npids sc) h ms t o W Q (Hsub _ (or_introl eq_refl)))
    as [h' [co [St [Ht [_ [_ [Hh [Hs' Q']]]]]]]].
  pose proof (step_C04 sc h ms t o h' co W W4 Q (Hsub _ (or_introl eq_refl)) St) as J4.
  rewrite (hrun_cons _ _ _ h (t, o) r h' [co] St). cbn [app mfold].
  rewrite Ht, Nat.eqb_refl, J4. cbn [andb].
  destruct (stop_code (co_ret co)) eqn:Sc; [reflexivity|].
  rewrite Hh. apply IH; [|now apply Q'].
  intros x Hx. apply Hsub. now right.
Qed.

Theorem C04_all_histories sc : wf_hist sc -> wf4 sc -> mon_C04 sc (model_obs sc) = true.
Proof.
  intros W W4. unfold mon_C04, run_monitor, model_obs, pre_holds.
  apply (mfold_C04 sc W W4 (sc_hist sc) (fun x H => H) _ _ (qinv_init sc W)).
Qed.

Corollary C04_all_histories_dec sc : wf_histb sc && wf4b sc = true -> mon_C04 sc (model_obs sc) = true.
Proof.
  intros H. apply andb_true_iff in H. destruct H as [A B].
  apply C04_all_histories; [now apply wf_histb_ok|now apply wf4b_ok].
Qed.

(* ================================================================ C13 for the scoped try variants *)
Lemma can_all_leaf_avail sc m s :
  (forall k l, In (k, l) (kleaves s) -> l < sc_nlocks sc /\ (m = Sh -> k = KRw)) ->
  forall w, can_all m (kleaves s) (w_raw w) =
            forallb (fun l => leaf_avail m (nth l (snapshot_holds (sc_nlocks sc) w) raw_free)) (leaves s).
Proof.
  intros H w. rewrite leaves_kleaves. unfold can_all, locks_of. rewrite forallb_map'.
  apply forallb_ext_in'. intros [k l] Hin. cbn [fst snd]. destruct (H k l Hin) as [Hl Hm].
  rewrite nth_snapshot_holds by exact Hl. now apply leaf_avail_can1.
Qed.

Theorem C13_scoped_try_exact sc t c m lent body :
  wf_hist sc -> wf4 sc ->
  sc_hist sc = [(t, AKeyGet); (t, AAcquire c m (FScopedTry lent body))] ->
  mon_C13 sc (model_obs sc) = true.
Proof.
  intros W W4 Hh.
  assert (In1 : In (t, AKeyGet) (sc_hist sc)) by (rewrite Hh; now left).
  assert (In2 : In (t, AAcquire c m (FScopedTry lent body)) (sc_hist sc)) by (rewrite Hh; right; now left).
  set (nl := sc_nlocks sc). set (np := sc_npids sc).
  set (h0 := mkh (sc_world sc) (fun _ => tl0) false).
  pose proof (qinv_init sc W) as Q0. fold h0 in Q0.
  (* first call: ThreadKey::get *)
  pose proof (step_keyget (sc_env sc) nl np h0 t eq_refl) as S1.
  destruct (qstep sc nl np h0 (fun _ => mt0) t AKeyGet W Q0 In1) as [h1 [co1 [St1 [_ [_ [_ [_ [_ Q1]]]]]]]].
  rewrite S1 in St1. inversion St1; subst h1 co1. clear St1. specialize (Q1 eq_refl). cbn [co_ret] in Q1.
  set (h1 := mkh (set_keyf (clear_trace (h_w h0)) t true)
                 (upd (h_loc h0) t (mkt (haskey (h_loc h0 t) || negb (w_keyf (h_w h0) t)) (guard (h_loc h0 t)))) false) in *.
  (* second call *)
  destruct (hstep_cases sc nl np h1 _ t _ W Q1 In2) as [[Hp E]|[p [out [w' [Hp [Rn [CO E]]]]]]].
  { exfalso. cbn [api_prog] in Hp. destruct (wh_colls _ W t c m _ In2) as [s [Hn _]].
    unfold coll in Hp. change (e_colls (sc_env sc)) with (sc_colls sc) in Hp. rewrite Hn in Hp.
    unfold h1 in Hp. cbn [h_loc h0] in Hp. rewrite upd_same in Hp. cbn in Hp. discriminate Hp. }
  unfold model_obs. rewrite Hh. fold nl np h0.
  rewrite (hrun_cons _ _ _ h0 (t, AKeyGet) _ _ _ S1). fold h1.
  rewrite (hrun_cons _ _ _ h1 _ [] _ _ E). cbn [hrun snd app].
  unfold mon_C13. rewrite Hh.
  destruct (wh_colls _ W t c m _ In2) as [s [Hn [Ha ND]]]. rewrite Hn.
  assert (Hs : shape_of sc c = s) by (unfold shape_of; now rewrite Hn).
  assert (Hk4 : forall k l, In (k, l) (kleaves s) -> l < sc_nlocks sc /\ (m = Sh -> k = KRw)).
  { intros k l Hin. apply (W4 t c m _ In2). now rewrite Hs. }
  cbn [co_ret co_holds].
  set (lc := h_loc h1 t) in *. set (w := clear_trace (h_w h1)) in *.
  set (rc := snd (api_fin (sc_env sc) lc (AAcquire c m (FScopedTry lent body)) out)) in *.
  assert (Raw0 : forall x, w_raw w x = w_raw (sc_world sc) x) by reflexivity.
  assert (Pre : pre_holds sc = snapshot_holds nl w) by (unfold pre_holds; apply snapshot_holds_ext; intros x; now rewrite Raw0).
  rewrite Pre. cbn zeta. unfold nl. rewrite <- (can_all_leaf_avail sc m s Hk4 w). fold nl.
  (* the outcome is decided by availability *)
  assert (Hrc : if can_all m (kleaves s) (w_raw w) then rc = ROk \/ rc = RPanicked else rc = RWouldBlock).
  { assert (Hk : haskey lc = true) by (eapply acq_haskey; exact Hp).
    cbn [api_prog] in Hp. unfold coll in Hp. change (e_colls (sc_env sc)) with (sc_colls sc) in Hp. rewrite Hn, Hk in Hp. injection Hp as <-.
    destruct (run_raw_try t m (e_am (sc_env sc)) s w (quiet_clear _ (qi_quiet _ _ _ Q1)) Ha ND) as [w1 [R1 E1]].
    cbn [sc_env e_am e_fuel] in R1.
    pose proof (run_with_key_done nopw t (negb lent) false _ _ _ _ R1) as Rk'. cbn iota in Rk'.
    rewrite (run_bind_done _ _ _ _ _ _ _ Rk') in Rn. cbn [vtrue] in Rn.
    destruct (can_all m (kleaves s) (w_raw w)) eqn:Cn.
    - assert (Qw1 : quiet w1) by (eapply eff_quiet; [exact E1|apply quiet_clear, (qi_quiet _ _ _ Q1)]).
      assert (Ep : effp w1 w1 (acq_all t m (kleaves s) (w_raw w)) (w_psn w1)).
      { constructor; auto. - apply (eff_raw _ _ _ E1). - exists []. split; [reflexivity|constructor]. }
      destruct (run_scoped_rest_quiet t m (e_am (sc_env sc)) s lent body Ha ND skip w1 VUnit w1 (w_raw w) Qw1 eq_refl Ep
                  (fun x => eq_refl) Cn) as [w2 [R2 _]].
      cbn [sc_env e_am e_fuel] in R2. rewrite R2 in Rn. inversion Rn; subst out w'.
      unfold rc. destruct (existsb is_cpanic body); [right|left]; reflexivity.
    - cbn [run] in Rn. inversion Rn; subst out w'. reflexivity. }
  assert (Same : holds_sim (snapshot_holds nl w') (snapshot_holds nl w) = true).
  { assert (Sc : stop_code rc = false) by (destruct (can_all m (kleaves s) (w_raw w)); [destruct Hrc as [-> | ->]|rewrite Hrc]; reflexivity).
    rewrite (snapshot_holds_ext nl w' w); [apply holds_sim_refl|]. intros x. rewrite (cq_raw _ _ _ _ _ _ _ CO Sc x). reflexivity. }
  rewrite Same, andb_true_r.
  destruct (can_all m (kleaves s) (w_raw w)); [destruct Hrc as [-> | ->]|rewrite Hrc]; reflexivity.
Qed.
