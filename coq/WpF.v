(* WpF.v — the program logic of Wp.v with injected raw-lock faults, for property C12.
   [wpf p H F D Qr Qt QB]: from any world in which the executing thread holds exactly H, at most one more raw operation
   can panic if F (none otherwise), and the killed locks are exactly D, a complete run of p (big-step [run]) releases
   only locks it holds, never aborts, and ends returning v in a state satisfying Qr v, panicking in a state satisfying
   Qt, or waiting in a state satisfying QB.  A panicking raw operation changes nothing and spends the budget. *)
From HL Require Import Base Model Shape Algo Api Conc Wp.

Definition postf := list hold -> bool -> list lock -> Prop.

Fixpoint wpf (p : prog) (H : list hold) (F : bool) (D : list lock) (Qr : val -> postf) (Qt QB : postf) {struct p} : Prop :=
  match p with
  | Ret v => Qr v H F D
  | Throw => Qt H F D
  | Abort => False
  | Fuel => False
  | Op o k =>
      match o with
      | ORaw r l =>
          (F = true -> Qt H false D) /\
          match r with
          | OLock | OLockSh => QB H F D /\ wpf (k VUnit) ((l, rop_ex r) :: H) F D Qr Qt QB
          | OTry | OTrySh => wpf (k (VBool true)) ((l, rop_ex r) :: H) F D Qr Qt QB /\ wpf (k (VBool false)) H F D Qr Qt QB
          | OUnlock | OUnlockSh => In (l, rop_ex r) H /\ wpf (k VUnit) (rem1 (l, rop_ex r) H) F D Qr Qt QB
          end
      | OKilled l => wpf (k (VBool (memb l D))) H F D Qr Qt QB
      | OKill l => wpf (k VUnit) H F (l :: D) Qr Qt QB
      | OKeyTry | OKeyProbe | OPoisoned _ | OSeePoison _ => forall b, wpf (k (VBool b)) H F D Qr Qt QB
      | OKeyUnlock | OPoison _ | OClearPoison _ | OMark _ | OWrite _ _ => wpf (k VUnit) H F D Qr Qt QB
      | ORead _ _ => forall n, wpf (k (VNat n)) H F D Qr Qt QB
      end
  | Bind m k => wpf m H F D (fun v H' F' D' => wpf (k v) H' F' D' Qr Qt QB) Qt QB
  | Catch b h => wpf b H F D Qr (fun H' F' D' => wpf h H' F' D' (fun _ H'' F'' D'' => Qt H'' F'' D'') Qt QB) QB
  end.

Lemma wpf_mono p : forall H F D (Qr Qr' : val -> postf) (Qt Qt' QB QB' : postf),
  (forall v H F D, Qr v H F D -> Qr' v H F D) -> (forall H F D, Qt H F D -> Qt' H F D) -> (forall H F D, QB H F D -> QB' H F D) ->
  wpf p H F D Qr Qt QB -> wpf p H F D Qr' Qt' QB'.
Proof.
  induction p as [v| | | |o k IH|m IHm k IHk|b IHb h IHh]; intros H F D Qr Qr' Qt Qt' QB QB' Hr Ht Hb W; cbn [wpf] in *.
  - now apply Hr.
  - now apply Ht.
  - exact W.
  - exact W.
  - destruct o as [r l| | | | | | | | | | | |]; try (eapply IH; eassumption);
      try (intros x; eapply IH; [..|apply W]; eassumption).
    destruct W as [W0 W]. split; [intros E; apply Ht; now apply W0|].
    destruct r; destruct W as [W1 W2]; (split; [first [now apply Hb | exact W1 | eapply IH; eassumption]|eapply IH; eassumption]).
  - eapply IHm; [| exact Ht | exact Hb | exact W]. intros v H' F' D' W'. cbn beta in *. eapply IHk; eassumption.
  - eapply IHb; [exact Hr | | exact Hb | exact W]. intros H' F' D' W'. cbn beta in *.
    eapply IHh; [| exact Ht | exact Hb | exact W']. intros v0 H'' F'' D''. apply Ht.
Qed.

(* ---------------------------------------------------------------- the thread's view of a world with faults *)
Definition future_faults (w : world) : nat := length (filter (fun i => Nat.leb (w_opc w) i) (w_f1 w)).

Definition agreeF (t : tid) (w : world) (H : list hold) (F : bool) (D : list lock) : Prop :=
  (forall l, hcount (l, true) H = if writer_is (w_raw w l) t then 1 else 0) /\
  (forall l, hcount (l, false) H = cnt t (readers (w_raw w l))) /\
  w_fp w = [] /\
  future_faults w <= (if F then 1 else 0) /\
  (forall l, w_kill w l = memb l D).

Lemma filter_le_length {A} (f g : A -> bool) l : (forall x, f x = true -> g x = true) -> length (filter f l) <= length (filter g l).
Proof.
  intros I. induction l as [|x r IH]; cbn [filter]; [lia|].
  destruct (f x) eqn:E.
  - rewrite (I x E). cbn [length]. lia.
  - destruct (g x); cbn [length]; lia.
Qed.

Lemma future_tick_le w : future_faults (tick w) <= future_faults w.
Proof.
  unfold future_faults. cbn [tick w_opc w_f1]. apply filter_le_length. intros x E.
  apply Nat.leb_le in E. apply Nat.leb_le. lia.
Qed.

Lemma future_tick_fault w : memb (w_opc w) (w_f1 w) = true -> future_faults (tick w) < future_faults w.
Proof.
  unfold future_faults. cbn [tick w_opc w_f1]. intros M. apply memb_In in M.
  induction (w_f1 w) as [|x r IH]; [destruct M|]. cbn [filter].
  destruct M as [->|M].
  - rewrite Nat.leb_refl. destruct (Nat.leb (S (w_opc w)) (w_opc w)) eqn:E; [apply Nat.leb_le in E; lia|].
    cbn [length]. assert (length (filter (fun i => Nat.leb (S (w_opc w)) i) r) <= length (filter (fun i => Nat.leb (w_opc w) i) r)).
    { apply filter_le_length. intros y Ey. apply Nat.leb_le in Ey. apply Nat.leb_le. lia. }
    lia.
  - specialize (IH M). destruct (Nat.leb (S (w_opc w)) x) eqn:E1.
    + assert (E2 : Nat.leb (w_opc w) x = true) by (apply Nat.leb_le in E1; apply Nat.leb_le; lia). rewrite E2. cbn [length]. lia.
    + destruct (Nat.leb (w_opc w) x); cbn [length]; lia.
Qed.

Lemma agreeF_faulty t w H D k l : agreeF t w H false D -> faulty w k l = false.
Proof.
  intros [_ [_ [Fp [Fu _]]]]. unfold faulty. rewrite Fp. cbn [fp_mem]. rewrite orb_false_r.
  destruct (memb (w_opc w) (w_f1 w)) eqn:M; [|reflexivity].
  pose proof (future_tick_fault w M). lia.
Qed.

(* a state change of the raw lock of l by the thread itself *)
Lemma agreeF_set_raw t w l s' e H H' F D :
  agreeF t w H F D ->
  hcount (l, true) H' = (if writer_is s' t then 1 else 0) ->
  hcount (l, false) H' = cnt t (readers s') ->
  (forall l0 b, l0 <> l -> hcount (l0, b) H' = hcount (l0, b) H) ->
  agreeF t (emit (tick (set_raw w l s')) e) H' F D.
Proof.
  intros [A1 [A2 [A3 [A4 A5]]]] E1 E2 E3. split; [|split; [|split; [exact A3|split; [|exact A5]]]].
  - intros l0. cbn [emit tick set_raw w_raw]. unfold upd. destruct (Nat.eqb_spec l0 l) as [->|N]; [exact E1|].
    rewrite E3 by exact N. apply A1.
  - intros l0. cbn [emit tick set_raw w_raw]. unfold upd. destruct (Nat.eqb_spec l0 l) as [->|N]; [exact E2|].
    rewrite E3 by exact N. apply A2.
  - pose proof (future_tick_le (set_raw w l s')) as X. unfold future_faults in *. cbn [emit tick set_raw w_opc w_f1] in *. lia.
Qed.

Lemma agreeF_same t w w' H F D :
  (forall l, w_raw w' l = w_raw w l) -> w_fp w' = w_fp w -> w_f1 w' = w_f1 w -> w_opc w <= w_opc w' ->
  (forall l, w_kill w' l = w_kill w l) -> agreeF t w H F D -> agreeF t w' H F D.
Proof.
  intros E1 E2 E3 E4 E5 [A1 [A2 [A3 [A4 A5]]]]. split; [|split; [|split; [congruence|split]]].
  - intros l. rewrite E1. apply A1.
  - intros l. rewrite E1. apply A2.
  - assert (future_faults w' <= future_faults w); [|lia]. unfold future_faults. rewrite E3. apply filter_le_length.
    intros x X. apply Nat.leb_le in X. apply Nat.leb_le. lia.
  - intros l. rewrite E5. apply A5.
Qed.

Definition outf (Qr : val -> postf) (Qt QB : postf) (out : outcome) : postf :=
  match out with
  | ODone v => Qr v
  | OPanic => Qt
  | OBlocked => QB
  | OAbort | OFuel => fun _ _ _ => False
  end.

Ltac same_world A := (eapply agreeF_same; [| | | | |exact A]; intros; cbn; try reflexivity; try lia).

Lemma wpf_do_op t o k w H F D Qr Qt QB :
  wpf (Op o k) H F D Qr Qt QB -> agreeF t w H F D ->
  match do_op nopw t o w with
  | RDone v w' => exists H' D', agreeF t w' H' F D' /\ wpf (k v) H' F D' Qr Qt QB
  | RPanic w' => F = true /\ agreeF t w' H false D /\ Qt H false D
  | RBlock w' => agreeF t w' H F D /\ QB H F D
  end.
Proof.
  intros W A. pose proof A as [A1 [A2 [A3 [A4 A5]]]].
  destruct o as [r l| | | | | | | | | | | |]; cbn [wpf do_op] in *.
  - destruct W as [W0 W]. destruct (faulty w r l) eqn:FA.
    + destruct F; [|rewrite (agreeF_faulty t w H D r l A) in FA; discriminate].
      split; [reflexivity|]. split; [|now apply W0].
      assert (M : memb (w_opc w) (w_f1 w) = true).
      { unfold faulty in FA. rewrite A3 in FA. cbn [fp_mem] in FA. now rewrite orb_false_r in FA. }
      pose proof (future_tick_fault w M) as LT.
      split; [exact A1|]. split; [exact A2|]. split; [exact A3|]. split; [|exact A5].
      unfold future_faults in *. cbn [emit tick w_opc w_f1] in *. lia.
    + specialize (A1 l). specialize (A2 l). destruct (w_raw w l) as [wr rd] eqn:S.
      unfold raw_apply, is_free, no_writer, writer_is, nopw in *. cbn [writer readers negb andb] in *.
      destruct r.
      * (* OLock *) destruct W as [WB W]. destruct wr as [x|]; cbn [is_none andb].
        { split; [same_world A|exact WB]. }
        destruct rd as [|y rd]; cbn [is_nil].
        2:{ split; [same_world A|exact WB]. }
        exists ((l, true) :: H), D. split; [|exact W].
        eapply agreeF_set_raw; [exact A| | |].
        -- rewrite hcount_cons_same, A1. unfold writer_is. cbn [writer]. now rewrite Nat.eqb_refl.
        -- rewrite hcount_cons_other by congruence. rewrite A2. reflexivity.
        -- intros l0 b N. apply hcount_cons_other. congruence.
      * (* OTry *) destruct W as [Wt Wf]. destruct wr as [x|]; cbn [is_none andb].
        { exists H, D. split; [|exact Wf]. eapply agreeF_set_raw; [exact A| | |]; unfold writer_is; cbn [writer readers]; auto. }
        destruct rd as [|y rd]; cbn [is_nil].
        2:{ exists H, D. split; [|exact Wf]. eapply agreeF_set_raw; [exact A| | |]; unfold writer_is; cbn [writer readers]; auto. }
        exists ((l, true) :: H), D. split; [|exact Wt].
        eapply agreeF_set_raw; [exact A| | |].
        -- rewrite hcount_cons_same, A1. unfold writer_is. cbn [writer]. now rewrite Nat.eqb_refl.
        -- rewrite hcount_cons_other by congruence. rewrite A2. reflexivity.
        -- intros l0 b N. apply hcount_cons_other. congruence.
      * (* OUnlock *) destruct W as [Hin W]. apply hcount_in in Hin. cbn [rop_ex] in Hin.
        destruct wr as [x|]; [destruct (Nat.eqb_spec x t) as [->|Nx]|]; try lia.
        exists (rem1 (l, true) H), D. split; [|exact W].
        eapply agreeF_set_raw; [exact A| | |].
        -- rewrite hcount_rem1_same, A1. unfold writer_is. cbn [writer]. reflexivity.
        -- rewrite hcount_rem1_other by congruence. rewrite A2. reflexivity.
        -- intros l0 b N. apply hcount_rem1_other. congruence.
      * (* OLockSh *) destruct W as [WB W]. destruct wr as [x|]; cbn [is_none andb].
        { split; [same_world A|exact WB]. }
        exists ((l, false) :: H), D. split; [|exact W].
        eapply agreeF_set_raw; [exact A| | |].
        -- rewrite hcount_cons_other by congruence. rewrite A1. reflexivity.
        -- rewrite hcount_cons_same, A2. cbn [readers cnt]. now rewrite Nat.eqb_refl.
        -- intros l0 b N. apply hcount_cons_other. congruence.
      * (* OTrySh *) destruct W as [Wt Wf]. destruct wr as [x|]; cbn [is_none andb].
        { exists H, D. split; [|exact Wf]. eapply agreeF_set_raw; [exact A| | |]; unfold writer_is; cbn [writer readers]; auto. }
        exists ((l, false) :: H), D. split; [|exact Wt].
        eapply agreeF_set_raw; [exact A| | |].
        -- rewrite hcount_cons_other by congruence. rewrite A1. reflexivity.
        -- rewrite hcount_cons_same, A2. cbn [readers cnt]. now rewrite Nat.eqb_refl.
        -- intros l0 b N. apply hcount_cons_other. congruence.
      * (* OUnlockSh *) destruct W as [Hin W]. apply hcount_in in Hin. cbn [rop_ex] in Hin. rewrite A2 in Hin.
        assert (M : memb t rd = true) by (apply cnt_memb; exact Hin). rewrite M.
        exists (rem1 (l, false) H), D. split; [|exact W].
        eapply agreeF_set_raw; [exact A| | |].
        -- rewrite hcount_rem1_other by congruence. rewrite A1. reflexivity.
        -- rewrite hcount_rem1_same, A2. cbn [readers]. now rewrite cnt_remove1_same.
        -- intros l0 b N. apply hcount_rem1_other. congruence.
  - (* OKilled *) rewrite A5. exists H, D. split; [exact A|exact W].
  - (* OKill *) exists H, (l :: D). split; [|exact W].
    split; [exact A1|]. split; [exact A2|]. split; [exact A3|]. split; [exact A4|].
    intros l0. cbn [set_kill w_kill memb]. unfold upd. destruct (Nat.eqb l0 l); cbn [orb]; [reflexivity|apply A5].
  - exists H, D. split; [same_world A|apply W].
  - exists H, D. split; [same_world A|apply W].
  - exists H, D. split; [same_world A|apply W].
  - exists H, D. split; [same_world A|apply W].
  - exists H, D. split; [same_world A|apply W].
  - exists H, D. split; [same_world A|apply W].
  - exists H, D. split; [same_world A|apply W].
  - exists H, D. split; [same_world A|apply W].
  - exists H, D. split; [same_world A|apply W].
  - exists H, D. split; [same_world A|apply W].
Qed.

(* ---------------------------------------------------------------- soundness for complete runs *)
Lemma wpf_run t p : forall w H F D Qr Qt QB out w',
  wpf p H F D Qr Qt QB -> agreeF t w H F D -> run nopw t p w = (out, w') ->
  exists H' F' D', agreeF t w' H' F' D' /\ outf Qr Qt QB out H' F' D'.
Proof.
  induction p as [v| | | |o k IH|m IHm k IHk|b IHb h IHh]; intros w H F D Qr Qt QB out w' W A R; cbn [run] in R.
  - inversion R; subst. exists H, F, D. split; [exact A|exact W].
  - inversion R; subst. exists H, F, D. split; [exact A|exact W].
  - contradiction.
  - contradiction.
  - pose proof (wpf_do_op t o k w H F D Qr Qt QB W A) as X.
    destruct (do_op nopw t o w) as [v w1|w1|w1].
    + destruct X as [H1 [D1 [A1 W1]]]. apply (IH v w1 H1 F D1 Qr Qt QB out w' W1 A1 R).
    + inversion R; subst. destruct X as [_ [A1 Q1]]. exists H, false, D. split; [exact A1|exact Q1].
    + inversion R; subst. destruct X as [A1 Q1]. exists H, F, D. split; [exact A1|exact Q1].
  - cbn [wpf] in W. destruct (run nopw t m w) as [o1 w1] eqn:R1.
    destruct (IHm w H F D _ _ _ o1 w1 W A R1) as [H1 [F1 [D1 [A1 P1]]]].
    destruct o1 as [v| | | |]; try (inversion R; subst; exists H1, F1, D1; split; [exact A1|exact P1]).
    cbn [outf] in P1. apply (IHk v w1 H1 F1 D1 Qr Qt QB out w' P1 A1 R).
  - cbn [wpf] in W. destruct (run nopw t b w) as [o1 w1] eqn:R1.
    destruct (IHb w H F D _ _ _ o1 w1 W A R1) as [H1 [F1 [D1 [A1 P1]]]].
    destruct o1 as [v| | | |]; try (inversion R; subst; exists H1, F1, D1; split; [exact A1|exact P1]).
    cbn [outf] in P1. destruct (run nopw t h w1) as [o2 w2] eqn:R2.
    destruct (IHh w1 H1 F1 D1 _ _ _ o2 w2 P1 A1 R2) as [H2 [F2 [D2 [A2 P2]]]].
    destruct o2 as [v| | | |]; inversion R; subst; exists H2, F2, D2; (split; [exact A2|exact P2]).
Qed.
