(* Prop_C01.v — C01: deadlock freedom for every mix of locks and collections.
   The rank argument, for ANY number of threads, ANY programs, ANY lock universe and both RwLock grant
   policies: in a Level-B state in which (i) a waiting thread holds only locks of lower rank than the one it
   waits for, (ii) holders are live threads of the system and (iii) started threads are parked on their next
   operation, SOME thread can move whenever some thread is unfinished; in particular nobody waits for a lock
   it holds itself.  The hypotheses are a decidable test (stable_b), proved sound, and the check evaluates it
   (with the scenario's address-based rank function, bounded by rk_bound) in every state each explored
   schedule goes through.  What remains unproved is that every state reachable by the programs of Api.v
   passes the test for all schedules (see DESIGN.md); it is checked on every explored execution. *)
From HL Require Import Base Model Shape Algo Api Conc OpsLemmas Pf_C01.

Theorem C01_no_deadlock :
  forall nl wp rk N s, stable_state nl wp rk N s -> (exists t, live s t) -> exists t', enabled wp s t' = true.
Proof. exact no_deadlock. Qed.

Theorem C01_waiting_implies_enabled :
  forall nl wp rk N s, stable_state nl wp rk N s ->
  forall n t l, live s t -> waits_for wp s t l -> N - rk l <= n -> exists t', enabled wp s t' = true.
Proof. exact waiting_implies_enabled. Qed.

Theorem C01_no_self_wait :
  forall nl wp rk N s t l, stable_state nl wp rk N s -> live s t -> waits_for wp s t l -> ~ holds nl (b_w s) t l.
Proof. exact no_self_wait. Qed.

Theorem C01_stable_test_sound :
  forall nl wp rk N s, (forall l, rk l < N) -> stable_b nl wp rk N s = true -> stable_state nl wp rk N s.
Proof. exact stable_b_sound. Qed.

Theorem C01_model_state_not_deadlocked :
  forall b s, stable_b (sc_nlocks (bs_sc b)) (bs_wp b) (rk_of (bs_sc b)) (bound_of (bs_sc b)) s = true ->
  (exists t, live s t) -> exists t', enabled (bs_wp b) s t' = true.
Proof. exact model_state_not_deadlocked. Qed.

Check C01_no_deadlock :
  forall nl wp rk N s, stable_state nl wp rk N s -> (exists t, live s t) -> exists t', enabled wp s t' = true.

(* non-vacuity: three threads over a boxed, a retrying and an owned collection sharing locks in opposite
   listing orders, writer-preferring policy; every state along this schedule passes the test, and the run
   completes *)
Definition ex01 : bscen :=
  mkbs (mks 4 0 [2; 0; 3; 1] [4]
            [SBoxed (SSeq [SLeaf KRw 0; SLeaf KRw 1; SLeaf KMutex 2]);
             SRetry (SSeq [SLeaf KMutex 2; SLeaf KRw 1; SLeaf KRw 0]);
             SOwned 0 (SSeq [SLeaf KMutex 3]);
             SRefC (SSeq [SOwned 0 (SSeq [SLeaf KMutex 3]); SLeaf KRw 0])] [] [] [] 40 [])
       true
       [[AKeyGet; AAcquire 0 Ex FGuard; AGuardWrite 0; AGuardDrop];
        [AKeyGet; AAcquire 1 Ex (FScoped true [CWrite 1]); AAcquire 3 Sh FGuard; AGuardUnlock];
        [AKeyGet; AAcquire 3 Ex FGuard; AGuardDrop; AKeyGet; AAcquire 0 Sh (FScopedTry false [CRead 2])]].
Definition ex01_sched : list tid := [0; 1; 2; 0; 1; 1; 2; 2; 0; 0; 1; 2; 1; 0; 2; 2; 1; 1; 0; 0; 0; 1; 1; 1; 2; 2; 2; 1; 1; 1; 1; 2; 2; 2; 2].
Example C01_example :
  let used := effective_sched ex01 ex01_sched in
  model_stable ex01 used = true /\ bo_status (model_bobs ex01 used) = BDone /\
  existsb (fun e => match e with BWait _ _ _ => true | _ => false end) (bo_evs (model_bobs ex01 used)) = true.
Proof. vm_compute. auto. Qed.

Print Assumptions C01_no_deadlock.
Print Assumptions C01_no_self_wait.
Print Assumptions C01_stable_test_sound.
Print Assumptions C01_model_state_not_deadlocked.
