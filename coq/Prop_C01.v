(* Prop_C01.v — C01: deadlock freedom for every mix of locks and collections.
   (1) The rank argument, for ANY number of threads, ANY programs, ANY lock universe and both RwLock grant
   policies: in a Level-B state in which (i) a waiting thread holds only locks of lower rank than the one it
   waits for, (ii) holders are live threads of the system and (iii) started threads are parked on their next
   operation, SOME thread can move whenever some thread is unfinished; in particular nobody waits for a lock
   it holds itself (Pf_C01.v).
   (2) Every state the interleaved model reaches, under EVERY schedule, from the initial state of a scenario
   that passes the decidable test [wfB] (no ghost holds, no injected faults, every collection's blocking
   acquisitions ascend in the scenario's address-based rank, every thread's program drops the guards it takes
   and forgets none) is such a state: C01_every_schedule.  The proof is a thread-local program logic (Wp.v)
   whose judgement says "every blocking acquisition is requested above everything the thread holds"; it is
   sound for the one-operation interpreter against arbitrary interference (Wp.wp_step, wp_adv), holds of every
   acquisition / release algorithm of Algo.v including the retrying one (WpAlgo.v) and of every API call
   (WpApi.api_wp), and is carried through turns and schedules in WpMain.v.  Hence the model never reports a
   deadlock or a self-wait: C01_model_never_deadlocks.
   The check evaluates [wfB] on every generated scenario and compares the model with the implementation. *)
From HL Require Import Base Model Shape Algo Api Conc OpsLemmas Pf_C01 Wp WpAlgo WpApi WpMain.

Theorem C01_no_deadlock :
  forall nl wp rk N s, stable_state nl wp rk N s -> (exists t, live s t) -> exists t', enabled wp s t' = true.
Proof. exact no_deadlock. Qed.

Theorem C01_waiting_implies_enabled :
  forall nl wp rk N s, stable_state nl wp rk N s ->
  forall n t l, live s t -> waits_for wp s t l -> N - rk l <= n -> exists t', enabled wp s t' = true.
Proof. exact waiting_implies_enabled. Qed.

Theorem C01_no_self_wait :
  forall nl wp rk N s t l, stable_state nl wp rk N s -> live s t -> waits_for wp s t l -> ~ holds nl (b_w s) t l.
Proof. exact no_self_wait. Qed.

Theorem C01_stable_test_sound :
  forall nl wp rk N s, (forall l, rk l < N) -> stable_b nl wp rk N s = true -> stable_state nl wp rk N s.
Proof. exact stable_b_sound. Qed.

Theorem C01_model_state_not_deadlocked :
  forall b s, stable_b (sc_nlocks (bs_sc b)) (bs_wp b) (rk_of (bs_sc b)) (bound_of (bs_sc b)) s = true ->
  (exists t, live s t) -> exists t', enabled (bs_wp b) s t' = true.
Proof. exact model_state_not_deadlocked. Qed.

Check C01_no_deadlock :
  forall nl wp rk N s, stable_state nl wp rk N s -> (exists t, live s t) -> exists t', enabled wp s t' = true.

(* non-vacuity: three threads over a boxed, a retrying and an owned collection sharing locks in opposite
   listing orders, writer-preferring policy; every state along this schedule passes the test, and the run
   completes *)
Definition ex01 : bscen :=
  mkbs (mks 4 0 [2; 0; 3; 1] [4]
            [SBoxed (SSeq [SLeaf KRw 0; SLeaf KRw 1; SLeaf KMutex 2]);
             SRetry (SSeq [SLeaf KMutex 2; SLeaf KRw 1; SLeaf KRw 0]);
             SOwned 0 (SSeq [SLeaf KMutex 3]);
             SRefC (SSeq [SOwned 0 (SSeq [SLeaf KMutex 3]); SLeaf KRw 0])] [] [] [] 40 [])
       true
       [[AKeyGet; AAcquire 0 Ex FGuard; AGuardWrite 0; AGuardDrop];
        [AKeyGet; AAcquire 1 Ex (FScoped true [CWrite 1]); AAcquire 3 Sh FGuard; AGuardUnlock];
        [AKeyGet; AAcquire 3 Ex FGuard; AGuardDrop; AKeyGet; AAcquire 0 Sh (FScopedTry false [CRead 2])]].
Definition ex01_sched : list tid := [0; 1; 2; 0; 1; 1; 2; 2; 0; 0; 1; 2; 1; 0; 2; 2; 1; 1; 0; 0; 0; 1; 1; 1; 2; 2; 2; 1; 1; 1; 1; 2; 2; 2; 2].
Example C01_example :
  let used := effective_sched ex01 ex01_sched in
  model_stable ex01 used = true /\ bo_status (model_bobs ex01 used) = BDone /\
  existsb (fun e => match e with BWait _ _ _ => true | _ => false end) (bo_evs (model_bobs ex01 used)) = true.
Proof. vm_compute. auto. Qed.


(* ---------------------------------------------------------------- every schedule *)
Theorem C01_every_schedule :
  forall b sched, wfB b = true ->
  let sc := bs_sc b in
  stable_state (sc_nlocks sc) (bs_wp b) (rk_of sc) (bound_of sc)
               (fst (run_sched (bs_wp b) (sc_env sc) (sc_nlocks sc) (binit b) sched)).
Proof. exact every_schedule_stable_dec. Qed.

Theorem C01_every_schedule_deadlock_free :
  forall b sched, wfB b = true ->
  let sc := bs_sc b in
  let s := fst (run_sched (bs_wp b) (sc_env sc) (sc_nlocks sc) (binit b) sched) in
  (exists t, live s t) -> exists t', enabled (bs_wp b) s t' = true.
Proof. exact every_schedule_deadlock_free. Qed.

Theorem C01_every_schedule_no_self_wait :
  forall b sched t l, wfB b = true ->
  let sc := bs_sc b in
  let s := fst (run_sched (bs_wp b) (sc_env sc) (sc_nlocks sc) (binit b) sched) in
  live s t -> waits_for (bs_wp b) s t l -> ~ holds (sc_nlocks sc) (b_w s) t l.
Proof. exact every_schedule_no_self_wait. Qed.

Theorem C01_model_never_deadlocks :
  forall b sched, wfB b = true ->
  let st := bo_status (model_bobs b sched) in st <> BDeadlock /\ st <> BSelfWait.
Proof. exact model_never_reports_deadlock. Qed.

Check C01_every_schedule :
  forall b sched, wfB b = true ->
  stable_state (sc_nlocks (bs_sc b)) (bs_wp b) (rk_of (bs_sc b)) (bound_of (bs_sc b))
               (fst (run_sched (bs_wp b) (sc_env (bs_sc b)) (sc_nlocks (bs_sc b)) (binit b) sched)).

(* the hypotheses are met by the example scenario above (four collection kinds sharing locks in opposite orders) *)
Example C01_wfB_example : wfB ex01 = true.
Proof. vm_compute. reflexivity. Qed.

(* and the test is not vacuous in the other direction: a lock owned by an owned collection that is also listed
   directly by a sorting collection (what OwnedLockable rules out, C15) is reached in two incomparable orders *)
Example C01_wfB_rejects_shared_owned_member :
  wfB (mkbs (mks 2 0 [0; 2] [1]
                 [SOwned 0 (SSeq [SLeaf KMutex 1; SLeaf KMutex 0]);
                  SBoxed (SSeq [SLeaf KMutex 0; SLeaf KMutex 1])] [] [] [] 8 []) false
            [[AKeyGet; AAcquire 0 Ex FGuard; AGuardDrop]; [AKeyGet; AAcquire 1 Ex FGuard; AGuardDrop]]) = false.
Proof. vm_compute. reflexivity. Qed.
(* nor does it accept a thread that keeps a guard for ever *)
Example C01_wfB_rejects_kept_guard :
  wfB (mkbs (mks 1 0 [0] [] [SLeaf KMutex 0] [] [] [] 8 []) false [[AKeyGet; AAcquire 0 Ex FGuard]]) = false.
Proof. vm_compute. reflexivity. Qed.

Print Assumptions C01_no_deadlock.
Print Assumptions C01_no_self_wait.
Print Assumptions C01_stable_test_sound.
Print Assumptions C01_model_state_not_deadlocked.
Print Assumptions C01_every_schedule.
Print Assumptions C01_every_schedule_deadlock_free.
Print Assumptions C01_every_schedule_no_self_wait.
Print Assumptions C01_model_never_deadlocks.
