(* ShapeLemmas.v — the sort is a permutation; Lockable::get_ptrs enumerates exactly the declared leaves;
   pure specifications are invariant under permutation of duplicate-free leaf lists. *)
From HL Require Import Base Model Shape Algo Lemmas.

(* ---------------------------------------------------------------- insertion sort *)
Section SortFacts.
  Context {A : Type} (key : A -> nat).

  Lemma insert_perm x l : Permutation (insert key x l) (x :: l).
  Proof.
    induction l as [|y r IH]; simpl; [reflexivity|].
    destruct (Nat.leb (key x) (key y)); [reflexivity|].
    rewrite IH. apply perm_swap.
  Qed.

  Lemma isort_perm l : Permutation (isort key l) l.
  Proof.
    induction l as [|x r IH]; simpl; [reflexivity|].
    unfold isort in *. simpl. rewrite insert_perm. now constructor.
  Qed.
End SortFacts.

(* ---------------------------------------------------------------- induction principle for shape *)
Section ShapeInd.
  Variable P : shape -> Prop.
  Hypothesis Hleaf : forall k l, P (SLeaf k l).
  Hypothesis Hseq : forall ss, Forall P ss -> P (SSeq ss).
  Hypothesis Hboxed : forall s, P s -> P (SBoxed s).
  Hypothesis Hrefc : forall s, P s -> P (SRefC s).
  Hypothesis Hretry : forall s, P s -> P (SRetry s).
  Hypothesis Howned : forall u s, P s -> P (SOwned u s).
  Hypothesis Hpoison : forall p s, P s -> P (SPoison p s).
  Fixpoint shape_ind' (s : shape) : P s :=
    match s with
    | SLeaf k l => Hleaf k l
    | SSeq ss => Hseq ss ((fix go (l : list shape) : Forall P l :=
                             match l with
                             | [] => Forall_nil _
                             | x :: xs => Forall_cons _ (shape_ind' x) (go xs)
                             end) ss)
    | SBoxed s' => Hboxed s' (shape_ind' s')
    | SRefC s' => Hrefc s' (shape_ind' s')
    | SRetry s' => Hretry s' (shape_ind' s')
    | SOwned u s' => Howned u s' (shape_ind' s')
    | SPoison p s' => Hpoison p s' (shape_ind' s')
    end.
End ShapeInd.

(* declared leaves with their kinds *)
Fixpoint kleaves (s : shape) : list lk :=
  match s with
  | SLeaf k l => [(k, l)]
  | SSeq ss => flat_map kleaves ss
  | SBoxed s' | SRefC s' | SRetry s' | SOwned _ s' | SPoison _ s' => kleaves s'
  end.

Lemma leaves_kleaves s : leaves s = locks_of (kleaves s).
Proof.
  induction s using shape_ind'; simpl; auto.
  induction H as [|x r Hx Hr IH]; simpl; [reflexivity|].
  rewrite locks_of_app, Hx, IH. reflexivity.
Qed.

Lemma gleaves_app a b : gleaves (a ++ b) = gleaves a ++ gleaves b.
Proof. induction a as [|[k l|p] r IH]; simpl; [reflexivity| |]; now rewrite IH. Qed.

Lemma gleaves_gitems s : gleaves (gitems s) = kleaves s.
Proof.
  induction s using shape_ind'; simpl; auto.
  induction H as [|x r Hx Hr IH]; simpl; [reflexivity|].
  now rewrite gleaves_app, Hx, IH.
Qed.

(* C04 "leaves_get_ptrs": every container / wrapper / collection impl of get_ptrs enumerates every
   leaf exactly as often as it is declared *)
Lemma get_ptrs_leaves am s : Permutation (rsleaves (get_ptrs am s)) (kleaves s).
Proof.
  induction s using shape_ind'; simpl.
  - reflexivity.
  - induction H as [|x r Hx Hr IH]; simpl; [reflexivity|].
    rewrite rsleaves_app. now apply Permutation_app.
  - unfold rsleaves in *. rewrite (isort_perm (raddr am)). exact IHs.
  - unfold rsleaves in *. rewrite (isort_perm (raddr am)). exact IHs.
  - exact IHs.
  - unfold rsleaves in *. simpl. rewrite app_nil_r. exact IHs.
  - exact IHs.
Qed.

(* an acquirable root: a lock, a collection, or a Poisonable around one *)
Fixpoint acquirable (s : shape) : bool :=
  match s with
  | SSeq _ => false
  | SPoison _ s' => acquirable s'
  | _ => true
  end.

Lemma alg_refs_leaves am s :
  acquirable s = true -> Permutation (rsleaves (alg_refs (alg_of am s))) (kleaves s).
Proof.
  induction s using shape_ind'; simpl; intros Ha; try discriminate.
  - reflexivity.
  - unfold rsleaves. rewrite (isort_perm (raddr am)). apply get_ptrs_leaves.
  - unfold rsleaves. rewrite (isort_perm (raddr am)). apply get_ptrs_leaves.
  - apply get_ptrs_leaves.
  - apply get_ptrs_leaves.
  - auto.
Qed.

(* ---------------------------------------------------------------- permutation invariance *)
Lemma can_all_perm m a b f : Permutation a b -> can_all m a f = can_all m b f.
Proof.
  unfold can_all. induction 1; simpl; auto.
  - now rewrite IHPermutation.
  - rewrite !andb_assoc. f_equal. apply andb_comm.
  - congruence.
Qed.

Lemma held_all_perm t m a b f : Permutation a b -> held_all t m a f = held_all t m b f.
Proof.
  unfold held_all. induction 1; simpl; auto.
  - now rewrite IHPermutation.
  - rewrite !andb_assoc. f_equal. apply andb_comm.
  - congruence.
Qed.

Lemma locks_of_perm a b : Permutation a b -> Permutation (locks_of a) (locks_of b).
Proof. apply Permutation_map. Qed.

Lemma acq_all_perm t m a b f :
  Permutation a b -> NoDup (locks_of a) -> forall x, acq_all t m a f x = acq_all t m b f x.
Proof.
  intros Hp ND x.
  assert (NDb : NoDup (locks_of b)) by (eapply Permutation_NoDup; [apply locks_of_perm|]; eauto).
  destruct (in_dec Nat.eq_dec x (locks_of a)) as [Hin|Hn].
  - destruct (in_locks_of _ _ Hin) as [k Hk].
    rewrite (acq_all_in t m a f k x ND Hk).
    rewrite (acq_all_in t m b f k x NDb (Permutation_in _ Hp Hk)). reflexivity.
  - rewrite acq_all_other by exact Hn. rewrite acq_all_other; [reflexivity|].
    intros Hb. apply Hn. eapply Permutation_in; [symmetry; apply locks_of_perm; eauto|exact Hb].
Qed.

Lemma rel_all_perm t m a b f :
  Permutation a b -> NoDup (locks_of a) -> forall x, rel_all t m a f x = rel_all t m b f x.
Proof.
  intros Hp ND x.
  assert (NDb : NoDup (locks_of b)) by (eapply Permutation_NoDup; [apply locks_of_perm|]; eauto).
  destruct (in_dec Nat.eq_dec x (locks_of a)) as [Hin|Hn].
  - destruct (in_locks_of _ _ Hin) as [k Hk].
    rewrite (rel_all_in t m a f k x ND Hk).
    rewrite (rel_all_in t m b f k x NDb (Permutation_in _ Hp Hk)). reflexivity.
  - rewrite rel_all_other by exact Hn. rewrite rel_all_other; [reflexivity|].
    intros Hb. apply Hn. eapply Permutation_in; [symmetry; apply locks_of_perm; eauto|exact Hb].
Qed.
