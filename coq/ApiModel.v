(* ApiModel.v — the static model: what the generated table (ApiTable.v, rustc's own view of /repo's API)
   says about Send / Sync of arbitrarily nested lock / guard / collection types, the reference bounds of the
   standard library, and the decidable well-formedness conditions of the key discipline (C14) and of data
   confinement (C15).  Definitions only; everything is computable so that a broken proof can be turned into
   a concrete counterexample by evaluation. *)
From Coq Require Import List String Bool.
From HL Require Import ApiTable.
Import ListNotations.
Open Scope string_scope.

(* the (unboundedly nested) type language *)
Inductive ty :=
| TPay (send sync : bool)            (* a payload type with the given auto traits *)
| TRef (t : ty)                      (* &T *)
| TMutRef (t : ty)                   (* &mut T *)
| TTuple (ts : list ty)              (* tuples, and by the same rule arrays / Vec / Box<[T]> *)
| TCon (c : string) (arg : ty).      (* a type of the crate applied to its payload / guard / collection argument *)

Definition TKey : ty := TCon "ThreadKey" (TPay true true).

Definition marker_eqb (a b : marker) : bool :=
  match a, b with MSend, MSend | MSync, MSync => true | _, _ => false end.

Fixpoint find_rule (rules : list autorule) (c : string) (m : marker) : option autorule :=
  match rules with
  | [] => None
  | r :: rest => if String.eqb (r_ty r) c && marker_eqb (r_marker r) m then Some r else find_rule rest c m
  end.

(* the raw lock the crate is instantiated with by default (parking_lot): R: Send + Sync, R::GuardMarker = GuardNoSend *)
Record rawflags := mkrf { raw_send : bool; raw_sync : bool; gm_send : bool; gm_sync : bool }.
Definition parking_lot_flags : rawflags := mkrf true true false true.

Definition flag (m : marker) (s y : bool) : bool := match m with MSend => s | MSync => y end.

Section Impl.
  Variable rules : list autorule.
  Variable rf : rawflags.

  (* does rustc consider [t] Send / Sync, given the impls of the table *)
  Fixpoint impl_auto (m : marker) (t : ty) : bool :=
    match t with
    | TPay s y => flag m s y
    | TRef t' => impl_auto MSync t'                          (* &T: Send iff T: Sync; &T: Sync iff T: Sync *)
    | TMutRef t' => impl_auto m t'
    | TTuple ts => forallb (impl_auto m) ts
    | TCon c t' =>
        match find_rule rules c m with
        | None => false
        | Some r =>
            negb (r_negative r) &&
            forallb (fun b => match b with
                              | BParam m' => impl_auto m' t'
                              | BRaw m' => flag m' (raw_send rf) (raw_sync rf)
                              | BGuardMarker m' => flag m' (gm_send rf) (gm_sync rf)
                              | BOther _ => false
                              end) (r_bounds r)
        end
    end.
End Impl.

(* the bounds of the standard library's Mutex / RwLock / guards, and structural rules for everything that only
   owns or borrows its argument *)
(* [rf]: the raw lock type; lock_api lets the *Ref guards be sent iff R::GuardMarker: Send (and the payload is Send);
   the guards that carry the thread's key are never Send *)
Fixpoint ref_auto (rf : rawflags) (m : marker) (t : ty) : bool :=
  match t with
  | TPay s y => flag m s y
  | TRef t' => ref_auto rf MSync t'
  | TMutRef t' => ref_auto rf m t'
  | TTuple ts => forallb (ref_auto rf m) ts
  | TCon c t' =>
      if String.eqb c "ThreadKey" then match m with MSend => false | MSync => true end
      else if String.eqb c "Mutex" then ref_auto rf MSend t'                                   (* Send and Sync both need T: Send *)
      else if String.eqb c "RwLock" then match m with MSend => ref_auto rf MSend t'
                                                    | MSync => ref_auto rf MSend t' && ref_auto rf MSync t' end
      else if (String.eqb c "MutexRef" || String.eqb c "RwLockReadRef" || String.eqb c "RwLockWriteRef")%bool
           then match m with MSend => gm_send rf && ref_auto rf MSend t' | MSync => ref_auto rf MSync t' end
      else if (String.eqb c "MutexGuard" || String.eqb c "RwLockReadGuard" || String.eqb c "RwLockWriteGuard")%bool
           then match m with MSend => false | MSync => ref_auto rf MSync t' end              (* they carry the key *)
      else if (String.eqb c "LockGuard" || String.eqb c "PoisonGuard")%bool
           then match m with MSend => false | MSync => ref_auto rf MSync t' end              (* they carry the key *)
      else if String.eqb c "RefLockCollection" then ref_auto rf MSync t'                      (* holds a &L *)
      else if (String.eqb c "BoxedLockCollection" || String.eqb c "OwnedLockCollection" ||
               String.eqb c "RetryingLockCollection" || String.eqb c "Poisonable" || String.eqb c "PoisonRef" ||
               String.eqb c "PoisonError")%bool
           then ref_auto rf m t'                                                               (* own their argument *)
      else false
  end.

(* the bounds of the standard library's Mutex / RwLock / guards (std guards are never Send), and structural rules for
   everything that only owns or borrows its argument: the reference for the default raw lock (parking_lot) *)
Definition std_auto : marker -> ty -> bool := ref_auto parking_lot_flags.

Definition table_impl := impl_auto auto_rules parking_lot_flags.

(* ---------------------------------------------------------------- C14: the key discipline, as decidable conditions *)
Definition has_impl (c tr : string) : bool :=
  existsb (fun x => String.eqb (fst x) c && String.eqb (snd x) tr) trait_impls.

Definition str_in (s : string) (l : list string) : bool := existsb (String.eqb s) l.

Definition key_carriers : list string := ["ThreadKey"; "MutexGuard"; "RwLockReadGuard"; "RwLockWriteGuard"; "LockGuard"; "PoisonGuard"].
Definition acquire_names : list string :=
  ["lock"; "try_lock"; "read"; "try_read"; "write"; "try_write"; "scoped_lock"; "scoped_try_lock"; "scoped_read";
   "scoped_try_read"; "scoped_write"; "scoped_try_write"].
Definition lock_types : list string :=
  ["Mutex"; "RwLock"; "BoxedLockCollection"; "RefLockCollection"; "OwnedLockCollection"; "RetryingLockCollection"; "Poisonable"].

Definition is_nil_str (l : list string) : bool := match l with [] => true | _ => false end.
Fixpoint str_list_eqb (a b : list string) : bool :=
  match a, b with [], [] => true | x :: a', y :: b' => String.eqb x y && str_list_eqb a' b' | _, _ => false end.
Definition safe_public (f : fnrow) : bool := fn_public f && negb (fn_unsafe f).

(* K1: the only safe public function that yields a key without consuming a key, a Keyable or a guard is ThreadKey::get *)
Definition k1 : bool :=
  forallb (fun f => implb (safe_public f && fn_returns_key f)
                          (fn_key_val f || fn_keyable_val f || fn_guard_val f ||
                           (String.eqb (fn_owner f) "ThreadKey" && String.eqb (fn_name f) "get"))) fns.

(* K2: the key and everything carrying it cannot be cloned, copied, defaulted or sent; no public fields; Keyable is
   sealed with exactly the two impls *)
(* the raw lock type R is chosen by the user: every combination of R: Send / Sync and R::GuardMarker: Send / Sync *)
Definition all_flags : list rawflags :=
  flat_map (fun a => flat_map (fun b => flat_map (fun c => map (fun d => mkrf a b c d) [true; false]) [true; false])
                              [true; false]) [true; false].

Definition k2 : bool :=
  forallb (fun c => negb (has_impl c "Clone") && negb (has_impl c "Copy") && negb (has_impl c "Default") &&
                    forallb (fun rf => negb (impl_auto auto_rules rf MSend (TCon c (TPay true true)))) all_flags) key_carriers &&
  negb key_has_public_field && is_nil_str public_fields &&
  keyable_sealed && str_list_eqb keyable_impls ["&mut ThreadKey"; "ThreadKey"].

(* K3: every acquiring function takes the key (by value) or a Keyable (by value) *)
Definition k3 : bool :=
  forallb (fun f => implb (safe_public f && str_in (fn_name f) acquire_names && str_in (fn_owner f) lock_types)
                          (fn_key_val f || fn_keyable_val f)) fns.

(* K4: a function that returns a guard takes the key itself, by value *)
Definition k4 : bool :=
  forallb (fun f => implb (safe_public f && fn_returns_guard f) (fn_key_val f)) fns.

(* K5: no safe route to `&mut` of a replaceable component that carries holds (a guard structure such as
   Box<[MutexRef]> is Default: std::mem::take moves the holds out while the carrier keeps the key) *)
Definition k5_routes : list (string * string) :=
  [("LockGuard", "DerefMut"); ("LockGuard", "AsMut"); ("PoisonGuard", "AsMut"); ("PoisonRef", "DerefMut"); ("PoisonRef", "AsMut")].
Definition k5 : bool := forallb (fun x => negb (has_impl (fst x) (snd x))) k5_routes.

(* K6: a hold that is not tied to a key (the *Ref guards inside collection / poison guards) cannot be duplicated or
   conjured: a copy would outlive the keyed guard it came from, and the key would come back while the hold lives *)
Definition hold_carriers : list string := ["MutexRef"; "RwLockReadRef"; "RwLockWriteRef"; "PoisonRef"; "LockGuard"; "PoisonGuard"].
Definition k6 : bool :=
  forallb (fun c => negb (has_impl c "Clone") && negb (has_impl c "Copy") && negb (has_impl c "Default")) hold_carriers.

(* K7: a lock hands `&mut` to its payload to whichever thread locks it, so a lock that is shared between threads moves its
   payload between them: no lock type is Sync for a payload that is Sync but not Send — which is what a ThreadKey (and every
   guard that carries one) is.  Otherwise `RwLock<Option<ThreadKey>>` shared by reference lets another thread take the key. *)
Definition k7 : bool :=
  forallb (fun c => forallb (fun rf => negb (impl_auto auto_rules rf MSync (TCon c (TPay false true)))) all_flags)
          ["Mutex"; "RwLock"].

(* K8: a key carrier cannot be taken apart: no by-value IntoIterator on a key or hold carrier (it would hand the keyless
   holds to the caller and drop the key beside them — the key obtainable again while the holds live), and every safe public
   function that consumes a guard returns the key *)
Definition k8 : bool :=
  forallb (fun c => negb (has_impl c "IntoIterator")) (key_carriers ++ hold_carriers) &&
  forallb (fun f => implb (safe_public f && fn_guard_val f) (fn_returns_key f)) fns.

(* K9: whatever owns a ThreadKey — every public struct / enum of the crate with a key among its fields or its variants'
   fields, computed by the translator from the field types (`key_holders`), not a list kept by hand — is not Send, for any
   raw lock, and cannot be cloned, copied or defaulted; the hand-kept list of carriers is part of it *)
Definition all_rules : list autorule := auto_rules ++ holder_rules.
Definition holder_sendable (c : string) : bool :=
  existsb (fun rf => impl_auto all_rules rf MSend (TCon c (TPay true true))) all_flags.
Definition k9 : bool :=
  forallb (fun c => negb (holder_sendable c) &&
                    negb (has_impl c "Clone") && negb (has_impl c "Copy") && negb (has_impl c "Default")) key_holders &&
  forallb (fun c => str_in c key_holders) key_carriers.

(* K10: the entry points that acquire, or hand out what acquires, without taking a key — the raw lock itself (lock_api's
   `lock` / `try_lock` on it are safe functions), the raw operations of the crate's RawLock trait, the guard factories and
   the key-less try helpers — are unsafe or not public: otherwise a thread takes a lock and keeps a usable key *)
Definition keyless_entries : list string :=
  ["raw"; "raw_write"; "raw_try_write"; "raw_read"; "raw_try_read"; "guard"; "read_guard"; "data_mut"; "data_ref";
   "try_lock_no_key"; "try_read_no_key"; "try_write_no_key"].
Definition k10 : bool :=
  forallb (fun f => implb (str_in (fn_name f) keyless_entries) (fn_unsafe f || negb (fn_public f))) fns.

(* K11: no type of the crate implements AsMut<ThreadKey>, BorrowMut<ThreadKey> or Into<ThreadKey> (the generator lists exactly
   those; AsRef / Borrow only give `&ThreadKey`, which is not Keyable, and From<ThreadKey> consumes a key): such an
   impl on a key holder lends out `&mut ThreadKey` — a Keyable — while the holder keeps whatever else it owns, a live guard
   in the case of the error of a poisoned try *)
Definition k11 : bool := match key_trait_impls with [] => true | _ => false end.

Definition wf_key_known : bool := k1 && k2 && k3 && k4 && k6 && k7 && k8 && k9 && k10 && k11.  (* everything but the known finding F4 *)
Definition wf_key : bool := wf_key_known && k5.

(* ---------------------------------------------------------------- C15: data confinement, as decidable conditions *)
Definition entry_names : list string :=
  ["raw"; "new_unchecked"; "guard"; "data_mut"; "data_ref"; "read_guard"; "raw_write"; "raw_try_write"; "raw_unlock_write";
   "raw_read"; "raw_try_read"; "raw_unlock_read"; "try_lock_no_key"; "try_read_no_key"; "try_write_no_key"].

(* E1: raw accessors, unchecked constructors and guard factories are unsafe or not public *)
Definition e1 : bool :=
  forallb (fun f => implb (str_in (fn_name f) entry_names) (fn_unsafe f || negb (fn_public f))) fns.

(* E2: an owned collection gives no shared access to its members *)
Definition e2 : bool :=
  negb (has_impl "OwnedLockCollection" "AsRef") && negb (has_impl "OwnedLockCollection" "Deref") &&
  negb (has_impl "OwnedLockCollection" "IntoIterator&") &&
  forallb (fun f => implb (String.eqb (fn_owner f) "OwnedLockCollection" && safe_public f)
                          (negb (fn_returns_shared_child f))) fns.

(* E3: OwnedLockable (what `new` / `new_ref` and the owned collection demand instead of the duplicate check) is
   implemented only by the locks themselves and by containers / wrappers / collections all of whose type parameters
   are OwnedLockable again — never by a shared reference, never by a RefLockCollection *)
Definition ol_leaf (c : string) : bool := String.eqb c "Mutex" || String.eqb c "RwLock".
Definition ol_allowed : list string :=
  ["&mut"; "tuple"; "array"; "Vec"; "Box"; "Mutex"; "RwLock"; "OwnedLockCollection"; "BoxedLockCollection";
   "RetryingLockCollection"; "Poisonable"].
Definition e3 : bool :=
  negb ownedlockable_for_shared_ref &&
  forallb (fun x : string * bool => str_in (fst x) ol_allowed && (ol_leaf (fst x) || snd x)) ownedlockable_impls.

(* which types (of the unboundedly nested language) rustc considers OwnedLockable, given those impls; TTuple stands
   for tuples, arrays, Vec and Box<[T]> *)
Definition has_ol (h : string) : bool := existsb (fun x : string * bool => String.eqb (fst x) h) ownedlockable_impls.
Definition ol_needs_elem (h : string) : bool :=
  forallb (fun x : string * bool => implb (String.eqb (fst x) h) (snd x)) ownedlockable_impls.
Definition seq_heads : list string := ["tuple"; "array"; "Vec"; "Box"].

Fixpoint ol (t : ty) : bool :=
  match t with
  | TPay _ _ => false
  | TRef _ => has_ol "&"
  | TMutRef t' => has_ol "&mut" && (if ol_needs_elem "&mut" then ol t' else true)
  | TTuple ts => existsb has_ol seq_heads && (if forallb ol_needs_elem seq_heads then forallb ol ts else true)
  | TCon c t' => has_ol c && (ol_leaf c || (if ol_needs_elem c then ol t' else true))
  end.

(* the type owns every lock reachable through it: no shared reference, no RefLockCollection on the way to a lock *)
Fixpoint owns (t : ty) : bool :=
  match t with
  | TPay _ _ => true
  | TRef _ => false
  | TMutRef t' => owns t'
  | TTuple ts => forallb owns ts
  | TCon c t' => ol_leaf c || (negb (String.eqb c "RefLockCollection") && owns t')
  end.

(* E4: the argument of a scoped closure cannot outlive the call (its lifetime is not the caller-chosen lifetime
   of `&self`) *)
Definition e4 : bool := forallb (fun f => negb (fn_closure_escapes f)) fns.

(* E5: a collection that caches its lock list (and the result of the duplicate check) at construction — boxed, ref — never
   gives exclusive access to its members: no AsMut / DerefMut / BorrowMut / IndexMut / Extend / LockableGetMut impl, no
   iteration by `&mut`, no safe public method taking `&mut self` (the destructor aside).  Through such access safe code
   could replace a member behind the cached list: the guard would then hand out data of a lock that was never acquired,
   or the same lock twice. *)
Definition cache_types : list string := ["BoxedLockCollection"; "RefLockCollection"].
Definition mut_traits : list string :=
  ["AsMut"; "DerefMut"; "BorrowMut"; "IndexMut"; "Extend"; "LockableGetMut"; "IntoIterator&mut"].
Definition e5 : bool :=
  forallb (fun c => forallb (fun t => negb (has_impl c t)) mut_traits &&
                    forallb (fun f => negb (String.eqb (fn_owner f) c && safe_public f && fn_mut_self f &&
                                            negb (String.eqb (fn_trait f) "Drop"))) fns) cache_types.

(* E6: no lock, collection, guard or hold carrier has a public field: a public field of a guard is assignable through
   `&mut` (which collection and poison guards hand out), so the guard could be pointed at a lock that was never acquired *)
Definition e6 : bool := is_nil_str public_fields && negb key_has_public_field.

(* E7: through `&self` — which any number of threads can have at once — a safe public function of a lock, collection or
   wrapper hands out a reference to the payload, a guard or the guard / data structure of a Lockable only in exchange for
   the key (by value) or a Keyable: whatever its name is *)
Definition e7 : bool :=
  forallb (fun f => implb (str_in (fn_owner f) lock_types && safe_public f && fn_shared_self_returns_data f)
                          (fn_key_val f || fn_keyable_val f)) fns.

(* E8: a guard or a hold carrier never hands out a reference to the lock (or collection, or wrapper) it came from: the
   guard of an owned collection is made of the members' guards, so such an accessor would name a member lock of an owned
   collection — for as long as the collection is borrowed, not only while the guard lives — and the member could be put
   into another collection and locked in a different order *)
Definition e8 : bool :=
  forallb (fun f => implb (str_in (fn_owner f) (key_carriers ++ hold_carriers) && safe_public f) (negb (fn_returns_lock_ref f))) fns.

Definition wf_data_known : bool := e1 && e2 && e3 && e5 && e6 && e7 && e8. (* everything but the known finding F5 *)
Definition wf_data : bool := wf_data_known && e4.

(* ---------------------------------------------------------------- offending items of the current API
   When a rule fails, the items of the regenerated table that break it: a concrete function or trait impl of the current
   tree (a program that uses it compiles) — the failing input the check reports. *)
Definition fn_id (f : fnrow) : string * string * string := (fn_owner f, fn_name f, fn_trait f).
Definition c14_offending_fns : list (string * string * string) :=
  map fn_id (filter (fun f =>
    (safe_public f && fn_returns_key f &&
     negb (fn_key_val f || fn_keyable_val f || fn_guard_val f ||
           (String.eqb (fn_owner f) "ThreadKey" && String.eqb (fn_name f) "get"))) ||
    (safe_public f && str_in (fn_name f) acquire_names && str_in (fn_owner f) lock_types && negb (fn_key_val f || fn_keyable_val f)) ||
    (safe_public f && fn_returns_guard f && negb (fn_key_val f)) ||
    (safe_public f && fn_guard_val f && negb (fn_returns_key f)) ||
    (str_in (fn_name f) keyless_entries && negb (fn_unsafe f || negb (fn_public f)))) fns).
Definition c14_offending_impls : list (string * string) :=
  filter (fun x => (str_in (fst x) key_carriers || str_in (fst x) hold_carriers || str_in (fst x) key_holders) &&
                   str_in (snd x) ["Clone"; "Copy"; "Default"; "IntoIterator"]) trait_impls ++
  map (fun c => (c, "Send")) (filter holder_sendable key_holders) ++
  map (fun x => (fst x, (snd x ++ "<ThreadKey>")%string)) key_trait_impls.
Definition c15_offending_fns : list (string * string * string) :=
  map fn_id (filter (fun f =>
    (str_in (fn_name f) entry_names && negb (fn_unsafe f || negb (fn_public f))) ||
    (String.eqb (fn_owner f) "OwnedLockCollection" && safe_public f && fn_returns_shared_child f) ||
    (str_in (fn_owner f) cache_types && safe_public f && fn_mut_self f && negb (String.eqb (fn_trait f) "Drop")) ||
    (str_in (fn_owner f) lock_types && safe_public f && fn_shared_self_returns_data f && negb (fn_key_val f || fn_keyable_val f)) ||
    (str_in (fn_owner f) (key_carriers ++ hold_carriers) && safe_public f && fn_returns_lock_ref f)) fns).
Definition c15_offending_impls : list (string * string) :=
  filter (fun x => (String.eqb (fst x) "OwnedLockCollection" && str_in (snd x) ["AsRef"; "Deref"; "IntoIterator&"]) ||
                   (str_in (fst x) cache_types && str_in (snd x) mut_traits)) trait_impls.

(* ---------------------------------------------------------------- a grid of concrete types, for counterexample search *)
Definition payloads : list ty := [TPay true true; TPay true false; TPay false true; TPay false false].
Definition unary : list string :=
  ["Mutex"; "RwLock"; "MutexGuard"; "MutexRef"; "RwLockReadGuard"; "RwLockReadRef"; "RwLockWriteGuard"; "RwLockWriteRef";
   "BoxedLockCollection"; "RefLockCollection"; "OwnedLockCollection"; "RetryingLockCollection"; "LockGuard"; "Poisonable";
   "PoisonGuard"; "PoisonRef"; "PoisonError"].
Definition grid1 : list ty := flat_map (fun c => map (TCon c) payloads) unary.
Definition grid2 : list ty := flat_map (fun c => map (TCon c) (grid1 ++ map TRef grid1 ++ map (fun t => TTuple [t; TPay true true]) grid1)) unary.
Definition grid : list ty := payloads ++ grid1 ++ grid2.

Definition weaker_than_std (m : marker) (t : ty) : bool := table_impl m t && negb (std_auto m t).
Definition counterexamples (m : marker) : list ty := filter (weaker_than_std m) grid.

(* a flag of the row of a function (false if there is no such function) *)
Definition row_flag (owner name : string) (proj : fnrow -> bool) : bool :=
  match find (fun f => String.eqb (fn_owner f) owner && String.eqb (fn_name f) name && String.eqb (fn_trait f) "") fns with
  | Some f => proj f
  | None => false
  end.
