(* Pf_Hist11.v — C11 over whole histories: for EVERY fault-free history the monitor of the check holds of the model:
   a panic of user code (with a live guard, or inside a scoped closure) reaches the caller, every lock held by that call
   is released exactly once, nothing stays held, and the key is obtainable again (or still the caller's if only lent). *)
From HL Require Import Base Model Shape Algo Api OpsLemmas Lemmas ShapeLemmas ApiLemmas QuietLemmas NoRel Pf_Calls Check Monitors
  Pf_C06 Pf_C13 Pf_Acct Pf_Hist Pf_Hist5 Pf_Hist4.

Lemma judge_C03_keyback ms prev t o co :
  judge_C03 ms prev t o co = true -> key_back o (co_ret co) = true -> is_nil (mt_leak (ms t)) = true ->
  thread_holds t (co_holds co) = false.
Proof.
  unfold judge_C03. intros H KB NL. apply andb_true_iff in H. destruct H as [H _]. apply andb_true_iff in H. destruct H as [_ H].
  rewrite KB, NL in H. cbn [negb andb] in H. now apply negb_true_iff in H.
Qed.

Lemma closure_scan_fst evs want1 want2 : forall held,
  fst (closure_scan held evs want1) = fst (closure_scan held evs want2).
Proof.
  induction evs as [|e r IH]; intros held; [reflexivity|].
  destruct e as [t0 k l0 r0| | | |t0 n]; cbn [closure_scan]; try apply IH.
  - destruct r0 as [|b| | |]; try apply IH. destruct b; apply IH.
  - destruct n as [|[|n]]; try apply IH.
    specialize (IH held). destruct (closure_scan held r want1) as [a1 b1], (closure_scan held r want2) as [a2 b2].
    cbn [fst] in *. now rewrite IH.
Qed.

Lemma drop_unw_relonly m items : ops_in relonly (Bind (with_key true true (drop_items m true items)) (fun _ => Throw)).
Proof. constructor; [apply with_key_relonly, drop_items_relonly|intros; constructor]. Qed.

Lemma step_C11 sc h ms t o h' co :
  wf_hist sc -> qinv sc h ms -> In (t, o) (sc_hist sc) ->
  hstep (sc_env sc) (sc_nlocks sc) (sc_npids sc) h (t, o) = (h', [co]) ->
  judge_C11 sc ms (snapshot_holds (sc_nlocks sc) (h_w h)) t o co = true.
Proof.
  intros W Q Hin St. pose proof (real_in _ _ _ Hin) as Rt.
  destruct (qstep sc (sc_nlocks sc) (sc_npids sc) h ms t o W Q Hin) as [h2 [co2 [St2 [_ [J3 [_ [_ [_ Q']]]]]]]].
  rewrite St in St2. inversion St2; subst h2 co2. clear St2.
  pose proof (step_C05p sc _ _ h ms t o h' co W Q Hin St) as J5.
  destruct (hstep_cases sc (sc_nlocks sc) (sc_npids sc) h ms t o W Q Hin) as [[Hp E]|[p [out [w' [Hp [Rn [CO E]]]]]]];
    rewrite E in St; inversion St; subst h' co; clear St E.
  - (* not possible in this user state *)
    destruct o as [| | |c m f| | | | | |  | | |]; try reflexivity.
    + unfold judge_C11. cbn [co_ret]. destruct (has_panic f); reflexivity.
    + cbn [api_prog] in Hp. destruct (guard (h_loc h t)); discriminate Hp.
  - set (lc := h_loc h t) in *. set (w := clear_trace (h_w h)) in *.
    destruct (qi_J _ _ _ Q t) as [Kf0 HRk]. fold lc in HRk.
    destruct o as [| | |c m f| | | | | |  | | |]; try reflexivity.
    + (* a scoped call whose closure panics *)
      unfold judge_C11. cbn [co_ret co_evs co_holds co_keyfree].
      destruct (has_panic f) eqn:HP; [|reflexivity].
      set (rc := snd (api_fin (sc_env sc) lc (AAcquire c m f) out)) in *.
      destruct f as [| |lent body|lent body]; try discriminate HP; cbn [has_panic] in HP.
      * (* FScoped *)
        assert (Hrc : rc = RPanicked \/ rc = RBlockedC).
        { pose proof (acq_haskey _ _ _ _ _ _ Hp) as Hk. destruct (wh_colls _ W t c m _ Hin) as [s [Hn [Ha ND]]].
          cbn [api_prog] in Hp. unfold coll in Hp. change (e_colls (sc_env sc)) with (sc_colls sc) in Hp. fold lc in Hk. rewrite Hn, Hk in Hp. injection Hp as <-.
          destruct (can_all m (kleaves s) (w_raw w)) eqn:Cn.
          - destruct (scoped_call_quiet t m (e_am (sc_env sc)) s Ha ND (e_fuel (sc_env sc)) lent body w
                        (quiet_clear _ (qi_quiet _ _ _ Q)) (wh_fuel _ W) Cn) as [w2 [R2 _]].
            change (existsb is_cpanic body) with (existsb (fun c0 => match c0 with CPanic => true | _ => false end) body) in R2.
            rewrite HP in R2. cbn [sc_env e_am e_fuel] in R2. rewrite R2 in Rn. inversion Rn; subst out w'. left. reflexivity.
          - pose proof (raw_lock_all_or_wait t m (e_am (sc_env sc)) s Ha ND (e_fuel (sc_env sc)) w
                          (quiet_clear _ (qi_quiet _ _ _ Q)) (wh_fuel _ W)) as L. rewrite Cn in L. destruct L as [w1 R1].
            cbn [sc_env e_am e_fuel] in R1. rewrite (run_scoped_rest_blocked _ _ _ _ _ _ _ _ _ R1) in Rn. inversion Rn; subst out w'. right. reflexivity. }
        destruct Hrc as [Erc|Erc]; rewrite Erc; [|reflexivity].
        destruct (closure_scan [] (rev (w_trace w')) []) as [nclos x].
        assert (Sc : stop_code rc = false) by (rewrite Erc; reflexivity).
        specialize (Q' Sc). cbn [co_ret] in Q'.
        (* clauses *)
        replace (if Nat.eqb nclos 1 then rcode_eqb RPanicked RPanicked else true) with true by (destruct (Nat.eqb nclos 1); reflexivity).
        destruct (cq_clean _ _ _ _ _ _ _ CO Sc) as [evs [T F]]. cbn [clear_trace w_trace] in T. rewrite app_nil_r in T.
        rewrite T at 1. rewrite (no_bad_rev evs F). cbn [negb andb].
        assert (NL : is_nil (mt_leak (ms t)) = true).
        { destruct (mt_leak (ms t)) eqn:L; [reflexivity|]. exfalso.
          assert (KL : mt_key (ms t) = KLeaked) by (apply (qi_leak _ _ _ Q); rewrite L; discriminate).
          destruct (Rk_leaked _ _ HRk KL) as [Hk' _]. rewrite (acq_haskey _ _ _ _ _ _ Hp) in Hk'. discriminate. }
        assert (TH : thread_holds t (snapshot_holds (sc_nlocks sc) w') = false).
        { apply (judge_C03_keyback _ _ _ _ _ J3); [cbn [co_ret]; fold lc rc; rewrite Erc; reflexivity|exact NL]. }
        rewrite TH. cbn [negb andb].
        unfold judge_C05p in J5. cbn [co_ret co_evs] in J5. fold lc rc in J5. rewrite Erc in J5. cbn [stop_code] in J5.
        apply andb_true_iff in J5. destruct J5 as [_ J5]. rewrite J5. cbn [andb].
        destruct (qi_J _ _ _ Q' t) as [Kf _]. cbn [h_w] in Kf. rewrite upd_same in Kf. rewrite Kf. fold lc rc. rewrite Erc.
        cbn [is_lent]. unfold keyflag. destruct lent; cbn [track mt_key key_free negb].
        -- (* lent: the key stays with the caller *)
           destruct (Rk_key_noguard _ _ HRk (acq_haskey _ _ _ _ _ _ Hp)) as [_ _].
           unfold Rk in HRk. rewrite (acq_haskey _ _ _ _ _ _ Hp) in HRk. destruct (guard lc); [contradiction|].
           destruct HRk as [HK _]. rewrite HK. reflexivity.
        -- reflexivity.
      * (* FScopedTry *)
        assert (Hrc : rc = RPanicked \/ rc = RWouldBlock).
        { pose proof (acq_haskey _ _ _ _ _ _ Hp) as Hk. destruct (wh_colls _ W t c m _ Hin) as [s [Hn [Ha ND]]].
          cbn [api_prog] in Hp. unfold coll in Hp. change (e_colls (sc_env sc)) with (sc_colls sc) in Hp. fold lc in Hk. rewrite Hn, Hk in Hp. injection Hp as <-.
          destruct (run_raw_try t m (e_am (sc_env sc)) s w (quiet_clear _ (qi_quiet _ _ _ Q)) Ha ND) as [w1 [R1 E1]].
          cbn [sc_env e_am e_fuel] in R1. pose proof (run_with_key_done nopw t (negb lent) false _ _ _ _ R1) as Rk'. cbn iota in Rk'.
          rewrite (run_bind_done _ _ _ _ _ _ _ Rk') in Rn. cbn [vtrue] in Rn.
          destruct (can_all m (kleaves s) (w_raw w)) eqn:Cn.
          - assert (Q1 : quiet w1) by (eapply eff_quiet; [exact E1|apply quiet_clear, (qi_quiet _ _ _ Q)]).
            assert (Ep : effp w1 w1 (acq_all t m (kleaves s) (w_raw w)) (w_psn w1)).
            { constructor; auto. - apply (eff_raw _ _ _ E1). - exists []. split; [reflexivity|constructor]. }
            destruct (run_scoped_rest_quiet t m (e_am (sc_env sc)) s lent body Ha ND skip w1 VUnit w1 (w_raw w) Q1 eq_refl Ep
                        (fun x => eq_refl) Cn) as [w2 [R2 _]].
            change (existsb is_cpanic body) with (existsb (fun c0 => match c0 with CPanic => true | _ => false end) body) in R2.
            rewrite HP in R2. cbn [sc_env e_am e_fuel] in R2. rewrite R2 in Rn. inversion Rn; subst out w'. left. reflexivity.
          - cbn [run] in Rn. inversion Rn; subst out w'. right. reflexivity. }
        destruct Hrc as [Erc|Erc]; rewrite Erc; [|reflexivity].
        destruct (closure_scan [] (rev (w_trace w')) []) as [nclos x].
        assert (Sc : stop_code rc = false) by (rewrite Erc; reflexivity).
        specialize (Q' Sc). cbn [co_ret] in Q'.
        replace (if Nat.eqb nclos 1 then rcode_eqb RPanicked RPanicked else true) with true by (destruct (Nat.eqb nclos 1); reflexivity).
        destruct (cq_clean _ _ _ _ _ _ _ CO Sc) as [evs [T F]]. cbn [clear_trace w_trace] in T. rewrite app_nil_r in T.
        rewrite T at 1. rewrite (no_bad_rev evs F). cbn [negb andb].
        assert (NL : is_nil (mt_leak (ms t)) = true).
        { destruct (mt_leak (ms t)) eqn:L; [reflexivity|]. exfalso.
          assert (KL : mt_key (ms t) = KLeaked) by (apply (qi_leak _ _ _ Q); rewrite L; discriminate).
          destruct (Rk_leaked _ _ HRk KL) as [Hk' _]. rewrite (acq_haskey _ _ _ _ _ _ Hp) in Hk'. discriminate. }
        assert (TH : thread_holds t (snapshot_holds (sc_nlocks sc) w') = false).
        { apply (judge_C03_keyback _ _ _ _ _ J3); [cbn [co_ret]; fold lc rc; rewrite Erc; reflexivity|exact NL]. }
        rewrite TH. cbn [negb andb].
        unfold judge_C05p in J5. cbn [co_ret co_evs] in J5. fold lc rc in J5. rewrite Erc in J5. cbn [stop_code] in J5.
        apply andb_true_iff in J5. destruct J5 as [_ J5]. rewrite J5. cbn [andb].
        destruct (qi_J _ _ _ Q' t) as [Kf _]. cbn [h_w] in Kf. rewrite upd_same in Kf. rewrite Kf. fold lc rc. rewrite Erc.
        cbn [is_lent]. unfold keyflag. destruct lent; cbn [track mt_key key_free negb].
        -- unfold Rk in HRk. rewrite (acq_haskey _ _ _ _ _ _ Hp) in HRk. destruct (guard lc); [contradiction|].
           destruct HRk as [HK _]. rewrite HK. reflexivity.
        -- reflexivity.
    + (* APanic *)
      unfold judge_C11. cbn [co_ret co_evs co_holds co_keyfree].
      set (rc := snd (api_fin (sc_env sc) lc APanic out)) in *.
      assert (Eout : out = OPanic /\
                (forall gm items, guard lc = Some (mkg gm items) ->
                   p = Bind (with_key true true (drop_items gm true items)) (fun _ => Throw) /\
                   forall x, w_raw w' x = rel_all t gm (gleaves items) (w_raw (h_w h)) x)).
      { cbn [api_prog] in Hp. fold lc in Hp. destruct (guard lc) as [[gm items]|] eqn:G.
        - injection Hp as <-. cbn [g_mode g_items] in Rn.
          destruct (qi_guard _ _ _ Q t gm items G) as [_ [ND [Hh _]]].
          destruct (guard_panic_quiet t gm items w (quiet_clear _ (qi_quiet _ _ _ Q)) ND Hh) as [w1 [R1 E1]].
          rewrite R1 in Rn. inversion Rn; subst out w'. split; [reflexivity|].
          intros gm' items' X. inversion X; subst gm' items'. split; [reflexivity|]. intros x. cbn [set_keyf w_raw]. apply (ep_raw _ _ _ _ E1).
        - injection Hp as <-. split; [|intros gm items X; discriminate X].
          unfold with_key, skip in Rn. cbn [run] in Rn. destruct (haskey lc); cbn [run op_ do_op] in Rn; inversion Rn; reflexivity. }
      destruct Eout as [Eout Hg]. assert (Erc : rc = RPanicked) by (unfold rc; rewrite Eout; reflexivity).
      rewrite Erc. cbn [rcode_eqb andb].
      assert (Sc : stop_code rc = false) by (rewrite Erc; reflexivity).
      specialize (Q' Sc). cbn [co_ret] in Q'.
      destruct (cq_clean _ _ _ _ _ _ _ CO Sc) as [evs [T F]]. cbn [clear_trace w_trace] in T. rewrite app_nil_r in T.
      rewrite T at 1. rewrite (no_bad_rev evs F). cbn [negb andb].
      apply andb_true_iff. split; [apply andb_true_iff; split|].
      * destruct (is_nil (mt_leak (ms t))) eqn:NL; cbn [negb]; [|reflexivity].
        assert (TH : thread_holds t (snapshot_holds (sc_nlocks sc) w') = false).
        { apply (judge_C03_keyback _ _ _ _ _ J3); [cbn [co_ret]; fold lc rc; rewrite Erc; reflexivity|exact NL]. }
        now rewrite TH.
      * destruct (guard lc) as [[gm items]|] eqn:G.
        -- destruct (Hg gm items eq_refl) as [Ep Hraw]. subst p.
           destruct (guard_release_counts sc h ms t _ gm items w' out W Q Rt G (drop_unw_relonly gm items) Rn Hraw
                       (cq_clean _ _ _ _ _ _ _ CO Sc)) as [A _]. exact A.
        -- rewrite (Rk_noguard _ _ HRk G). reflexivity.
      * destruct (qi_J _ _ _ Q' t) as [Kf _]. cbn [h_w] in Kf. rewrite upd_same in Kf. rewrite Kf. fold lc rc. rewrite Erc.
        cbn [track]. unfold keyflag. cbn [mt_key]. destruct (mt_key (ms t)); reflexivity.
Qed.

(* ---------------------------------------------------------------- whole histories *)
Lemma mfold_C11 sc :
  wf_hist sc ->
  forall hist, (forall x, In x hist -> In x (sc_hist sc)) ->
  forall h ms, qinv sc h ms ->
  mfold (judge_C11 sc) ms (snapshot_holds (sc_nlocks sc) (h_w h)) hist
        (snd (hrun (sc_env sc) (sc_nlocks sc) (sc_npids sc) h hist)) = true.
Proof.
  intros W. induction hist as [|[t o] r IH]; intros Hsub h ms Q; [reflexivity|].
  destruct (qstep sc (sc_nlocks sc) (sc_npids sc) h ms t o W Q (Hsub _ (or_introl eq_refl)))
    as [h' [co [St [Ht [_ [_ [Hh [Hs' Q']]]]]]]].
  pose proof (step_C11 sc h ms t o h' co W Q (Hsub _ (or_introl eq_refl)) St) as J11.
  rewrite (hrun_cons _ _ _ h (t, o) r h' [co] St). cbn [app mfold].
  rewrite Ht, Nat.eqb_refl, J11. cbn [andb].
  destruct (stop_code (co_ret co)) eqn:Sc; [reflexivity|].
  rewrite Hh. apply IH; [|now apply Q'].
  intros x Hx. apply Hsub. now right.
Qed.

Theorem C11_all_histories sc : wf_hist sc -> mon_C11 sc (model_obs sc) = true.
Proof.
  intros W. unfold mon_C11, run_monitor, model_obs, pre_holds.
  apply (mfold_C11 sc W (sc_hist sc) (fun x H => H) _ _ (qinv_init sc W)).
Qed.

Corollary C11_all_histories_dec sc : wf_histb sc = true -> mon_C11 sc (model_obs sc) = true.
Proof. intros H. apply C11_all_histories. now apply wf_histb_ok. Qed.
