(* NoRel.v — an acquisition that succeeds at the first attempt issues no release: the traces of lock / try_lock of every
   lock, wrapper and collection kind, on their success paths, contain no release operation at all. *)
From HL Require Import Base Model Shape Algo Api OpsLemmas Lemmas ShapeLemmas ApiLemmas QuietLemmas.

Definition rop_rel (k : rop) : bool := match k with OUnlock | OUnlockSh => true | _ => false end.
Definition norel_ev (e : ev) : Prop := match e with ERaw _ k _ _ => rop_rel k = false | _ => True end.
Definition norel (w w' : world) : Prop := exists evs, w_trace w' = evs ++ w_trace w /\ Forall norel_ev evs.

Lemma norel_refl w : norel w w.
Proof. exists []. split; [reflexivity|constructor]. Qed.

Lemma norel_trans a b c : norel a b -> norel b c -> norel a c.
Proof.
  intros [e1 [T1 F1]] [e2 [T2 F2]]. exists (e2 ++ e1). split; [rewrite T2, T1; now rewrite app_assoc|apply Forall_app; now split].
Qed.

Lemma try_op_norel k m : rop_rel (try_op k m) = false.
Proof. destruct k, m; reflexivity. Qed.
Lemma acq_op_norel k m : rop_rel (acq_op k m) = false.
Proof. destruct k, m; reflexivity. Qed.

Lemma vtrue_true v : vtrue v = true -> v = VBool true.
Proof. destruct v as [|b|n]; try discriminate. destruct b; [reflexivity|discriminate]. Qed.

(* a successful try of one lock, in ANY world *)
Lemma leaf_try_true_norel pw t m k l w w' :
  run pw t (leaf_try m k l) w = (ODone (VBool true), w') -> norel w w'.
Proof.
  unfold leaf_try. cbn [run do_op]. destruct (vtrue (VBool (w_kill w l))); [intros H; inversion H|].
  cbn [run do_op]. destruct (faulty w (try_op k m) l).
  - cbn [run op_ do_op]. intros H. inversion H.
  - destruct (raw_apply t (try_op k m) (w_raw w l) (pw l)) as [s'|b s'| |] eqn:Ra; cbn [run]; intros H; inversion H; subst;
      (eexists [_]; split; [reflexivity|]; constructor; [apply try_op_norel|constructor]).
Qed.

Lemma run_then_ret_val pw t a v w v' w' : run pw t (a ;; Ret v) w = (ODone v', w') -> v' = v.
Proof.
  unfold pthen. cbn [run]. destruct (run pw t a w) as [[x| | | |] w1]; intros H; inversion H. reflexivity.
Qed.

(* the try loops of the sorting and retrying collections: overall success means every member's try succeeded *)
Section TryLoops.
  Variables (pw : lock -> bool) (t : tid) (m : mode) (tr : rawref -> prog).

  Definition tr_ok (x : rawref) : Prop := forall w0 w1, run pw t (tr x) w0 = (ODone (VBool true), w1) -> norel w0 w1.

  Lemma ordered_try_true_norel todo : Forall tr_ok todo -> forall done w w',
    run pw t (ordered_try_from m tr done todo) w = (ODone (VBool true), w') -> norel w w'.
  Proof.
    induction 1 as [|x r Hx Hr IH]; intros done w w' R.
    - cbn in R. inversion R. apply norel_refl.
    - cbn [ordered_try_from run] in R. destruct (run pw t (tr x) w) as [[v| | | |] w1] eqn:R1.
      + destruct (vtrue v) eqn:Hv.
        * apply vtrue_true in Hv. subst v. eapply norel_trans; [apply (Hx _ _ R1)|apply (IH _ _ _ R)].
        * apply run_then_ret_val in R. discriminate R.
      + destruct (run pw t (recover m done) w1) as [[v| | | |] w2]; inversion R.
      + inversion R.
      + inversion R.
      + inversion R.
  Qed.

  Lemma retry_try_true_norel todo : Forall tr_ok todo -> forall done w w',
    run pw t (retry_try_from m tr done todo) w = (ODone (VBool true), w') -> norel w w'.
  Proof.
    induction 1 as [|x r Hx Hr IH]; intros done w w' R.
    - cbn in R. inversion R. apply norel_refl.
    - cbn [retry_try_from run] in R. destruct (run pw t (tr x) w) as [[v| | | |] w1] eqn:R1.
      + destruct (vtrue v) eqn:Hv.
        * apply vtrue_true in Hv. subst v. eapply norel_trans; [apply (Hx _ _ R1)|apply (IH _ _ _ R)].
        * apply run_then_ret_val in R. discriminate R.
      + destruct (run pw t (recover m done) w1) as [[v| | | |] w2]; inversion R.
      + inversion R.
      + inversion R.
      + inversion R.
  Qed.
End TryLoops.

Lemma rr_try_true_norel pw t m r : tr_ok pw t (rr_try m) r.
Proof.
  induction r as [k l|u inner IH] using rawref_ind'; intros w0 w1 R.
  - apply (leaf_try_true_norel pw t m k l _ _ R).
  - change (rr_try m (ROwned u inner)) with (ordered_try_from m (rr_try m) [] inner) in R.
    apply (ordered_try_true_norel pw t m (rr_try m) inner IH [] _ _ R).
Qed.

Lemma raw_try_true_norel pw t m a w w' :
  run pw t (raw_try m a) w = (ODone (VBool true), w') -> norel w w'.
Proof.
  destruct a as [k l|rs|rs|]; cbn [raw_try]; intros R.
  - apply (leaf_try_true_norel _ _ _ _ _ _ _ R).
  - unfold ordered_try in R. apply (ordered_try_true_norel pw t m (rr_try m) rs) with (done := []); [|exact R].
    apply Forall_forall. intros x _. apply rr_try_true_norel.
  - unfold retry_try in R. destruct rs as [|x r]; [inversion R; apply norel_refl|].
    apply (retry_try_true_norel pw t m (rr_try m) (x :: r)) with (done := []); [|exact R].
    apply Forall_forall. intros y _. apply rr_try_true_norel.
  - inversion R. apply norel_refl.
Qed.

(* ---------------------------------------------------------------- blocking acquisitions that return *)
Lemma leaf_lock_done_norel pw t m k l w v w' :
  run pw t (leaf_lock m k l) w = (ODone v, w') -> norel w w'.
Proof.
  unfold leaf_lock. cbn [run do_op]. destruct (vtrue (VBool (w_kill w l))); [intros H; inversion H|].
  cbn [run op_ do_op]. destruct (faulty w (acq_op k m) l).
  - cbn [run op_ do_op]. intros H. inversion H.
  - destruct (raw_apply t (acq_op k m) (w_raw w l) (pw l)) as [s'|b s'| |] eqn:Ra; cbn [run]; intros H; inversion H; subst;
      (eexists [_]; split; [reflexivity|]; constructor; [apply acq_op_norel|constructor]).
Qed.

Section LockLoop.
  Variables (pw : lock -> bool) (t : tid) (m : mode) (lk : rawref -> prog).
  Definition lk_ok (x : rawref) : Prop := forall w0 v w1, run pw t (lk x) w0 = (ODone v, w1) -> norel w0 w1.

  Lemma ordered_lock_done_norel todo : Forall lk_ok todo -> forall done w v w',
    run pw t (ordered_lock_from m lk done todo) w = (ODone v, w') -> norel w w'.
  Proof.
    induction 1 as [|x r Hx Hr IH]; intros done w v w' R.
    - cbn in R. inversion R. apply norel_refl.
    - cbn [ordered_lock_from] in R. unfold pthen in R. cbn [run] in R.
      destruct (run pw t (lk x) w) as [[v1| | | |] w1] eqn:R1.
      + eapply norel_trans; [apply (Hx _ _ _ R1)|apply (IH _ _ _ _ R)].
      + destruct (run pw t (recover m done) w1) as [[v2| | | |] w2]; inversion R.
      + inversion R.
      + inversion R.
      + inversion R.
  Qed.
End LockLoop.

Lemma rr_lock_done_norel pw t m r : lk_ok pw t (rr_lock m) r.
Proof.
  induction r as [k l|u inner IH] using rawref_ind'; intros w0 v w1 R.
  - apply (leaf_lock_done_norel pw t m k l _ _ _ R).
  - change (rr_lock m (ROwned u inner)) with (ordered_lock_from m (rr_lock m) [] inner) in R.
    apply (ordered_lock_done_norel pw t m (rr_lock m) inner IH [] _ _ _ R).
Qed.

(* ---------------------------------------------------------------- the retrying acquisition when everything is available *)
Section RetryOk.
  Variables (t : tid) (m : mode) (locks : list rawref).
  Hypothesis NDl : NoDup (locks_of (rsleaves locks)).

  Lemma retry_inner_ok_norel again f0 :
    forall todo done w locked w' out,
      locks = done ++ todo -> done <> [] -> quiet w ->
      (forall y, w_raw w y = acq_all t m (rsleaves done) f0 y) -> can_all m (rsleaves done) f0 = true ->
      can_all m (rsleaves todo) f0 = true ->
      run nopw t (retry_inner m locks again 0 (length done) locked todo) w = (out, w') -> norel w w'.
  Proof.
    induction todo as [|x r IH]; intros done w locked w' out Hl Hd Q Hw Cd Ct R.
    - cbn in R. inversion R. apply norel_refl.
    - cbn [retry_inner] in R.
      assert (Hi : Nat.eqb (length done) 0 = false) by (destruct done; [contradiction|reflexivity]).
      rewrite Hi in R.
      assert (ND : NoDup (locks_of (rsleaves (done ++ x :: r)))) by (rewrite <- Hl; exact NDl).
      rewrite rsleaves_app, rsleaves_cons, locks_of_app, locks_of_app in ND.
      assert (NDx : NoDup (locks_of (rleaves x))) by (eapply NoDup_app_l, NoDup_app_r; eauto).
      assert (Hfx : forall y, In y (locks_of (rleaves x)) -> w_raw w y = f0 y).
      { intros y Hy. rewrite Hw. apply acq_all_other. intros Hin.
        eapply NoDup_app_disj; [exact ND|exact Hin|]. apply in_or_app. now left. }
      rewrite rsleaves_cons, can_all_app in Ct. apply andb_true_iff in Ct. destruct Ct as [Cx Cr].
      destruct (run_rr_try t m x w Q NDx) as [w1 [R1 E1]].
      rewrite (can_all_ext m (rleaves x) (w_raw w) f0 Hfx), Cx in R1, E1.
      assert (Q1 : quiet w1) by (eapply eff_quiet; eauto).
      rewrite run_bind, (run_catch_done _ _ _ _ _ _ _ R1) in R. cbn [vtrue] in R.
      assert (Hl' : locks = (done ++ [x]) ++ r) by (rewrite <- app_assoc; exact Hl).
      assert (Hw1 : forall y, w_raw w1 y = acq_all t m (rsleaves (done ++ [x])) f0 y).
      { intros y. rewrite (eff_raw _ _ _ E1). rewrite rsleaves_app, rsleaves_one, acq_all_app.
        apply acq_all_ext. exact Hw. }
      assert (Cd' : can_all m (rsleaves (done ++ [x])) f0 = true).
      { rewrite rsleaves_app, rsleaves_one, can_all_app, Cd, Cx. reflexivity. }
      assert (Hd' : done ++ [x] <> []) by (destruct done; discriminate).
      eapply norel_trans; [apply (rr_try_true_norel nopw t m x _ _ R1)|].
      apply (IH (done ++ [x]) w1 (S locked) w' out Hl' Hd' Q1 Hw1 Cd' Cr).
      rewrite app_length. cbn [length]. rewrite Nat.add_1_r. exact R.
  Qed.

  Lemma retry_lock_ok_norel fuel w out w' :
    2 <= fuel -> quiet w -> can_all m (rsleaves locks) (w_raw w) = true ->
    run nopw t (retry_lock m locks fuel) w = (out, w') -> norel w w'.
  Proof.
    intros Hf Q Can R. unfold retry_lock in R. destruct locks as [|x rest] eqn:El.
    - cbn in R. inversion R. apply norel_refl.
    - rewrite <- El in *. destruct fuel as [|[|f]]; try lia. cbn [retry_outer] in R.
      assert (N0 : nthr 0 locks = x) by (rewrite El; reflexivity). rewrite N0 in R.
      assert (ND : NoDup (locks_of (rsleaves (x :: rest)))) by (rewrite <- El; exact NDl).
      rewrite rsleaves_cons, locks_of_app in ND.
      assert (EC : can_all m (rsleaves locks) (w_raw w) = can_all m (rleaves x) (w_raw w) && can_all m (rsleaves rest) (w_raw w))
        by (rewrite El, rsleaves_cons, can_all_app; reflexivity).
      rewrite EC in Can. apply andb_true_iff in Can. destruct Can as [Cx Cr].
      pose proof (run_rr_lock t m x w Q (NoDup_app_l _ _ ND)) as H. rewrite Cx in H.
      destruct H as [w1 [R1 [E1 _]]].
      assert (Q1 : quiet w1) by (eapply eff_quiet; eauto).
      rewrite (run_then_done _ _ _ _ _ VUnit w1) in R by (apply (run_catch_done _ _ _ _ _ _ _ R1)).
      assert (Hin : forall ag, retry_inner m locks ag 0 0 0 locks = retry_inner m locks ag 0 1 0 rest).
      { intros ag. transitivity (retry_inner m locks ag 0 0 0 (x :: rest)); [f_equal; exact El|reflexivity]. }
      rewrite Hin in R.
      eapply norel_trans; [apply (rr_lock_done_norel nopw t m x _ _ _ R1)|].
      apply (retry_inner_ok_norel (retry_outer m locks (S f)) (w_raw w) rest [x] w1 0 w' out El ltac:(discriminate) Q1).
      + intros y. rewrite rsleaves_one. apply (eff_raw _ _ _ E1).
      + rewrite rsleaves_one. exact Cx.
      + exact Cr.
      + exact R.
  Qed.
End RetryOk.

(* ---------------------------------------------------------------- lock / try_lock of any lock, wrapper or collection *)
Lemma raw_lock_ok_norel t m am s fuel w out w' :
  acquirable s = true -> NoDup (leaves s) -> quiet w -> 2 <= fuel ->
  can_all m (kleaves s) (w_raw w) = true ->
  run nopw t (raw_lock fuel m (alg_of am s)) w = (out, w') -> norel w w'.
Proof.
  intros Ha ND Q Hf Can R. pose proof (alg_refs_leaves am s Ha) as Hp.
  assert (NDk : NoDup (locks_of (kleaves s))) by (rewrite <- leaves_kleaves; exact ND).
  assert (ND' : NoDup (locks_of (rsleaves (alg_refs (alg_of am s))))).
  { eapply Permutation_NoDup; [apply locks_of_perm; symmetry; exact Hp|exact NDk]. }
  assert (Can' : can_all m (rsleaves (alg_refs (alg_of am s))) (w_raw w) = true) by (rewrite (can_all_perm m _ _ _ Hp); exact Can).
  destruct (alg_of am s) as [k l|rs|rs|]; cbn [raw_lock alg_refs] in *.
  - destruct out; try (apply (leaf_lock_done_norel nopw t m k l _ _ _ R));
      pose proof (run_rr_lock t m (RLeaf k l) w Q) as X; rewrite rsleaves_one in *; specialize (X ND'); rewrite Can' in X;
      destruct X as [w1 [R1 _]]; change (rr_lock m (RLeaf k l)) with (leaf_lock m k l) in R1; rewrite R1 in R; discriminate R.
  - pose proof (run_ordered_lock t m rs w Q ND') as X. rewrite Can' in X. destruct X as [w1 [R1 _]].
    rewrite R1 in R. inversion R; subst out w'. unfold ordered_lock in R1.
    apply (ordered_lock_done_norel nopw t m (rr_lock m) rs) with (done := []) (v := VUnit); [|exact R1].
    apply Forall_forall. intros x _. apply rr_lock_done_norel.
  - apply (retry_lock_ok_norel t m rs ND' fuel w out w' Hf Q Can' R).
  - inversion R. apply norel_refl.
Qed.

(* ================================================================ no release by a non-holder, whatever the outcome *)
Definition nobad_ev (e : ev) : Prop := match e with ERaw _ _ _ RBad => False | _ => True end.
Definition nobad (w w' : world) : Prop := exists evs, w_trace w' = evs ++ w_trace w /\ Forall nobad_ev evs.

Lemma nobad_refl w : nobad w w.
Proof. exists []. split; [reflexivity|constructor]. Qed.
Lemma nobad_trans a b c : nobad a b -> nobad b c -> nobad a c.
Proof.
  intros [e1 [T1 F1]] [e2 [T2 F2]]. exists (e2 ++ e1). split; [rewrite T2, T1; now rewrite app_assoc|apply Forall_app; now split].
Qed.

Lemma eff_nobad w w' f : eff w w' f -> nobad w w'.
Proof.
  intros E. destruct (eff_tr _ _ _ E) as [evs [T F]]. exists evs. split; [exact T|].
  eapply Forall_impl; [|exact F]. intros e He. destruct e as [t0 k l r| | | |]; try exact I. destruct r; simpl in *; tauto.
Qed.

(* only a release can be refused as "not the holder" *)
Definition bad_is_rel (e : ev) : Prop := match e with ERaw _ k _ RBad => rop_rel k = true | _ => True end.

Lemma run_bad_is_rel pw t p w out w' :
  run pw t p w = (out, w') -> exists evs, w_trace w' = evs ++ w_trace w /\ Forall bad_is_rel evs.
Proof.
  intros R.
  destruct (run_ops_inv pw t (fun _ => True) (fun _ => True) bad_is_rel) with (p := p) (w := w) (out := out) (w' := w') as [_ H]; auto.
  - intros o w1 _ _. destruct o; simpl; try (split; [exact I|exists []; split; [reflexivity|constructor]]);
      try (split; [exact I|eexists [_]; split; [reflexivity|repeat constructor]]).
    destruct (faulty w1 k l); [split; [exact I|eexists [_]; split; [reflexivity|repeat constructor]]|].
    unfold raw_apply.
    destruct k; simpl;
      repeat match goal with |- context [if ?b then _ else _] => destruct b end;
      (split; [exact I|eexists [_]; split; [reflexivity|repeat constructor]]).
  - clear. induction p; constructor; auto.
Qed.

Lemma norel_nobad pw t p w out w' : run pw t p w = (out, w') -> norel w w' -> nobad w w'.
Proof.
  intros R [evs [T F]]. destruct (run_bad_is_rel pw t p w out w' R) as [evs' [T' F']].
  assert (evs' = evs) by (rewrite T in T'; now apply app_inv_tail in T'). subst evs'.
  exists evs. split; [exact T|]. rewrite Forall_forall in *. intros e He. specialize (F e He). specialize (F' e He).
  destruct e as [t0 k l r| | | |]; try exact I. destruct r; try exact I. simpl in *. congruence.
Qed.

(* blocking acquisitions that return or wait: no release operation at all *)
Lemma leaf_lock_norel pw t m k l w out w' :
  run pw t (leaf_lock m k l) w = (out, w') -> (exists v, out = ODone v) \/ out = OBlocked -> norel w w'.
Proof.
  unfold leaf_lock. cbn [run do_op]. destruct (vtrue (VBool (w_kill w l))); [intros H [[v E]|E]; inversion H; congruence|].
  cbn [run op_ do_op]. destruct (faulty w (acq_op k m) l).
  - cbn [run op_ do_op]. intros H [[v E]|E]; inversion H; congruence.
  - destruct (raw_apply t (acq_op k m) (w_raw w l) (pw l)) as [s'|b s'| |] eqn:Ra; cbn [run]; intros H _; inversion H; subst;
      (eexists [_]; split; [reflexivity|]; constructor; [apply acq_op_norel|constructor]).
Qed.

Section LockLoop2.
  Variables (pw : lock -> bool) (t : tid) (m : mode) (lk : rawref -> prog).
  Definition lk_ok2 (x : rawref) : Prop :=
    forall w0 out w1, run pw t (lk x) w0 = (out, w1) -> (exists v, out = ODone v) \/ out = OBlocked -> norel w0 w1.

  Lemma ordered_lock_norel todo : Forall lk_ok2 todo -> forall done w out w',
    run pw t (ordered_lock_from m lk done todo) w = (out, w') -> (exists v, out = ODone v) \/ out = OBlocked -> norel w w'.
  Proof.
    induction 1 as [|x r Hx Hr IH]; intros done w out w' R Ho.
    - cbn in R. inversion R. apply norel_refl.
    - cbn [ordered_lock_from] in R. unfold pthen in R. cbn [run] in R.
      destruct (run pw t (lk x) w) as [[v1| | | |] w1] eqn:R1.
      + eapply norel_trans; [apply (Hx _ _ _ R1); left; eauto|apply (IH _ _ _ _ R Ho)].
      + destruct (run pw t (recover m done) w1) as [[v2| | | |] w2] eqn:R2; inversion R; subst; destruct Ho as [[v E]|E]; try congruence.
        exfalso. destruct (run_nonblocking pw t _ (ops_in_weaken _ _ _ nbalg_nbop (recover_nb m done)) _ _ _ R2) as [X _]. congruence.
      + inversion R; subst. apply (Hx _ _ _ R1). now right.
      + inversion R; subst. destruct Ho as [[v E]|E]; congruence.
      + inversion R; subst. destruct Ho as [[v E]|E]; congruence.
  Qed.
End LockLoop2.

Lemma rr_lock_norel pw t m r : lk_ok2 pw t (rr_lock m) r.
Proof.
  induction r as [k l|u inner IH] using rawref_ind'; intros w0 out w1 R Ho.
  - apply (leaf_lock_norel pw t m k l _ _ _ R Ho).
  - change (rr_lock m (ROwned u inner)) with (ordered_lock_from m (rr_lock m) [] inner) in R.
    apply (ordered_lock_norel pw t m (rr_lock m) inner IH [] _ _ _ R Ho).
Qed.

(* the retrying acquisition, whether it completes or waits *)
Section RetryAny.
  Variables (t : tid) (m : mode) (locks : list rawref).
  Hypothesis NDl : NoDup (locks_of (rsleaves locks)).

  Definition again_nobad (again : nat -> prog) (f0 : St) : Prop :=
    forall done x rest w out w', locks = done ++ x :: rest -> quiet w -> (forall y, w_raw w y = f0 y) ->
      can_all m (rleaves x) f0 = false -> run nopw t (again (length done)) w = (out, w') -> nobad w w'.

  Lemma retry_inner_nobad again f0 :
    again_nobad again f0 ->
    forall todo done w locked out w',
      locks = done ++ todo -> done <> [] -> quiet w ->
      (forall y, w_raw w y = acq_all t m (rsleaves done) f0 y) -> can_all m (rsleaves done) f0 = true ->
      run nopw t (retry_inner m locks again 0 (length done) locked todo) w = (out, w') -> nobad w w'.
  Proof.
    intros Hag. induction todo as [|x r IH]; intros done w locked out w' Hl Hd Q Hw Cd R.
    - cbn in R. inversion R. apply nobad_refl.
    - cbn [retry_inner] in R.
      assert (Hi : Nat.eqb (length done) 0 = false) by (destruct done; [contradiction|reflexivity]).
      rewrite Hi in R.
      assert (ND : NoDup (locks_of (rsleaves (done ++ x :: r)))) by (rewrite <- Hl; exact NDl).
      rewrite rsleaves_app, rsleaves_cons, locks_of_app, locks_of_app in ND.
      assert (NDx : NoDup (locks_of (rleaves x))) by (eapply NoDup_app_l, NoDup_app_r; eauto).
      assert (NDd : NoDup (locks_of (rsleaves done))) by (eapply NoDup_app_l; eauto).
      assert (Hfx : forall y, In y (locks_of (rleaves x)) -> w_raw w y = f0 y).
      { intros y Hy. rewrite Hw. apply acq_all_other. intros Hin.
        eapply NoDup_app_disj; [exact ND|exact Hin|]. apply in_or_app. now left. }
      destruct (run_rr_try t m x w Q NDx) as [w1 [R1 E1]].
      rewrite (can_all_ext m (rleaves x) (w_raw w) f0 Hfx) in R1, E1.
      assert (Q1 : quiet w1) by (eapply eff_quiet; eauto).
      rewrite run_bind, (run_catch_done _ _ _ _ _ _ _ R1) in R.
      eapply nobad_trans; [apply (eff_nobad _ _ _ E1)|].
      destruct (can_all m (rleaves x) f0) eqn:Cx; cbn [vtrue] in R.
      + assert (Hl' : locks = (done ++ [x]) ++ r) by (rewrite <- app_assoc; exact Hl).
        assert (Hw1 : forall y, w_raw w1 y = acq_all t m (rsleaves (done ++ [x])) f0 y).
        { intros y. rewrite (eff_raw _ _ _ E1). rewrite rsleaves_app, rsleaves_one, acq_all_app.
          apply acq_all_ext. exact Hw. }
        assert (Cd' : can_all m (rsleaves (done ++ [x])) f0 = true).
        { rewrite rsleaves_app, rsleaves_one, can_all_app, Cd, Cx. reflexivity. }
        assert (Hd' : done ++ [x] <> []) by (destruct done; discriminate).
        apply (IH (done ++ [x]) w1 (S locked) out w' Hl' Hd' Q1 Hw1 Cd').
        rewrite app_length. cbn [length]. rewrite Nat.add_1_r. exact R.
      + assert (Hf : firstn (length done) locks = done) by (rewrite Hl; apply firstn_app_len).
        rewrite Hf in R. cbn [Nat.leb] in R.
        assert (Hle : Nat.leb (length done) 0 = false) by (destruct done; [contradiction|reflexivity]).
        rewrite Hle in R.
        assert (Hh : held_all t m (rsleaves done) (w_raw w1) = true).
        { rewrite (held_all_ext t m _ _ (acq_all t m (rsleaves done) f0)); [now apply held_after_acq|].
          intros y _. rewrite (eff_raw _ _ _ E1). apply Hw. }
        destruct (run_recover t m done w1 Q1 NDd Hh) as [w2 [R2 E2]].
        assert (Q2 : quiet w2) by (eapply eff_quiet; eauto).
        assert (Hw2 : forall y, w_raw w2 y = f0 y).
        { intros y. rewrite (eff_raw _ _ _ E2).
          rewrite (rel_all_ext t m _ _ (acq_all t m (rsleaves done) f0)); [now apply rel_acq_all|].
          intros z. rewrite (eff_raw _ _ _ E1). apply Hw. }
        rewrite (run_then_done _ _ _ _ _ VUnit w2) in R.
        2:{ apply run_catch_done. rewrite (run_then_done _ _ _ _ _ _ _ R2). reflexivity. }
        eapply nobad_trans; [apply (eff_nobad _ _ _ E2)|]. apply (Hag done x r w2 out w' Hl Q2 Hw2 Cx R).
  Qed.

  Lemma retry_outer_again_nobad f f0 : again_nobad (retry_outer m locks (S f)) f0.
  Proof.
    intros done x rest w out w' Hl Q Hw Cx R. cbn [retry_outer] in R.
    assert (N : nthr (length done) locks = x) by (rewrite Hl; apply nth_app_len). rewrite N in R.
    assert (ND : NoDup (locks_of (rsleaves (done ++ x :: rest)))) by (rewrite <- Hl; exact NDl).
    rewrite rsleaves_app, rsleaves_cons, locks_of_app, locks_of_app in ND.
    assert (NDx : NoDup (locks_of (rleaves x))) by (eapply NoDup_app_l, NoDup_app_r; eauto).
    pose proof (run_rr_lock t m x w Q NDx) as H.
    rewrite (can_all_ext m (rleaves x) (w_raw w) f0 (fun y _ => Hw y)), Cx in H.
    destruct H as [w1 [R1 _]].
    assert (Rb : run nopw t (Catch (rr_lock m x) (retry_handler m locks (length done) 0) ;;
                              retry_inner m locks (retry_outer m locks f) (length done) 0 0 locks) w = (OBlocked, w1)).
    { apply run_then_blocked. now apply run_catch_blocked. }
    rewrite Rb in R. inversion R; subst out w'.
    apply (norel_nobad nopw t _ _ _ _ R1). apply (rr_lock_norel nopw t m x _ _ _ R1). now right.
  Qed.

  Lemma retry_lock_nobad fuel w out w' :
    2 <= fuel -> quiet w -> run nopw t (retry_lock m locks fuel) w = (out, w') -> nobad w w'.
  Proof.
    intros Hf Q R. unfold retry_lock in R. destruct locks as [|x rest] eqn:El.
    - cbn in R. inversion R. apply nobad_refl.
    - rewrite <- El in *. destruct fuel as [|[|f]]; try lia. cbn [retry_outer] in R.
      assert (N0 : nthr 0 locks = x) by (rewrite El; reflexivity). rewrite N0 in R.
      assert (ND : NoDup (locks_of (rsleaves (x :: rest)))) by (rewrite <- El; exact NDl).
      rewrite rsleaves_cons, locks_of_app in ND.
      pose proof (run_rr_lock t m x w Q (NoDup_app_l _ _ ND)) as H.
      destruct (can_all m (rleaves x) (w_raw w)) eqn:Cx.
      + destruct H as [w1 [R1 [E1 _]]].
        assert (Q1 : quiet w1) by (eapply eff_quiet; eauto).
        rewrite (run_then_done _ _ _ _ _ VUnit w1) in R by (apply (run_catch_done _ _ _ _ _ _ _ R1)).
        assert (Hin : forall ag, retry_inner m locks ag 0 0 0 locks = retry_inner m locks ag 0 1 0 rest).
        { intros ag. transitivity (retry_inner m locks ag 0 0 0 (x :: rest)); [f_equal; exact El|reflexivity]. }
        rewrite Hin in R.
        eapply nobad_trans; [apply (eff_nobad _ _ _ E1)|].
        apply (retry_inner_nobad (retry_outer m locks (S f)) (w_raw w) (retry_outer_again_nobad f (w_raw w))
                 rest [x] w1 0 out w' El ltac:(discriminate) Q1).
        * intros y. rewrite rsleaves_one. apply (eff_raw _ _ _ E1).
        * rewrite rsleaves_one. exact Cx.
        * exact R.
      + destruct H as [w1 [R1 _]].
        unfold pthen in R. cbn [run] in R. rewrite R1 in R. inversion R; subst out w'.
        apply (norel_nobad nopw t _ _ _ _ R1). apply (rr_lock_norel nopw t m x _ _ _ R1). now right.
  Qed.
End RetryAny.

(* lock of any lock, wrapper or collection, whatever the outcome *)
Lemma raw_lock_nobad t m am s fuel w out w' :
  acquirable s = true -> NoDup (leaves s) -> quiet w -> 2 <= fuel ->
  run nopw t (raw_lock fuel m (alg_of am s)) w = (out, w') -> nobad w w'.
Proof.
  intros Ha ND Q Hf R. pose proof (alg_refs_leaves am s Ha) as Hp.
  assert (NDk : NoDup (locks_of (kleaves s))) by (rewrite <- leaves_kleaves; exact ND).
  assert (ND' : NoDup (locks_of (rsleaves (alg_refs (alg_of am s))))).
  { eapply Permutation_NoDup; [apply locks_of_perm; symmetry; exact Hp|exact NDk]. }
  destruct (alg_of am s) as [k l|rs|rs|]; cbn [raw_lock alg_refs] in *.
  - pose proof (run_rr_lock t m (RLeaf k l) w Q) as X. rewrite rsleaves_one in *. specialize (X ND').
    change (rr_lock m (RLeaf k l)) with (leaf_lock m k l) in X.
    destruct (can_all m (rleaves (RLeaf k l)) (w_raw w)).
    + destruct X as [w1 [R1 [E1 _]]]. rewrite R1 in R. inversion R; subst. apply (eff_nobad _ _ _ E1).
    + destruct X as [w1 [R1 _]]. rewrite R1 in R. inversion R; subst.
      apply (norel_nobad nopw t _ _ _ _ R1). apply (leaf_lock_norel nopw t m k l _ _ _ R1). now right.
  - pose proof (run_ordered_lock t m rs w Q ND') as X.
    destruct (can_all m (rsleaves rs) (w_raw w)).
    + destruct X as [w1 [R1 [E1 _]]]. rewrite R1 in R. inversion R; subst. apply (eff_nobad _ _ _ E1).
    + destruct X as [w1 [R1 _]]. rewrite R1 in R. inversion R; subst.
      apply (norel_nobad nopw t _ _ _ _ R1). unfold ordered_lock in R1.
      apply (ordered_lock_norel nopw t m (rr_lock m) rs) with (done := []) (out := OBlocked); [|exact R1|now right].
      apply Forall_forall. intros x _. apply rr_lock_norel.
  - apply (retry_lock_nobad t m rs ND' fuel w out w' Hf Q R).
  - inversion R. apply nobad_refl.
Qed.
