(* Prop_C12.v — C12 (partial; known findings D12a-c): a panicking raw lock operation.
   Proved: at the level of a single lock (every mode, every kind, any world) the operation that panicked kills
   exactly that lock, the panic propagates, and a killed lock refuses: try fails without touching the raw
   lock, a blocking acquisition panics.  For collections the faithful model reproduces the source's unwind
   bookkeeping; the monitor mon_C12 (all four clauses of the statement) runs on model and implementation for a
   one-shot panic at every raw-operation index; three classes of failures are genuine defects of the code
   (refuted below on minimal witnesses, listed in known_findings.txt). *)
From HL Require Import Base Model Shape Algo Api OpsLemmas Lemmas Check Monitors.

(* an operation of the raw lock panics: that lock is killed, the panic reaches the caller, nothing else changes *)
Theorem C12_fault_kills_that_lock :
  forall pw t m k l w,
    w_kill w l = false -> faulty w (acq_op k m) l = true ->
    exists w', run pw t (leaf_lock m k l) w = (OPanic, w') /\
               w_kill w' l = true /\ (forall x, x <> l -> w_kill w' x = w_kill w x) /\
               (forall x, w_raw w' x = w_raw w x).
Proof.
  intros pw t m k l w Hk Hf. unfold leaf_lock. simpl. rewrite Hk. simpl. rewrite Hf. simpl.
  eexists. split; [reflexivity|]. simpl. split; [apply upd_same|]. split; [intros x Hx; now apply upd_other|reflexivity].
Qed.

Theorem C12_try_fault_kills_that_lock :
  forall pw t m k l w,
    w_kill w l = false -> faulty w (try_op k m) l = true ->
    exists w', run pw t (leaf_try m k l) w = (OPanic, w') /\
               w_kill w' l = true /\ (forall x, x <> l -> w_kill w' x = w_kill w x) /\
               (forall x, w_raw w' x = w_raw w x).
Proof.
  intros pw t m k l w Hk Hf. unfold leaf_try. simpl. rewrite Hk. simpl. rewrite Hf. simpl.
  eexists. split; [reflexivity|]. simpl. split; [apply upd_same|]. split; [intros x Hx; now apply upd_other|reflexivity].
Qed.

Theorem C12_unlock_fault_kills_that_lock :
  forall pw t m k l w,
    faulty w (rel_op k m) l = true ->
    exists w', run pw t (leaf_unlock m k l) w = (OPanic, w') /\
               w_kill w' l = true /\ (forall x, x <> l -> w_kill w' x = w_kill w x) /\
               (forall x, w_raw w' x = w_raw w x).
Proof.
  intros pw t m k l w Hf. unfold leaf_unlock. simpl. rewrite Hf. simpl.
  eexists. split; [reflexivity|]. simpl. split; [apply upd_same|]. split; [intros x Hx; now apply upd_other|reflexivity].
Qed.

(* a killed lock refuses every later acquisition: try fails (the raw lock is not even consulted), a blocking
   acquisition panics; neither changes any state *)
Theorem C12_killed_lock_refuses :
  forall pw t m k l w, w_kill w l = true ->
    run pw t (leaf_try m k l) w = (ODone (VBool false), w) /\
    run pw t (leaf_lock m k l) w = (OPanic, w).
Proof. intros pw t m k l w Hk. unfold leaf_try, leaf_lock. simpl. rewrite Hk. split; reflexivity. Qed.

(* a kill flag is never cleared *)
Theorem C12_kill_is_forever :
  forall pw t o w, match do_op pw t o w with
                   | RDone _ w' | RPanic w' | RBlock w' => forall l, w_kill w l = true -> w_kill w' l = true
                   end.
Proof.
  intros pw t o w. destruct o; simpl; auto.
  - destruct (faulty w k l); simpl; auto. destruct (raw_apply t k (w_raw w l) (pw l)); simpl; auto.
  - intros x Hx. unfold upd. destruct (Nat.eqb x l); auto.
Qed.

(* ordered acquisition over plain locks: a panic at member k releases exactly the k members taken *)
Definition ex12_ok : scen :=
  mks 3 0 [0; 1; 2] [] [SBoxed (SSeq [SLeaf KMutex 0; SLeaf KMutex 1; SLeaf KMutex 2])] [] [2] [] 4
      [(0, AKeyGet); (0, AAcquire 0 Ex FGuard); (1, AKeyGet); (1, AAcquire 0 Ex FTry)].
Example C12_ordered_ok : mon_C12 false ex12_ok (model_obs ex12_ok) = true.
Proof. vm_compute. reflexivity. Qed.

(* KNOWN FINDINGS, refuted on the faithful model (and reproduced on the implementation by the check): *)
(* D12a: retrying collection, panic in the try of member 2 with first_index = 0: member 1 stays locked *)
Definition ex12a : scen :=
  mks 3 0 [0; 1; 2] [] [SRetry (SSeq [SLeaf KMutex 0; SLeaf KMutex 1; SLeaf KMutex 2])] [] [2] [] 4
      [(0, AKeyGet); (0, AAcquire 0 Ex FGuard)].
(* D12a': panic in the blocking lock of member 0: the handler unlocks a lock that is not held *)
Definition ex12a' : scen :=
  mks 2 0 [0; 1] [] [SRetry (SSeq [SLeaf KMutex 0; SLeaf KMutex 1])] [] [0] [] 4
      [(0, AKeyGet); (0, AAcquire 0 Ex FGuard)].
(* D12b: try_lock of a sorting collection, member 2 held by someone else, the second unlock of the rollback panics:
   the outer handler releases the same locks again *)
Definition ex12b : scen :=
  mks 3 0 [0; 1; 2] [] [SBoxed (SSeq [SLeaf KMutex 0; SLeaf KMutex 1; SLeaf KMutex 2])]
      [(2, mkraw (Some 100) [])] [4] [] 4
      [(0, AKeyGet); (0, AAcquire 0 Ex FTry)].
(* D12c: scoped_lock, the final release loop: the first unlock panics, the second member stays locked *)
Definition ex12c : scen :=
  mks 2 0 [0; 1] [] [SBoxed (SSeq [SLeaf KMutex 0; SLeaf KMutex 1])] [] [2] [] 4
      [(0, AKeyGet); (0, AAcquire 0 Ex (FScoped true []))].

Theorem C12_refuted_retry_handler :
  mon_C12 false ex12a (model_obs ex12a) = false /\ mon_C12 true ex12a (model_obs ex12a) = true /\
  mon_C12 false ex12a' (model_obs ex12a') = false /\ mon_C12 true ex12a' (model_obs ex12a') = true.
Proof. vm_compute. auto. Qed.

Theorem C12_refuted_try_rollback :
  mon_C12 false ex12b (model_obs ex12b) = false /\ mon_C12 true ex12b (model_obs ex12b) = true.
Proof. vm_compute. auto. Qed.

Theorem C12_refuted_scoped_release_loop :
  mon_C12 false ex12c (model_obs ex12c) = false /\ mon_C12 true ex12c (model_obs ex12c) = true.
Proof. vm_compute. auto. Qed.

Print Assumptions C12_fault_kills_that_lock.
Print Assumptions C12_killed_lock_refuses.
Print Assumptions C12_kill_is_forever.
Print Assumptions C12_refuted_retry_handler.
Print Assumptions C12_refuted_try_rollback.
Print Assumptions C12_refuted_scoped_release_loop.
