(* Prop_C12.v — C12 (partial; known findings D12a-c): a panicking raw lock operation.
   For whole collections (WpF.v, WpFAlgo.v, WpFMain.v — the program logic of Wp.v with a budget of one panicking raw
   operation): the blocking acquisition (lock / read / write) of a lock, a sorting collection or an owned collection of
   ANY shape and size, and the destruction of a guard of ANY shape, with the panic at ANY raw-operation index: the panic
   reaches the caller, only held locks are released, nothing stays held except a lock whose own release panicked, and
   exactly the lock whose operation panicked is killed (C12_guard_acquire_one_fault, C12_guard_drop_one_fault).
   The retrying acquisition's unwind handler, the roll-back of the try-acquisitions and the release loop of the scoped
   calls do NOT satisfy the property: refuted below (D12a-c).
   Proved: at the level of a single lock (every mode, every kind, any world) the operation that panicked kills
   exactly that lock, the panic propagates, and a killed lock refuses: try fails without touching the raw
   lock, a blocking acquisition panics.  For collections the faithful model reproduces the source's unwind
   bookkeeping; the monitor mon_C12 (all four clauses of the statement) runs on model and implementation for a
   one-shot panic at every raw-operation index; three classes of failures are genuine defects of the code
   (refuted below on minimal witnesses, listed in known_findings.txt). *)
From HL Require Import Base Model Shape Algo Api OpsLemmas Lemmas Check Monitors.
From HL Require Wp WpAlgo WpF WpFAlgo WpFMain.

(* an operation of the raw lock panics: that lock is killed, the panic reaches the caller, nothing else changes *)
Theorem C12_fault_kills_that_lock :
  forall pw t m k l w,
    w_kill w l = false -> faulty w (acq_op k m) l = true ->
    exists w', run pw t (leaf_lock m k l) w = (OPanic, w') /\
               w_kill w' l = true /\ (forall x, x <> l -> w_kill w' x = w_kill w x) /\
               (forall x, w_raw w' x = w_raw w x).
Proof.
  intros pw t m k l w Hk Hf. unfold leaf_lock. simpl. rewrite Hk. simpl. rewrite Hf. simpl.
  eexists. split; [reflexivity|]. simpl. split; [apply upd_same|]. split; [intros x Hx; now apply upd_other|reflexivity].
Qed.

Theorem C12_try_fault_kills_that_lock :
  forall pw t m k l w,
    w_kill w l = false -> faulty w (try_op k m) l = true ->
    exists w', run pw t (leaf_try m k l) w = (OPanic, w') /\
               w_kill w' l = true /\ (forall x, x <> l -> w_kill w' x = w_kill w x) /\
               (forall x, w_raw w' x = w_raw w x).
Proof.
  intros pw t m k l w Hk Hf. unfold leaf_try. simpl. rewrite Hk. simpl. rewrite Hf. simpl.
  eexists. split; [reflexivity|]. simpl. split; [apply upd_same|]. split; [intros x Hx; now apply upd_other|reflexivity].
Qed.

Theorem C12_unlock_fault_kills_that_lock :
  forall pw t m k l w,
    faulty w (rel_op k m) l = true ->
    exists w', run pw t (leaf_unlock m k l) w = (OPanic, w') /\
               w_kill w' l = true /\ (forall x, x <> l -> w_kill w' x = w_kill w x) /\
               (forall x, w_raw w' x = w_raw w x).
Proof.
  intros pw t m k l w Hf. unfold leaf_unlock. simpl. rewrite Hf. simpl.
  eexists. split; [reflexivity|]. simpl. split; [apply upd_same|]. split; [intros x Hx; now apply upd_other|reflexivity].
Qed.

(* a killed lock refuses every later acquisition: try fails (the raw lock is not even consulted), a blocking
   acquisition panics; neither changes any state *)
Theorem C12_killed_lock_refuses :
  forall pw t m k l w, w_kill w l = true ->
    run pw t (leaf_try m k l) w = (ODone (VBool false), w) /\
    run pw t (leaf_lock m k l) w = (OPanic, w).
Proof. intros pw t m k l w Hk. unfold leaf_try, leaf_lock. simpl. rewrite Hk. split; reflexivity. Qed.

(* a kill flag is never cleared *)
Theorem C12_kill_is_forever :
  forall pw t o w, match do_op pw t o w with
                   | RDone _ w' | RPanic w' | RBlock w' => forall l, w_kill w l = true -> w_kill w' l = true
                   end.
Proof.
  intros pw t o w. destruct o; simpl; auto.
  - destruct (faulty w k l); simpl; auto. destruct (raw_apply t k (w_raw w l) (pw l)); simpl; auto.
  - intros x Hx. unfold upd. destruct (Nat.eqb x l); auto.
Qed.

(* ordered acquisition over plain locks: a panic at member k releases exactly the k members taken *)
Definition ex12_ok : scen :=
  mks 3 0 [0; 1; 2] [] [SBoxed (SSeq [SLeaf KMutex 0; SLeaf KMutex 1; SLeaf KMutex 2])] [] [2] [] 4
      [(0, AKeyGet); (0, AAcquire 0 Ex FGuard); (1, AKeyGet); (1, AAcquire 0 Ex FTry)].
Example C12_ordered_ok : mon_C12 false ex12_ok (model_obs ex12_ok) = true.
Proof. vm_compute. reflexivity. Qed.


(* ---------------------------------------------------------------- whole collections, every size, every fault position *)
(* [agreeF t w H F D]: thread t holds exactly H in w; no persistent faults; at most one future one-shot fault if F, none
   otherwise; the killed locks are exactly D.  [INV F D]: while the fault has not fired no lock is dead. *)
Theorem C12_guard_acquire_one_fault :
  forall e lc c m s p t w F D out w',
  coll e c = Some s -> WpFMain.ordered_alg (alg_of (e_am e) s) = true ->
  api_prog e lc (AAcquire c m FGuard) = Some p ->
  WpF.agreeF t w [] F D -> WpFAlgo.INV F D ->
  run nopw t p w = (out, w') ->
  let ls := WpAlgo.alg_leaves (alg_of (e_am e) s) in
  match out with
  | ODone _ => exists H', Permutation H' (WpAlgo.holds_of m ls) /\ WpF.agreeF t w' H' F D
  | OPanic => (F = true /\ exists l, In l (locks_of ls) /\ WpF.agreeF t w' [] false [l]) \/ (F = false /\ WpF.agreeF t w' [] false D)
  | OBlocked => exists pre suf, ls = pre ++ suf /\ suf <> [] /\ exists H', Permutation H' (WpAlgo.holds_of m pre) /\ WpF.agreeF t w' H' F D
  | OAbort | OFuel => False
  end.
Proof. exact WpFMain.guard_acquire_one_fault. Qed.

Theorem C12_guard_drop_one_fault :
  forall e lc g o p t w H F D out w',
  (o = AGuardDrop \/ o = AGuardUnlock) -> guard lc = Some g ->
  api_prog e lc o = Some p ->
  Permutation H (WpAlgo.holds_of (g_mode g) (gleaves (g_items g))) -> WpF.agreeF t w H F D ->
  run nopw t p w = (out, w') ->
  match out with
  | ODone _ => WpF.agreeF t w' [] F D
  | OPanic => F = true /\ exists x, In x (gleaves (g_items g)) /\ WpF.agreeF t w' [WpAlgo.hold_of (g_mode g) x] false (snd x :: D)
  | _ => False
  end.
Proof. exact WpFMain.guard_drop_one_fault. Qed.

(* the same on worlds: from any world in which the thread holds nothing, no lock is dead and at most one one-shot fault
   is pending, a panicking acquisition leaves the thread holding nothing and exactly one lock of the collection dead *)
Theorem C12_guard_acquire_any_fault_position :
  forall e lc c m s p t w out w',
  coll e c = Some s -> WpFMain.ordered_alg (alg_of (e_am e) s) = true ->
  api_prog e lc (AAcquire c m FGuard) = Some p ->
  WpFMain.holds_nothing t w -> w_fp w = [] -> length (w_f1 w) <= 1 -> (forall l, w_kill w l = false) ->
  run nopw t p w = (out, w') ->
  match out with
  | OPanic => WpFMain.holds_nothing t w' /\
              exists l, In l (locks_of (WpAlgo.alg_leaves (alg_of (e_am e) s))) /\ forall l', w_kill w' l' = memb l' [l]
  | OAbort | OFuel => False
  | _ => forall l', w_kill w' l' = false
  end.
Proof. exact WpFMain.guard_acquire_any_fault_position. Qed.


(* a single Mutex / RwLock (or a Poisonable around one), EVERY flavour (lock, try_lock, scoped, scoped_try), closures
   that may themselves panic, at most one panicking raw operation: a scoped call or a panic leaves nothing held except the
   lock itself when its own release panicked — it is then dead — and no other lock is ever killed *)
Theorem C12_single_lock_one_fault :
  forall e lc c m f s k l p t w F D out w',
  coll e c = Some s -> alg_of (e_am e) s = AlgLeaf k l ->
  api_prog e lc (AAcquire c m f) = Some p ->
  WpF.agreeF t w [] F D ->
  run nopw t p w = (out, w') ->
  let h := WpAlgo.hold_of m (k, l) in
  match out with
  | ODone _ | OPanic =>
      exists H' F' D', WpF.agreeF t w' H' F' D' /\
        (match f with FGuard | FTry => True | _ => H' = [] \/ (H' = [h] /\ memb l D' = true) end) /\
        (match out with OPanic => H' = [] \/ (H' = [h] /\ memb l D' = true) | _ => True end) /\
        (D' = D \/ D' = l :: D)
  | OBlocked => WpF.agreeF t w' [] F D
  | OAbort | OFuel => False
  end.
Proof. exact WpFMain.single_lock_one_fault. Qed.

(* non-vacuity: the hypotheses hold of the world of ex12_ok (a one-shot fault at raw operation 2) once thread 0 has its
   key, and the acquisition of the 3-lock collection panics there *)
Example C12_acquire_example :
  let w := set_keyf (sc_world ex12_ok) 0 true in
  WpFMain.holds_nothing 0 w /\ w_fp w = [] /\ length (w_f1 w) <= 1 /\
  exists p w', api_prog (sc_env ex12_ok) (mkt true None) (AAcquire 0 Ex FGuard) = Some p /\
               run nopw 0 p w = (OPanic, w') /\ map (w_kill w') [0; 1; 2] = [false; false; true] /\
               map (w_raw w') [0; 1; 2] = [raw_free; raw_free; raw_free].
Proof.
  cbn zeta. split; [intros l; split; reflexivity|]. split; [reflexivity|]. split; [cbn; lia|].
  eexists. eexists. split; [reflexivity|]. vm_compute. auto.
Qed.

(* KNOWN FINDINGS, refuted on the faithful model (and reproduced on the implementation by the check): *)
(* D12a: retrying collection, panic in the try of member 2 with first_index = 0: member 1 stays locked *)
Definition ex12a : scen :=
  mks 3 0 [0; 1; 2] [] [SRetry (SSeq [SLeaf KMutex 0; SLeaf KMutex 1; SLeaf KMutex 2])] [] [2] [] 4
      [(0, AKeyGet); (0, AAcquire 0 Ex FGuard)].
(* D12a': panic in the blocking lock of member 0: the handler unlocks a lock that is not held *)
Definition ex12a' : scen :=
  mks 2 0 [0; 1] [] [SRetry (SSeq [SLeaf KMutex 0; SLeaf KMutex 1])] [] [0] [] 4
      [(0, AKeyGet); (0, AAcquire 0 Ex FGuard)].
(* D12b: try_lock of a sorting collection, member 2 held by someone else, the second unlock of the rollback panics:
   the outer handler releases the same locks again *)
Definition ex12b : scen :=
  mks 3 0 [0; 1; 2] [] [SBoxed (SSeq [SLeaf KMutex 0; SLeaf KMutex 1; SLeaf KMutex 2])]
      [(2, mkraw (Some 100) [])] [4] [] 4
      [(0, AKeyGet); (0, AAcquire 0 Ex FTry)].
(* D12c: scoped_lock, the final release loop: the first unlock panics, the second member stays locked *)
Definition ex12c : scen :=
  mks 2 0 [0; 1] [] [SBoxed (SSeq [SLeaf KMutex 0; SLeaf KMutex 1])] [] [2] [] 4
      [(0, AKeyGet); (0, AAcquire 0 Ex (FScoped true []))].

Theorem C12_refuted_retry_handler :
  mon_C12 false ex12a (model_obs ex12a) = false /\ mon_C12 true ex12a (model_obs ex12a) = true /\
  mon_C12 false ex12a' (model_obs ex12a') = false /\ mon_C12 true ex12a' (model_obs ex12a') = true.
Proof. vm_compute. auto. Qed.

Theorem C12_refuted_try_rollback :
  mon_C12 false ex12b (model_obs ex12b) = false /\ mon_C12 true ex12b (model_obs ex12b) = true.
Proof. vm_compute. auto. Qed.

Theorem C12_refuted_scoped_release_loop :
  mon_C12 false ex12c (model_obs ex12c) = false /\ mon_C12 true ex12c (model_obs ex12c) = true.
Proof. vm_compute. auto. Qed.

Print Assumptions C12_fault_kills_that_lock.
Print Assumptions C12_killed_lock_refuses.
Print Assumptions C12_kill_is_forever.
Print Assumptions C12_refuted_retry_handler.
Print Assumptions C12_refuted_try_rollback.
Print Assumptions C12_refuted_scoped_release_loop.
Print Assumptions C12_guard_acquire_one_fault.
Print Assumptions C12_guard_drop_one_fault.
Print Assumptions C12_guard_acquire_any_fault_position.
Print Assumptions C12_single_lock_one_fault.
