(* Model.v — the audited raw-lock specification (the lock_api contract as the harness's auditing locks
   implement it), the program syntax in which happylock's algorithms are written (with [Catch] =
   handle_unwind), the world, and two interpreters: big-step [run] (a whole API call, Level A) and
   one-raw-operation-at-a-time [step] (Level B interleavings). *)
From HL Require Import Base.

(* ---------------------------------------------------------------- raw lock state *)
Record rawst := mkraw { writer : option tid; readers : list tid }.
Definition raw_free : rawst := mkraw None [].

Inductive rop := OLock | OTry | OUnlock | OLockSh | OTrySh | OUnlockSh.

Definition rop_eqb (a b : rop) : bool :=
  match a, b with
  | OLock, OLock | OTry, OTry | OUnlock, OUnlock
  | OLockSh, OLockSh | OTrySh, OTrySh | OUnlockSh, OUnlockSh => true
  | _, _ => false
  end.

Definition rop_blocking (k : rop) : bool :=
  match k with OLock | OLockSh => true | _ => false end.

Definition is_free (s : rawst) : bool := is_none (writer s) && is_nil (readers s).
Definition no_writer (s : rawst) : bool := is_none (writer s).
Definition writer_is (s : rawst) (t : tid) : bool :=
  match writer s with Some u => Nat.eqb u t | None => false end.

(* answer of a raw operation *)
Inductive rawans :=
| AOk (s' : rawst)            (* blocking acquire granted / release accepted *)
| ABool (b : bool) (s' : rawst)
| ABlock                      (* blocking acquire not grantable now *)
| ABad.                       (* release by a thread that does not hold the lock in that mode: audit error,
                                 state unchanged (the real raw lock would be in undefined territory) *)

(* [pendw]: a writer is waiting on this lock (only meaningful under the writer-preferring policy) *)
Definition raw_apply (t : tid) (k : rop) (s : rawst) (pendw : bool) : rawans :=
  match k with
  | OLock     => if is_free s then AOk (mkraw (Some t) []) else ABlock
  | OTry      => if is_free s then ABool true (mkraw (Some t) []) else ABool false s
  | OUnlock   => if writer_is s t then AOk (mkraw None (readers s)) else ABad
  | OLockSh   => if no_writer s && negb pendw then AOk (mkraw None (t :: readers s)) else ABlock
  | OTrySh    => if no_writer s && negb pendw then ABool true (mkraw None (t :: readers s))
                 else ABool false s
  | OUnlockSh => if memb t (readers s) then AOk (mkraw (writer s) (remove1 t (readers s))) else ABad
  end.

(* ---------------------------------------------------------------- program syntax *)
Inductive val := VUnit | VBool (b : bool) | VNat (n : nat).

Definition vtrue (v : val) : bool := match v with VBool true => true | _ => false end.

Inductive op :=
| ORaw (k : rop) (l : lock)       (* an operation of the underlying lock_api raw lock of leaf l *)
| OKilled (l : lock)              (* read the per-lock kill flag (Mutex::poison / RwLock::poison field) *)
| OKill (l : lock)                (* set it *)
| OPoisoned (p : pid)             (* Poisonable::is_poisoned, silent *)
| OPoison (p : pid)
| OClearPoison (p : pid)
| OSeePoison (p : pid)            (* user code looks at Ok/Err of a Poisonable position: observable *)
| ORead (pos : nat) (l : lock)    (* user code reads the payload through guard/closure position pos *)
| OWrite (pos : nat) (l : lock)   (* user code bumps the payload's version through position pos *)
| OKeyTry                         (* KeyCell::try_lock of the calling thread: VBool (flag was clear) *)
| OKeyUnlock                      (* KeyCell::force_unlock *)
| OKeyProbe                       (* user code: ThreadKey::get().is_some(), key dropped at once: observable *)
| OMark (n : nat).                (* observable marker (closure entered, …) *)

Inductive prog :=
| Ret (v : val)
| Throw                           (* a panic starts unwinding *)
| Abort                           (* panic while already unwinding through drop glue: process abort *)
| Fuel                            (* the model's bound on retry rounds is exhausted (never in the source) *)
| Op (o : op) (k : val -> prog)
| Bind (m : prog) (k : val -> prog)
| Catch (body h : prog).          (* handle_unwind(body, h): value of body; if it panics run h, re-raise *)

Definition pthen (a b : prog) : prog := Bind a (fun _ => b).
Definition op_ (o : op) : prog := Op o Ret.
Definition skip : prog := Ret VUnit.
Notation "a ;; b" := (pthen a b) (at level 61, right associativity).

Fixpoint seqs (l : list prog) : prog :=
  match l with [] => skip | p :: r => p ;; seqs r end.

(* ---------------------------------------------------------------- observable events *)
Inductive rres := RUnit | RBool (b : bool) | RFault | RBlocked | RBad.

Inductive ev :=
| ERaw (t : tid) (k : rop) (l : lock) (r : rres)
| EData (t : tid) (wr : bool) (pos : nat) (tag ver : nat)   (* payload seen/left through position pos *)
| ESee (t : tid) (poisoned : bool)
| EProbe (t : tid) (got : bool)
| EMark (t : tid) (n : nat).

(* ---------------------------------------------------------------- world *)
Record world := mkw {
  w_raw   : lock -> rawst;
  w_kill  : lock -> bool;
  w_psn   : pid -> bool;
  w_data  : lock -> nat;            (* version of the payload of lock l; its tag is l itself *)
  w_keyf  : tid -> bool;            (* the thread-local KeyCell *)
  w_opc   : nat;                    (* number of raw operations issued so far *)
  w_f1    : list nat;               (* one-shot faults: raw-op indices that panic *)
  w_fp    : list (lock * rop);      (* persistent faults: every such op on that lock panics *)
  w_trace : list ev                 (* newest first *)
}.

Definition set_raw w l s := mkw (upd (w_raw w) l s) (w_kill w) (w_psn w) (w_data w) (w_keyf w)
                                (w_opc w) (w_f1 w) (w_fp w) (w_trace w).
Definition set_kill w l b := mkw (w_raw w) (upd (w_kill w) l b) (w_psn w) (w_data w) (w_keyf w)
                                 (w_opc w) (w_f1 w) (w_fp w) (w_trace w).
Definition set_psn w p b := mkw (w_raw w) (w_kill w) (upd (w_psn w) p b) (w_data w) (w_keyf w)
                                (w_opc w) (w_f1 w) (w_fp w) (w_trace w).
Definition set_data w l v := mkw (w_raw w) (w_kill w) (w_psn w) (upd (w_data w) l v) (w_keyf w)
                                 (w_opc w) (w_f1 w) (w_fp w) (w_trace w).
Definition set_keyf w t b := mkw (w_raw w) (w_kill w) (w_psn w) (w_data w) (upd (w_keyf w) t b)
                                 (w_opc w) (w_f1 w) (w_fp w) (w_trace w).
Definition tick w := mkw (w_raw w) (w_kill w) (w_psn w) (w_data w) (w_keyf w)
                         (S (w_opc w)) (w_f1 w) (w_fp w) (w_trace w).
Definition emit w e := mkw (w_raw w) (w_kill w) (w_psn w) (w_data w) (w_keyf w)
                           (w_opc w) (w_f1 w) (w_fp w) (e :: w_trace w).

Fixpoint fp_mem (l : lock) (k : rop) (fp : list (lock * rop)) : bool :=
  match fp with
  | [] => false
  | (l', k') :: r => (Nat.eqb l l' && rop_eqb k k') || fp_mem l k r
  end.

Definition faulty (w : world) (k : rop) (l : lock) : bool :=
  memb (w_opc w) (w_f1 w) || fp_mem l k (w_fp w).

(* result of one operation *)
Inductive opres :=
| RDone (v : val) (w' : world)
| RPanic (w' : world)       (* the operation panicked (injected raw-lock fault) *)
| RBlock (w' : world).      (* blocking acquire not grantable: the thread has to wait *)

(* [pw l]: some other thread is waiting to write-lock l (writer-preferring policy); constantly false
   under the reader-preferring policy and in sequential (Level A) runs *)
Definition do_op (pw : lock -> bool) (t : tid) (o : op) (w : world) : opres :=
  match o with
  | ORaw k l =>
      if faulty w k l then RPanic (emit (tick w) (ERaw t k l RFault))
      else match raw_apply t k (w_raw w l) (pw l) with
           | AOk s'     => RDone VUnit (emit (tick (set_raw w l s')) (ERaw t k l RUnit))
           | ABool b s' => RDone (VBool b) (emit (tick (set_raw w l s')) (ERaw t k l (RBool b)))
           | ABlock     => RBlock (emit w (ERaw t k l RBlocked))
           | ABad       => RDone VUnit (emit (tick w) (ERaw t k l RBad))
           end
  | OKilled l      => RDone (VBool (w_kill w l)) w
  | OKill l        => RDone VUnit (set_kill w l true)
  | OPoisoned p    => RDone (VBool (w_psn w p)) w
  | OPoison p      => RDone VUnit (set_psn w p true)
  | OClearPoison p => RDone VUnit (set_psn w p false)
  | OSeePoison p   => RDone (VBool (w_psn w p)) (emit w (ESee t (w_psn w p)))
  | ORead pos l    => RDone (VNat (w_data w l)) (emit w (EData t false pos l (w_data w l)))
  | OWrite pos l   => RDone VUnit (emit (set_data w l (S (w_data w l))) (EData t true pos l (S (w_data w l))))
  | OKeyTry        => RDone (VBool (negb (w_keyf w t))) (set_keyf w t true)
  | OKeyUnlock     => RDone VUnit (set_keyf w t false)
  | OKeyProbe      => RDone (VBool (negb (w_keyf w t))) (emit w (EProbe t (negb (w_keyf w t))))
  | OMark n        => RDone VUnit (emit w (EMark t n))
  end.

(* ---------------------------------------------------------------- big-step: a whole call *)
Inductive outcome := ODone (v : val) | OPanic | OBlocked | OAbort | OFuel.

Fixpoint run (pw : lock -> bool) (t : tid) (p : prog) (w : world) : outcome * world :=
  match p with
  | Ret v => (ODone v, w)
  | Throw => (OPanic, w)
  | Abort => (OAbort, w)
  | Fuel => (OFuel, w)
  | Op o k => match do_op pw t o w with
              | RDone v w' => run pw t (k v) w'
              | RPanic w'  => (OPanic, w')
              | RBlock w'  => (OBlocked, w')
              end
  | Bind m k => match run pw t m w with
                | (ODone v, w') => run pw t (k v) w'
                | r => r
                end
  | Catch b h => match run pw t b w with
                 | (OPanic, w') => match run pw t h w' with
                                   | (ODone _, w'') => (OPanic, w'')
                                   | r => r
                                   end
                 | r => r
                 end
  end.

(* ---------------------------------------------------------------- small-step: exactly one operation *)
Inductive sres :=
| SRet (v : val)                 (* finished without performing any further operation *)
| SThrow
| SAbort
| SFuel
| SStep (p' : prog) (w' : world) (* performed one operation *)
| SBlock (w' : world).           (* next operation is an ungrantable blocking acquire *)

Fixpoint step (pw : lock -> bool) (t : tid) (p : prog) (w : world) : sres :=
  match p with
  | Ret v => SRet v
  | Throw => SThrow
  | Abort => SAbort
  | Fuel => SFuel
  | Op o k => match do_op pw t o w with
              | RDone v w' => SStep (k v) w'
              | RPanic w'  => SStep Throw w'
              | RBlock w'  => SBlock w'
              end
  | Bind m k => match step pw t m w with
                | SRet v => step pw t (k v) w
                | SStep m' w' => SStep (Bind m' k) w'
                | r => r
                end
  | Catch b h => match step pw t b w with
                 | SThrow => match step pw t h w with
                             | SRet _ => SThrow
                             | SStep h' w' => SStep (h' ;; Throw) w'
                             | r => r
                             end
                 | SStep b' w' => SStep (Catch b' h) w'
                 | r => r
                 end
  end.

(* no writer is ever waiting: the reader-preferring policy, and every sequential run *)
Definition nopw : lock -> bool := fun _ => false.
