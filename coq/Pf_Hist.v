(* Pf_Hist.v — an invariant of fault-free, API-call-atomic histories of any number of threads, and from it the
   whole-history theorems of C03 and C17: the monitors hold of the model for EVERY such history. *)
From HL Require Import Base Model Shape Algo Api OpsLemmas Lemmas ShapeLemmas ApiLemmas QuietLemmas NoRel Pf_Calls Check Monitors Pf_C06 Pf_C13 SeeLemmas Pf_Acct.

(* ---------------------------------------------------------------- who holds what, per raw state *)
Definition wf_rawst (s : rawst) : Prop := writer s <> None -> readers s = [].

Lemma holds_by_acq1 u t k m s :
  can1 k m s = true -> holds_by u (acq1 t k m s) = (Nat.eqb u t || holds_by u s).
Proof.
  unfold can1, acq1, holds_by, writer_is. destruct s as [w r]. destruct (shared k m); simpl; intros C.
  - unfold no_writer in C. simpl in C. destruct w; [discriminate|]. simpl.
    rewrite (Nat.eqb_sym u t). reflexivity.
  - unfold is_free in C. simpl in C. destruct w; [discriminate|]. destruct r; [|discriminate]. simpl.
    rewrite (Nat.eqb_sym t u). now rewrite !orb_false_r.
Qed.

Lemma count_remove1 x t l : count x (remove1 t l) = count x l - (if Nat.eqb x t && memb t l then 1 else 0).
Proof.
  induction l as [|y r IH]; simpl; [now destruct (Nat.eqb x t)|].
  destruct (Nat.eqb_spec t y) as [->|Hn].
  - simpl. destruct (Nat.eqb_spec x y); simpl; lia.
  - simpl. rewrite IH. destruct (Nat.eqb_spec x y) as [->|Hxy]; simpl.
    + destruct (Nat.eqb_spec y t); [congruence|]. simpl. lia.
    + reflexivity.
Qed.

Lemma memb_count x l : memb x l = negb (Nat.eqb (count x l) 0).
Proof.
  induction l as [|y r IH]; simpl; [reflexivity|]. destruct (Nat.eqb_spec x y); simpl; [reflexivity|exact IH].
Qed.

(* releasing: the releasing thread no longer holds the lock if it held it at most once; others are unaffected *)
Lemma holds_by_rel1_other u t k m s : u <> t -> wf_rawst s -> held1 t k m s = true ->
  holds_by u (rel1 t k m s) = holds_by u s.
Proof.
  unfold rel1, held1, holds_by, writer_is. destruct s as [w r]. intros Hu Wf. destruct (shared k m); simpl; intros H.
  - f_equal. rewrite !memb_count, count_remove1. destruct (Nat.eqb_spec u t); [congruence|]. simpl. now rewrite Nat.sub_0_r.
  - destruct w as [x|]; [|discriminate]. apply Nat.eqb_eq in H. subst x. unfold wf_rawst in Wf. simpl in Wf.
    rewrite Wf by discriminate. simpl. destruct (Nat.eqb_spec t u); [congruence|reflexivity].
Qed.

Lemma holds_by_rel1_self t k m s : wf_rawst s -> held1 t k m s = true -> count t (readers s) <= 1 ->
  holds_by t (rel1 t k m s) = false.
Proof.
  unfold rel1, held1, holds_by, writer_is. destruct s as [w r]. intros Wf. destruct (shared k m); simpl; intros H Hc.
  - rewrite memb_count, count_remove1, Nat.eqb_refl, H. simpl.
    rewrite memb_count in H. apply negb_true_iff, Nat.eqb_neq in H.
    assert (count t r = 1) by lia. rewrite H0. simpl.
    destruct w as [x|]; [|reflexivity]. unfold wf_rawst in Wf. simpl in Wf. rewrite Wf in H0 by discriminate. discriminate.
  - destruct w as [x|]; [|discriminate]. unfold wf_rawst in Wf. simpl in Wf. now rewrite Wf by discriminate.
Qed.

Lemma wf_acq1 t k m s : can1 k m s = true -> wf_rawst s -> wf_rawst (acq1 t k m s).
Proof.
  unfold can1, acq1, wf_rawst. destruct (shared k m); simpl; intros C W H; [contradiction|reflexivity].
Qed.

Lemma wf_rel1 t k m s : wf_rawst s -> held1 t k m s = true -> wf_rawst (rel1 t k m s).
Proof.
  unfold rel1, held1, wf_rawst. destruct s as [w r]. destruct (shared k m); simpl; intros W H Hw.
  - rewrite W by exact Hw. reflexivity.
  - contradiction.
Qed.

Lemma count_acq1 x t k m s : can1 k m s = true ->
  count x (readers (acq1 t k m s)) = count x (readers s) + (if shared k m && Nat.eqb x t then 1 else 0).
Proof.
  unfold can1, acq1. destruct (shared k m); simpl; intros C.
  - destruct (Nat.eqb x t); lia.
  - unfold is_free in C. destruct s as [w r]. simpl in *. destruct w; [discriminate|]. destruct r; [reflexivity|discriminate].
Qed.

Lemma count_rel1_other x t k m s : x <> t -> count x (readers (rel1 t k m s)) = count x (readers s).
Proof.
  intros Hx. unfold rel1. destruct (shared k m); simpl; [|reflexivity].
  rewrite count_remove1. destruct (Nat.eqb_spec x t); [congruence|]. simpl. lia.
Qed.

Lemma count_rel1_le x t k m s : count x (readers (rel1 t k m s)) <= count x (readers s).
Proof. unfold rel1. destruct (shared k m); simpl; [rewrite count_remove1|]; lia. Qed.

(* ---------------------------------------------------------------- lists of leaves *)
Lemma acq_all_at t m ls f l :
  NoDup (locks_of ls) -> (forall k, In (k, l) ls -> acq_all t m ls f l = acq1 t k m (f l)).
Proof. intros ND k H. now apply acq_all_in. Qed.

Lemma holds_by_acq_all u t m ls f l :
  NoDup (locks_of ls) -> can_all m ls f = true ->
  holds_by u (acq_all t m ls f l) = ((Nat.eqb u t && memb l (locks_of ls)) || holds_by u (f l)).
Proof.
  intros ND C. destruct (in_dec Nat.eq_dec l (locks_of ls)) as [Hin|Hn].
  - destruct (in_locks_of _ _ Hin) as [k Hk]. rewrite (acq_all_in t m ls f k l ND Hk).
    rewrite holds_by_acq1.
    + rewrite (proj2 (memb_In l (locks_of ls)) Hin). now rewrite andb_true_r.
    + unfold can_all in C. rewrite forallb_forall in C. apply (C (k, l) Hk).
  - rewrite acq_all_other by exact Hn.
    assert (M : memb l (locks_of ls) = false).
    { destruct (memb l (locks_of ls)) eqn:E; [|reflexivity]. apply memb_In in E. contradiction. }
    rewrite M, andb_false_r. reflexivity.
Qed.

Lemma wf_acq_all t m ls f :
  NoDup (locks_of ls) -> can_all m ls f = true -> (forall l, wf_rawst (f l)) -> forall l, wf_rawst (acq_all t m ls f l).
Proof.
  intros ND C W l. destruct (in_dec Nat.eq_dec l (locks_of ls)) as [Hin|Hn].
  - destruct (in_locks_of _ _ Hin) as [k Hk]. rewrite (acq_all_in t m ls f k l ND Hk).
    apply wf_acq1; [|apply W]. unfold can_all in C. rewrite forallb_forall in C. apply (C (k, l) Hk).
  - rewrite acq_all_other by exact Hn. apply W.
Qed.

Lemma count_acq_all x t m ls f l :
  NoDup (locks_of ls) -> can_all m ls f = true ->
  count x (readers (acq_all t m ls f l)) <= count x (readers (f l)) + (if Nat.eqb x t && memb l (locks_of ls) then 1 else 0).
Proof.
  intros ND C. destruct (in_dec Nat.eq_dec l (locks_of ls)) as [Hin|Hn].
  - destruct (in_locks_of _ _ Hin) as [k Hk]. rewrite (acq_all_in t m ls f k l ND Hk).
    rewrite count_acq1 by (unfold can_all in C; rewrite forallb_forall in C; apply (C (k, l) Hk)).
    rewrite (proj2 (memb_In l (locks_of ls)) Hin), andb_true_r.
    destruct (shared k m), (Nat.eqb x t); simpl; lia.
  - rewrite acq_all_other by exact Hn. lia.
Qed.

Lemma holds_by_rel_all_other u t m ls f l :
  u <> t -> NoDup (locks_of ls) -> held_all t m ls f = true -> (forall x, wf_rawst (f x)) ->
  holds_by u (rel_all t m ls f l) = holds_by u (f l).
Proof.
  intros Hu ND H W. destruct (in_dec Nat.eq_dec l (locks_of ls)) as [Hin|Hn].
  - destruct (in_locks_of _ _ Hin) as [k Hk]. rewrite (rel_all_in t m ls f k l ND Hk).
    apply holds_by_rel1_other; [exact Hu|apply W|]. eapply held_all_in; eauto.
  - now rewrite rel_all_other.
Qed.

Lemma holds_by_rel_all_self t m ls f l :
  NoDup (locks_of ls) -> held_all t m ls f = true -> (forall x, wf_rawst (f x)) ->
  (forall x, count t (readers (f x)) <= 1) -> In l (locks_of ls) ->
  holds_by t (rel_all t m ls f l) = false.
Proof.
  intros ND H W Hc Hin. destruct (in_locks_of _ _ Hin) as [k Hk]. rewrite (rel_all_in t m ls f k l ND Hk).
  apply holds_by_rel1_self; [apply W| |apply Hc]. eapply held_all_in; eauto.
Qed.

Lemma wf_rel_all t m ls f :
  NoDup (locks_of ls) -> held_all t m ls f = true -> (forall l, wf_rawst (f l)) -> forall l, wf_rawst (rel_all t m ls f l).
Proof.
  intros ND H W l. destruct (in_dec Nat.eq_dec l (locks_of ls)) as [Hin|Hn].
  - destruct (in_locks_of _ _ Hin) as [k Hk]. rewrite (rel_all_in t m ls f k l ND Hk).
    apply wf_rel1; [apply W|]. eapply held_all_in; eauto.
  - rewrite rel_all_other by exact Hn. apply W.
Qed.

Lemma count_rel_all_le x t m ls f l :
  NoDup (locks_of ls) -> count x (readers (rel_all t m ls f l)) <= count x (readers (f l)).
Proof.
  intros ND. destruct (in_dec Nat.eq_dec l (locks_of ls)) as [Hin|Hn].
  - destruct (in_locks_of _ _ Hin) as [k Hk]. rewrite (rel_all_in t m ls f k l ND Hk). apply count_rel1_le.
  - rewrite rel_all_other by exact Hn. lia.
Qed.

(* ---------------------------------------------------------------- the invariant *)
Definition real (sc : scen) (t : tid) : Prop := In t (threads_of (sc_hist sc)).

Definition ghold (lc : tlocal) : list lock :=
  match guard lc with Some g => locks_of (gleaves (g_items g)) | None => [] end.

Definition leaked (sc : scen) (mt : mthread) : list lock :=
  flat_map (fun cm => leaves (shape_of sc (fst cm))) (mt_leak mt).

(* what a history is allowed to mention: collections that can be acquired, without duplicate locks *)
Record wf_hist (sc : scen) : Prop := {
  wh_f1 : sc_f1 sc = [];
  wh_fp : sc_fp sc = [];
  wh_fuel : 2 <= sc_fuel sc;
  wh_colls : forall t c m f, In (t, AAcquire c m f) (sc_hist sc) ->
             exists s, nth_error (sc_colls sc) c = Some s /\ acquirable s = true /\ NoDup (leaves s);
  wh_pre_wf : forall l, wf_rawst (w_raw (sc_world sc) l);
  (* the threads of the history hold nothing at the start (the pre-existing holds belong to other threads) *)
  wh_pre_free : forall t l, real sc t -> holds_by t (w_raw (sc_world sc) l) = false
}.

Record qinv (sc : scen) (h : hstate) (ms : tid -> mthread) : Prop := {
  qi_stop : h_stop h = false;
  qi_quiet : quiet (h_w h);
  qi_wf : forall l, wf_rawst (w_raw (h_w h) l);
  qi_cnt : forall t l, real sc t -> count t (readers (w_raw (h_w h) l)) <= 1;
  qi_guard : forall t m items, guard (h_loc h t) = Some (mkg m items) ->
      real sc t /\ NoDup (locks_of (gleaves items)) /\ held_all t m (gleaves items) (w_raw (h_w h)) = true /\
      exists c, mt_guard (ms t) = Some (c, m) /\ items = gitems (shape_of sc c);
  qi_holds : forall t l, real sc t -> holds_by t (w_raw (h_w h) l) = true ->
      In l (ghold (h_loc h t)) \/ In l (leaked sc (ms t));
  qi_leak : forall t, mt_leak (ms t) <> [] -> mt_key (ms t) = KLeaked;
  qi_J : J h ms
}.

Lemma count_zero_not_holding t s : holds_by t s = false -> count t (readers s) = 0.
Proof.
  unfold holds_by. intros H. apply orb_false_iff in H. destruct H as [_ H].
  rewrite memb_count in H. apply negb_false_iff, Nat.eqb_eq in H. exact H.
Qed.

Lemma qinv_init sc : wf_hist sc -> qinv sc (mkh (sc_world sc) (fun _ => tl0) false) (fun _ => mt0).
Proof.
  intros W. constructor; cbn [h_w h_loc h_stop].
  - reflexivity.
  - unfold sc_world. repeat split; cbn; [apply (wh_f1 _ W)|apply (wh_fp _ W)].
  - apply (wh_pre_wf _ W).
  - intros t l R. rewrite (count_zero_not_holding t _ (wh_pre_free _ W t l R)). lia.
  - intros t m items H. discriminate H.
  - intros t l R H. rewrite (wh_pre_free _ W t l R) in H. discriminate.
  - intros t H. exfalso. apply H. reflexivity.
  - intros x. split; [reflexivity|]. unfold Rk. cbn. split; [discriminate|reflexivity].
Qed.

(* a thread with the key in hand holds nothing *)
Lemma haskey_holds_nothing sc h ms t :
  qinv sc h ms -> real sc t -> haskey (h_loc h t) = true -> forall l, holds_by t (w_raw (h_w h) l) = false.
Proof.
  intros Q R Hk l. destruct (holds_by t (w_raw (h_w h) l)) eqn:E; [|reflexivity]. exfalso.
  destruct (qi_J _ _ _ Q t) as [_ HR]. unfold Rk in HR. rewrite Hk in HR.
  destruct (guard (h_loc h t)) eqn:G; [contradiction|]. destruct HR as [Hkey _].
  destruct (qi_holds _ _ _ Q t l R E) as [H|H].
  - unfold ghold in H. rewrite G in H. destruct H.
  - unfold leaked in H. destruct (mt_leak (ms t)) eqn:L; [destruct H|].
    assert (X : mt_key (ms t) = KLeaked) by (apply (qi_leak _ _ _ Q); rewrite L; discriminate). congruence.
Qed.

Lemma existsb_map_false {A B} (f : A -> B) (p : B -> bool) l :
  (forall x, In x l -> p (f x) = false) -> existsb p (map f l) = false.
Proof.
  induction l as [|a r IH]; intros H; simpl; [reflexivity|].
  rewrite H by (now left). apply IH. intros x Hx. apply H. now right.
Qed.

Lemma thread_holds_false t nl w :
  (forall l, holds_by t (w_raw w l) = false) -> thread_holds t (snapshot_holds nl w) = false.
Proof.
  intros H. unfold thread_holds, snapshot_holds. rewrite existsb_map_false; [reflexivity|]. intros l _. apply H.
Qed.

(* ---------------------------------------------------------------- what one call does to the hold table *)
Definition raw_after (sc : scen) (t : tid) (lc : tlocal) (o : apiop) (rc : rcode) (f : St) : St :=
  match o with
  | AAcquire c m (FGuard | FTry) =>
      match rc with ROk | RPoisoned => acq_all t m (kleaves (shape_of sc c)) f | _ => f end
  | AGuardDrop | AGuardUnlock | APanic =>
      match guard lc with Some g => rel_all t (g_mode g) (gleaves (g_items g)) f | None => f end
  | _ => f
  end.

Definition got_guard (o : apiop) (rc : rcode) : bool :=
  match o, rc with
  | AAcquire _ _ (FGuard | FTry), (ROk | RPoisoned) => true
  | _, _ => false
  end.

Lemma shape_of_coll sc c s : coll (sc_env sc) c = Some s -> shape_of sc c = s.
Proof. unfold coll, shape_of. cbn [sc_env e_colls]. now intros ->. Qed.

Lemma run_poison_result_any t s w :
  exists n, run nopw t (poison_result s) w = (ODone (VNat n), w) /\ (n = 0 \/ n = 2).
Proof.
  unfold poison_result. destruct (root_poison s); [|exists 0; split; [reflexivity|now left]].
  cbn [run do_op]. destruct (vtrue (VBool (w_psn w p))); [exists 2|exists 0]; (split; [reflexivity|tauto]).
Qed.

(* the non-acquiring calls are made of non-blocking operations only *)
Lemma nonacq_nb e lc o p : is_nonacq o = true -> api_prog e lc o = Some p -> ops_in nbop p.
Proof.
  destruct o; cbn [is_nonacq]; try discriminate; intros _; cbn [api_prog].
  - intros H. inversion H. constructor; [exact I|]. intros v. constructor.
  - destruct (haskey lc); [|discriminate]. intros H. inversion H. apply ops_in_op_. exact I.
  - destruct (haskey lc); [|discriminate]. intros H. inversion H. constructor.
  - destruct (guard lc) as [g|]; [|discriminate]. intros H. inversion H. cbn [cs_prog].
    destruct (nth_leaf (g_items g) pos) as [[k l]|]; [apply ops_in_op_; exact I|constructor].
  - destruct (coll e c) as [[| | | | | |q s']|]; try discriminate. intros H. inversion H.
    constructor; [exact I|]. intros v. constructor.
  - destruct (coll e c) as [[| | | | | |q s']|]; try discriminate. intros H. inversion H. apply ops_in_op_. exact I.
  - destruct (coll e c) as [s|]; [|discriminate]. intros H. inversion H. apply fmt_list_nb.
Qed.

Lemma quiet_set_keyf w t b : quiet w -> quiet (set_keyf w t b).
Proof. intros [A [B C]]. repeat split; assumption. Qed.
Lemma quiet_set_psn w p b : quiet w -> quiet (set_psn w p b).
Proof. intros [A [B C]]. repeat split; assumption. Qed.

Definition guard_ok (t : tid) (lc : tlocal) (w : world) : Prop :=
  forall m items, guard lc = Some (mkg m items) ->
    NoDup (locks_of (gleaves items)) /\ held_all t m (gleaves items) (w_raw w) = true.

Definition coll_ok (sc : scen) (o : apiop) : Prop :=
  forall c m f, o = AAcquire c m f -> forall s, coll (sc_env sc) c = Some s -> acquirable s = true /\ NoDup (leaves s).

(* events of the acquisition / release algorithms and of the key: never a closure-entry marker *)
Definition nomark_ev (e : ev) : Prop := match e with EMark _ _ => False | _ => True end.
Definition nomarkop (o : op) : Prop := match o with OMark _ => False | _ => True end.

Lemma run_nomark pw t p w out w' :
  ops_in nomarkop p -> run pw t p w = (out, w') -> exists evs, w_trace w' = evs ++ w_trace w /\ Forall nomark_ev evs.
Proof.
  intros Ho R.
  destruct (run_ops_inv pw t nomarkop (fun _ => True) nomark_ev) with (p := p) (w := w) (out := out) (w' := w') as [_ H]; auto.
  intros o w1 Ao _. destruct o; simpl in Ao |- *; try contradiction;
    try (split; [exact I|exists []; split; [reflexivity|constructor]]);
    try (split; [exact I|eexists [_]; split; [reflexivity|repeat constructor]]).
  destruct (faulty w1 k l); [split; [exact I|eexists [_]; split; [reflexivity|repeat constructor]]|].
  destruct (raw_apply t k (w_raw w1 l) (pw l)); (split; [exact I|eexists [_]; split; [reflexivity|repeat constructor]]).
Qed.

Lemma alg_nomark p : ops_in alg_op p -> ops_in nomarkop p.
Proof. apply ops_in_weaken. intros o. destruct o; simpl; tauto. Qed.

(* what a scoped call that ran its closure looks like: the acquisition [w -> w1] (accounted, marker free, ending with every
   leaf taken on top of the table as it was), the closure-entry marker, user events [-> w2], then neither an acquisition
   nor a marker *)
Definition scoped_shape (sc : scen) (t : tid) (c : nat) (m : mode) (body : list csop) (w w' : world) : Prop :=
  exists w1 w2 evA evR,
    w_trace w1 = evA ++ w_trace w /\ Forall nomark_ev evA /\ Forall (by_thread t) evA /\ Forall rel_res_ok evA /\
    Forall norel_ev evA /\
    (forall l, hc t (w_raw w1 l) + releases_of l evA = hc t (w_raw w l) + acquires_of l evA) /\
    (forall x, w_raw w1 x = acq_all t m (kleaves (shape_of sc c)) (w_raw w) x) /\
    run nopw t (closure m (gitems (shape_of sc c)) body) w1 = ((if existsb is_cpanic body then OPanic else ODone VUnit), w2) /\
    frame (emit w1 (EMark t 1)) w2 /\ w_trace w' = evR ++ w_trace w2 /\ Forall tail_ev evR /\
    can_all m (kleaves (shape_of sc c)) (w_raw w) = true.

Definition is_scoped (o : apiop) : option (nat * mode * list csop) :=
  match o with AAcquire c m (FScoped _ b | FScopedTry _ b) => Some (c, m, b) | _ => None end.

(* what a call does to the Poisonable flags, what it shows of them, and how they decide its result *)
Definition psn_after (sc : scen) (lc : tlocal) (o : apiop) (rc : rcode) (f : pid -> bool) : pid -> bool :=
  match o with
  | APanic => match guard lc with Some g => set_psn_all f (gpoisons (g_items g)) | None => f end
  | AAcquire c _ (FScoped _ _ | FScopedTry _ _) =>
      match rc with
      | RPanicked => match root_poison (shape_of sc c) with Some p => upd f p true | None => f end
      | _ => f
      end
  | AClearPoison c => match root_poison (shape_of sc c) with Some p => upd f p false | None => f end
  | _ => f
  end.

Definition poison_facts (sc : scen) (lc : tlocal) (o : apiop) (w : world) (out : outcome) (w' : world) : Prop :=
  let rc := snd (api_fin (sc_env sc) lc o out) in
  (stop_code rc = false -> forall x, w_psn w' x = psn_after sc lc o rc (w_psn w) x) /\
  match o with
  | AAcquire c m f =>
      (rc = ROk \/ rc = RPoisoned \/ rc = RPanicked ->
       exists evs, w_trace w' = evs ++ w_trace w /\
                   see_bools (rev evs) = map (w_psn w) (gpoisons (gitems (shape_of sc c)))) /\
      (rc = RWouldBlock \/ rc = RBlockedC \/
       rc = match f with
            | FGuard | FTry => match root_poison (shape_of sc c) with
                               | Some p => if w_psn w p then RPoisoned else ROk
                               | None => ROk
                               end
            | FScoped _ b | FScopedTry _ b => if existsb is_cpanic b then RPanicked else ROk
            end)
  | AIsPoisoned c => match root_poison (shape_of sc c) with Some p => rc = RB (w_psn w p) | None => True end
  | AClearPoison _ => rc = ROk
  | _ => True
  end.

Record call_out (sc : scen) (t : tid) (lc : tlocal) (o : apiop) (w : world) (out : outcome) (w' : world) : Prop := {
  cq_stop : stop_code (snd (api_fin (sc_env sc) lc o out)) = true -> is_acquire o = true;
  cq_quiet : stop_code (snd (api_fin (sc_env sc) lc o out)) = false -> quiet w';
  cq_raw : stop_code (snd (api_fin (sc_env sc) lc o out)) = false ->
           forall x, w_raw w' x = raw_after sc t lc o (snd (api_fin (sc_env sc) lc o out)) (w_raw w) x;
  cq_can : forall c m f, o = AAcquire c m f -> got_guard o (snd (api_fin (sc_env sc) lc o out)) = true ->
           can_all m (kleaves (shape_of sc c)) (w_raw w) = true;
  cq_clean : stop_code (snd (api_fin (sc_env sc) lc o out)) = false ->
             exists evs, w_trace w' = evs ++ w_trace w /\ Forall clean_ev evs;
  cq_scoped : forall c m b, is_scoped o = Some (c, m, b) ->
              match snd (api_fin (sc_env sc) lc o out) with
              | ROk | RPanicked => scoped_shape sc t c m b w w'
              | _ => exists evs, w_trace w' = evs ++ w_trace w /\ Forall nomark_ev evs
              end;
  (* whatever the outcome (a call cut because it has to wait included): no release by a non-holder *)
  cq_nobad : exists evs, w_trace w' = evs ++ w_trace w /\ Forall nobad_ev evs;
  cq_poison : poison_facts sc lc o w out w';
  (* a closure that panics makes the call panic *)
  cq_nook : forall c m lent body,
              (o = AAcquire c m (FScoped lent body) \/ o = AAcquire c m (FScopedTry lent body)) ->
              existsb is_cpanic body = true -> snd (api_fin (sc_env sc) lc o out) <> ROk
}.


Lemma clean_nil w : exists evs, w_trace w = evs ++ w_trace w /\ Forall clean_ev evs.
Proof. exists []. split; [reflexivity|constructor]. Qed.

Lemma clean_trans (a b c : world) :
  (exists evs, w_trace b = evs ++ w_trace a /\ Forall clean_ev evs) ->
  (exists evs, w_trace c = evs ++ w_trace b /\ Forall clean_ev evs) ->
  exists evs, w_trace c = evs ++ w_trace a /\ Forall clean_ev evs.
Proof.
  intros [e1 [T1 F1]] [e2 [T2 F2]]. exists (e2 ++ e1). split; [rewrite T2, T1; now rewrite app_assoc|apply Forall_app; now split].
Qed.

Lemma frame_clean a b : frame a b -> exists evs, w_trace b = evs ++ w_trace a /\ Forall clean_ev evs.
Proof.
  intros F. destruct (fr_tr _ _ F) as [evs [T U]]. exists evs. split; [exact T|].
  eapply Forall_impl; [|exact U]. intros e He. destruct e; simpl in *; tauto.
Qed.


Lemma clean_to_nobad (w w' : world) :
  (exists evs, w_trace w' = evs ++ w_trace w /\ Forall clean_ev evs) ->
  exists evs, w_trace w' = evs ++ w_trace w /\ Forall nobad_ev evs.
Proof.
  intros [evs [T F]]. exists evs. split; [exact T|]. eapply Forall_impl; [|exact F].
  intros e He. destruct e as [t0 k l r| | | |]; try exact I. destruct r; simpl in *; tauto.
Qed.

(* a blocked acquisition blocks the whole scoped call *)
Lemma run_scoped_rest_blocked t m s a lent body acq w w1 :
  run nopw t acq w = (OBlocked, w1) ->
  run nopw t (scoped_rest m s a lent body acq) w = (OBlocked, w1).
Proof.
  intros R. unfold scoped_rest. destruct (root_poison s); unfold with_key, pthen; cbn [run]; rewrite R; reflexivity.
Qed.


(* the poison facts of a guard acquisition that went through: acquisition [w -> w1] (no wrapper observation, flags
   untouched), then a look at every wrapper [w1 -> w2], then the result code from the root wrapper's flag *)
Lemma guard_poison_facts sc lc c m f s w w1 w2 n (evA : list ev) :
  (f = FGuard \/ f = FTry) ->
  shape_of sc c = s ->
  w_trace w1 = evA ++ w_trace w -> Forall nosee_ev evA -> (forall x, w_psn w1 x = w_psn w x) ->
  w_trace w2 = rev (map (fun p => ESee 0 (w_psn w1 p)) (gpoisons (gitems s))) ++ w_trace w1 \/
  (exists t, w_trace w2 = rev (map (fun p => ESee t (w_psn w1 p)) (gpoisons (gitems s))) ++ w_trace w1) ->
  (forall x, w_psn w2 x = w_psn w1 x) ->
  n = match root_poison s with Some p => if w_psn w2 p then 2 else 0 | None => 0 end ->
  poison_facts sc lc (AAcquire c m f) w (ODone (VNat n)) w2.
Proof.
  intros Hf Hs TA FA PA TS PS Hn.
  assert (TS' : exists t, w_trace w2 = rev (map (fun p => ESee t (w_psn w1 p)) (gpoisons (gitems s))) ++ w_trace w1)
    by (destruct TS as [X|X]; [now exists 0|exact X]).
  destruct TS' as [t T2].
  assert (Erc : snd (api_fin (sc_env sc) lc (AAcquire c m f) (ODone (VNat n))) =
                match root_poison s with Some p => if w_psn w p then RPoisoned else ROk | None => ROk end).
  { rewrite Hn. destruct (root_poison s) as [p|]; [|destruct Hf as [-> | ->]; reflexivity].
    rewrite PS, PA. destruct (w_psn w p); destruct Hf as [-> | ->]; reflexivity. }
  unfold poison_facts. cbn zeta. rewrite Erc, Hs. split; [|split].
  - intros _ x. destruct Hf as [-> | ->]; cbn [psn_after]; now rewrite PS, PA.
  - intros _. exists (rev (map (fun p => ESee t (w_psn w1 p)) (gpoisons (gitems s))) ++ evA). split.
    + rewrite T2, TA. now rewrite <- app_assoc.
    + rewrite rev_app_distr, see_bools_app, see_bools_rev_map.
      rewrite (see_bools_nosee (rev evA)) by (now apply Forall_rev). cbn [app].
      apply map_ext. exact PA.
  - right. right. destruct Hf as [-> | ->]; reflexivity.
Qed.

Section CallAcq.
  Variables (sc : scen) (t : tid) (lc : tlocal) (c : nat) (m : mode) (s : shape) (w : world).
  Hypothesis Q : quiet w.
  Hypothesis Hf : 2 <= sc_fuel sc.
  Hypothesis Hc : coll (sc_env sc) c = Some s.
  Hypothesis Ha : acquirable s = true.
  Hypothesis ND : NoDup (leaves s).
  Let e := sc_env sc.
  Let a := alg_of (e_am e) s.

  Lemma call_acq_guard out w' :
    run nopw t (with_key true false (raw_lock (e_fuel e) m a ;; see_all (gpoisons (gitems s)) ;; poison_result s)) w = (out, w') ->
    call_out sc t lc (AAcquire c m FGuard) w out w'.
  Proof.
    intros R. pose proof (raw_lock_all_or_wait t m (e_am e) s Ha ND (e_fuel e) w Q Hf) as L.
    destruct (can_all m (kleaves s) (w_raw w)) eqn:Can.
    - destruct L as [w1 [R1 E1]].
      destruct (run_see_all_exact t (gpoisons (gitems s)) w1) as [w2 [R2 [T2 [P2 F2]]]].
      set (n := match root_poison s with Some p => if w_psn w2 p then 2 else 0 | None => 0 end).
      pose proof (run_poison_result_exact t s w2) as R3. fold n in R3.
      assert (Hn : n = 0 \/ n = 2) by (unfold n; destruct (root_poison s) as [p|]; [destruct (w_psn w2 p)|]; auto).
      assert (E2 : eff w1 w2 (w_raw w1)).
      { destruct F2. constructor; auto. destruct fr_tr as [evs [T U]]. exists evs. split; [exact T|].
        eapply Forall_impl; [|exact U]. intros e0 He. destruct e0; simpl in *; tauto. }
      assert (Rc : run nopw t (with_key true false (raw_lock (e_fuel e) m a ;; see_all (gpoisons (gitems s)) ;; poison_result s)) w
                   = (ODone (VNat n), w2)).
      { apply (run_with_key_done nopw t true false _ w (VNat n) w2).
        rewrite (run_then_done _ _ _ _ _ VUnit w1) by exact R1.
        rewrite (run_then_done _ _ _ _ _ _ _ R2). exact R3. }
      rewrite Rc in R. inversion R; subst out w'. clear R.
      assert (Fin : snd (api_fin e lc (AAcquire c m FGuard) (ODone (VNat n))) = (if Nat.eqb n 2 then RPoisoned else ROk)).
      { destruct Hn as [-> | ->]; reflexivity. }
      assert (PF : poison_facts sc lc (AAcquire c m FGuard) w (ODone (VNat n)) w2).
      { destruct (eff_tr _ _ _ E1) as [evA [TA _]].
        destruct (run_nosee nopw t _ _ _ _ (alg_nosee _ (raw_lock_ops (e_fuel e) m a)) R1) as [evA' [TA' FA']].
        assert (evA' = evA) by (rewrite TA in TA'; now apply app_inv_tail in TA'). subst evA'.
        apply (guard_poison_facts sc lc c m FGuard s w w1 w2 n evA); auto.
        - apply (shape_of_coll _ _ _ Hc).
        - apply (eff_psn _ _ _ E1).
        - right. now exists t. }
      constructor; fold e; rewrite ?Fin.
      + destruct (Nat.eqb n 2); discriminate.
      + intros _. eapply eff_quiet; [exact E2|]. eapply eff_quiet; [exact E1|exact Q].
      + intros _ x. rewrite (eff_raw _ _ _ E2), (eff_raw _ _ _ E1). cbn [raw_after].
        rewrite (shape_of_coll _ _ _ Hc). destruct (Nat.eqb n 2); reflexivity.
      + intros c' m' f' Heq _. inversion Heq; subst. rewrite (shape_of_coll _ _ _ Hc). exact Can.
      + intros _. apply (eff_tr _ _ _ (eff_trans _ _ _ _ _ E1 E2)).
      + intros c' m' b' X; discriminate X.
      + apply clean_to_nobad, (eff_tr _ _ _ (eff_trans _ _ _ _ _ E1 E2)).
      + exact PF.
      + intros c' m' l' b' [X|X] _; discriminate X.
    - destruct L as [w1 R1].
      assert (Rc : run nopw t (with_key true false (raw_lock (e_fuel e) m a ;; see_all (gpoisons (gitems s)) ;; poison_result s)) w
                   = (OBlocked, w1)).
      { unfold with_key, pthen. cbn [run]. fold a in R1. rewrite R1. reflexivity. }
      rewrite Rc in R. inversion R; subst out w'. clear R.
      constructor; cbn [api_fin snd stop_code]; try (intros H; discriminate H); try reflexivity.
      + intros c' m' f' _ H. discriminate H.
      + intros c' m' b' X; discriminate X.
      + fold a in R1. apply (raw_lock_nobad t m (e_am e) s (e_fuel e) w _ _ Ha ND Q Hf R1).
      + unfold poison_facts. cbn [api_fin snd stop_code]. split; [intros X; discriminate X|].
        split; [intros [X|[X|X]]; discriminate X|]. right. now left.
      + intros c' m' l' b' [X|X] _; discriminate X.
  Qed.
End CallAcq.


(* the poison facts of a scoped call that ran its closure *)
Lemma scoped_poison_facts sc lc c m f lent body s t w wa wb w2 (evA evR : list ev) :
  (f = FScoped lent body \/ f = FScopedTry lent body) ->
  shape_of sc c = s ->
  w_trace wa = evA ++ w_trace w -> Forall nosee_ev evA -> (forall x, w_psn wa x = w_psn w x) ->
  run nopw t (closure m (gitems s) body) wa = ((if existsb is_cpanic body then OPanic else ODone VUnit), wb) ->
  w_trace w2 = evR ++ w_trace wb -> Forall tail_ev evR ->
  (forall x, w_psn w2 x = match root_poison s with
                          | Some p => if existsb is_cpanic body then upd (w_psn w) p true x else w_psn w x
                          | None => w_psn w x
                          end) ->
  poison_facts sc lc (AAcquire c m f) w (if existsb is_cpanic body then OPanic else ODone (VNat 0)) w2.
Proof.
  intros Hf Hs TA FA PA Rcl TR FR P2.
  assert (Erc : snd (api_fin (sc_env sc) lc (AAcquire c m f) (if existsb is_cpanic body then OPanic else ODone (VNat 0))) =
                if existsb is_cpanic body then RPanicked else ROk).
  { destruct (existsb is_cpanic body); destruct Hf as [-> | ->]; reflexivity. }
  unfold poison_facts. cbn zeta. rewrite Erc, Hs. split; [|split].
  - intros _ x. rewrite P2.
    destruct Hf as [-> | ->]; cbn [psn_after]; rewrite Hs; destruct (existsb is_cpanic body); destruct (root_poison s); reflexivity.
  - intros _. destruct (run_closure_see t m (gitems s) body wa _ wb Rcl) as [U [TU SU]].
    exists (evR ++ U ++ EMark t 1 :: evA). split.
    + rewrite TR, TU, TA. rewrite <- !app_assoc. reflexivity.
    + rewrite !rev_app_distr. cbn [rev]. rewrite !see_bools_app. cbn [see_bools app].
      rewrite (see_bools_nosee (rev evA)) by (now apply Forall_rev).
      rewrite (see_bools_nosee (rev evR)) by (apply Forall_rev; eapply Forall_impl; [|exact FR]; apply tail_nosee).
      rewrite SU, app_nil_r. cbn [app]. apply map_ext. exact PA.
  - right. right. destruct Hf as [-> | ->]; reflexivity.
Qed.

Section CallAcq2.
  Variables (sc : scen) (t : tid) (lc : tlocal) (c : nat) (m : mode) (s : shape) (w : world).
  Hypothesis Q : quiet w.
  Hypothesis Hf : 2 <= sc_fuel sc.
  Hypothesis Hc : coll (sc_env sc) c = Some s.
  Hypothesis Ha : acquirable s = true.
  Hypothesis ND : NoDup (leaves s).
  Let e := sc_env sc.
  Let a := alg_of (e_am e) s.

  Lemma call_acq_try out w' :
    run nopw t (with_key true false
                  (Bind (raw_try m a)
                        (fun v => if vtrue v then see_all (gpoisons (gitems s)) ;; poison_result s else Ret (VNat 1)))) w = (out, w') ->
    call_out sc t lc (AAcquire c m FTry) w out w'.
  Proof.
    intros R. destruct (run_raw_try t m (e_am e) s w Q Ha ND) as [w1 [R1 E1]]. fold a in R1.
    destruct (can_all m (kleaves s) (w_raw w)) eqn:Can.
    - destruct (run_see_all_exact t (gpoisons (gitems s)) w1) as [w2 [R2 [T2 [P2 F2]]]].
      set (n := match root_poison s with Some p => if w_psn w2 p then 2 else 0 | None => 0 end).
      pose proof (run_poison_result_exact t s w2) as R3. fold n in R3.
      assert (Hn : n = 0 \/ n = 2) by (unfold n; destruct (root_poison s) as [p|]; [destruct (w_psn w2 p)|]; auto).
      assert (E2 : eff w1 w2 (w_raw w1)).
      { destruct F2. constructor; auto. destruct fr_tr as [evs [T U]]. exists evs. split; [exact T|].
        eapply Forall_impl; [|exact U]. intros e0 He. destruct e0; simpl in *; tauto. }
      assert (Rc : run nopw t (with_key true false
                  (Bind (raw_try m a)
                        (fun v => if vtrue v then see_all (gpoisons (gitems s)) ;; poison_result s else Ret (VNat 1)))) w
                   = (ODone (VNat n), w2)).
      { apply (run_with_key_done nopw t true false _ w (VNat n) w2).
        rewrite (run_bind_done _ _ _ _ _ _ _ R1). cbn [vtrue].
        rewrite (run_then_done _ _ _ _ _ _ _ R2). exact R3. }
      rewrite Rc in R. inversion R; subst out w'. clear R.
      assert (Fin : snd (api_fin e lc (AAcquire c m FTry) (ODone (VNat n))) = (if Nat.eqb n 2 then RPoisoned else ROk)).
      { destruct Hn as [-> | ->]; reflexivity. }
      assert (PF : poison_facts sc lc (AAcquire c m FTry) w (ODone (VNat n)) w2).
      { destruct (eff_tr _ _ _ E1) as [evA [TA _]].
        destruct (run_nosee nopw t _ _ _ _ (alg_nosee _ (raw_try_ops m a)) R1) as [evA' [TA' FA']].
        assert (evA' = evA) by (rewrite TA in TA'; now apply app_inv_tail in TA'). subst evA'.
        apply (guard_poison_facts sc lc c m FTry s w w1 w2 n evA); auto.
        - apply (shape_of_coll _ _ _ Hc).
        - apply (eff_psn _ _ _ E1).
        - right. now exists t. }
      constructor; fold e; rewrite ?Fin.
      + destruct (Nat.eqb n 2); discriminate.
      + intros _. eapply eff_quiet; [exact E2|]. eapply eff_quiet; [exact E1|exact Q].
      + intros _ x. rewrite (eff_raw _ _ _ E2), (eff_raw _ _ _ E1). cbn [raw_after].
        rewrite (shape_of_coll _ _ _ Hc). destruct (Nat.eqb n 2); reflexivity.
      + intros c' m' f' Heq _. inversion Heq; subst. rewrite (shape_of_coll _ _ _ Hc). exact Can.
      + intros _. apply (eff_tr _ _ _ (eff_trans _ _ _ _ _ E1 E2)).
      + intros c' m' b' X; discriminate X.
      + apply clean_to_nobad, (eff_tr _ _ _ (eff_trans _ _ _ _ _ E1 E2)).
      + exact PF.
      + intros c' m' l' b' [X|X] _; discriminate X.
    - assert (Rc : run nopw t (with_key true false
                  (Bind (raw_try m a)
                        (fun v => if vtrue v then see_all (gpoisons (gitems s)) ;; poison_result s else Ret (VNat 1)))) w
                   = (ODone (VNat 1), w1)).
      { apply (run_with_key_done nopw t true false _ w (VNat 1) w1).
        rewrite (run_bind_done _ _ _ _ _ _ _ R1). reflexivity. }
      rewrite Rc in R. inversion R; subst out w'. clear R.
      constructor; cbn [api_fin snd stop_code].
      + intros H; discriminate H.
      + intros _. eapply eff_quiet; [exact E1|exact Q].
      + intros _ x. rewrite (eff_raw _ _ _ E1). reflexivity.
      + intros c' m' f' _ H. discriminate H.
      + intros _. apply (eff_tr _ _ _ E1).
      + intros c' m' b' X; discriminate X.
      + apply clean_to_nobad, (eff_tr _ _ _ E1).
      + unfold poison_facts. cbn [api_fin snd stop_code psn_after]. split; [intros _ x; apply (eff_psn _ _ _ E1)|].
        split; [intros [X|[X|X]]; discriminate X|]. now left.
      + intros c' m' l' b' [X|X] _; discriminate X.
  Qed.

  Lemma call_acq_scoped lent body out w' :
    run nopw t (scoped_rest m s a lent body (raw_lock (e_fuel e) m a)) w = (out, w') ->
    call_out sc t lc (AAcquire c m (FScoped lent body)) w out w'.
  Proof.
    intros R. destruct (can_all m (kleaves s) (w_raw w)) eqn:Can.
    - destruct (scoped_call_quiet t m (e_am e) s Ha ND (e_fuel e) lent body w Q Hf Can)
        as [w2 [R2 [E2 [_ [_ [wa [wb [evR [Ra [Ea [Rcl [Fb [Tb Ftl]]]]]]]]]]]]].
      fold a in R2. rewrite R2 in R. inversion R; subst out w'. clear R.
      assert (Fin : stop_code (snd (api_fin e lc (AAcquire c m (FScoped lent body))
                                   (if existsb is_cpanic body then OPanic else ODone (VNat 0)))) = false).
      { destruct (existsb is_cpanic body); reflexivity. }
      constructor; fold e.
      + rewrite Fin. discriminate.
      + intros _. eapply effp_quiet; [exact E2|exact Q].
      + intros _ x. rewrite (ep_raw _ _ _ _ E2). reflexivity.
      + intros c' m' f' _ H. destruct (existsb is_cpanic body); discriminate H.
      + intros _. apply (ep_tr _ _ _ _ E2).
      + intros c' m' b' X. cbn [is_scoped] in X. inversion X; subst c' m' b'.
        assert (Sh : scoped_shape sc t c m body w w2).
        { destruct (run_acct nopw t _ _ _ _ Ra) as [evA [TA [FA HA]]].
          destruct (run_nomark nopw t _ _ _ _ (alg_nomark _ (raw_lock_ops (e_fuel e) m (alg_of (e_am e) s))) Ra) as [evA' [TA' FA']].
          assert (evA' = evA) by (rewrite TA in TA'; now apply app_inv_tail in TA'). subst evA'.
          destruct (run_rel_res nopw t _ _ _ _ Ra) as [evA'' [TA'' FA'']].
          assert (evA'' = evA) by (rewrite TA in TA''; now apply app_inv_tail in TA''). subst evA''.
          destruct (raw_lock_ok_norel t m (e_am e) s (e_fuel e) w _ _ Ha ND Q Hf Can Ra) as [evN [TN FN]].
          assert (evN = evA) by (rewrite TA in TN; now apply app_inv_tail in TN). subst evN.
          exists wa, wb, evA, evR. split; [exact TA|]. split; [exact FA'|]. split; [exact FA|]. split; [exact FA''|]. split; [exact FN|]. split; [exact HA|].
          split; [intros x; rewrite (eff_raw _ _ _ Ea); now rewrite (shape_of_coll _ _ _ Hc)|].
          split; [rewrite (shape_of_coll _ _ _ Hc); exact Rcl|].
          split; [exact Fb|]. split; [exact Tb|]. split; [exact Ftl|]. rewrite (shape_of_coll _ _ _ Hc). exact Can. }
        destruct (existsb is_cpanic body); exact Sh.
      + apply clean_to_nobad, (ep_tr _ _ _ _ E2).
      + destruct (eff_tr _ _ _ Ea) as [evA [TA _]].
        destruct (run_nosee nopw t _ _ _ _ (alg_nosee _ (raw_lock_ops (e_fuel e) m (alg_of (e_am e) s))) Ra) as [evA' [TA' FA']].
        assert (evA' = evA) by (rewrite TA in TA'; now apply app_inv_tail in TA'). subst evA'.
        apply (scoped_poison_facts sc lc c m (FScoped lent body) lent body s t w wa wb w2 evA evR); auto.
        * apply (shape_of_coll _ _ _ Hc).
        * apply (eff_psn _ _ _ Ea).
        * intros x. rewrite (ep_psn _ _ _ _ E2). destruct (root_poison s); [destruct (existsb is_cpanic body)|]; reflexivity.
      + intros c' m' l' b' [X|X] Hp; inversion X; subst. rewrite Hp. discriminate.
    - pose proof (raw_lock_all_or_wait t m (e_am e) s Ha ND (e_fuel e) w Q Hf) as L. rewrite Can in L.
      destruct L as [w1 R1]. fold a in R1.
      rewrite (run_scoped_rest_blocked _ _ _ _ _ _ _ _ _ R1) in R. inversion R; subst out w'. clear R.
      constructor; cbn [api_fin snd stop_code]; try (intros H; discriminate H); try reflexivity.
      + intros c' m' f' _ H. discriminate H.
      + intros c' m' b' _. apply (run_nomark nopw t _ _ _ _ (alg_nomark _ (raw_lock_ops (e_fuel e) m a)) R1).
      + apply (raw_lock_nobad t m (e_am e) s (e_fuel e) w _ _ Ha ND Q Hf R1).
      + unfold poison_facts. cbn [api_fin snd stop_code]. split; [intros X; discriminate X|].
        split; [intros [X|[X|X]]; discriminate X|]. right. now left.
      + intros c' m' l' b' _ _. discriminate.
  Qed.

  Lemma call_acq_scoped_try lent body out w' :
    run nopw t (Bind (with_key (negb lent) false (raw_try m a))
                     (fun v => if vtrue v then scoped_rest m s a lent body skip else Ret (VNat 1))) w = (out, w') ->
    call_out sc t lc (AAcquire c m (FScopedTry lent body)) w out w'.
  Proof.
    intros R. destruct (run_raw_try t m (e_am e) s w Q Ha ND) as [w1 [R1 E1]]. fold a in R1.
    pose proof (run_with_key_done nopw t (negb lent) false _ _ _ _ R1) as Rk. cbn iota in Rk.
    rewrite (run_bind_done _ _ _ _ _ _ _ Rk) in R. cbn [vtrue] in R.
    assert (Q1 : quiet w1) by (eapply eff_quiet; [exact E1|exact Q]).
    destruct (can_all m (kleaves s) (w_raw w)) eqn:Can.
    - assert (Ep : effp w1 w1 (acq_all t m (kleaves s) (w_raw w)) (w_psn w1)).
      { constructor; auto. - apply (eff_raw _ _ _ E1). - exists []. split; [reflexivity|constructor]. }
      destruct (run_scoped_rest_quiet t m (e_am e) s lent body Ha ND skip w1 VUnit w1 (w_raw w) Q1 eq_refl Ep
                  (fun x => eq_refl) Can) as [w2 [R2 [E2 [_ [_ [wb [evR [Rcl [Fb [Tb Ftl]]]]]]]]]].
      fold a in R2. rewrite R2 in R. inversion R; subst out w'. clear R.
      assert (Fin : stop_code (snd (api_fin e lc (AAcquire c m (FScopedTry lent body))
                                   (if existsb is_cpanic body then OPanic else ODone (VNat 0)))) = false).
      { destruct (existsb is_cpanic body); reflexivity. }
      constructor; fold e.
      + rewrite Fin. discriminate.
      + intros _. eapply effp_quiet; [exact E2|exact Q1].
      + intros _ x. rewrite (ep_raw _ _ _ _ E2). reflexivity.
      + intros c' m' f' _ H. destruct (existsb is_cpanic body); discriminate H.
      + intros _. apply (clean_trans w w1 w2); [apply (eff_tr _ _ _ E1)|apply (ep_tr _ _ _ _ E2)].
      + intros c' m' b' X. cbn [is_scoped] in X. inversion X; subst c' m' b'.
        assert (Sh : scoped_shape sc t c m body w w2).
        { destruct (run_acct nopw t _ _ _ _ R1) as [evA [TA [FA HA]]].
          destruct (run_nomark nopw t _ _ _ _ (alg_nomark _ (raw_try_ops m (alg_of (e_am e) s))) R1) as [evA' [TA' FA']].
          assert (evA' = evA) by (rewrite TA in TA'; now apply app_inv_tail in TA'). subst evA'.
          destruct (run_rel_res nopw t _ _ _ _ R1) as [evA'' [TA'' FA'']].
          assert (evA'' = evA) by (rewrite TA in TA''; now apply app_inv_tail in TA''). subst evA''.
          destruct (raw_try_true_norel nopw t m _ w _ R1) as [evN [TN FN]].
          assert (evN = evA) by (rewrite TA in TN; now apply app_inv_tail in TN). subst evN.
          exists w1, wb, evA, evR. split; [exact TA|]. split; [exact FA'|]. split; [exact FA|]. split; [exact FA''|]. split; [exact FN|]. split; [exact HA|].
          split; [intros x; rewrite (eff_raw _ _ _ E1); now rewrite (shape_of_coll _ _ _ Hc)|].
          split; [rewrite (shape_of_coll _ _ _ Hc); exact Rcl|].
          split; [exact Fb|]. split; [exact Tb|]. split; [exact Ftl|]. rewrite (shape_of_coll _ _ _ Hc). exact Can. }
        destruct (existsb is_cpanic body); exact Sh.
      + apply clean_to_nobad, (clean_trans w w1 w2); [apply (eff_tr _ _ _ E1)|apply (ep_tr _ _ _ _ E2)].
      + destruct (eff_tr _ _ _ E1) as [evA [TA _]].
        destruct (run_nosee nopw t _ _ _ _ (alg_nosee _ (raw_try_ops m (alg_of (e_am e) s))) R1) as [evA' [TA' FA']].
        assert (evA' = evA) by (rewrite TA in TA'; now apply app_inv_tail in TA'). subst evA'.
        apply (scoped_poison_facts sc lc c m (FScopedTry lent body) lent body s t w w1 wb w2 evA evR); auto.
        * apply (shape_of_coll _ _ _ Hc).
        * apply (eff_psn _ _ _ E1).
        * intros x. rewrite (ep_psn _ _ _ _ E2).
          destruct (root_poison s) as [p|]; [destruct (existsb is_cpanic body)|]; try apply (eff_psn _ _ _ E1).
          unfold upd. destruct (Nat.eqb x p); [reflexivity|apply (eff_psn _ _ _ E1)].
      + intros c' m' l' b' [X|X] Hp; inversion X; subst. rewrite Hp. discriminate.
    - cbn [run] in R. inversion R; subst out w'. clear R.
      constructor; cbn [api_fin snd stop_code].
      + intros H; discriminate H.
      + intros _. exact Q1.
      + intros _ x. rewrite (eff_raw _ _ _ E1). reflexivity.
      + intros c' m' f' _ H. discriminate H.
      + intros _. apply (eff_tr _ _ _ E1).
      + intros c' m' b' _. apply (run_nomark nopw t _ _ _ _ (alg_nomark _ (raw_try_ops m (alg_of (e_am e) s))) R1).
      + apply clean_to_nobad, (eff_tr _ _ _ E1).
      + unfold poison_facts. cbn [api_fin snd stop_code psn_after]. split; [intros _ x; apply (eff_psn _ _ _ E1)|].
        split; [intros [X|[X|X]]; discriminate X|]. now left.
      + intros c' m' l' b' _ _. discriminate.
  Qed.
End CallAcq2.

Lemma call_out_same sc t lc o w out w' :
  poison_facts sc lc o w out w' ->
  (forall x, w_raw w' x = w_raw w x) -> quiet w' ->
  stop_code (snd (api_fin (sc_env sc) lc o out)) = false ->
  (forall rc, raw_after sc t lc o rc (w_raw w) = w_raw w) ->
  (forall rc, got_guard o rc = false) ->
  (exists evs, w_trace w' = evs ++ w_trace w /\ Forall clean_ev evs) ->
  is_scoped o = None ->
  call_out sc t lc o w out w'.
Proof.
  intros Hpf Hr Hq Hs Ha Hg Hc Hsc. constructor.
  - rewrite Hs. discriminate.
  - intros _. exact Hq.
  - intros _ x. rewrite Ha. apply Hr.
  - intros c m f _ H. rewrite Hg in H. discriminate H.
  - intros _. exact Hc.
  - intros c m b X. rewrite Hsc in X. discriminate X.
  - now apply clean_to_nobad.
  - exact Hpf.
  - intros c m l b [X|X] _; subst o; discriminate Hsc.
Qed.

Lemma call_Q sc t lc o p w out w' :
  quiet w -> 2 <= sc_fuel sc -> guard_ok t lc w -> coll_ok sc o ->
  api_prog (sc_env sc) lc o = Some p -> run nopw t p w = (out, w') ->
  call_out sc t lc o w out w'.
Proof.
  intros Q Hf Hg Hco Hp R. destruct o; cbn [api_prog] in Hp.
  - (* AKeyGet *) injection Hp as Hp; subst p. cbn in R. inversion R; subst out w'.
    apply call_out_same; [unfold poison_facts; cbn [psn_after]; split; [intros _ x; reflexivity|exact I]|..]; auto; try (now apply quiet_set_keyf); (exists []; split; [reflexivity|constructor]).
  - (* AKeyDrop *) destruct (haskey lc); [|discriminate]. injection Hp as Hp; subst p. cbn in R. inversion R; subst out w'.
    apply call_out_same; [unfold poison_facts; cbn [psn_after]; split; [intros _ x; reflexivity|exact I]|..]; auto; try (now apply quiet_set_keyf); (exists []; split; [reflexivity|constructor]).
  - (* AKeyForget *) destruct (haskey lc); [|discriminate]. injection Hp as Hp; subst p. cbn in R. inversion R; subst out w'.
    apply call_out_same; [unfold poison_facts; cbn [psn_after]; split; [intros _ x; reflexivity|exact I]|..]; auto; (exists []; split; [reflexivity|constructor]).
  - (* AAcquire *)
    destruct (coll (sc_env sc) c) as [s|] eqn:Hc; [|discriminate]. destruct (haskey lc); [|discriminate].
    destruct (Hco c m f eq_refl s Hc) as [Ha ND].
    destruct f; injection Hp as Hp; subst p.
    + eapply call_acq_guard; eauto.
    + eapply call_acq_try; eauto.
    + eapply call_acq_scoped; eauto.
    + eapply call_acq_scoped_try; eauto.
  - (* AGuardDrop *)
    destruct (guard lc) as [[gm items]|] eqn:G; [|discriminate]. injection Hp as Hp; subst p. cbn [g_mode g_items] in R.
    destruct (Hg gm items G) as [ND H].
    destruct (run_drop_items t gm items w Q ND H) as [w1 [R1 E1]].
    rewrite (run_with_key_done nopw t true true _ _ _ _ R1) in R. inversion R; subst out w'.
    constructor; cbn [api_fin snd stop_code]; try (intros X; discriminate X).
    + intros _. apply quiet_set_keyf. eapply eff_quiet; eauto.
    + intros _ x. cbn [set_keyf w_raw raw_after]. rewrite G. cbn [g_mode g_items]. apply (eff_raw _ _ _ E1).
    + intros c m f X. discriminate X.
    + intros _. apply (eff_tr _ _ _ E1).
    + intros c m b X. discriminate X.
    + apply clean_to_nobad, (eff_tr _ _ _ E1).
    + unfold poison_facts. cbn [psn_after set_keyf w_psn]. split; [intros _ x; apply (eff_psn _ _ _ E1)|exact I].
    + intros c m l b [X|X] _; discriminate X.
  - (* AGuardUnlock *)
    destruct (guard lc) as [[gm items]|] eqn:G; [|discriminate]. injection Hp as Hp; subst p. cbn [g_mode g_items] in R.
    destruct (Hg gm items G) as [ND H].
    destruct (run_drop_items t gm items w Q ND H) as [w1 [R1 E1]].
    rewrite (run_with_key_done nopw t true false _ _ _ _ R1) in R. inversion R; subst out w'.
    constructor; cbn [api_fin snd stop_code]; try (intros X; discriminate X).
    + intros _. eapply eff_quiet; eauto.
    + intros _ x. cbn [raw_after]. rewrite G. cbn [g_mode g_items]. apply (eff_raw _ _ _ E1).
    + intros c m f X. discriminate X.
    + intros _. apply (eff_tr _ _ _ E1).
    + intros c m b X. discriminate X.
    + apply clean_to_nobad, (eff_tr _ _ _ E1).
    + unfold poison_facts. cbn [psn_after]. split; [intros _ x; apply (eff_psn _ _ _ E1)|exact I].
    + intros c m l b [X|X] _; discriminate X.
  - (* AGuardForget *)
    destruct (guard lc); [|discriminate]. injection Hp as Hp; subst p. cbn in R. inversion R; subst out w'.
    apply call_out_same; [unfold poison_facts; cbn [psn_after]; split; [intros _ x; reflexivity|exact I]|..]; auto; (exists []; split; [reflexivity|constructor]).
  - (* AGuardRead *)
    destruct (guard lc) as [g|]; [|discriminate]. injection Hp as Hp; subst p.
    destruct (run_cs_prog t (g_mode g) (g_items g) (CRead pos) w) as [v [w1 [R1 F1]]]. cbn [is_cpanic cs_prog] in R1.
    rewrite R1 in R. inversion R; subst out w'.
    apply call_out_same; [unfold poison_facts; cbn [psn_after]; split; [intros _ x; apply (fr_psn _ _ F1)|exact I]|..]; auto; [apply (fr_raw _ _ F1)|eapply frame_quiet; eauto|now apply frame_clean].
  - (* AGuardWrite *)
    destruct (guard lc) as [g|]; [|discriminate]. injection Hp as Hp; subst p.
    destruct (run_cs_prog t (g_mode g) (g_items g) (CWrite pos) w) as [v [w1 [R1 F1]]]. cbn [is_cpanic cs_prog] in R1.
    rewrite R1 in R. inversion R; subst out w'.
    apply call_out_same; [unfold poison_facts; cbn [psn_after]; split; [intros _ x; apply (fr_psn _ _ F1)|exact I]|..]; auto; [apply (fr_raw _ _ F1)|eapply frame_quiet; eauto|now apply frame_clean].
  - (* APanic *)
    destruct (guard lc) as [[gm items]|] eqn:G.
    + injection Hp as Hp; subst p. cbn [g_mode g_items] in R. destruct (Hg gm items G) as [ND H].
      destruct (guard_panic_quiet t gm items w Q ND H) as [w1 [R1 E1]].
      rewrite R1 in R. inversion R; subst out w'.
      constructor; cbn [api_fin snd stop_code]; try (intros X; discriminate X).
      * intros _. apply quiet_set_keyf. eapply effp_quiet; eauto.
      * intros _ x. cbn [set_keyf w_raw raw_after]. rewrite G. cbn [g_mode g_items]. apply (ep_raw _ _ _ _ E1).
      * intros c m f X. discriminate X.
      * intros _. apply (ep_tr _ _ _ _ E1).
      * intros c m b X. discriminate X.
      * apply clean_to_nobad, (ep_tr _ _ _ _ E1).
      * unfold poison_facts. cbn [psn_after set_keyf w_psn]. rewrite G. cbn [g_items].
        split; [intros _ x; apply (ep_psn _ _ _ _ E1)|exact I].
      * intros c m l b [X|X] _; discriminate X.
    + injection Hp as Hp; subst p.
      assert (Rr : run nopw t (Bind (with_key false (haskey lc) skip) (fun _ => Throw)) w =
                   (OPanic, if haskey lc then set_keyf w t false else w)).
      { unfold with_key, skip. cbn [run]. destruct (haskey lc); reflexivity. }
      rewrite Rr in R. inversion R; subst out w'.
      constructor; cbn [api_fin snd stop_code]; try (intros X; discriminate X).
      * intros _. destruct (haskey lc); [now apply quiet_set_keyf|exact Q].
      * intros _ x. cbn [raw_after]. rewrite G. destruct (haskey lc); reflexivity.
      * intros c m f X. discriminate X.
      * intros _. destruct (haskey lc); (exists []; split; [reflexivity|constructor]).
      * intros c m b X. discriminate X.
      * destruct (haskey lc); (exists []; split; [reflexivity|constructor]).
      * unfold poison_facts. cbn [psn_after]. rewrite G. split; [intros _ x; destruct (haskey lc); reflexivity|exact I].
      * intros c m l b [X|X] _; discriminate X.
  - (* AIsPoisoned *)
    destruct (coll (sc_env sc) c) as [[| | | | | |q s']|] eqn:Hc; try discriminate. injection Hp as Hp; subst p.
    cbn in R. inversion R; subst out w'.
    apply call_out_same; [unfold poison_facts; cbn [psn_after api_fin snd]; rewrite (shape_of_coll _ _ _ Hc); cbn [root_poison];
                          split; [intros _ x; reflexivity|now rewrite vtrue_vbool]|..]; auto; (exists []; split; [reflexivity|constructor]).
  - (* AClearPoison *)
    destruct (coll (sc_env sc) c) as [[| | | | | |q s']|] eqn:Hc; try discriminate. injection Hp as Hp; subst p.
    cbn in R. inversion R; subst out w'.
    apply call_out_same; [unfold poison_facts; cbn [psn_after]; rewrite (shape_of_coll _ _ _ Hc); cbn [root_poison];
                          split; [intros _ x; reflexivity|reflexivity]|..]; auto; try (now apply quiet_set_psn); (exists []; split; [reflexivity|constructor]).
  - (* AFmt *)
    destruct (coll (sc_env sc) c) as [s|]; [|discriminate]. injection Hp as Hp; subst p.
    destruct (fmt_quiet t s w Q) as [n [w1 [R1 [E1 _]]]]. rewrite R1 in R. inversion R; subst out w'.
    apply call_out_same; [unfold poison_facts; cbn [psn_after]; split; [intros _ x; apply (eff_psn _ _ _ E1)|exact I]|..]; auto; [apply (eff_raw _ _ _ E1)|eapply eff_quiet; eauto|apply (eff_tr _ _ _ E1)].
Qed.

(* ---------------------------------------------------------------- other threads' holds are not disturbed *)
Lemma held1_other_acq u t k m k' m' s :
  can1 k' m' s = true -> held1 u k m s = true -> held1 u k m (acq1 t k' m' s) = true.
Proof.
  unfold can1, held1, acq1. destruct s as [wr rd]. destruct (shared k' m'), (shared k m); simpl.
  - intros _ H. now rewrite H, orb_true_r.
  - unfold no_writer. simpl. intros C H. unfold writer_is in H. simpl in H. destruct wr; discriminate.
  - unfold is_free. simpl. intros C H. destruct wr; [discriminate|]. destruct rd; [discriminate H|discriminate C].
  - unfold is_free, writer_is. simpl. intros C H. destruct wr; discriminate.
Qed.

Lemma held1_other_rel u t k m k' m' s :
  u <> t -> wf_rawst s -> held1 t k' m' s = true -> held1 u k m s = true -> held1 u k m (rel1 t k' m' s) = true.
Proof.
  unfold held1, rel1, wf_rawst. destruct s as [wr rd]. intros Hu W. simpl in W.
  destruct (shared k' m'), (shared k m); simpl; intros Ht H.
  - rewrite memb_count, count_remove1. destruct (Nat.eqb_spec u t); [congruence|]. simpl. rewrite Nat.sub_0_r.
    now rewrite <- memb_count.
  - exact H.
  - unfold writer_is in Ht. simpl in Ht. destruct wr as [x|]; [|discriminate]. rewrite W in H by discriminate. discriminate.
  - unfold writer_is in *. simpl in *. destruct wr as [x|]; [|discriminate].
    apply Nat.eqb_eq in Ht, H. congruence.
Qed.

Lemma held_all_other_acq u t m ls m' ls' f :
  NoDup (locks_of ls') -> can_all m' ls' f = true -> held_all u m ls f = true ->
  held_all u m ls (acq_all t m' ls' f) = true.
Proof.
  intros ND C H. unfold held_all in *. rewrite forallb_forall in *. intros [k l] Hin. cbn [fst snd].
  specialize (H (k, l) Hin). cbn [fst snd] in H.
  destruct (in_dec Nat.eq_dec l (locks_of ls')) as [Hl|Hl].
  - destruct (in_locks_of _ _ Hl) as [k' Hk']. rewrite (acq_all_in t m' ls' f k' l ND Hk').
    apply held1_other_acq; [|exact H]. unfold can_all in C. rewrite forallb_forall in C. apply (C (k', l) Hk').
  - rewrite acq_all_other by exact Hl. exact H.
Qed.

Lemma held_all_other_rel u t m ls m' ls' f :
  u <> t -> NoDup (locks_of ls') -> held_all t m' ls' f = true -> (forall x, wf_rawst (f x)) ->
  held_all u m ls f = true -> held_all u m ls (rel_all t m' ls' f) = true.
Proof.
  intros Hu ND Ht W H. unfold held_all in H |- *. rewrite forallb_forall in *. intros [k l] Hin. cbn [fst snd].
  specialize (H (k, l) Hin). cbn [fst snd] in H.
  destruct (in_dec Nat.eq_dec l (locks_of ls')) as [Hl|Hl].
  - destruct (in_locks_of _ _ Hl) as [k' Hk']. rewrite (rel_all_in t m' ls' f k' l ND Hk').
    apply held1_other_rel; [exact Hu|apply W| |exact H]. eapply held_all_in; eauto.
  - rewrite rel_all_other by exact Hl. exact H.
Qed.

(* after taking them, the leaves are held *)
Lemma held1_acq1 t k m s : held1 t k m (acq1 t k m s) = true.
Proof. unfold held1, acq1. destruct (shared k m); simpl; [now rewrite Nat.eqb_refl|unfold writer_is; simpl; apply Nat.eqb_refl]. Qed.

Lemma held_all_acq_all t m ls f : NoDup (locks_of ls) -> held_all t m ls (acq_all t m ls f) = true.
Proof.
  intros ND. unfold held_all. rewrite forallb_forall. intros [k l] Hin. cbn [fst snd].
  rewrite (acq_all_in t m ls f k l ND Hin). apply held1_acq1.
Qed.

(* ---------------------------------------------------------------- the four kinds of transition of a thread *)
Inductive trans_kind := TK | TA (c : nat) (m : mode) | TR | TF.

Definition classify (o : apiop) (rc : rcode) : trans_kind :=
  match o with
  | AAcquire c m (FGuard | FTry) => match rc with ROk | RPoisoned => TA c m | _ => TK end
  | AGuardDrop | AGuardUnlock | APanic => TR
  | AGuardForget => TF
  | _ => TK
  end.

Lemma raw_after_classify sc t lc o rc f :
  raw_after sc t lc o rc f =
  match classify o rc with
  | TA c m => acq_all t m (kleaves (shape_of sc c)) f
  | TR => match guard lc with Some g => rel_all t (g_mode g) (gleaves (g_items g)) f | None => f end
  | _ => f
  end.
Proof. destruct o as [| | |c m fl| | | | | | | | |]; try reflexivity. destruct fl, rc; reflexivity. Qed.

Definition trans_spec (e : env) (lc lc' : tlocal) (mt mt' : mthread) (k : trans_kind) : Prop :=
  match k with
  | TK => guard lc' = guard lc /\ mt_guard mt' = mt_guard mt /\ mt_leak mt' = mt_leak mt
  | TA c m => haskey lc = true /\ guard lc = None /\
              (exists s, coll e c = Some s /\ guard lc' = Some (mkg m (gitems s))) /\
              mt_guard mt' = Some (c, m) /\ mt_leak mt' = mt_leak mt
  | TR => guard lc' = None /\ mt_guard mt' = None /\ mt_leak mt' = mt_leak mt
  | TF => guard lc <> None /\ guard lc' = None /\ mt_guard mt' = None /\
          mt_leak mt' = match mt_guard mt with Some x => x :: mt_leak mt | None => mt_leak mt end
  end.

Lemma Rk_key_noguard lc mt : Rk lc mt -> haskey lc = true -> guard lc = None /\ mt_guard mt = None.
Proof. unfold Rk. intros H Hk. rewrite Hk in H. destruct (guard lc); [contradiction|]. destruct H. now split. Qed.

Lemma Rk_noguard lc mt : Rk lc mt -> guard lc = None -> mt_guard mt = None.
Proof. unfold Rk. intros H G. rewrite G in H. destruct (haskey lc); destruct H; assumption. Qed.

Lemma trans_classify e lc mt o p out :
  api_prog e lc o = Some p -> Rk lc mt ->
  stop_code (snd (api_fin e lc o out)) = false ->
  trans_spec e lc (fst (api_fin e lc o out)) mt (track mt o (snd (api_fin e lc o out)))
             (classify o (snd (api_fin e lc o out))).
Proof.
  intros Hp HR Hs. destruct o as [| | |c m fl| | | |pos|pos| |c|c|c]; cbn [api_prog] in Hp.
  - (* AKeyGet *) destruct out as [v| | | |]; cbn in Hs |- *; try discriminate Hs.
    + destruct (vtrue v); cbn; auto.
    + auto.
  - destruct out; cbn in Hs |- *; try discriminate Hs; auto.
  - destruct out; cbn in Hs |- *; try discriminate Hs; auto.
  - (* AAcquire *)
    destruct (coll e c) as [s|] eqn:Hc; [|discriminate]. destruct (haskey lc) eqn:Hk; [|discriminate].
    destruct (Rk_key_noguard _ _ HR Hk) as [G MG].
    destruct out as [v| | | |]; try (destruct fl; discriminate Hs).
    + (* ODone v *)
      destruct fl as [| |lent body|lent body].
      * destruct v as [|b|n]; try solve [cbn [api_fin fst snd classify track trans_spec]; rewrite Hc;
          repeat split; auto; exists s; split; auto].
        destruct n as [|[|[|n]]]; cbn [api_fin fst snd classify track trans_spec]; rewrite ?Hc;
          repeat split; auto; try (exists s; split; auto).
      * destruct v as [|b|n]; try solve [cbn [api_fin fst snd classify track trans_spec]; rewrite Hc;
          repeat split; auto; exists s; split; auto].
        destruct n as [|[|[|n]]]; cbn [api_fin fst snd classify track trans_spec]; rewrite ?Hc;
          repeat split; auto; try (exists s; split; auto).
      * destruct v as [|b|n]; try solve [destruct lent; cbn; rewrite ?G, ?MG; auto].
        destruct n as [|[|n]]; destruct lent; cbn; rewrite ?G, ?MG; auto.
      * destruct v as [|b|n]; try solve [destruct lent; cbn; rewrite ?G, ?MG; auto].
        destruct n as [|[|n]]; destruct lent; cbn; rewrite ?G, ?MG; auto.
    + (* OPanic *)
      destruct fl as [| |lent body|lent body]; try destruct lent; cbn; rewrite ?G, ?MG; auto.
  - (* AGuardDrop *) destruct out; cbn in Hs |- *; try discriminate Hs; auto.
  - destruct out; cbn in Hs |- *; try discriminate Hs; auto.
  - (* AGuardForget *)
    destruct (guard lc) as [g|] eqn:G; [|discriminate].
    assert (MG : mt_guard mt <> None).
    { unfold Rk in HR. rewrite G in HR. destruct (haskey lc); [contradiction|]. apply HR. }
    destruct (mt_guard mt) as [x|] eqn:E; [|congruence].
    destruct out; cbn [api_fin fst snd stop_code] in Hs |- *; try discriminate Hs;
      cbn [classify track trans_spec mt_guard mt_leak]; rewrite E; cbn [mt_guard mt_leak];
      (split; [rewrite G; discriminate|]); auto.
  - destruct out; cbn in Hs |- *; try discriminate Hs; auto.
  - destruct out; cbn in Hs |- *; try discriminate Hs; auto.
  - (* APanic *) destruct out; cbn in Hs |- *; try discriminate Hs; auto.
  - destruct out as [v| | | |]; cbn in Hs |- *; try discriminate Hs; auto.
  - destruct out; cbn in Hs |- *; try discriminate Hs; auto.
  - destruct out as [v| | | |]; cbn in Hs |- *; try discriminate Hs; auto.
    destruct v as [| |n]; cbn; auto.
Qed.

(* ---------------------------------------------------------------- the data part of the invariant and its step *)
Record dinv (sc : scen) (raw : St) (loc : tid -> tlocal) (ms : tid -> mthread) : Prop := {
  di_wf : forall l, wf_rawst (raw l);
  di_cnt : forall t l, real sc t -> count t (readers (raw l)) <= 1;
  di_guard : forall t m items, guard (loc t) = Some (mkg m items) ->
      real sc t /\ NoDup (locks_of (gleaves items)) /\ held_all t m (gleaves items) raw = true /\
      exists c, mt_guard (ms t) = Some (c, m) /\ items = gitems (shape_of sc c);
  di_holds : forall t l, real sc t -> holds_by t (raw l) = true ->
      In l (ghold (loc t)) \/ In l (leaked sc (ms t))
}.

Lemma held_all_ext t m ls f g : (forall x, f x = g x) -> held_all t m ls f = held_all t m ls g.
Proof. intros H. unfold held_all. apply forallb_ext_in'. intros x _. now rewrite H. Qed.

Definition raw_of_kind (sc : scen) (t : tid) (lc : tlocal) (k : trans_kind) (f : St) : St :=
  match k with
  | TA c m => acq_all t m (kleaves (shape_of sc c)) f
  | TR => match guard lc with Some g => rel_all t (g_mode g) (gleaves (g_items g)) f | None => f end
  | _ => f
  end.

Lemma dinv_step sc raw loc ms t lc' mt' k raw' :
  dinv sc raw loc ms -> real sc t ->
  trans_spec (sc_env sc) (loc t) lc' (ms t) mt' k ->
  (forall x, raw' x = raw_of_kind sc t (loc t) k raw x) ->
  (forall c m, k = TA c m -> can_all m (kleaves (shape_of sc c)) raw = true /\ NoDup (leaves (shape_of sc c))) ->
  (haskey (loc t) = true -> forall l, holds_by t (raw l) = false) ->
  dinv sc raw' (upd loc t lc') (upd ms t mt').
Proof.
  intros D Rt TS Hraw Hacq Hnone. destruct k as [|c m| |]; cbn [trans_spec raw_of_kind] in TS, Hraw.
  - (* TK *)
    destruct TS as [G [MG ML]]. constructor.
    + intros l. rewrite Hraw. apply (di_wf _ _ _ _ D).
    + intros u l Ru. rewrite Hraw. now apply (di_cnt _ _ _ _ D).
    + intros u m items Hg. rewrite (held_all_ext _ _ _ _ _ Hraw).
      destruct (Nat.eq_dec u t) as [->|Hu].
      * rewrite upd_same in Hg; rewrite ?upd_same. rewrite G in Hg. rewrite MG. apply (di_guard _ _ _ _ D _ _ _ Hg).
      * rewrite upd_other in Hg by exact Hu; rewrite ?upd_other by exact Hu. apply (di_guard _ _ _ _ D _ _ _ Hg).
    + intros u l Ru H. rewrite Hraw in H. destruct (di_holds _ _ _ _ D u l Ru H) as [X|X].
      * left. destruct (Nat.eq_dec u t) as [->|Hu]; [rewrite upd_same; unfold ghold in *; now rewrite G|now rewrite upd_other].
      * right. destruct (Nat.eq_dec u t) as [->|Hu]; [rewrite upd_same; unfold leaked in *; now rewrite ML|now rewrite upd_other].
  - (* TA *)
    destruct TS as [Hk [G [[s [Hc G']] [MG ML]]]]. destruct (Hacq c m eq_refl) as [Can ND].
    pose proof (shape_of_coll _ _ _ Hc) as Hs. rewrite Hs in *.
    assert (NDk : NoDup (locks_of (kleaves s))) by (rewrite <- leaves_kleaves; exact ND).
    pose proof (Hnone Hk) as Hn.
    constructor.
    + intros l. rewrite Hraw. apply wf_acq_all; auto. apply (di_wf _ _ _ _ D).
    + intros u l Ru. rewrite Hraw. pose proof (count_acq_all u t m (kleaves s) raw l NDk Can) as X.
      destruct (Nat.eqb_spec u t) as [->|Hu].
      * rewrite (count_zero_not_holding t _ (Hn l)) in X. destruct (memb l (locks_of (kleaves s))); simpl in X; lia.
      * simpl in X. pose proof (di_cnt _ _ _ _ D u l Ru). lia.
    + intros u m' items Hg. rewrite (held_all_ext _ _ _ _ _ Hraw).
      destruct (Nat.eq_dec u t) as [->|Hu].
      * rewrite upd_same in Hg; rewrite ?upd_same. rewrite G' in Hg. inversion Hg; subst m' items. rewrite gleaves_gitems.
        split; [exact Rt|]. split; [exact NDk|]. split; [now apply held_all_acq_all|].
        exists c. rewrite MG, Hs. now split.
      * rewrite upd_other in Hg by exact Hu; rewrite ?upd_other by exact Hu.
        destruct (di_guard _ _ _ _ D _ _ _ Hg) as [Ru [NDu [Hu' Ex]]].
        split; [exact Ru|]. split; [exact NDu|]. split; [|exact Ex]. now apply held_all_other_acq.
    + intros u l Ru H. rewrite Hraw, (holds_by_acq_all u t m (kleaves s) raw l NDk Can) in H.
      destruct (Nat.eq_dec u t) as [->|Hu].
      * rewrite Nat.eqb_refl, (Hn l), orb_false_r in H. cbn [andb] in H. apply memb_In in H.
        left. rewrite upd_same. unfold ghold. rewrite G'. cbn [g_items]. now rewrite gleaves_gitems.
      * destruct (Nat.eqb_spec u t); [congruence|]. cbn [andb orb] in H. rewrite !upd_other by exact Hu.
        now apply (di_holds _ _ _ _ D).
  - (* TR *)
    destruct TS as [G' [MG ML]]. destruct (guard (loc t)) as [[gm items]|] eqn:G; cbn [g_mode g_items] in Hraw.
    + destruct (di_guard _ _ _ _ D _ _ _ G) as [_ [NDg [Hh Ex]]].
      constructor.
      * intros l. rewrite Hraw. apply wf_rel_all; auto. apply (di_wf _ _ _ _ D).
      * intros u l Ru. rewrite Hraw. pose proof (count_rel_all_le u t gm (gleaves items) raw l NDg).
        pose proof (di_cnt _ _ _ _ D u l Ru). lia.
      * intros u m' items' Hg. rewrite (held_all_ext _ _ _ _ _ Hraw).
        destruct (Nat.eq_dec u t) as [->|Hu]; [rewrite upd_same in Hg; congruence|].
        rewrite upd_other in Hg by exact Hu; rewrite ?upd_other by exact Hu.
        destruct (di_guard _ _ _ _ D _ _ _ Hg) as [Ru [NDu [Hu' Ex']]].
        split; [exact Ru|]. split; [exact NDu|]. split; [|exact Ex'].
        apply held_all_other_rel; auto. apply (di_wf _ _ _ _ D).
      * intros u l Ru H. rewrite Hraw in H. destruct (Nat.eq_dec u t) as [->|Hu].
        -- right. rewrite upd_same. unfold leaked. rewrite ML.
           destruct (in_dec Nat.eq_dec l (locks_of (gleaves items))) as [Hl|Hl].
           ++ rewrite (holds_by_rel_all_self t gm (gleaves items) raw l NDg Hh (di_wf _ _ _ _ D)
                         (fun x => di_cnt _ _ _ _ D t x Rt) Hl) in H. discriminate H.
           ++ rewrite rel_all_other in H by exact Hl.
              destruct (di_holds _ _ _ _ D t l Rt H) as [X|X]; [|exact X].
              unfold ghold in X. rewrite G in X. cbn [g_items] in X. contradiction.
        -- rewrite (holds_by_rel_all_other u t gm (gleaves items) raw l Hu NDg Hh (di_wf _ _ _ _ D)) in H.
           rewrite !upd_other by exact Hu. now apply (di_holds _ _ _ _ D).
    + constructor.
      * intros l. rewrite Hraw. apply (di_wf _ _ _ _ D).
      * intros u l Ru. rewrite Hraw. now apply (di_cnt _ _ _ _ D).
      * intros u m' items' Hg. rewrite (held_all_ext _ _ _ _ _ Hraw).
        destruct (Nat.eq_dec u t) as [->|Hu]; [rewrite upd_same in Hg; congruence|].
        rewrite upd_other in Hg by exact Hu; rewrite ?upd_other by exact Hu. apply (di_guard _ _ _ _ D _ _ _ Hg).
      * intros u l Ru H. rewrite Hraw in H. destruct (di_holds _ _ _ _ D u l Ru H) as [X|X].
        -- destruct (Nat.eq_dec u t) as [->|Hu]; [unfold ghold in X; rewrite G in X; contradiction|].
           left. now rewrite upd_other.
        -- right. destruct (Nat.eq_dec u t) as [->|Hu]; [rewrite upd_same; unfold leaked in *; now rewrite ML|now rewrite upd_other].
  - (* TF *)
    destruct TS as [G [G' [MG ML]]]. destruct (guard (loc t)) as [[gm items]|] eqn:Gt; [|congruence].
    destruct (di_guard _ _ _ _ D _ _ _ Gt) as [_ [NDg [Hh [c [MGt Hitems]]]]].
    rewrite MGt in ML.
    constructor.
    + intros l. rewrite Hraw. apply (di_wf _ _ _ _ D).
    + intros u l Ru. rewrite Hraw. now apply (di_cnt _ _ _ _ D).
    + intros u m' items' Hg. rewrite (held_all_ext _ _ _ _ _ Hraw).
      destruct (Nat.eq_dec u t) as [->|Hu]; [rewrite upd_same in Hg; congruence|].
      rewrite upd_other in Hg by exact Hu; rewrite ?upd_other by exact Hu. apply (di_guard _ _ _ _ D _ _ _ Hg).
    + intros u l Ru H. rewrite Hraw in H. destruct (di_holds _ _ _ _ D u l Ru H) as [X|X].
      * destruct (Nat.eq_dec u t) as [->|Hu]; [|left; now rewrite upd_other].
        right. rewrite upd_same. unfold leaked. rewrite ML. cbn [flat_map fst]. apply in_or_app. left.
        unfold ghold in X. rewrite Gt in X. cbn [g_items] in X. rewrite Hitems, gleaves_gitems in X.
        now rewrite leaves_kleaves.
      * right. destruct (Nat.eq_dec u t) as [->|Hu]; [|now rewrite upd_other].
        rewrite upd_same. unfold leaked in *. rewrite ML. cbn [flat_map]. apply in_or_app. now right.
Qed.

(* ---------------------------------------------------------------- one step of a history *)
Lemma qinv_dinv sc h ms : qinv sc h ms -> dinv sc (w_raw (h_w h)) (h_loc h) ms.
Proof. intros Q. constructor; [apply (qi_wf _ _ _ Q)|apply (qi_cnt _ _ _ Q)|apply (qi_guard _ _ _ Q)|apply (qi_holds _ _ _ Q)]. Qed.

Lemma acq_haskey e lc c m f p : api_prog e lc (AAcquire c m f) = Some p -> haskey lc = true.
Proof. cbn [api_prog]. destruct (coll e c); [|discriminate]. destruct (haskey lc); [reflexivity|discriminate]. Qed.

Lemma nb_evs_bool evs : Forall nb_ev evs -> nonblocking_evs evs = true.
Proof.
  intros H. unfold nonblocking_evs. apply forallb_forall. intros e He. rewrite Forall_forall in H. specialize (H e He).
  destruct e; try reflexivity. simpl in H. now rewrite H.
Qed.

Lemma nth_snapshot_not_held t nl w l :
  (forall x, holds_by t (w_raw w x) = false) -> holds_by t (nth l (snapshot_holds nl w) raw_free) = false.
Proof.
  intros H. destruct (Nat.lt_ge_cases l nl) as [Hl|Hl].
  - rewrite nth_snapshot_holds by exact Hl. apply H.
  - rewrite nth_overflow; [reflexivity|]. unfold snapshot_holds. now rewrite map_length, seq_length.
Qed.

Lemma nonacq_not_blocked e lc o out :
  is_nonacq o = true -> snd (api_fin e lc o out) = RBlockedC -> out = OBlocked.
Proof.
  destruct o; cbn [is_nonacq]; try discriminate; intros _; destruct out as [v| | | |]; cbn; try discriminate; try reflexivity.
  destruct v as [| |n]; discriminate.
Qed.

Lemma wf_hist_coll_ok sc t o : wf_hist sc -> In (t, o) (sc_hist sc) -> coll_ok sc o.
Proof.
  intros W Hin c m f -> s Hs. destruct (wh_colls _ W t c m f Hin) as [s' [Hn [Ha ND]]].
  unfold coll in Hs. cbn [sc_env e_colls] in Hs. rewrite Hn in Hs. inversion Hs; subst s'. now split.
Qed.

Lemma real_in sc t o : In (t, o) (sc_hist sc) -> real sc t.
Proof. intros H. unfold real, threads_of. apply in_map_iff. now exists (t, o). Qed.

Lemma qinv_guard_ok sc h ms t : qinv sc h ms -> guard_ok t (h_loc h t) (clear_trace (h_w h)).
Proof. intros Q m items G. destruct (qi_guard _ _ _ Q t m items G) as [_ [ND [H _]]]. now split. Qed.

Lemma Rk_leaked lc mt : Rk lc mt -> mt_key mt = KLeaked -> haskey lc = false /\ guard lc = None.
Proof.
  unfold Rk. intros H K. destruct (haskey lc), (guard lc); try contradiction; destruct H as [H1 H2]; try congruence.
  now split.
Qed.

Lemma leak_key_step e lc mt o p out :
  api_prog e lc o = Some p -> Rk lc mt -> mt_key mt = KLeaked ->
  (o = AKeyGet -> snd (api_fin e lc o out) = RB false) ->
  mt_key (track mt o (snd (api_fin e lc o out))) = KLeaked.
Proof.
  intros Hp HR K Hget. destruct (Rk_leaked _ _ HR K) as [Hk G].
  destruct o as [| | |c m fl| | | |pos|pos| |c|c|c]; cbn [api_prog] in Hp; rewrite ?Hk, ?G in Hp; try discriminate Hp.
  - rewrite (Hget eq_refl). exact K.
  - destruct (coll e c); discriminate Hp.
  - destruct out; cbn; rewrite K; reflexivity.
  - destruct out as [v| | | |]; cbn; try exact K.
  - destruct out as [v| | | |]; cbn; try exact K.
  - destruct out as [v| | | |]; cbn; try exact K. destruct v as [| |n]; cbn; exact K.
Qed.

Lemma judge_C06_get ms prev t co :
  judge_C06 ms prev t AKeyGet co = true -> co_ret co = RB (key_free (mt_key (ms t))).
Proof.
  unfold judge_C06. intros H. apply andb_true_iff in H. destruct H as [H _]. apply andb_true_iff in H. destruct H as [H _].
  destruct (co_ret co); try discriminate H. apply eqb_prop in H. now subst.
Qed.

Lemma qinv_ext sc h ms ms' : (forall x, ms' x = ms x) -> qinv sc h ms -> qinv sc h ms'.
Proof.
  intros E Q. constructor.
  - apply (qi_stop _ _ _ Q). - apply (qi_quiet _ _ _ Q). - apply (qi_wf _ _ _ Q). - apply (qi_cnt _ _ _ Q).
  - intros t m items G. rewrite E. apply (qi_guard _ _ _ Q t m items G).
  - intros t l R H. rewrite E. apply (qi_holds _ _ _ Q t l R H).
  - intros t. rewrite E. apply (qi_leak _ _ _ Q).
  - intros x. rewrite E. apply (qi_J _ _ _ Q).
Qed.

Lemma key_back_nostop o rc : key_back o rc = true -> stop_code rc = false.
Proof. destruct o as [| | |c m fl| | | | | | | | |]; try destruct fl; destruct rc; cbn; congruence. Qed.

Lemma key_back_skipped o : key_back o RSkipped = false.
Proof. destruct o as [| | |c m fl| | | | | | | | |]; try destruct fl; reflexivity. Qed.

Lemma nonacq_not_acquire o : is_nonacq o = true -> is_acquire o = false.
Proof. destruct o; cbn; congruence. Qed.

Lemma raw_after_nonacq sc t lc o rc f : is_nonacq o = true -> raw_after sc t lc o rc f = f.
Proof. destruct o; cbn; try discriminate; reflexivity. Qed.

Lemma classify_TA o rc c m : classify o rc = TA c m ->
  got_guard o rc = true /\ exists f, o = AAcquire c m f.
Proof.
  destruct o as [| | |c' m' fl| | | | | | | | |]; cbn; try discriminate.
  destruct fl; try discriminate; destruct rc; try discriminate; intros H; inversion H; subst;
    (split; [reflexivity|eexists; reflexivity]).
Qed.

Lemma classify_TF o rc : classify o rc = TF -> o = AGuardForget.
Proof. destruct o as [| | |c m fl| | | | | | | | |]; cbn; try discriminate; try reflexivity. destruct fl, rc; discriminate. Qed.

Lemma leaked_nil sc mt : mt_leak mt = [] -> leaked sc mt = [].
Proof. unfold leaked. now intros ->. Qed.

Lemma is_nil_true {A} (l : list A) : is_nil l = true -> l = [].
Proof. destruct l; [reflexivity|discriminate]. Qed.

Lemma qstep sc nl np h ms t o :
  wf_hist sc -> qinv sc h ms -> In (t, o) (sc_hist sc) ->
  exists h' co, hstep (sc_env sc) nl np h (t, o) = (h', [co]) /\ co_tid co = t /\
    judge_C03 ms (snapshot_holds nl (h_w h)) t o co = true /\
    judge_C17 ms (snapshot_holds nl (h_w h)) t o co = true /\
    co_holds co = snapshot_holds nl (h_w h') /\
    h_stop h' = stop_code (co_ret co) /\
    (stop_code (co_ret co) = false -> qinv sc h' (upd ms t (track (ms t) o (co_ret co)))).
Proof.
  intros W Q Hin.
  pose proof (real_in _ _ _ Hin) as Rt.
  destruct (step_C06 (sc_env sc) nl np h ms t o (snapshot_holds nl (h_w h)) (qi_stop _ _ _ Q) (qi_J _ _ _ Q))
    as [h' [co [St [Ht [Hj [Hs' HJ']]]]]].
  exists h', co. split; [exact St|]. split; [exact Ht|].
  destruct (api_prog (sc_env sc) (h_loc h t) o) as [p|] eqn:Hp.
  - destruct (run nopw t p (clear_trace (h_w h))) as [out w'] eqn:Rn.
    rewrite (hstep_some _ nl np h t o p out w' (qi_stop _ _ _ Q) Hp Rn) in St.
    inversion St; subst h' co. clear St. cbn [co_ret co_evs co_holds h_w h_stop h_loc co_tid] in *.
    set (lc := h_loc h t) in *. set (rc := snd (api_fin (sc_env sc) lc o out)) in *.
    set (lc' := fst (api_fin (sc_env sc) lc o out)) in *.
    set (w := clear_trace (h_w h)) in *.
    pose proof (call_Q sc t lc o p w out w' (quiet_clear _ (qi_quiet _ _ _ Q)) (wh_fuel _ W)
                  (qinv_guard_ok _ _ _ t Q) (wf_hist_coll_ok _ _ _ W Hin) Hp Rn) as CO.
    destruct (qi_J _ _ _ Q t) as [_ HRk]. fold lc in HRk.
    assert (Hnone : haskey lc = true -> forall l, holds_by t (w_raw (h_w h) l) = false).
    { intros Hk. apply (haskey_holds_nothing sc h ms t Q Rt Hk). }
    (* the invariant after the call *)
    assert (Qnew : stop_code rc = false ->
                   qinv sc (mkh w' (upd (h_loc h) t lc') (stops rc)) (upd ms t (track (ms t) o rc))).
    { intros Hsc.
      pose proof (trans_classify (sc_env sc) lc (ms t) o p out Hp HRk Hsc) as TS. fold rc lc' in TS.
      assert (D' : dinv sc (w_raw w') (upd (h_loc h) t lc') (upd ms t (track (ms t) o rc))).
      { apply (dinv_step sc (w_raw (h_w h)) (h_loc h) ms t lc' (track (ms t) o rc) (classify o rc) (w_raw w')
                 (qinv_dinv _ _ _ Q) Rt TS).
        - intros x. rewrite (cq_raw _ _ _ _ _ _ _ CO Hsc x). fold rc. rewrite raw_after_classify. reflexivity.
        - intros c m Hk. destruct (classify_TA _ _ _ _ Hk) as [GG [f Ho]]. split.
          + apply (cq_can _ _ _ _ _ _ _ CO c m f Ho GG).
          + subst o. destruct (wh_colls _ W t c m f Hin) as [s [Hn [_ ND]]]. unfold shape_of. now rewrite Hn.
        - exact Hnone. }
      constructor; cbn [h_w h_loc h_stop].
      - rewrite stops_stop_code. exact Hsc.
      - apply (cq_quiet _ _ _ _ _ _ _ CO Hsc).
      - apply (di_wf _ _ _ _ D').
      - apply (di_cnt _ _ _ _ D').
      - apply (di_guard _ _ _ _ D').
      - apply (di_holds _ _ _ _ D').
      - intros u Hl. destruct (Nat.eq_dec u t) as [->|Hu]; [|rewrite upd_other in Hl |- * by exact Hu; now apply (qi_leak _ _ _ Q)].
        rewrite upd_same in Hl |- *.
        destruct (classify o rc) eqn:K; cbn [trans_spec] in TS.
        + destruct TS as [_ [_ ML]]. rewrite ML in Hl.
          apply (leak_key_step _ _ _ _ _ _ Hp HRk (qi_leak _ _ _ Q t Hl)).
          intros ->. pose proof (judge_C06_get _ _ _ _ Hj) as X. cbn [co_ret] in X. fold lc rc in X. fold rc.
          rewrite X, (qi_leak _ _ _ Q t Hl). reflexivity.
        + destruct TS as [Hk [_ [_ [_ ML]]]]. rewrite ML in Hl. exfalso.
          pose proof (qi_leak _ _ _ Q t Hl) as KL. destruct (Rk_leaked _ _ HRk KL). congruence.
        + destruct TS as [_ [_ ML]]. rewrite ML in Hl.
          apply (leak_key_step _ _ _ _ _ _ Hp HRk (qi_leak _ _ _ Q t Hl)).
          intros ->. discriminate K.
        + destruct TS as [G _]. pose proof (classify_TF _ _ K) as Ho. subst o. clear K.
          cbn [api_prog] in Hp. fold lc in Hp. destruct (guard lc) eqn:Gl; [|congruence].
          assert (MG : mt_guard (ms t) <> None).
          { unfold Rk in HRk. rewrite Gl in HRk. destruct (haskey lc); [contradiction|]. apply HRk. }
          destruct (mt_guard (ms t)) eqn:E; [|congruence].
          unfold rc in *. destruct out; cbn in Hsc |- *; try discriminate Hsc; rewrite E; reflexivity.
      - exact (HJ' Hsc). }
    split; [|split; [|split; [reflexivity|split; [exact Hs'|exact Qnew]]]].
    + (* judge_C03 *)
      unfold judge_C03. cbn [co_ret co_holds co_evs]. fold lc rc.
      apply andb_true_iff. split; [apply andb_true_iff; split|].
      * destruct (is_acquire o) eqn:IA; [|reflexivity]. destruct (negb (rcode_eqb rc RSkipped)); [|reflexivity].
        cbn [andb]. destruct o; try discriminate IA. rewrite thread_holds_false; [reflexivity|].
        apply Hnone. eapply acq_haskey. exact Hp.
      * destruct (key_back o rc) eqn:KB; [|reflexivity].
        destruct (is_nil (mt_leak (ms t))) eqn:NL; [|reflexivity]. cbn [negb andb].
        pose proof (key_back_nostop _ _ KB) as Hsc. specialize (Qnew Hsc).
        pose proof (trans_classify (sc_env sc) lc (ms t) o p out Hp HRk Hsc) as TS. fold rc lc' in TS.
        apply is_nil_true in NL.
        assert (G' : guard lc' = None /\ mt_leak (track (ms t) o rc) = []).
        { destruct (classify o rc) eqn:K; cbn [trans_spec] in TS.
          - destruct TS as [G [_ ML]]. split; [|congruence]. rewrite G.
            destruct o as [| | |c m fl| | | | | | | | |]; try discriminate KB; try discriminate K.
            apply (Rk_key_noguard _ _ HRk). eapply acq_haskey. exact Hp.
          - exfalso. destruct (classify_TA _ _ _ _ K) as [GG [f ->]]. destruct f, rc; discriminate.
          - destruct TS as [G [_ ML]]. split; congruence.
          - rewrite (classify_TF _ _ K) in KB. discriminate KB. }
        destruct G' as [G' ML'].
        rewrite thread_holds_false; [reflexivity|]. intros l.
        destruct (holds_by t (w_raw w' l)) eqn:E; [|reflexivity]. exfalso.
        destruct (qi_holds _ _ _ Qnew t l Rt E) as [X|X]; cbn [h_loc] in X; rewrite upd_same in X.
        -- unfold ghold in X. rewrite G' in X. exact X.
        -- rewrite (leaked_nil _ _ ML') in X. exact X.
      * destruct rc eqn:Erc; try reflexivity. destruct (last_blocked (rev (w_trace w'))) as [l|]; [|reflexivity].
        assert (IA : is_acquire o = true) by (apply (cq_stop _ _ _ _ _ _ _ CO); fold rc; rewrite Erc; reflexivity).
        destruct o; try discriminate IA. rewrite nth_snapshot_not_held; [reflexivity|].
        apply Hnone. eapply acq_haskey. exact Hp.
    + (* judge_C17 *)
      unfold judge_C17. cbn [co_ret co_holds co_evs]. fold lc rc.
      destruct (is_nonacq o) eqn:NA; [|reflexivity].
      destruct (run_nonblocking nopw t p (nonacq_nb _ _ _ _ NA Hp) w out w' Rn) as [Hnb [evs [T F]]].
      assert (Hsc : stop_code rc = false).
      { destruct (stop_code rc) eqn:E; [|reflexivity].
        pose proof (cq_stop _ _ _ _ _ _ _ CO E) as IA. rewrite (nonacq_not_acquire _ NA) in IA. discriminate. }
      apply andb_true_iff. split; [apply andb_true_iff; split|].
      * unfold w in T. cbn [clear_trace w_trace] in T. rewrite app_nil_r in T. rewrite T.
        apply nb_evs_bool. now apply Forall_rev.
      * destruct rc eqn:Erc; try reflexivity. exfalso. apply Hnb. eapply nonacq_not_blocked; eauto.
      * rewrite (snapshot_holds_ext nl w' (h_w h)); [apply holds_sim_refl|].
        intros x. rewrite (cq_raw _ _ _ _ _ _ _ CO Hsc x). fold rc. now rewrite raw_after_nonacq.
  - (* the call is not possible in this user state *)
    rewrite (hstep_none _ nl np h t o (qi_stop _ _ _ Q) Hp) in St. inversion St; subst h' co. clear St.
    cbn [co_ret co_evs co_holds].
    split; [|split; [|split; [reflexivity|split; [exact Hs'|]]]].
    + unfold judge_C03. cbn [co_ret co_holds co_evs]. rewrite key_back_skipped.
      destruct (is_acquire o); reflexivity.
    + unfold judge_C17. cbn [co_ret co_holds co_evs]. destruct (is_nonacq o); [|reflexivity].
      cbn. apply holds_sim_refl.
    + intros _. apply (qinv_ext sc h ms); [|exact Q]. intros x. rewrite track_skipped.
      destruct (Nat.eq_dec x t) as [->|Hx]; [now rewrite upd_same|now rewrite upd_other].
Qed.

(* ---------------------------------------------------------------- whole histories *)
Definition jsel (b : bool) := if b then judge_C03 else judge_C17.

Lemma mfold_hist sc (b : bool) :
  wf_hist sc ->
  forall hist, (forall x, In x hist -> In x (sc_hist sc)) ->
  forall h ms, qinv sc h ms ->
  mfold (jsel b) ms (snapshot_holds (sc_nlocks sc) (h_w h)) hist
        (snd (hrun (sc_env sc) (sc_nlocks sc) (sc_npids sc) h hist)) = true.
Proof.
  intros W. induction hist as [|[t o] r IH]; intros Hsub h ms Q; [reflexivity|].
  destruct (qstep sc (sc_nlocks sc) (sc_npids sc) h ms t o W Q (Hsub _ (or_introl eq_refl)))
    as [h' [co [St [Ht [J3 [J17 [Hh [Hs' Q']]]]]]]].
  rewrite (hrun_cons _ _ _ h (t, o) r h' [co] St). cbn [app mfold].
  rewrite Ht, Nat.eqb_refl. cbn [andb].
  assert (Jb : jsel b ms (snapshot_holds (sc_nlocks sc) (h_w h)) t o co = true) by (destruct b; assumption).
  rewrite Jb. cbn [andb].
  destruct (stop_code (co_ret co)) eqn:Sc; [reflexivity|].
  rewrite Hh. apply IH; [|now apply Q'].
  intros x Hx. apply Hsub. now right.
Qed.

(* C03 and C17, for EVERY fault-free history of any number of threads over any collections: the monitors that
   the check evaluates on the implementation hold of the model *)
Theorem C03_all_histories sc : wf_hist sc -> mon_C03 sc (model_obs sc) = true.
Proof.
  intros W. unfold mon_C03, run_monitor, model_obs, pre_holds.
  apply (mfold_hist sc true W (sc_hist sc) (fun x H => H) _ _ (qinv_init sc W)).
Qed.

Theorem C17_all_histories sc : wf_hist sc -> mon_C17 sc (model_obs sc) = true.
Proof.
  intros W. unfold mon_C17, run_monitor, model_obs, pre_holds.
  apply (mfold_hist sc false W (sc_hist sc) (fun x H => H) _ _ (qinv_init sc W)).
Qed.

(* ---------------------------------------------------------------- the hypotheses are decidable *)
Fixpoint ndb (l : list nat) : bool :=
  match l with [] => true | x :: r => negb (memb x r) && ndb r end.

Lemma ndb_NoDup l : ndb l = true -> NoDup l.
Proof.
  induction l as [|x r IH]; simpl; intros H; [constructor|].
  apply andb_true_iff in H. destruct H as [H1 H2]. constructor; [|now apply IH].
  intros Hin. apply memb_In in Hin. rewrite Hin in H1. discriminate.
Qed.

Definition wf_rawstb (s : rawst) : bool :=
  match writer s with None => true | Some _ => is_nil (readers s) end.

Lemma wf_rawstb_ok s : wf_rawstb s = true -> wf_rawst s.
Proof.
  unfold wf_rawstb, wf_rawst. destruct (writer s); intros H Hw; [|congruence]. destruct (readers s); [reflexivity|discriminate].
Qed.

Definition wf_histb (sc : scen) : bool :=
  is_nil (sc_f1 sc) && is_nil (sc_fp sc) && Nat.leb 2 (sc_fuel sc) &&
  forallb (fun x : tid * apiop =>
             match snd x with
             | AAcquire c _ _ => match nth_error (sc_colls sc) c with
                                 | Some s => acquirable s && ndb (leaves s)
                                 | None => false
                                 end
             | _ => true
             end) (sc_hist sc) &&
  forallb (fun x : lock * rawst =>
             wf_rawstb (snd x) && forallb (fun t => negb (holds_by t (snd x))) (threads_of (sc_hist sc))) (sc_pre sc).

Definition pre_raw (pre : list (lock * rawst)) : St :=
  fold_right (fun (x : lock * rawst) f => upd f (fst x) (snd x)) (fun _ => raw_free) pre.

Lemma pre_raw_cases (pre : list (lock * rawst)) l :
  pre_raw pre l = raw_free \/ exists k, In (k, pre_raw pre l) pre.
Proof.
  induction pre as [|[k s] r IH]; cbn [pre_raw fold_right fst snd]; [now left|]. fold (pre_raw r).
  destruct (Nat.eqb_spec l k) as [->|Hn].
  - rewrite upd_same. right. exists k. now left.
  - rewrite upd_other by exact Hn. destruct IH as [IH|[k' IH]]; [now left|]. right. exists k'. now right.
Qed.

Lemma wf_histb_ok sc : wf_histb sc = true -> wf_hist sc.
Proof.
  unfold wf_histb. intros H. repeat (apply andb_true_iff in H; destruct H as [H ?]).
  rename H into F1, H3 into FP, H2 into FU, H1 into HC, H0 into HP.
  rewrite forallb_forall in HC, HP.
  constructor.
  - now apply is_nil_true.
  - now apply is_nil_true.
  - now apply Nat.leb_le.
  - intros t c m f Hin. specialize (HC _ Hin). cbn [snd] in HC.
    destruct (nth_error (sc_colls sc) c) as [s|]; [|discriminate]. exists s. split; [reflexivity|].
    apply andb_true_iff in HC. destruct HC as [Ha Hn]. split; [exact Ha|now apply ndb_NoDup].
  - intros l. unfold sc_world. cbn [w_raw]. fold (pre_raw (sc_pre sc)).
    destruct (pre_raw_cases (sc_pre sc) l) as [E|[k Hin]].
    + rewrite E. intros _. reflexivity.
    + specialize (HP _ Hin). cbn [snd] in HP. apply andb_true_iff in HP. now apply wf_rawstb_ok.
  - intros t l Rt. unfold sc_world. cbn [w_raw]. fold (pre_raw (sc_pre sc)).
    destruct (pre_raw_cases (sc_pre sc) l) as [E|[k Hin]].
    + rewrite E. reflexivity.
    + specialize (HP _ Hin). cbn [snd] in HP. apply andb_true_iff in HP. destruct HP as [_ HP].
      rewrite forallb_forall in HP. specialize (HP t Rt). now apply negb_true_iff in HP.
Qed.

Corollary C03_all_histories_dec sc : wf_histb sc = true -> mon_C03 sc (model_obs sc) = true.
Proof. intros H. apply C03_all_histories. now apply wf_histb_ok. Qed.
Corollary C17_all_histories_dec sc : wf_histb sc = true -> mon_C17 sc (model_obs sc) = true.
Proof. intros H. apply C17_all_histories. now apply wf_histb_ok. Qed.
