(* Pf_Hist.v — an invariant of fault-free, API-call-atomic histories of any number of threads, and from it the
   whole-history theorems of C03 and C17: the monitors hold of the model for EVERY such history. *)
From HL Require Import Base Model Shape Algo Api OpsLemmas Lemmas ShapeLemmas ApiLemmas QuietLemmas Pf_Calls Check Monitors Pf_C06.

(* ---------------------------------------------------------------- who holds what, per raw state *)
Definition wf_rawst (s : rawst) : Prop := writer s <> None -> readers s = [].

Lemma holds_by_acq1 u t k m s :
  can1 k m s = true -> holds_by u (acq1 t k m s) = (Nat.eqb u t || holds_by u s).
Proof.
  unfold can1, acq1, holds_by, writer_is. destruct s as [w r]. destruct (shared k m); simpl; intros C.
  - unfold no_writer in C. simpl in C. destruct w; [discriminate|]. simpl.
    rewrite (Nat.eqb_sym u t). reflexivity.
  - unfold is_free in C. simpl in C. destruct w; [discriminate|]. destruct r; [|discriminate]. simpl.
    rewrite (Nat.eqb_sym t u). now rewrite !orb_false_r.
Qed.

Lemma count_remove1 x t l : count x (remove1 t l) = count x l - (if Nat.eqb x t && memb t l then 1 else 0).
Proof.
  induction l as [|y r IH]; simpl; [now destruct (Nat.eqb x t)|].
  destruct (Nat.eqb_spec t y) as [->|Hn].
  - simpl. destruct (Nat.eqb_spec x y); simpl; lia.
  - simpl. rewrite IH. destruct (Nat.eqb_spec x y) as [->|Hxy]; simpl.
    + destruct (Nat.eqb_spec y t); [congruence|]. simpl. lia.
    + reflexivity.
Qed.

Lemma memb_count x l : memb x l = negb (Nat.eqb (count x l) 0).
Proof.
  induction l as [|y r IH]; simpl; [reflexivity|]. destruct (Nat.eqb_spec x y); simpl; [reflexivity|exact IH].
Qed.

(* releasing: the releasing thread no longer holds the lock if it held it at most once; others are unaffected *)
Lemma holds_by_rel1_other u t k m s : u <> t -> wf_rawst s -> held1 t k m s = true ->
  holds_by u (rel1 t k m s) = holds_by u s.
Proof.
  unfold rel1, held1, holds_by, writer_is. destruct s as [w r]. intros Hu Wf. destruct (shared k m); simpl; intros H.
  - f_equal. rewrite !memb_count, count_remove1. destruct (Nat.eqb_spec u t); [congruence|]. simpl. now rewrite Nat.sub_0_r.
  - destruct w as [x|]; [|discriminate]. apply Nat.eqb_eq in H. subst x. unfold wf_rawst in Wf. simpl in Wf.
    rewrite Wf by discriminate. simpl. destruct (Nat.eqb_spec t u); [congruence|reflexivity].
Qed.

Lemma holds_by_rel1_self t k m s : wf_rawst s -> held1 t k m s = true -> count t (readers s) <= 1 ->
  holds_by t (rel1 t k m s) = false.
Proof.
  unfold rel1, held1, holds_by, writer_is. destruct s as [w r]. intros Wf. destruct (shared k m); simpl; intros H Hc.
  - rewrite memb_count, count_remove1, Nat.eqb_refl, H. simpl.
    rewrite memb_count in H. apply negb_true_iff, Nat.eqb_neq in H.
    assert (count t r = 1) by lia. rewrite H0. simpl.
    destruct w as [x|]; [|reflexivity]. unfold wf_rawst in Wf. simpl in Wf. rewrite Wf in H0 by discriminate. discriminate.
  - destruct w as [x|]; [|discriminate]. unfold wf_rawst in Wf. simpl in Wf. now rewrite Wf by discriminate.
Qed.

Lemma wf_acq1 t k m s : can1 k m s = true -> wf_rawst s -> wf_rawst (acq1 t k m s).
Proof.
  unfold can1, acq1, wf_rawst. destruct (shared k m); simpl; intros C W H; [contradiction|reflexivity].
Qed.

Lemma wf_rel1 t k m s : wf_rawst s -> held1 t k m s = true -> wf_rawst (rel1 t k m s).
Proof.
  unfold rel1, held1, wf_rawst. destruct s as [w r]. destruct (shared k m); simpl; intros W H Hw.
  - rewrite W by exact Hw. reflexivity.
  - contradiction.
Qed.

Lemma count_acq1 x t k m s : can1 k m s = true ->
  count x (readers (acq1 t k m s)) = count x (readers s) + (if shared k m && Nat.eqb x t then 1 else 0).
Proof.
  unfold can1, acq1. destruct (shared k m); simpl; intros C.
  - destruct (Nat.eqb x t); lia.
  - unfold is_free in C. destruct s as [w r]. simpl in *. destruct w; [discriminate|]. destruct r; [reflexivity|discriminate].
Qed.

Lemma count_rel1_other x t k m s : x <> t -> count x (readers (rel1 t k m s)) = count x (readers s).
Proof.
  intros Hx. unfold rel1. destruct (shared k m); simpl; [|reflexivity].
  rewrite count_remove1. destruct (Nat.eqb_spec x t); [congruence|]. simpl. lia.
Qed.

Lemma count_rel1_le x t k m s : count x (readers (rel1 t k m s)) <= count x (readers s).
Proof. unfold rel1. destruct (shared k m); simpl; [rewrite count_remove1|]; lia. Qed.

(* ---------------------------------------------------------------- lists of leaves *)
Lemma acq_all_at t m ls f l :
  NoDup (locks_of ls) -> (forall k, In (k, l) ls -> acq_all t m ls f l = acq1 t k m (f l)).
Proof. intros ND k H. now apply acq_all_in. Qed.

Lemma holds_by_acq_all u t m ls f l :
  NoDup (locks_of ls) -> can_all m ls f = true ->
  holds_by u (acq_all t m ls f l) = ((Nat.eqb u t && memb l (locks_of ls)) || holds_by u (f l)).
Proof.
  intros ND C. destruct (in_dec Nat.eq_dec l (locks_of ls)) as [Hin|Hn].
  - destruct (in_locks_of _ _ Hin) as [k Hk]. rewrite (acq_all_in t m ls f k l ND Hk).
    rewrite holds_by_acq1.
    + rewrite (proj2 (memb_In l (locks_of ls)) Hin). now rewrite andb_true_r.
    + unfold can_all in C. rewrite forallb_forall in C. apply (C (k, l) Hk).
  - rewrite acq_all_other by exact Hn.
    assert (M : memb l (locks_of ls) = false).
    { destruct (memb l (locks_of ls)) eqn:E; [|reflexivity]. apply memb_In in E. contradiction. }
    rewrite M, andb_false_r. reflexivity.
Qed.

Lemma wf_acq_all t m ls f :
  NoDup (locks_of ls) -> can_all m ls f = true -> (forall l, wf_rawst (f l)) -> forall l, wf_rawst (acq_all t m ls f l).
Proof.
  intros ND C W l. destruct (in_dec Nat.eq_dec l (locks_of ls)) as [Hin|Hn].
  - destruct (in_locks_of _ _ Hin) as [k Hk]. rewrite (acq_all_in t m ls f k l ND Hk).
    apply wf_acq1; [|apply W]. unfold can_all in C. rewrite forallb_forall in C. apply (C (k, l) Hk).
  - rewrite acq_all_other by exact Hn. apply W.
Qed.

Lemma count_acq_all x t m ls f l :
  NoDup (locks_of ls) -> can_all m ls f = true ->
  count x (readers (acq_all t m ls f l)) <= count x (readers (f l)) + (if Nat.eqb x t && memb l (locks_of ls) then 1 else 0).
Proof.
  intros ND C. destruct (in_dec Nat.eq_dec l (locks_of ls)) as [Hin|Hn].
  - destruct (in_locks_of _ _ Hin) as [k Hk]. rewrite (acq_all_in t m ls f k l ND Hk).
    rewrite count_acq1 by (unfold can_all in C; rewrite forallb_forall in C; apply (C (k, l) Hk)).
    rewrite (proj2 (memb_In l (locks_of ls)) Hin), andb_true_r.
    destruct (shared k m), (Nat.eqb x t); simpl; lia.
  - rewrite acq_all_other by exact Hn. lia.
Qed.

Lemma holds_by_rel_all_other u t m ls f l :
  u <> t -> NoDup (locks_of ls) -> held_all t m ls f = true -> (forall x, wf_rawst (f x)) ->
  holds_by u (rel_all t m ls f l) = holds_by u (f l).
Proof.
  intros Hu ND H W. destruct (in_dec Nat.eq_dec l (locks_of ls)) as [Hin|Hn].
  - destruct (in_locks_of _ _ Hin) as [k Hk]. rewrite (rel_all_in t m ls f k l ND Hk).
    apply holds_by_rel1_other; [exact Hu|apply W|]. eapply held_all_in; eauto.
  - now rewrite rel_all_other.
Qed.

Lemma holds_by_rel_all_self t m ls f l :
  NoDup (locks_of ls) -> held_all t m ls f = true -> (forall x, wf_rawst (f x)) ->
  (forall x, count t (readers (f x)) <= 1) -> In l (locks_of ls) ->
  holds_by t (rel_all t m ls f l) = false.
Proof.
  intros ND H W Hc Hin. destruct (in_locks_of _ _ Hin) as [k Hk]. rewrite (rel_all_in t m ls f k l ND Hk).
  apply holds_by_rel1_self; [apply W| |apply Hc]. eapply held_all_in; eauto.
Qed.

Lemma wf_rel_all t m ls f :
  NoDup (locks_of ls) -> held_all t m ls f = true -> (forall l, wf_rawst (f l)) -> forall l, wf_rawst (rel_all t m ls f l).
Proof.
  intros ND H W l. destruct (in_dec Nat.eq_dec l (locks_of ls)) as [Hin|Hn].
  - destruct (in_locks_of _ _ Hin) as [k Hk]. rewrite (rel_all_in t m ls f k l ND Hk).
    apply wf_rel1; [apply W|]. eapply held_all_in; eauto.
  - rewrite rel_all_other by exact Hn. apply W.
Qed.

Lemma count_rel_all_le x t m ls f l :
  NoDup (locks_of ls) -> count x (readers (rel_all t m ls f l)) <= count x (readers (f l)).
Proof.
  intros ND. destruct (in_dec Nat.eq_dec l (locks_of ls)) as [Hin|Hn].
  - destruct (in_locks_of _ _ Hin) as [k Hk]. rewrite (rel_all_in t m ls f k l ND Hk). apply count_rel1_le.
  - rewrite rel_all_other by exact Hn. lia.
Qed.

(* ---------------------------------------------------------------- the invariant *)
Definition real (sc : scen) (t : tid) : Prop := In t (threads_of (sc_hist sc)).

Definition ghold (lc : tlocal) : list lock :=
  match guard lc with Some g => locks_of (gleaves (g_items g)) | None => [] end.

Definition leaked (sc : scen) (mt : mthread) : list lock :=
  flat_map (fun cm => leaves (shape_of sc (fst cm))) (mt_leak mt).

(* what a history is allowed to mention: collections that can be acquired, without duplicate locks *)
Record wf_hist (sc : scen) : Prop := {
  wh_f1 : sc_f1 sc = [];
  wh_fp : sc_fp sc = [];
  wh_fuel : 2 <= sc_fuel sc;
  wh_colls : forall t c m f, In (t, AAcquire c m f) (sc_hist sc) ->
             exists s, nth_error (sc_colls sc) c = Some s /\ acquirable s = true /\ NoDup (leaves s);
  wh_pre_wf : forall l, wf_rawst (w_raw (sc_world sc) l);
  (* the threads of the history hold nothing at the start (the pre-existing holds belong to other threads) *)
  wh_pre_free : forall t l, real sc t -> holds_by t (w_raw (sc_world sc) l) = false
}.

Record qinv (sc : scen) (h : hstate) (ms : tid -> mthread) : Prop := {
  qi_stop : h_stop h = false;
  qi_quiet : quiet (h_w h);
  qi_wf : forall l, wf_rawst (w_raw (h_w h) l);
  qi_cnt : forall t l, real sc t -> count t (readers (w_raw (h_w h) l)) <= 1;
  qi_guard : forall t m items, guard (h_loc h t) = Some (mkg m items) ->
      real sc t /\ NoDup (locks_of (gleaves items)) /\ held_all t m (gleaves items) (w_raw (h_w h)) = true /\
      exists c, mt_guard (ms t) = Some (c, m) /\ items = gitems (shape_of sc c);
  qi_holds : forall t l, real sc t -> holds_by t (w_raw (h_w h) l) = true ->
      In l (ghold (h_loc h t)) \/ In l (leaked sc (ms t));
  qi_leak : forall t, mt_leak (ms t) <> [] -> mt_key (ms t) = KLeaked;
  qi_J : J h ms
}.

Lemma count_zero_not_holding t s : holds_by t s = false -> count t (readers s) = 0.
Proof.
  unfold holds_by. intros H. apply orb_false_iff in H. destruct H as [_ H].
  rewrite memb_count in H. apply negb_false_iff, Nat.eqb_eq in H. exact H.
Qed.

Lemma qinv_init sc : wf_hist sc -> qinv sc (mkh (sc_world sc) (fun _ => tl0) false) (fun _ => mt0).
Proof.
  intros W. constructor; cbn [h_w h_loc h_stop].
  - reflexivity.
  - unfold sc_world. repeat split; cbn; [apply (wh_f1 _ W)|apply (wh_fp _ W)].
  - apply (wh_pre_wf _ W).
  - intros t l R. rewrite (count_zero_not_holding t _ (wh_pre_free _ W t l R)). lia.
  - intros t m items H. discriminate H.
  - intros t l R H. rewrite (wh_pre_free _ W t l R) in H. discriminate.
  - intros t H. exfalso. apply H. reflexivity.
  - intros x. split; [reflexivity|]. unfold Rk. cbn. split; [discriminate|reflexivity].
Qed.

(* a thread with the key in hand holds nothing *)
Lemma haskey_holds_nothing sc h ms t :
  qinv sc h ms -> real sc t -> haskey (h_loc h t) = true -> forall l, holds_by t (w_raw (h_w h) l) = false.
Proof.
  intros Q R Hk l. destruct (holds_by t (w_raw (h_w h) l)) eqn:E; [|reflexivity]. exfalso.
  destruct (qi_J _ _ _ Q t) as [_ HR]. unfold Rk in HR. rewrite Hk in HR.
  destruct (guard (h_loc h t)) eqn:G; [contradiction|]. destruct HR as [Hkey _].
  destruct (qi_holds _ _ _ Q t l R E) as [H|H].
  - unfold ghold in H. rewrite G in H. destruct H.
  - unfold leaked in H. destruct (mt_leak (ms t)) eqn:L; [destruct H|].
    assert (X : mt_key (ms t) = KLeaked) by (apply (qi_leak _ _ _ Q); rewrite L; discriminate). congruence.
Qed.

Lemma existsb_map_false {A B} (f : A -> B) (p : B -> bool) l :
  (forall x, In x l -> p (f x) = false) -> existsb p (map f l) = false.
Proof.
  induction l as [|a r IH]; intros H; simpl; [reflexivity|].
  rewrite H by (now left). apply IH. intros x Hx. apply H. now right.
Qed.

Lemma thread_holds_false t nl w :
  (forall l, holds_by t (w_raw w l) = false) -> thread_holds t (snapshot_holds nl w) = false.
Proof.
  intros H. unfold thread_holds, snapshot_holds. rewrite existsb_map_false; [reflexivity|]. intros l _. apply H.
Qed.
