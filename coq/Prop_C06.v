(* Prop_C06.v — C06: at most one live ThreadKey per thread, over every history.
   The theorem has NO hypotheses: for every scenario whatsoever (any shapes, any number of threads, any
   API history over the whole vocabulary — get / drop / forget, every acquisition flavour with lent or
   moved key, unlock, guard drop / forget, panicking closures and panics with live guards, poisoned results —
   with or without injected raw-lock faults), the model's observation satisfies the monitor:
   ThreadKey::get returns a key iff none is alive on that thread; inside a running scoped call the key
   is never obtainable; after every call the key is obtainable exactly when it is neither alive nor leaked. *)
From HL Require Import Base Model Shape Algo Api Check Monitors Pf_C06.
From HL Require Import Conc Wp WpApi.
From HL Require WpMain.

Theorem C06_one_key : forall sc, mon_C06 sc (model_obs sc) = true.
Proof. exact C06_main. Qed.

Check C06_one_key : forall sc, mon_C06 sc (model_obs sc) = true.

(* the key flag after any single API call, as a function of how the call ended *)
Theorem C06_call_effect :
  forall e t lc mt o p w out w',
    api_prog e lc o = Some p -> Rk lc mt -> w_keyf w t = keyflag mt ->
    run nopw t p w = (out, w') ->
    call_spec t mt o w w' (fst (api_fin e lc o out)) (snd (api_fin e lc o out)).
Proof. exact call_C06. Qed.

(* keys of different threads are independent: a call of t never changes the flag of another thread *)
Corollary C06_threads_independent :
  forall e t lc mt o p w out w' x,
    api_prog e lc o = Some p -> Rk lc mt -> w_keyf w t = keyflag mt ->
    run nopw t p w = (out, w') -> x <> t -> w_keyf w' x = w_keyf w x.
Proof. intros. now apply (call_C06 e t lc mt o p w out w'). Qed.

(* non-vacuity / sanity: a history with a leaked guard, a failed second get and a panicking closure *)
Definition ex06 : scen :=
  mks 2 1 [0; 1] [] [SLeaf KMutex 0; SPoison 0 (SLeaf KRw 1); SBoxed (SSeq [SLeaf KMutex 0; SPoison 0 (SLeaf KRw 1)])] [] [] [] 4
      [(0, AKeyGet); (0, AKeyGet); (0, AAcquire 2 Ex (FScoped true [CProbe; CWrite 0; CPanic]));
       (0, AAcquire 0 Ex FGuard); (0, AGuardForget); (0, AKeyGet);
       (1, AKeyGet); (1, AAcquire 1 Sh (FScopedTry false [CRead 0])); (1, AKeyGet); (1, APanic); (1, AKeyGet)].
Example C06_example :
  map co_ret (model_obs ex06) =
  [RB true; RB false; RPanicked; ROk; ROk; RB false; RB true; ROk; RB true; RPanicked; RB true].
Proof. vm_compute. reflexivity. Qed.

(* interleaved model, every schedule: at every call boundary, a key that is in use (in the thread's hand or inside its live
   guard) keeps the thread-local flag set — ThreadKey::get() on that thread fails, so a second live key cannot come into
   existence however the threads interleave *)
Theorem C06_every_schedule_key_in_use_flag_set :
  forall b sched t o k out, WpMain.wfB b = true ->
  let sc := bs_sc b in
  let s := fst (run_sched_g false false true (bs_wp b) (sc_env sc) (sc_nlocks sc) (binit b) sched) in
  let th := get_thr (b_thr s) t in
  th_over th = false -> th_cur th = Some (o, Op bpause_op k) -> k (VBool false) = term_of out ->
  (match out with ODone _ | OPanic => True | _ => False end) ->
  let lc' := fst (api_fin (sc_env sc) (th_loc th) o out) in
  haskey lc' = true \/ guard lc' <> None ->
  w_keyf (b_w s) t = true.
Proof. exact WpMain.every_schedule_key_in_use_flag_set. Qed.

Print Assumptions C06_one_key.
Print Assumptions C06_call_effect.
Print Assumptions C06_every_schedule_key_in_use_flag_set.
