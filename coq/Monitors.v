(* Monitors.v — for each property an executable, decidable statement of it on (scenario, observation),
   evaluated both on the model's observation (theorems Prop_Cxx.v) and on the implementation's
   observation (the check), plus the projection under which the two observations are compared. *)
From HL Require Import Base Model Shape Algo Api Check.

Definition pre_holds (sc : scen) : list rawst := snapshot_holds (sc_nlocks sc) (sc_world sc).
Definition holds_sim (a b : list rawst) : bool := list_eqb rawst_sim a b.

(* ---------------------------------------------------------------- C13: try_* exact in quiescent states *)
Definition leaf_avail (m : mode) (s : rawst) : bool :=
  match m with Ex => is_free s | Sh => no_writer s end.

(* every leaf of the shape is held by t in mode m according to a snapshot *)
Definition held_in (m : mode) (t : tid) (s : rawst) : bool :=
  match m with Ex => writer_is s t | Sh => memb t (readers s) end.

Definition all_held (m : mode) (t : tid) (ls : list lock) (holds : list rawst) : bool :=
  forallb (fun l => held_in m t (nth l holds raw_free)) ls.

Definition ps_C13 : projspec := mkps ev_none true false false.

Definition mon_C13 (sc : scen) (obs : list callobs) : bool :=
  match sc_hist sc, obs with
  | [(t, AKeyGet); (_, AAcquire c m FTry); (_, AGuardDrop)], [o1; o2; o3] =>
      match nth_error (sc_colls sc) c with
      | Some s =>
          let pre := pre_holds sc in
          let expect := forallb (fun l => leaf_avail m (nth l pre raw_free)) (leaves s) in
          if expect then
            rcode_eqb (co_ret o2) ROk && all_held m t (leaves s) (co_holds o2) &&
            rcode_eqb (co_ret o3) ROk && holds_sim (co_holds o3) pre
          else
            rcode_eqb (co_ret o2) RWouldBlock && holds_sim (co_holds o2) pre && holds_sim (co_holds o3) pre
      | None => false
      end
  | [(t, AKeyGet); (_, AAcquire c m (FScopedTry lent body))], [o1; o2] =>
      (* scoped_try_lock / scoped_try_read: the closure runs (the call returns Ok, or unwinds if the closure panics)
         exactly when every leaf is available; either way the hold table is afterwards as it was *)
      match nth_error (sc_colls sc) c with
      | Some s =>
          let pre := pre_holds sc in
          let expect := forallb (fun l => leaf_avail m (nth l pre raw_free)) (leaves s) in
          (if expect then rcode_eqb (co_ret o2) ROk || rcode_eqb (co_ret o2) RPanicked
           else rcode_eqb (co_ret o2) RWouldBlock) &&
          holds_sim (co_holds o2) pre
      | None => false
      end
  | _, _ => false
  end.

Definition check_C13 := check_with ps_C13 mon_C13.

(* the same statement on a POISONED wrapper: the history first poisons the root (an exclusive scoped call with a lent key
   whose closure panics; every leaf is free, so that call runs), then tries.  "try succeeds iff no leaf is held": the
   poison flag changes what the successful call returns (an error carrying a working guard / Err for the closure), never
   whether it acquires. *)
Definition ok_or_poisoned (r : rcode) : bool := rcode_eqb r ROk || rcode_eqb r RPoisoned.

Definition mon_C13p (sc : scen) (obs : list callobs) : bool :=
  let pre := pre_holds sc in
  match sc_hist sc, obs with
  | [(t, AKeyGet); (_, AAcquire c0 Ex (FScoped true _)); (_, AAcquire c m FTry); (_, AGuardDrop)], [o1; op; o2; o3] =>
      match nth_error (sc_colls sc) c with
      | Some s =>
          rcode_eqb (co_ret op) RPanicked && holds_sim (co_holds op) pre &&
          ok_or_poisoned (co_ret o2) && all_held m t (leaves s) (co_holds o2) &&
          rcode_eqb (co_ret o3) ROk && holds_sim (co_holds o3) pre
      | None => false
      end
  | [(t, AKeyGet); (_, AAcquire c0 Ex (FScoped true _)); (_, AAcquire c m (FScopedTry lent body))], [o1; op; o2] =>
      rcode_eqb (co_ret op) RPanicked && holds_sim (co_holds op) pre &&
      (rcode_eqb (co_ret o2) ROk || rcode_eqb (co_ret o2) RPanicked) &&
      existsb (fun e => match e with EMark _ _ => true | _ => false end) (co_evs o2) &&
      holds_sim (co_holds o2) pre
  | _, _ => false
  end.

Definition check_C13p := check_with ps_C13 mon_C13p.

(* the auditing lock turns a release by a thread that does not hold the lock into a flagged no-op; with a real raw lock it
   would end somebody else's hold (C02: a second thread enters the exclusive section; C13 / C04: a failed try that changes
   the hold state).  No execution may contain one. *)
Definition ev_not_bad (e : ev) : bool := match e with ERaw _ _ _ RBad => false | _ => true end.
Definition no_bad_release (obs : list callobs) : bool := forallb (fun co => forallb ev_not_bad (co_evs co)) obs.

(* C17, next to mon_C17: a non-acquiring call (Debug formatting, is_poisoned, clear_poison) issues no release that the
   auditing lock flags — a release of a lock the caller does not hold would end somebody else's hold if the lock were
   held at that moment, whatever the hold table of this particular run looks like afterwards *)
Fixpoint nonacq_no_bad_release (h : list (tid * apiop)) (obs : list callobs) : bool :=
  match h, obs with
  | (_, o) :: h', co :: obs' =>
      (match o with
       | AFmt _ | AIsPoisoned _ | AClearPoison _ =>
           forallb (fun e => match e with ERaw _ _ _ RBad => false | _ => true end) (co_evs co)
       | _ => true
       end) && nonacq_no_bad_release h' obs'
  | _, _ => true
  end.

(* C10, probes inside one hold (harness/src/psn.rs): a wrapper that is clean or already poisoned ([init]) is acquired in
   some flavour; inside the hold user code may call clear_poison ([clear] = 1) and may then panic; or clear_poison is called
   after the hold ([clear] = 2).  The property's clause: what the acquisition shows is the flag at that time; afterwards the
   wrapper is poisoned iff, since the last clear_poison, a panic unwound while an exclusive hold was live (a panic during a
   shared hold leaves it open). *)
Definition c10_probe_ok (excl init : bool) (clear : nat) (panic seen after : bool) : bool :=
  Bool.eqb seen init &&
  match clear with
  | 2 => negb after
  | _ => let f1 := match clear with 1 => false | _ => init end in
         if panic then (if excl then after else true) else Bool.eqb after f1
  end.

(* C11, probes with a lock killed by user code while it is held (harness/src/kil.rs: `RawLock::poison` is a safe public
   method; the model's history vocabulary has no such call): the hold still ends like any other.  [n] member locks, each
   acquired once; every one released exactly once in the mode of the hold, no release that the counting lock flags (not
   held / wrong mode), the key obtainable again, and the user-code panic — iff there was one — reached the caller. *)
Definition c11_kill_probe_ok (n : nat) (shared panic : bool) (acq relex relsh bad : nat) (key panicked : bool) : bool :=
  Nat.eqb acq n &&
  (if shared then Nat.eqb relsh n && Nat.eqb relex 0 else Nat.eqb relex n && Nat.eqb relsh 0) &&
  Nat.eqb bad 0 && key && Bool.eqb panicked panic.

(* C10, "a poisoned acquisition still acquires the lock": a non-blocking acquisition (try / scoped try) of a Poisonable
   root whose leaves are all available in the hold table left by the previous call (histories are API-call-atomic) does
   not report WouldBlock, whatever the poison flag says.  Evaluated on the implementation's observation next to mon_C10. *)
Fixpoint still_acquires (sc : scen) (prev : list rawst) (h : list (tid * apiop)) (obs : list callobs) : bool :=
  match h, obs with
  | (t, o) :: h', co :: obs' =>
      (match o with
       | AAcquire c m (FTry | FScopedTry _ _) =>
           match nth_error (sc_colls sc) c with
           | Some s =>
               match root_poison s with
               | Some _ => if forallb (fun l => leaf_avail m (nth l prev raw_free)) (leaves s)
                           then negb (rcode_eqb (co_ret co) RWouldBlock) else true
               | None => true
               end
           | None => true
           end
       | _ => true
       end) && still_acquires sc (co_holds co) h' obs'
  | _, _ => true
  end.


(* ---------------------------------------------------------------- C07: duplicate detection is exact *)
(* [sorting]: boxed/ref (true) or retrying (false); [got]: the checked constructor returned Some *)
Definition model_try_new (sorting : bool) (am : addrmap) (s : shape) : bool :=
  if sorting then try_new_sorting am s else try_new_retry am s.
Definition mon_C07 (s : shape) (got : bool) : bool := Bool.eqb got (nodupb (trefs s)).
Definition check_C07 (sorting : bool) (laddrs uaddrs : list nat) (s : shape) (got : bool) : verdict :=
  let am := mkam (fun l => nth l laddrs 0) (fun u => nth u uaddrs 0) in
  let ok := Bool.eqb (model_try_new sorting am s) got in
  mkv ok ok (mon_C07 s got) (mon_C07 s got).

(* ---------------------------------------------------------------- C08: one arrangement-independent order *)
(* history: t: get, lock/read c1, unlock; t2: get, lock/read c2, unlock *)
Definition ps_C08 : projspec := mkps ev_is_blocking_raw false false false.

Definition mon_C08 (sc : scen) (obs : list callobs) : bool :=
  match obs with
  | [_; oa; _; _; ob; _] =>
      let la := blk_locks (co_evs oa) in
      let lb := blk_locks (co_evs ob) in
      rcode_eqb (co_ret oa) ROk && rcode_eqb (co_ret ob) ROk &&
      list_eqb Nat.eqb (filter (fun l => memb l lb) la) (filter (fun l => memb l la) lb)
  | _ => false
  end.

Definition check_C08 := check_with ps_C08 mon_C08.

(* ================================================================ history monitors ================ *)
(* What a client can know about a thread from the calls it made and what they returned. *)
Inductive kst := KFree | KHeld | KLeaked.      (* the thread's key: obtainable / alive (hand, guard, running call) / leaked *)

Record mthread := mkmt {
  mt_key : kst;
  mt_guard : option (nat * mode);              (* live guard: collection index, mode *)
  mt_leak : list (nat * mode)                  (* guards leaked with mem::forget *)
}.
Definition mt0 : mthread := mkmt KFree None [].

Definition stop_code (r : rcode) : bool :=
  match r with RBlockedC | RAborted | RFuelOut => true | _ => false end.

Definition track (mt : mthread) (o : apiop) (r : rcode) : mthread :=
  match r with
  | RSkipped | RBlockedC | RAborted | RFuelOut => mt
  | _ =>
    match o with
    | AKeyGet => match r with RB true => mkmt KHeld (mt_guard mt) (mt_leak mt) | _ => mt end
    | AKeyDrop => mkmt KFree (mt_guard mt) (mt_leak mt)
    | AKeyForget => mkmt KLeaked (mt_guard mt) (mt_leak mt)
    | AAcquire c m f =>
        match f, r with
        | (FGuard | FTry), (ROk | RPoisoned) => mkmt KHeld (Some (c, m)) (mt_leak mt)
        | _, RWouldBlock => mt
        | (FGuard | FTry), _ => mkmt KFree None (mt_leak mt)                (* panicked: key dropped by unwinding *)
        | (FScoped true _ | FScopedTry true _), _ => mt                       (* key only lent *)
        | (FScoped false _ | FScopedTry false _), _ => mkmt KFree None (mt_leak mt)
        end
    | AGuardDrop => mkmt KFree None (mt_leak mt)
    | AGuardUnlock => mkmt (match r with ROk => KHeld | _ => KFree end) None (mt_leak mt)
    | AGuardForget => match mt_guard mt with
                      | Some g => mkmt KLeaked None (g :: mt_leak mt)
                      | None => mt
                      end
    | APanic => mkmt (match mt_key mt with KLeaked => KLeaked | _ => KFree end) None (mt_leak mt)
    | _ => mt
    end
  end.

Definition holds_by (t : tid) (s : rawst) : bool := writer_is s t || memb t (readers s).
Definition thread_holds (t : tid) (holds : list rawst) : bool := existsb (holds_by t) holds.

Definition shape_of (sc : scen) (c : nat) : shape :=
  match nth_error (sc_colls sc) c with Some s => s | None => SSeq [] end.

(* generic fold: [f] judges one call given the tracker state before it, the snapshot before it, the op and
   its observation *)
Section Fold.
  Variable judge : (tid -> mthread) -> list rawst -> tid -> apiop -> callobs -> bool.
  Fixpoint mfold (ms : tid -> mthread) (prev : list rawst) (hist : list (tid * apiop)) (obs : list callobs) : bool :=
    match hist, obs with
    | _, [] => true                                  (* the run was cut short (blocked call): nothing more to judge *)
    | [], _ :: _ => false
    | (t, o) :: hr, co :: orr =>
        Nat.eqb t (co_tid co) && judge ms prev t o co &&
        (if stop_code (co_ret co) then true
         else mfold (upd ms t (track (ms t) o (co_ret co))) (co_holds co) hr orr)
    end.
End Fold.

Definition run_monitor (judge : (tid -> mthread) -> list rawst -> tid -> apiop -> callobs -> bool)
           (sc : scen) (obs : list callobs) : bool :=
  mfold judge (fun _ => mt0) (pre_holds sc) (sc_hist sc) obs.

(* C13 at every non-blocking acquisition of every history: histories are API-call-atomic, so every call runs with no
   concurrent activity; a try / scoped try is refused exactly when some leaf of its root is unavailable in the hold table
   left by the previous call (held in any mode for an exclusive try, held exclusively for a shared try) *)
Definition judge_C13h (sc : scen) (ms : tid -> mthread) (prev : list rawst) (t : tid) (o : apiop) (co : callobs) : bool :=
  match o with
  | AAcquire c m (FTry | FScopedTry _ _) =>
      match co_ret co with
      | RSkipped => true
      | r => Bool.eqb (rcode_eqb r RWouldBlock)
                      (negb (forallb (fun l => leaf_avail m (nth l prev raw_free)) (leaves (shape_of sc c))))
      end
  | _ => true
  end.
Definition mon_C13h (sc : scen) : list callobs -> bool := run_monitor (judge_C13h sc) sc.

(* next to mon_C13h: "a failed attempt leaves the hold state of every lock exactly as it was" — a try issues no release that
   the auditing lock flags (it only flags it; a real raw lock would change state).  Implied for the model by C05_every_history. *)
Fixpoint try_no_bad_release (h : list (tid * apiop)) (obs : list callobs) : bool :=
  match h, obs with
  | (_, o) :: h', co :: obs' =>
      (match o with
       | AAcquire _ _ (FTry | FScopedTry _ _) => forallb ev_not_bad (co_evs co)
       | _ => true
       end) && try_no_bad_release h' obs'
  | _, _ => true
  end.
Definition check_C13h := check_with (mkps (fun e => match e with ERaw _ _ _ _ => true | _ => false end) true false false) mon_C13h.

(* ---------------------------------------------------------------- C06: at most one live key per thread *)
Definition key_free (k : kst) : bool := match k with KFree => true | _ => false end.

Definition ev_probe_true (e : ev) : bool := match e with EProbe _ true => true | _ => false end.

Definition judge_C06 (ms : tid -> mthread) (prev : list rawst) (t : tid) (o : apiop) (co : callobs) : bool :=
  let before := ms t in
  let after := track before o (co_ret co) in
  (* get returns a key iff none is alive *)
  (match o, co_ret co with
   | AKeyGet, RB b => Bool.eqb b (key_free (mt_key before))
   | AKeyGet, _ => false
   | _, _ => true
   end) &&
  (* while a call runs with the key lent or moved into it, the key is not obtainable *)
  negb (existsb ev_probe_true (co_evs co)) &&
  (* after the call the key is obtainable exactly when it is neither alive nor leaked *)
  (if stop_code (co_ret co) then true else Bool.eqb (co_keyfree co) (key_free (mt_key after))).

Definition mon_C06 := run_monitor judge_C06.
Definition ps_C06 : projspec := mkps (fun e => match e with EProbe _ _ => true | _ => false end) false false true.
Definition check_C06 := check_with ps_C06 mon_C06.

(* ---------------------------------------------------------------- C03: a thread that can acquire holds nothing *)
Definition is_acquire (o : apiop) : bool := match o with AAcquire _ _ _ => true | _ => false end.

(* calls after which the key is back with the thread (or obtainable again) *)
Definition key_back (o : apiop) (r : rcode) : bool :=
  match o, r with
  | (AGuardDrop | AGuardUnlock | APanic), (ROk | RPanicked) => true
  | AAcquire _ _ (FGuard | FTry), (RWouldBlock | RPanicked) => true
  | AAcquire _ _ (FScoped _ _ | FScopedTry _ _), (ROk | RWouldBlock | RPanicked) => true
  | _, _ => false
  end.

Fixpoint last_blocked (evs : list ev) : option lock :=
  match evs with
  | [] => None
  | e :: r => match last_blocked r with
              | Some l => Some l
              | None => match e with ERaw _ _ l RBlocked => Some l | _ => None end
              end
  end.

Definition judge_C03 (ms : tid -> mthread) (prev : list rawst) (t : tid) (o : apiop) (co : callobs) : bool :=
  let leaked := negb (is_nil (mt_leak (ms t))) in
  let r := co_ret co in
  (* starting an acquisition: nothing held *)
  (if is_acquire o && negb (rcode_eqb r RSkipped) then negb (thread_holds t prev) else true) &&
  (* key back: everything of that guard / call already released *)
  (if key_back o r && negb leaked then negb (thread_holds t (co_holds co)) else true) &&
  (* never waits for a lock it holds itself *)
  (match r, last_blocked (co_evs co) with
   | RBlockedC, Some l => negb (holds_by t (nth l prev raw_free))
   | _, _ => true
   end).

Definition mon_C03 := run_monitor judge_C03.
Definition ps_C03 : projspec := mkps (fun e => match e with ERaw _ _ _ RBlocked => true | _ => false end) true false false.
Definition check_C03 := check_with ps_C03 mon_C03.

(* ---------------------------------------------------------------- C04: all-or-nothing, exactly the leaves *)
Definition is_acq_rop (k : rop) : bool := match k with OLock | OTry | OLockSh | OTrySh => true | _ => false end.

(* locks this call holds when the closure is entered; number of closure entries *)
Fixpoint closure_scan (held : list lock) (evs : list ev) (want : list lock) : nat * bool :=
  match evs with
  | [] => (0, true)
  | e :: r =>
      match e with
      | ERaw _ k l (RUnit | RBool true) =>
          closure_scan (if is_acq_rop k then l :: held else remove1 l held) r want
      | EMark _ 1 =>
          let (n, ok) := closure_scan held r want in
          (S n, ok && forallb (fun l => memb l held) want)
      | _ => closure_scan held r want
      end
  end.

Definition nonblocking_evs (evs : list ev) : bool :=
  forallb (fun e => match e with ERaw _ k _ _ => negb (rop_blocking k) | _ => true end) evs.

Definition count_reader (t : tid) (s : rawst) : nat := count t (readers s).

Definition held_once (m : mode) (t : tid) (s : rawst) : bool :=
  match m with
  | Ex => writer_is s t && is_nil (readers s)
  | Sh => Nat.eqb (count_reader t s) 1 && no_writer s
  end.

Definition judge_C04 (sc : scen) (ms : tid -> mthread) (prev : list rawst) (t : tid) (o : apiop) (co : callobs) : bool :=
  match o with
  | AAcquire c m f =>
      let s := shape_of sc c in
      let r := co_ret co in
      let all_held := forallb (fun l => held_once m t (nth l (co_holds co) raw_free)) (leaves s) in
      let unchanged := holds_sim (co_holds co) prev in
      let (nclos, clos_ok) := closure_scan [] (co_evs co) (leaves s) in
      match r with
      | RSkipped => true
      | _ =>
        match f with
        | FGuard => match r with ROk | RPoisoned => all_held | _ => true end
        | FTry => nonblocking_evs (co_evs co) &&
                  match r with
                  | ROk | RPoisoned => all_held
                  | RWouldBlock => unchanged && negb (co_keyfree co)
                  | _ => true
                  end
        | FScoped _ _ =>
            match r with
            | ROk | RPanicked => Nat.eqb nclos 1 && clos_ok
            | _ => Nat.eqb nclos 0
            end
        | FScopedTry _ _ =>
            nonblocking_evs (co_evs co) &&
            match r with
            | ROk | RPanicked => Nat.eqb nclos 1 && clos_ok
            | RWouldBlock => Nat.eqb nclos 0 && unchanged
            | _ => Nat.eqb nclos 0
            end
        end
      end
  | _ => true
  end.

Definition mon_C04 (sc : scen) := run_monitor (judge_C04 sc) sc.
Definition ps_C04 : projspec := mkps (fun e => match e with ERaw _ _ _ _ | EMark _ _ => true | _ => false end) true false true.
Definition check_C04 := check_with ps_C04 mon_C04.

(* ---------------------------------------------------------------- C05: released exactly once, in mode, by holder *)
Definition ev_bad (e : ev) : bool := match e with ERaw _ _ _ RBad => true | _ => false end.
Definition is_rel_rop (k : rop) : bool := match k with OUnlock | OUnlockSh => true | _ => false end.

Definition releases_of (l : lock) (evs : list ev) : nat :=
  length (filter (fun e => match e with ERaw _ k l' RUnit => is_rel_rop k && Nat.eqb l l' | _ => false end) evs).

Definition guard_leaves (sc : scen) (g : option (nat * mode)) : list lock :=
  match g with Some (c, _) => leaves (shape_of sc c) | None => [] end.

Definition judge_C05 (sc : scen) (ms : tid -> mthread) (prev : list rawst) (t : tid) (o : apiop) (co : callobs) : bool :=
  let r := co_ret co in
  negb (existsb ev_bad (co_evs co)) &&
  (match o, r with
   | (AGuardDrop | AGuardUnlock), ROk =>
       (* every hold of the guard released exactly once, nothing else released *)
       let gl := guard_leaves sc (mt_guard (ms t)) in
       forallb (fun l => Nat.eqb (releases_of l (co_evs co)) 1) gl &&
       Nat.eqb (length (filter (fun e => match e with ERaw _ k _ _ => is_rel_rop k | _ => false end) (co_evs co)))
               (length gl) &&
       negb (existsb (fun l => holds_by t (nth l (co_holds co) raw_free)) gl)
   | AAcquire c _ (FScoped _ _ | FScopedTry _ _), (ROk | RPanicked) =>
       forallb (fun l => Nat.eqb (releases_of l (co_evs co)) 1) (leaves (shape_of sc c))
   | _, _ => true
   end).

(* when no guard is alive or leaked any more, every lock is as free as it was at the start *)
Fixpoint final_track (ms : tid -> mthread) (hist : list (tid * apiop)) (obs : list callobs) : (tid -> mthread) * bool :=
  match hist, obs with
  | (t, o) :: hr, co :: orr =>
      if stop_code (co_ret co) then (ms, true)
      else final_track (upd ms t (track (ms t) o (co_ret co))) hr orr
  | _, _ => (ms, false)
  end.

Definition threads_of (hist : list (tid * apiop)) : list tid := map fst hist.

Definition mon_C05 (sc : scen) (obs : list callobs) : bool :=
  run_monitor (judge_C05 sc) sc obs &&
  (let (ms, cut) := final_track (fun _ => mt0) (sc_hist sc) obs in
   if cut then true
   else if forallb (fun t => is_none (mt_guard (ms t)) && is_nil (mt_leak (ms t))) (threads_of (sc_hist sc))
        then holds_sim (last (map co_holds obs) (pre_holds sc)) (pre_holds sc)
        else true).

Definition ps_C05 : projspec :=
  mkps (fun e => match e with ERaw _ k _ _ => is_rel_rop k | _ => false end) true false false.
Definition check_C05 := check_with ps_C05 mon_C05.

(* ---------------------------------------------------------------- C17: non-acquiring operations *)
Definition is_nonacq (o : apiop) : bool :=
  match o with AIsPoisoned _ | AClearPoison _ | AFmt _ | AGuardRead _ | AKeyGet | AKeyDrop | AKeyForget => true | _ => false end.

Definition judge_C17 (ms : tid -> mthread) (prev : list rawst) (t : tid) (o : apiop) (co : callobs) : bool :=
  if is_nonacq o then
    nonblocking_evs (co_evs co) && negb (rcode_eqb (co_ret co) RBlockedC) && holds_sim (co_holds co) prev
  else true.

Definition mon_C17 := run_monitor judge_C17.
Definition ps_C17 : projspec := mkps ev_is_raw true false false.
Definition check_C17 := check_with ps_C17 mon_C17.

(* ---------------------------------------------------------------- C11: user panics leak nothing *)
Definition has_panic (f : flavour) : bool :=
  match f with
  | FScoped _ b | FScopedTry _ b => existsb (fun c => match c with CPanic => true | _ => false end) b
  | _ => false
  end.

Definition judge_C11 (sc : scen) (ms : tid -> mthread) (prev : list rawst) (t : tid) (o : apiop) (co : callobs) : bool :=
  let r := co_ret co in
  let leaked := negb (is_nil (mt_leak (ms t))) in
  let clean := negb (existsb ev_bad (co_evs co)) in
  match o with
  | APanic =>
      (* the panic reaches the caller; the live guard's holds are released once; the key is obtainable again *)
      rcode_eqb r RPanicked && clean &&
      (if leaked then true else negb (thread_holds t (co_holds co))) &&
      forallb (fun l => Nat.eqb (releases_of l (co_evs co)) 1) (guard_leaves sc (mt_guard (ms t))) &&
      Bool.eqb (co_keyfree co) (match mt_key (ms t) with KLeaked => false | _ => true end)
  | AAcquire c m f =>
      if has_panic f then
        match r with
        | RSkipped | RWouldBlock | RBlockedC => true
        | _ =>
            let (nclos, _) := closure_scan [] (co_evs co) [] in
            (* the closure ran, so its panic must propagate, every hold is released once, the key survives *)
            (if Nat.eqb nclos 1 then rcode_eqb r RPanicked else true) && clean &&
            negb (thread_holds t (co_holds co)) &&
            forallb (fun l => Nat.eqb (releases_of l (co_evs co)) 1) (leaves (shape_of sc c)) &&
            Bool.eqb (co_keyfree co) (negb (is_lent f))
        end
      else true
  | _ => true
  end.

Definition mon_C11 (sc : scen) := run_monitor (judge_C11 sc) sc.
Definition ps_C11 : projspec := mkps (fun e => match e with ERaw _ k _ _ => is_rel_rop k | EMark _ _ => true | _ => false end) true false true.
Definition check_C11 := check_with ps_C11 mon_C11.

(* ---------------------------------------------------------------- C10: poisoning tracks panics during holds *)
Inductive pst := PClean | PPoisoned | PDontCare.

Definition pst_after_panic (m : mode) (old : pst) : pst :=
  match old, m with
  | PPoisoned, _ => PPoisoned
  | _, Ex => PPoisoned
  | _, Sh => PDontCare          (* the statement leaves a panic during a shared hold open *)
  end.

Fixpoint see_bools (evs : list ev) : list bool :=
  match evs with
  | [] => []
  | ESee _ b :: r => b :: see_bools r
  | _ :: r => see_bools r
  end.

Definition pst_agrees (s : pst) (b : bool) : bool :=
  match s with PClean => negb b | PPoisoned => b | PDontCare => true end.

Fixpoint zip_agree (ps : pid -> pst) (pids : list pid) (bs : list bool) : bool :=
  match pids, bs with
  | p :: pr, b :: br => pst_agrees (ps p) b && zip_agree ps pr br
  | _, _ => true
  end.

Definition pids_of (sc : scen) (c : nat) : list pid := gpoisons (gitems (shape_of sc c)).

Definition upd_all (ps : pid -> pst) (pids : list pid) (f : pst -> pst) : pid -> pst :=
  fold_left (fun acc p => upd acc p (f (acc p))) pids ps.

(* [strict]: demand poisoning also when the panic unwound out of a scoped call of a *collection
   containing* the wrapper (the statement does; the code does not: known finding) *)
Definition c10_step (strict : bool) (sc : scen) (ms : tid -> mthread) (ps : pid -> pst)
           (t : tid) (o : apiop) (co : callobs) : (pid -> pst) :=
  let r := co_ret co in
  match o with
  | APanic =>
      match mt_guard (ms t), r with
      | Some (c, m), RPanicked => upd_all ps (pids_of sc c) (pst_after_panic m)
      | _, _ => ps
      end
  | AAcquire c m f =>
      let (nclos, _) := closure_scan [] (co_evs co) [] in
      if has_panic f && Nat.eqb nclos 1 && rcode_eqb r RPanicked then
        match root_poison (shape_of sc c) with
        | Some p =>
            (* the wrapper's own scoped call poisons it; wrappers nested below it only in strict mode *)
            let ps1 := upd ps p (pst_after_panic m (ps p)) in
            upd_all ps1 (filter (fun q => negb (Nat.eqb q p)) (pids_of sc c))
                    (if strict then pst_after_panic m else fun _ => PDontCare)
        | None => upd_all ps (pids_of sc c) (if strict then pst_after_panic m else fun _ => PDontCare)
        end
      else ps
  | AClearPoison c =>
      match root_poison (shape_of sc c), r with
      | Some p, ROk => upd ps p PClean
      | _, _ => ps
      end
  | _ => ps
  end.

Definition c10_judge (sc : scen) (ps ps' : pid -> pst) (t : tid) (o : apiop) (co : callobs) : bool :=
  let r := co_ret co in
  (* every probe agrees with what the history demands *)
  forallb (fun p => pst_agrees (ps' p) (nth p (co_psn co) false)) (seq 0 (sc_npids sc)) &&
  match o with
  | AAcquire c m f =>
      match r with
      | RSkipped | RWouldBlock | RBlockedC => true
      | _ =>
        (* the Ok/Err wrappers seen in the guard / closure argument agree with the state before the call *)
        zip_agree ps (pids_of sc c) (see_bools (co_evs co)) &&
        match f with
        | FGuard | FTry =>
            match root_poison (shape_of sc c), r with
            | Some p, ROk => pst_agrees (ps p) false
            | Some p, RPoisoned => pst_agrees (ps p) true
            | None, ROk => true
            | _, _ => false            (* a panic in user code never makes a lock refuse or panic *)
            end
        | FScoped _ _ | FScopedTry _ _ =>
            match r with
            | ROk => true
            | RPanicked => has_panic f
            | _ => false
            end
        end
      end
  | AIsPoisoned c =>
      match root_poison (shape_of sc c), r with
      | Some p, RB b => pst_agrees (ps p) b
      | _, _ => true
      end
  | _ => true
  end.

Fixpoint c10_fold (strict : bool) (sc : scen) (ms : tid -> mthread) (ps : pid -> pst)
         (hist : list (tid * apiop)) (obs : list callobs) : bool :=
  match hist, obs with
  | _, [] => true
  | [], _ :: _ => false
  | (t, o) :: hr, co :: orr =>
      let ps' := c10_step strict sc ms ps t o co in
      Nat.eqb t (co_tid co) &&
      (if stop_code (co_ret co) then true
       else c10_judge sc ps ps' t o co &&
            c10_fold strict sc (upd ms t (track (ms t) o (co_ret co))) ps' hr orr)
  end.

Definition mon_C10 (strict : bool) (sc : scen) (obs : list callobs) : bool :=
  c10_fold strict sc (fun _ => mt0) (fun _ => PClean) (sc_hist sc) obs.

(* C10, last clause: plain locks are never made unusable by panics in user code.  A call that ends in a user-code panic
   issues no release that the auditing lock flags: a release in the wrong mode, or of a lock that is not held, is what
   leaves a real raw lock (parking_lot) in a state from which nobody can acquire it *)
Definition judge_C10u (ms : tid -> mthread) (prev : list rawst) (t : tid) (o : apiop) (co : callobs) : bool :=
  implb (rcode_eqb (co_ret co) RPanicked) (negb (existsb ev_bad (co_evs co))).
Definition mon_C10u (sc : scen) : list callobs -> bool := run_monitor judge_C10u sc.

Definition ps_C10 : projspec := mkps (fun e => match e with ESee _ _ => true | _ => false end) false true false.

Definition check_C10 := check_with2 ps_C10 (mon_C10 true) (mon_C10 false).

(* ---------------------------------------------------------------- C12: a panicking raw lock operation *)
Fixpoint is_retry_shape (s : shape) : bool :=
  match s with SRetry _ => true | SPoison _ s' => is_retry_shape s' | _ => false end.

Fixpoint first_fault (evs : list ev) : option (rop * lock) :=
  match evs with
  | [] => None
  | ERaw _ k l RFault :: _ => Some (k, l)
  | _ :: r => first_fault r
  end.

Definition acquired_in (t : tid) (evs : list ev) : list lock :=
  flat_map (fun e => match e with
                     | ERaw t' k l (RUnit | RBool true) => if Nat.eqb t t' && is_acq_rop k then [l] else []
                     | _ => []
                     end) evs.

Definition release_faults_of (l : lock) (evs : list ev) : nat :=
  length (filter (fun e => match e with ERaw _ k l' RFault => is_rel_rop k && Nat.eqb l l' | _ => false end) evs).

(* the defects listed in known_findings.txt, by where the fault strikes *)
Definition c12_known (sc : scen) (o : apiop) (fk : rop) : bool :=
  match o with
  | AAcquire c _ f =>
      let retry := is_retry_shape (shape_of sc c) in
      match f with
      | FGuard => retry                                          (* D12a: retry unwind handler bookkeeping *)
      | FScoped _ _ => retry || is_rel_rop fk                    (* D12a / D12c: release loop stops at the first panic *)
      | FTry => is_rel_rop fk                                    (* D12b: rollback released again by the outer handler *)
      | FScopedTry _ _ => is_rel_rop fk
      end
  | _ => false
  end.

(* [dead]: locks whose raw operation panicked so far *)
Definition judge_C12 (relaxed : bool) (kn : bool) (sc : scen) (dead : list lock)
           (ms : tid -> mthread) (prev : list rawst) (t : tid) (o : apiop) (co : callobs) : bool :=
  let r := co_ret co in
  let evs := co_evs co in
  (* a lock whose operation panicked refuses every later acquisition that needs it *)
  (match o with
   | AAcquire c m f =>
       if existsb (fun l => memb l dead) (leaves (shape_of sc c)) then
         match r with
         | RSkipped => true
         | RBlockedC =>
             (* a blocking acquisition of the dead lock itself panics instead of waiting; a collection may
                legitimately wait for another member first *)
             negb (match leaves (shape_of sc c), f with
                   | [_], (FGuard | FScoped _ _) => true
                   | _, _ => false
                   end)
         | ROk | RPoisoned => false
         | _ => true
         end
       else
         (* ... and kills ONLY that lock: a single lock none of whose operations panicked, and which nobody holds, does
            not refuse a try *)
         match leaves (shape_of sc c), f, r with
         | [l], FTry, RWouldBlock => (relaxed && kn) || negb (leaf_avail m (nth l prev raw_free))
         | _, _, _ => true
         end
   | _ => true
   end) &&
  match first_fault evs with
  | None => true
  | Some (fk, fl) =>
      (* the panic reaches the caller *)
      rcode_eqb r RPanicked &&
      (if relaxed && c12_known sc o fk then true
       else
         (* no lock the caller does not hold is released *)
         negb (existsb ev_bad evs) &&
         (* every other lock this call had taken (or, for a guard drop, the guard's holds) is released exactly
            once, or its own release panicked *)
         let mine := match o with
                     | AGuardDrop | AGuardUnlock => guard_leaves sc (mt_guard (ms t))
                     | _ => acquired_in t evs
                     end in
         forallb (fun l => Nat.eqb l fl ||
                           Nat.eqb (releases_of l evs) 1 && negb (holds_by t (nth l (co_holds co) raw_free)) ||
                           Nat.leb 1 (release_faults_of l evs)) mine)
  end.

Fixpoint c12_fold (relaxed : bool) (kn : bool) (sc : scen) (dead : list lock) (ms : tid -> mthread) (prev : list rawst)
         (hist : list (tid * apiop)) (obs : list callobs) : bool :=
  match hist, obs with
  | _, [] => true
  | [], _ :: _ => false
  | (t, o) :: hr, co :: orr =>
      Nat.eqb t (co_tid co) && judge_C12 relaxed kn sc dead ms prev t o co &&
      (if stop_code (co_ret co) then true
       else c12_fold relaxed
              (kn || match first_fault (co_evs co) with Some (fk, _) => c12_known sc o fk | None => false end) sc
              (match first_fault (co_evs co) with Some (_, l) => l :: dead | None => dead end)
              (upd ms t (track (ms t) o (co_ret co))) (co_holds co) hr orr)
  end.

Definition mon_C12 (relaxed : bool) (sc : scen) (obs : list callobs) : bool :=
  c12_fold relaxed false sc [] (fun _ => mt0) (pre_holds sc) (sc_hist sc) obs.

Definition ps_C12 : projspec := mkps ev_is_raw true false false.
Definition check_C12 := check_with2 ps_C12 (mon_C12 false) (mon_C12 true).

(* C12, second comparison.  The order in which one call releases several locks in a row is not part of any property
   (Check.norm_runs), but with a one-shot fault whose index falls inside such a run the order decides WHICH release
   panics, and everything after it differs.  A scenario on which model and implementation differ only from the run of
   consecutive releases that contains the (first) faulted release onwards — every earlier call equal under the projection,
   the faulting call equal up to the beginning of that run — is left to the monitor, which judges the implementation's
   behaviour there directly (every other lock released exactly once or dead, no release of a lock that is not held, the
   faulted lock dead). *)
Definition is_rel_ev (e : ev) : bool := match e with ERaw _ (OUnlock | OUnlockSh) _ _ => true | _ => false end.
Definition is_rel_fault (e : ev) : bool := match e with ERaw _ (OUnlock | OUnlockSh) _ RFault => true | _ => false end.

Fixpoint before_faulted_run (pre run : list ev) (l : list ev) : option (list ev) :=
  match l with
  | [] => None
  | e :: r => if is_rel_ev e then (if is_rel_fault e then Some (rev pre) else before_faulted_run pre (e :: run) r)
              else before_faulted_run (e :: run ++ pre) [] r
  end.

Fixpoint same_upto_faulted_release_run (p : projspec) (m i : list callobs) : bool :=
  match m, i with
  | cm :: m', ci :: i' =>
      match before_faulted_run [] [] (filter (ps_ev p) (co_evs ci)) with
      | Some pi =>
          match before_faulted_run [] [] (filter (ps_ev p) (co_evs cm)) with
          | Some pm => Nat.eqb (co_tid cm) (co_tid ci) && list_eqb ev_eqb (norm_runs [] pm) (norm_runs [] pi)
          | None => false
          end
      | None => callobs_eqb (project p cm) (project p ci) && same_upto_faulted_release_run p m' i'
      end
  | _, _ => false
  end.
Definition second_C12 (sc : scen) (impl : list callobs) : bool :=
  same_upto_faulted_release_run ps_C12 (model_obs sc) impl.
