(* Monitors.v — for each property an executable, decidable statement of it on (scenario, observation),
   evaluated both on the model's observation (theorems Prop_Cxx.v) and on the implementation's
   observation (the check), plus the projection under which the two observations are compared. *)
From HL Require Import Base Model Shape Algo Api Check.

Definition pre_holds (sc : scen) : list rawst := snapshot_holds (sc_nlocks sc) (sc_world sc).
Definition holds_sim (a b : list rawst) : bool := list_eqb rawst_sim a b.

(* ---------------------------------------------------------------- C13: try_* exact in quiescent states *)
Definition leaf_avail (m : mode) (s : rawst) : bool :=
  match m with Ex => is_free s | Sh => no_writer s end.

(* every leaf of the shape is held by t in mode m according to a snapshot *)
Definition held_in (m : mode) (t : tid) (s : rawst) : bool :=
  match m with Ex => writer_is s t | Sh => memb t (readers s) end.

Definition all_held (m : mode) (t : tid) (ls : list lock) (holds : list rawst) : bool :=
  forallb (fun l => held_in m t (nth l holds raw_free)) ls.

Definition ps_C13 : projspec := mkps ev_none true false false.

Definition mon_C13 (sc : scen) (obs : list callobs) : bool :=
  match sc_hist sc, obs with
  | [(t, AKeyGet); (_, AAcquire c m FTry); (_, AGuardDrop)], [o1; o2; o3] =>
      match nth_error (sc_colls sc) c with
      | Some s =>
          let pre := pre_holds sc in
          let expect := forallb (fun l => leaf_avail m (nth l pre raw_free)) (leaves s) in
          if expect then
            rcode_eqb (co_ret o2) ROk && all_held m t (leaves s) (co_holds o2) &&
            rcode_eqb (co_ret o3) ROk && holds_sim (co_holds o3) pre
          else
            rcode_eqb (co_ret o2) RWouldBlock && holds_sim (co_holds o2) pre && holds_sim (co_holds o3) pre
      | None => false
      end
  | _, _ => false
  end.

Definition check_C13 := check_with ps_C13 mon_C13.

(* ---------------------------------------------------------------- C07: duplicate detection is exact *)
(* [sorting]: boxed/ref (true) or retrying (false); [got]: the checked constructor returned Some *)
Definition model_try_new (sorting : bool) (am : addrmap) (s : shape) : bool :=
  if sorting then try_new_sorting am s else try_new_retry am s.
Definition mon_C07 (s : shape) (got : bool) : bool := Bool.eqb got (nodupb (trefs s)).
Definition check_C07 (sorting : bool) (laddrs uaddrs : list nat) (s : shape) (got : bool) : verdict :=
  let am := mkam (fun l => nth l laddrs 0) (fun u => nth u uaddrs 0) in
  let ok := Bool.eqb (model_try_new sorting am s) got in
  mkv ok ok (mon_C07 s got).

(* ---------------------------------------------------------------- C08: one arrangement-independent order *)
(* history: t: get, lock/read c1, unlock; t2: get, lock/read c2, unlock *)
Definition ps_C08 : projspec := mkps ev_is_blocking_raw false false false.

Definition mon_C08 (sc : scen) (obs : list callobs) : bool :=
  match obs with
  | [_; oa; _; _; ob; _] =>
      let la := blk_locks (co_evs oa) in
      let lb := blk_locks (co_evs ob) in
      rcode_eqb (co_ret oa) ROk && rcode_eqb (co_ret ob) ROk &&
      list_eqb Nat.eqb (filter (fun l => memb l lb) la) (filter (fun l => memb l la) lb)
  | _ => false
  end.

Definition check_C08 := check_with ps_C08 mon_C08.
