(* Prop_C08.v — C08: sorting collections agree on one arrangement-independent acquisition order.
   For all shapes (any nesting; nested boxed / ref / retrying members contribute their leaves to the sort,
   an owned collection is ordered as one unit), all listing orders, both modes and any address assignment. *)
From HL Require Import Base Model Shape Algo Api Lemmas ShapeLemmas SortLemmas Check Monitors Pf_C07 Pf_C08.

(* the sorted cache does not depend on the order in which the user listed the members *)
Theorem C08_sort_perm_invariant :
  forall am (l l' : list rawref), NoDup (map (raddr am) l) -> Permutation l l' ->
  isort (raddr am) l = isort (raddr am) l'.
Proof. intros. now apply sort_perm_invariant. Qed.

(* two sorted lock lists take the locks they have in common in the same relative order *)
Theorem C08_common_same_order :
  forall am R1 R2,
    StronglySorted (kle (raddr am)) R1 -> StronglySorted (kle (raddr am)) R2 ->
    NoDup (map (raddr am) R1) -> NoDup (map (raddr am) R2) ->
    (forall a b, In a R1 -> In b R2 -> raddr am a = raddr am b -> a = b) ->
    (forall a b l, In a R1 -> In b R2 -> a <> b -> In l (locks_of (rleaves a)) -> In l (locks_of (rleaves b)) -> False) ->
    filter (fun l => lmem l (locks_of (rsleaves R2))) (locks_of (rsleaves R1)) =
    filter (fun l => lmem l (locks_of (rsleaves R1))) (locks_of (rsleaves R2)).
Proof. exact common_same_order. Qed.

(* the model's blocking acquisitions satisfy the monitor that is run on the implementation *)
Theorem C08_monitor :
  forall sc c1 c2 m1 m2 s1 s2 x1 x2 t t2,
    wf_C08 sc c1 c2 m1 m2 s1 s2 x1 x2 t t2 -> mon_C08 sc (model_obs sc) = true.
Proof. exact C08_main. Qed.

Check C08_monitor : forall sc c1 c2 m1 m2 s1 s2 x1 x2 t t2,
    wf_C08 sc c1 c2 m1 m2 s1 s2 x1 x2 t t2 -> mon_C08 sc (model_obs sc) = true.

(* non-vacuity: opposite listing orders, a nested retrying collection and an owned unit *)
Definition ex08_x1 : shape := SSeq [SLeaf KMutex 3; SRetry (SSeq [SLeaf KMutex 0; SLeaf KMutex 2]); SOwned 0 (SSeq [SLeaf KMutex 4; SLeaf KMutex 1])].
Definition ex08_x2 : shape := SSeq [SOwned 0 (SSeq [SLeaf KMutex 4; SLeaf KMutex 1]); SLeaf KMutex 2; SLeaf KMutex 3].
Definition ex08 : scen :=
  mks 5 0 [4; 0; 3; 1; 5] [2] [SBoxed ex08_x1; SRefC ex08_x2] [] [] [] 4
      [(0, AKeyGet); (0, AAcquire 0 Ex FGuard); (0, AGuardUnlock); (1, AKeyGet); (1, AAcquire 1 Ex FGuard); (1, AGuardUnlock)].
Example C08_example_runs :
  mon_C08 ex08 (model_obs ex08) = true /\
  blk_locks (co_evs (nth 1 (model_obs ex08) (mkco 0 ROk [] [] [] true))) = [3; 4; 1; 2; 0].
Proof. vm_compute. auto. Qed.

Print Assumptions C08_sort_perm_invariant.
Print Assumptions C08_common_same_order.
Print Assumptions C08_monitor.
