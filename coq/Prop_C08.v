(* Prop_C08.v — C08: sorting collections agree on one arrangement-independent acquisition order.
   For all shapes (any nesting; nested boxed / ref / retrying members contribute their leaves to the sort,
   an owned collection is ordered as one unit), all listing orders, both modes and any address assignment. *)
From HL Require Import Base Model Shape Algo Api Lemmas ShapeLemmas SortLemmas Check Monitors Pf_C07 Pf_C08.
From HL Require Import Conc OpsLemmas Pf_C01 Wp WpAlgo WpApi WpMain.

(* the sorted cache does not depend on the order in which the user listed the members *)
Theorem C08_sort_perm_invariant :
  forall am (l l' : list rawref), NoDup (map (raddr am) l) -> Permutation l l' ->
  isort (raddr am) l = isort (raddr am) l'.
Proof. intros. now apply sort_perm_invariant. Qed.

(* two sorted lock lists take the locks they have in common in the same relative order *)
Theorem C08_common_same_order :
  forall am R1 R2,
    StronglySorted (kle (raddr am)) R1 -> StronglySorted (kle (raddr am)) R2 ->
    NoDup (map (raddr am) R1) -> NoDup (map (raddr am) R2) ->
    (forall a b, In a R1 -> In b R2 -> raddr am a = raddr am b -> a = b) ->
    (forall a b l, In a R1 -> In b R2 -> a <> b -> In l (locks_of (rleaves a)) -> In l (locks_of (rleaves b)) -> False) ->
    filter (fun l => lmem l (locks_of (rsleaves R2))) (locks_of (rsleaves R1)) =
    filter (fun l => lmem l (locks_of (rsleaves R1))) (locks_of (rsleaves R2)).
Proof. exact common_same_order. Qed.

(* the model's blocking acquisitions satisfy the monitor that is run on the implementation *)
Theorem C08_monitor :
  forall sc c1 c2 m1 m2 s1 s2 x1 x2 t t2,
    wf_C08 sc c1 c2 m1 m2 s1 s2 x1 x2 t t2 -> mon_C08 sc (model_obs sc) = true.
Proof. exact C08_main. Qed.

Check C08_monitor : forall sc c1 c2 m1 m2 s1 s2 x1 x2 t t2,
    wf_C08 sc c1 c2 m1 m2 s1 s2 x1 x2 t t2 -> mon_C08 sc (model_obs sc) = true.

(* non-vacuity: opposite listing orders, a nested retrying collection and an owned unit *)
Definition ex08_x1 : shape := SSeq [SLeaf KMutex 3; SRetry (SSeq [SLeaf KMutex 0; SLeaf KMutex 2]); SOwned 0 (SSeq [SLeaf KMutex 4; SLeaf KMutex 1])].
Definition ex08_x2 : shape := SSeq [SOwned 0 (SSeq [SLeaf KMutex 4; SLeaf KMutex 1]); SLeaf KMutex 2; SLeaf KMutex 3].
Definition ex08 : scen :=
  mks 5 0 [4; 0; 3; 1; 5] [2] [SBoxed ex08_x1; SRefC ex08_x2] [] [] [] 4
      [(0, AKeyGet); (0, AAcquire 0 Ex FGuard); (0, AGuardUnlock); (1, AKeyGet); (1, AAcquire 1 Ex FGuard); (1, AGuardUnlock)].
Example C08_example_runs :
  mon_C08 ex08 (model_obs ex08) = true /\
  blk_locks (co_evs (nth 1 (model_obs ex08) (mkco 0 ROk [] [] [] true))) = [3; 4; 1; 2; 0].
Proof. vm_compute. auto. Qed.


(* ---------------------------------------------------------------- every schedule (interleaved model)
   One order, fixed by the scenario's addresses ([rk_of]: the address of the outermost object a lock is reached through,
   then its position inside), governs every blocking acquisition of every thread in every state reached under every
   schedule: a thread that waits for l holds only locks below l.  Hence no two threads can ever be found taking two
   locks in opposite orders — whatever the listing orders, nestings, kinds and modes of the collections they go through
   (corollaries of the schedule invariant of WpMain.v). *)
Theorem C08_every_schedule_one_order :
  forall b sched t l l', wfB b = true ->
  let sc := bs_sc b in
  let s := fst (run_sched (bs_wp b) (sc_env sc) (sc_nlocks sc) (binit b) sched) in
  live s t -> waits_for (bs_wp b) s t l -> holds (sc_nlocks sc) (b_w s) t l' -> rk_of sc l' < rk_of sc l.
Proof.
  intros b sched t l l' Hwf sc s Hl Hw Hh.
  pose proof (every_schedule_stable_dec b sched Hwf) as St. cbv zeta in St.
  exact (ss_rank _ _ _ _ _ St t l l' Hl Hw Hh).
Qed.

Theorem C08_every_schedule_no_opposite_orders :
  forall b sched t1 t2 l m, wfB b = true ->
  let sc := bs_sc b in
  let s := fst (run_sched (bs_wp b) (sc_env sc) (sc_nlocks sc) (binit b) sched) in
  live s t1 -> live s t2 ->
  waits_for (bs_wp b) s t1 l -> holds (sc_nlocks sc) (b_w s) t1 m ->
  waits_for (bs_wp b) s t2 m -> holds (sc_nlocks sc) (b_w s) t2 l -> False.
Proof.
  intros b sched t1 t2 l m Hwf sc s H1 H2 Hw1 Hh1 Hw2 Hh2.
  pose proof (C08_every_schedule_one_order b sched t1 l m Hwf H1 Hw1 Hh1) as A.
  pose proof (C08_every_schedule_one_order b sched t2 m l Hwf H2 Hw2 Hh2) as B.
  cbv zeta in A, B. lia.
Qed.

Check C08_every_schedule_no_opposite_orders :
  forall b sched t1 t2 l m, wfB b = true ->
  let sc := bs_sc b in
  let s := fst (run_sched (bs_wp b) (sc_env sc) (sc_nlocks sc) (binit b) sched) in
  live s t1 -> live s t2 ->
  waits_for (bs_wp b) s t1 l -> holds (sc_nlocks sc) (b_w s) t1 m ->
  waits_for (bs_wp b) s t2 m -> holds (sc_nlocks sc) (b_w s) t2 l -> False.

Print Assumptions C08_sort_perm_invariant.
Print Assumptions C08_common_same_order.
Print Assumptions C08_monitor.
Print Assumptions C08_every_schedule_one_order.
Print Assumptions C08_every_schedule_no_opposite_orders.
