(* Prop_C10.v — C10: poisoning tracks panics during holds, and only those. *)
From HL Require Import Base Model Shape Algo Api Conc OpsLemmas Lemmas ShapeLemmas ApiLemmas QuietLemmas Check Monitors Pf_Calls Pf_Hist Pf_Hist5 Pf_Hist10.
From HL Require WpMain.

(* executions without panics never poison: ANY API call (other than clear_poison) that returns normally, in
   ANY world, leaves every Poisonable flag as it was *)
Theorem C10_no_panic_no_poison :
  forall e lc o p pw t w v w',
    api_prog e lc o = Some p -> o <> APanic -> (forall c, o <> AClearPoison c) ->
    run pw t p w = (ODone v, w') -> forall x, w_psn w' x = w_psn w x.
Proof. exact no_panic_no_poison. Qed.

(* clear_poison restores Ok results *)
Theorem C10_clear_restores :
  forall pw t p w, exists w', run pw t (op_ (OClearPoison p)) w = (ODone VUnit, w') /\ w_psn w' p = false.
Proof. intros. eexists. split; [reflexivity|]. simpl. apply upd_same. Qed.

(* a panic while a guard is alive poisons every wrapper the guard goes through (own guard or a guard of any
   collection containing it) and still releases every hold *)
Theorem C10_guard_panic_poisons :
  forall t m items w, quiet w -> NoDup (locks_of (gleaves items)) -> held_all t m (gleaves items) (w_raw w) = true ->
  exists w1,
    run nopw t (Bind (with_key true true (drop_items m true items)) (fun _ => Throw)) w =
      (OPanic, set_keyf w1 t false) /\
    (forall p, In p (gpoisons items) -> w_psn w1 p = true) /\
    (forall p, ~ In p (gpoisons items) -> w_psn w1 p = w_psn w p).
Proof.
  intros t m items w Q ND H. destruct (guard_panic_quiet t m items w Q ND H) as [w1 [R E]].
  exists w1. split; [exact R|]. split; intros p Hp; rewrite (ep_psn _ _ _ _ E).
  - now apply set_psn_all_in.
  - now apply set_psn_all_other.
Qed.

(* a panic inside the wrapper's own scoped closure poisons it (and releases, see C11) *)
Theorem C10_own_scoped_panic_poisons :
  forall t m am s p, acquirable s = true -> NoDup (leaves s) -> root_poison s = Some p ->
  forall fuel lent body w, quiet w -> 2 <= fuel -> can_all m (kleaves s) (w_raw w) = true ->
  existsb is_cpanic body = true ->
    exists w',
      run nopw t (scoped_rest m s (alg_of am s) lent body (raw_lock fuel m (alg_of am s))) w = (OPanic, w') /\
      w_psn w' p = true.
Proof.
  intros t m am s p Ha ND Rp fuel lent body w Q Hf Can Hp.
  destruct (scoped_call_quiet t m am s Ha ND fuel lent body w Q Hf Can) as [w' [R [E _]]].
  rewrite Hp in R. exists w'. split; [exact R|]. rewrite (ep_psn _ _ _ _ E), Rp, Hp. apply upd_same.
Qed.

(* a poisoned acquisition still acquires: the result code is computed after the locks are taken *)
Theorem C10_poisoned_still_acquires :
  forall t m am s, acquirable s = true -> NoDup (leaves s) ->
  forall fuel w, quiet w -> 2 <= fuel -> can_all m (kleaves s) (w_raw w) = true ->
  exists w', run nopw t (raw_lock fuel m (alg_of am s)) w = (ODone VUnit, w') /\
             held_all t m (kleaves s) (w_raw w') = true.
Proof.
  intros t m am s Ha ND fuel w Q Hf Can.
  pose proof (raw_lock_all_or_wait t m am s Ha ND fuel w Q Hf) as L. rewrite Can in L.
  destruct L as [w' [R E]]. exists w'. split; [exact R|].
  rewrite (Lemmas.held_all_ext t m _ _ (acq_all t m (kleaves s) (w_raw w))).
  - apply held_after_acq. now rewrite <- leaves_kleaves.
  - intros x _. apply (eff_raw _ _ _ E).
Qed.

(* KNOWN FINDING F3: the property also demands poisoning when the panic unwinds out of a scoped call of a
   *collection containing* the wrapper; the code does not do that (utils::scoped_* only releases), the model
   reproduces it, and the strict monitor refutes it on this witness while the relaxed one accepts it. *)
Definition ex10 : scen :=
  mks 1 1 [0] [] [SPoison 0 (SLeaf KMutex 0); SBoxed (SSeq [SPoison 0 (SLeaf KMutex 0)])] [] [] [] 4
      [(0, AKeyGet); (0, AAcquire 1 Ex (FScoped true [CWrite 0; CPanic])); (0, AIsPoisoned 0)].

Theorem C10_refuted_scoped_collection :
  exists sc, mon_C10 true sc (model_obs sc) = false /\ mon_C10 false sc (model_obs sc) = true.
Proof. exists ex10. vm_compute. auto. Qed.

(* the same panic through a guard of that collection does poison *)
Definition ex10g : scen :=
  mks 1 1 [0] [] [SPoison 0 (SLeaf KMutex 0); SBoxed (SSeq [SPoison 0 (SLeaf KMutex 0)])] [] [] [] 4
      [(0, AKeyGet); (0, AAcquire 1 Ex FGuard); (0, APanic); (0, AIsPoisoned 0); (0, AClearPoison 0); (0, AIsPoisoned 0)].
Example C10_guard_path_ok :
  mon_C10 true ex10g (model_obs ex10g) = true /\
  map co_ret (model_obs ex10g) = [RB true; ROk; RPanicked; RB true; ROk; RB false].
Proof. vm_compute. auto. Qed.

(* ---------------------------------------------------------------- every history (relaxed monitor) *)
(* For EVERY fault-free history (any number of threads, any collections, panics with live guards, panicking closures,
   clear_poison, is_poisoned) the relaxed monitor holds of the model: is_poisoned, the Ok / Err of lock / try_lock / read /
   try_read, and the Ok / Err seen at every wrapper position of every guard and closure argument agree with the history:
   a wrapper is poisoned after a panic unwound an exclusive hold on it through a guard (its own or a collection's) or
   through its own scoped call, never without a panic, clean again after clear_poison; a panic in user code never makes
   an acquisition refuse or panic.  "Relaxed" = after a panic that unwound a scoped call of a COLLECTION CONTAINING the
   wrapper the monitor accepts either answer: the statement demands poisoning there and the code does not poison (known
   finding F3, refuted above for the strict monitor). *)
Theorem C10_every_history_relaxed :
  forall sc, wf_histb sc = true -> mon_C10 false sc (model_obs sc) = true.
Proof. exact C10_all_histories_relaxed_dec. Qed.
Check C10_every_history_relaxed : forall sc, wf_histb sc = true -> mon_C10 false sc (model_obs sc) = true.

Definition ex10h : scen :=
  mks 3 2 [0; 1; 2] []
      [SPoison 0 (SLeaf KMutex 0); SPoison 1 (SLeaf KRw 1); SBoxed (SSeq [SPoison 0 (SLeaf KMutex 0); SLeaf KMutex 2]);
       SRetry (SSeq [SPoison 1 (SLeaf KRw 1); SLeaf KMutex 2])]
      [] [] [] 4
      [(0, AKeyGet); (0, AAcquire 2 Ex FGuard); (0, APanic); (1, AKeyGet); (1, AAcquire 0 Ex FTry); (1, AGuardDrop);
       (1, AKeyGet); (1, AAcquire 1 Sh (FScoped true [CRead 0; CPanic])); (1, AIsPoisoned 1); (1, AAcquire 1 Ex (FScoped true [CPanic]));
       (1, AIsPoisoned 1); (1, AClearPoison 0); (1, AIsPoisoned 0); (1, AAcquire 3 Ex FGuard)].
Example C10_every_history_nonvacuous :
  wf_histb ex10h = true /\ mon_C10 false ex10h (model_obs ex10h) = true /\ mon_C10 true ex10h (model_obs ex10h) = true /\
  map co_ret (model_obs ex10h) =
    [RB true; ROk; RPanicked; RB true; RPoisoned; ROk; RB true; RPanicked; RB true; RPanicked; RB true; ROk; RB false; ROk].
Proof. vm_compute. repeat split. Qed.


(* interleaved model, every schedule (with or without pauses after releases and at call boundaries): plain Mutex and RwLock
   are never made unusable by panics in user code — no kill flag is ever set, whatever panics with live guards or inside
   closures the threads' programs contain *)
Theorem C10_every_schedule_never_killed :
  forall yr pb b sched l, WpMain.wfB b = true ->
  let sc := bs_sc b in
  w_kill (b_w (fst (run_sched_g false yr pb (bs_wp b) (sc_env sc) (sc_nlocks sc) (binit b) sched))) l = false.
Proof. exact WpMain.every_schedule_never_killed. Qed.

(* "executions without panics never poison it", for EVERY schedule of the interleaved model: if no thread's program
   contains a `panic!` or a panicking closure (the decidable test [wfB_np]: [wfB] plus that), every poison flag is clear in
   every state reached under every schedule — whatever acquisitions, guards, scoped calls, try failures, retries and
   waits happen on the way.  Proof: the program logic of Wp.v is parametric in whether [OPoison] is permitted; with the
   permission withdrawn every API call without a panic still has its triple (a closure without a panic never throws, so
   nothing is demanded of the unwind handlers, and a guard that is dropped normally does not run the poisoning branch of
   PoisonRef::drop), and the world invariant then keeps all flags clear. *)
Theorem C10_every_schedule_no_panic_no_poison :
  forall yr pb b sched p, WpMain.wfB_np b = true ->
  let sc := bs_sc b in
  w_psn (b_w (fst (run_sched_g false yr pb (bs_wp b) (sc_env sc) (sc_nlocks sc) (binit b) sched))) p = false.
Proof. exact WpMain.every_schedule_no_panic_no_poison. Qed.

Check C10_every_schedule_no_panic_no_poison :
  forall yr pb b sched p, WpMain.wfB_np b = true ->
  let sc := bs_sc b in
  w_psn (b_w (fst (run_sched_g false yr pb (bs_wp b) (sc_env sc) (sc_nlocks sc) (binit b) sched))) p = false.

(* non-vacuity: three threads over poisonable roots (a wrapped lock, a wrapped boxed collection) in every flavour, contended;
   and the test rejects a program with a panicking closure *)
Definition ex10s : bscen :=
  mkbs (mks 3 2 [1; 0; 2] []
            [SPoison 0 (SLeaf KMutex 0);
             SPoison 1 (SBoxed (SSeq [SLeaf KRw 1; SLeaf KRw 2]));
             SRetry (SSeq [SLeaf KRw 2; SPoison 0 (SLeaf KMutex 0)])] [] [] [] 40 [])
       true
       [[AKeyGet; AAcquire 0 Ex FGuard; AGuardWrite 0; AGuardDrop; AKeyGet; AAcquire 1 Sh (FScoped true [CRead 1])];
        [AKeyGet; AAcquire 2 Ex (FScoped false [CWrite 1]); AKeyGet; AAcquire 1 Ex FTry; AGuardUnlock];
        [AKeyGet; AAcquire 1 Ex (FScopedTry true [CWrite 0]); AAcquire 0 Ex FGuard; AGuardDrop]].
Example C10_wfB_np_example : WpMain.wfB_np ex10s = true.
Proof. vm_compute. reflexivity. Qed.
Example C10_wfB_np_rejects_panicking_closure :
  WpMain.wfB_np (mkbs (mks 1 1 [0] [] [SPoison 0 (SLeaf KMutex 0)] [] [] [] 8 []) false
                      [[AKeyGet; AAcquire 0 Ex (FScoped true [CPanic])]]) = false.
Proof. vm_compute. reflexivity. Qed.


(* "plain Mutex and RwLock are never made unusable by panics in user code", the part the kill flags do not show: in EVERY
   fault-free history no call that ends in a user-code panic issues a release in the wrong mode or of a lock that is not
   held (what would corrupt a real raw lock) — the clause [mon_C10u] the check evaluates on the implementation *)
Theorem C10_every_history_panics_release_cleanly :
  forall sc, wf_histb sc = true -> mon_C10u sc (model_obs sc) = true.
Proof. intros sc W. apply mon_C05_implies_C10u. now apply C05_all_histories_dec. Qed.
Check C10_every_history_panics_release_cleanly : forall sc, wf_histb sc = true -> mon_C10u sc (model_obs sc) = true.

Print Assumptions C10_no_panic_no_poison.
Print Assumptions C10_every_history_panics_release_cleanly.
Print Assumptions C10_guard_panic_poisons.
Print Assumptions C10_own_scoped_panic_poisons.
Print Assumptions C10_refuted_scoped_collection.
Print Assumptions C10_every_history_relaxed.
Print Assumptions C10_every_schedule_never_killed.
Print Assumptions C10_every_schedule_no_panic_no_poison.
