(* Prop_C04.v — C04: multi-lock acquisition is all-or-nothing and covers exactly the leaf locks.
   Call-level theorems for EVERY shape (any kind, nesting, size, arrangement, Poisonable wrapping), mode and
   hold table of other threads, in fault-free worlds. (The statement over whole histories, mon_C04 on the
   model, is checked on every generated scenario and is the next proof obligation: see DESIGN.md.) *)
From HL Require Import Base Model Shape Algo Api Conc OpsLemmas Lemmas ShapeLemmas ApiLemmas QuietLemmas Check Monitors Pf_Calls Pf_Hist Pf_Hist4.
From HL Require Wp WpAlgo WpMain.

(* every container / wrapper / collection impl of get_ptrs enumerates each declared leaf exactly as declared *)
Theorem C04_leaves_get_ptrs : forall am s, Permutation (rsleaves (get_ptrs am s)) (kleaves s).
Proof. exact get_ptrs_leaves. Qed.

(* blocking lock/read: returns only with every leaf held once in the requested mode; otherwise it waits *)
Theorem C04_lock_all_or_wait :
  forall t m am s, acquirable s = true -> NoDup (leaves s) ->
  forall fuel w, quiet w -> 2 <= fuel ->
    if can_all m (kleaves s) (w_raw w)
    then exists w', run nopw t (raw_lock fuel m (alg_of am s)) w = (ODone VUnit, w') /\
                    eff w w' (acq_all t m (kleaves s) (w_raw w))
    else exists w', run nopw t (raw_lock fuel m (alg_of am s)) w = (OBlocked, w').
Proof. exact raw_lock_all_or_wait. Qed.

(* try_*: achieves the same or fails holding none of them (table exactly as before), and never waits *)
Theorem C04_try_all_or_nothing :
  forall t m am s, acquirable s = true -> NoDup (leaves s) ->
  forall w, quiet w ->
    exists w', run nopw t (raw_try m (alg_of am s)) w = (ODone (VBool (can_all m (kleaves s) (w_raw w))), w') /\
               eff w w' (if can_all m (kleaves s) (w_raw w) then acq_all t m (kleaves s) (w_raw w) else w_raw w) /\
               exists evs, w_trace w' = evs ++ w_trace w /\ Forall nb_ev evs.
Proof. exact raw_try_all_or_nothing. Qed.

(* after acquiring a duplicate-free list every leaf of it is held *)
Theorem C04_held_after_acquire :
  forall t m ls f, NoDup (locks_of ls) -> held_all t m ls (acq_all t m ls f) = true.
Proof. exact held_after_acq. Qed.

(* scoped_*: the closure runs (once) exactly between the acquisition and the release of all leaves *)
Theorem C04_scoped_call :
  forall t m am s, acquirable s = true -> NoDup (leaves s) ->
  forall fuel lent body w, quiet w -> 2 <= fuel -> can_all m (kleaves s) (w_raw w) = true ->
    exists w',
      run nopw t (scoped_rest m s (alg_of am s) lent body (raw_lock fuel m (alg_of am s))) w =
        ((if existsb is_cpanic body then OPanic else ODone (VNat 0)), w') /\
      effp w w' (w_raw w) (match root_poison s with
                           | Some p => if existsb is_cpanic body then upd (w_psn w) p true else w_psn w
                           | None => w_psn w
                           end) /\
      w_keyf w' t = (if lent then w_keyf w t else false) /\
      (forall x, x <> t -> w_keyf w' x = w_keyf w x) /\
      exists w1 w2 evR,
        run nopw t (raw_lock fuel m (alg_of am s)) w = (ODone VUnit, w1) /\
        eff w w1 (acq_all t m (kleaves s) (w_raw w)) /\
        run nopw t (closure m (gitems s) body) w1 = ((if existsb is_cpanic body then OPanic else ODone VUnit), w2) /\
        frame (emit w1 (EMark t 1)) w2 /\ w_trace w' = evR ++ w_trace w2 /\ Forall tail_ev evR.
Proof. exact scoped_call_quiet. Qed.

Example C04_nonvacuous :
  let s := SRetry (SSeq [SLeaf KRw 2; SOwned 0 (SSeq [SLeaf KRw 0; SLeaf KRw 1])]) in
  acquirable s = true /\ NoDup (leaves s) /\ can_all Sh (kleaves s) (fun _ => mkraw None [7]) = true.
Proof. simpl. repeat split; repeat constructor; simpl; intuition discriminate. Qed.

(* ---------------------------------------------------------------- every history *)
(* For EVERY fault-free history (any number of threads, any collections, any holds of other parties at the start) whose
   acquired collections have their leaves among the scenario's locks and are read only if all leaves are RwLocks (what
   the Sharable bound enforces), the monitor the check evaluates on the implementation holds of the model: a guard is
   returned only with every leaf held exactly once in the requested mode; try_* performs no blocking operation, and when
   it fails the hold table is unchanged and the key is still the caller's; the closure of a scoped call is entered exactly
   once, with every leaf held, if the acquisition succeeded and not at all otherwise. *)
Theorem C04_every_history :
  forall sc, wf_histb sc && wf4b sc = true -> mon_C04 sc (model_obs sc) = true.
Proof. exact C04_all_histories_dec. Qed.
Check C04_every_history : forall sc, wf_histb sc && wf4b sc = true -> mon_C04 sc (model_obs sc) = true.

Definition ex_hist4 : scen :=
  mks 4 1 [0; 1; 2; 3] []
      [SLeaf KMutex 0; SPoison 0 (SLeaf KRw 1); SBoxed (SSeq [SLeaf KMutex 0; SPoison 0 (SLeaf KRw 1)]);
       SRetry (SSeq [SLeaf KMutex 0; SLeaf KMutex 2]); SOwned 0 (SSeq [SLeaf KRw 3])]
      [(2, mkraw (Some 100) [])] [] [] 4
      [(0, AKeyGet); (0, AAcquire 2 Ex FGuard); (1, AKeyGet); (1, AAcquire 3 Ex FTry);
       (1, AAcquire 4 Sh (FScopedTry true [CRead 0])); (1, AAcquire 3 Ex (FScopedTry true [CWrite 0]));
       (0, AGuardUnlock); (0, AAcquire 1 Sh (FScoped true [CRead 0; CPanic])); (0, AAcquire 4 Sh FTry); (0, AGuardDrop);
       (1, AAcquire 2 Ex (FScoped false [CWrite 1; CWrite 0]))].
Example C04_every_history_nonvacuous :
  wf_histb ex_hist4 && wf4b ex_hist4 = true /\ length (model_obs ex_hist4) = 11 /\
  mon_C04 ex_hist4 (model_obs ex_hist4) = true /\
  map co_ret (model_obs ex_hist4) = [RB true; ROk; RB true; RWouldBlock; ROk; RWouldBlock; ROk; RPanicked; ROk; ROk; ROk].
Proof. vm_compute. repeat split. Qed.


(* interleaved model with pauses at call boundaries, every schedule: a guard acquisition (lock, read and their try variants) that is about to
   return a guard holds exactly the leaves of the collection — each as often as it is a leaf — in the requested mode *)
Theorem C04_every_schedule_guard_holds_exactly :
  forall b sched t c m f k v s0, WpMain.wfB b = true ->
  let sc := bs_sc b in
  let s := fst (run_sched_g false false true (bs_wp b) (sc_env sc) (sc_nlocks sc) (binit b) sched) in
  let th := get_thr (b_thr s) t in
  th_over th = false -> th_cur th = Some (AAcquire c m f, Op bpause_op k) -> k (VBool false) = Ret v ->
  (f = FGuard \/ f = FTry) -> v <> VNat 1 -> coll (sc_env sc) c = Some s0 ->
  exists H K, Wp.agree t (b_w s) H K /\ Permutation H (WpAlgo.holds_of m (gleaves (gitems s0))).
Proof. exact WpMain.every_schedule_guard_holds_exactly. Qed.

(* every schedule: a try_* / scoped_try_* call never waits — a thread inside such a call is never parked on a blocking raw
   acquisition, in any state reached under any schedule *)
Theorem C04_every_schedule_try_never_waits :
  forall b sched t c m f p k l, WpMain.wfB b = true ->
  let sc := bs_sc b in
  let s := fst (run_sched (bs_wp b) (sc_env sc) (sc_nlocks sc) (binit b) sched) in
  th_cur (get_thr (b_thr s) t) = Some (AAcquire c m f, p) ->
  (f = FTry \/ exists lent body, f = FScopedTry lent body) ->
  parked (get_thr (b_thr s) t) = Some (ORaw k l) -> rop_blocking k = false.
Proof.
  intros b sched t c m f p k l W sc s CU TF PK. destruct (rop_blocking k) eqn:BL; [|reflexivity]. exfalso.
  destruct (WpMain.every_schedule_only_blocking_acquisitions_wait b sched t k l W PK BL) as [c' [m' [f' [p' [CU' BF]]]]].
  fold sc in CU'. fold s in CU'. rewrite CU in CU'. inversion CU'; subst.
  destruct TF as [->|[lent [body ->]]]; discriminate BF.
Qed.


Print Assumptions C04_leaves_get_ptrs.
Print Assumptions C04_lock_all_or_wait.
Print Assumptions C04_try_all_or_nothing.
Print Assumptions C04_scoped_call.
Print Assumptions C04_every_history.
Print Assumptions C04_every_schedule_guard_holds_exactly.
Print Assumptions C04_every_schedule_try_never_waits.
