(* Prop_C04.v — C04: multi-lock acquisition is all-or-nothing and covers exactly the leaf locks.
   Call-level theorems for EVERY shape (any kind, nesting, size, arrangement, Poisonable wrapping), mode and
   hold table of other threads, in fault-free worlds. (The statement over whole histories, mon_C04 on the
   model, is checked on every generated scenario and is the next proof obligation: see DESIGN.md.) *)
From HL Require Import Base Model Shape Algo Api OpsLemmas Lemmas ShapeLemmas ApiLemmas QuietLemmas Check Monitors Pf_Calls.

(* every container / wrapper / collection impl of get_ptrs enumerates each declared leaf exactly as declared *)
Theorem C04_leaves_get_ptrs : forall am s, Permutation (rsleaves (get_ptrs am s)) (kleaves s).
Proof. exact get_ptrs_leaves. Qed.

(* blocking lock/read: returns only with every leaf held once in the requested mode; otherwise it waits *)
Theorem C04_lock_all_or_wait :
  forall t m am s, acquirable s = true -> NoDup (leaves s) ->
  forall fuel w, quiet w -> 2 <= fuel ->
    if can_all m (kleaves s) (w_raw w)
    then exists w', run nopw t (raw_lock fuel m (alg_of am s)) w = (ODone VUnit, w') /\
                    eff w w' (acq_all t m (kleaves s) (w_raw w))
    else exists w', run nopw t (raw_lock fuel m (alg_of am s)) w = (OBlocked, w').
Proof. exact raw_lock_all_or_wait. Qed.

(* try_*: achieves the same or fails holding none of them (table exactly as before), and never waits *)
Theorem C04_try_all_or_nothing :
  forall t m am s, acquirable s = true -> NoDup (leaves s) ->
  forall w, quiet w ->
    exists w', run nopw t (raw_try m (alg_of am s)) w = (ODone (VBool (can_all m (kleaves s) (w_raw w))), w') /\
               eff w w' (if can_all m (kleaves s) (w_raw w) then acq_all t m (kleaves s) (w_raw w) else w_raw w) /\
               exists evs, w_trace w' = evs ++ w_trace w /\ Forall nb_ev evs.
Proof. exact raw_try_all_or_nothing. Qed.

(* after acquiring a duplicate-free list every leaf of it is held *)
Theorem C04_held_after_acquire :
  forall t m ls f, NoDup (locks_of ls) -> held_all t m ls (acq_all t m ls f) = true.
Proof. exact held_after_acq. Qed.

(* scoped_*: the closure runs (once) exactly between the acquisition and the release of all leaves *)
Theorem C04_scoped_call :
  forall t m am s, acquirable s = true -> NoDup (leaves s) ->
  forall fuel lent body w, quiet w -> 2 <= fuel -> can_all m (kleaves s) (w_raw w) = true ->
    exists w',
      run nopw t (scoped_rest m s (alg_of am s) lent body (raw_lock fuel m (alg_of am s))) w =
        ((if existsb is_cpanic body then OPanic else ODone (VNat 0)), w') /\
      effp w w' (w_raw w) (match root_poison s with
                           | Some p => if existsb is_cpanic body then upd (w_psn w) p true else w_psn w
                           | None => w_psn w
                           end) /\
      w_keyf w' t = (if lent then w_keyf w t else false) /\
      (forall x, x <> t -> w_keyf w' x = w_keyf w x).
Proof. exact scoped_call_quiet. Qed.

Example C04_nonvacuous :
  let s := SRetry (SSeq [SLeaf KRw 2; SOwned 0 (SSeq [SLeaf KRw 0; SLeaf KRw 1])]) in
  acquirable s = true /\ NoDup (leaves s) /\ can_all Sh (kleaves s) (fun _ => mkraw None [7]) = true.
Proof. simpl. repeat split; repeat constructor; simpl; intuition discriminate. Qed.

Print Assumptions C04_leaves_get_ptrs.
Print Assumptions C04_lock_all_or_wait.
Print Assumptions C04_try_all_or_nothing.
Print Assumptions C04_scoped_call.
