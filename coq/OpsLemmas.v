(* OpsLemmas.v — a syntactic predicate "every operation occurring in the program satisfies A" and the
   generic lemma lifting a per-operation invariant / event property to whole runs (for every world,
   faults and panics included). *)
From HL Require Import Base Model Shape Algo Api.

Inductive ops_in (A : op -> Prop) : prog -> Prop :=
| oi_ret v : ops_in A (Ret v)
| oi_throw : ops_in A Throw
| oi_abort : ops_in A Abort
| oi_fuel : ops_in A Fuel
| oi_op o k : A o -> (forall v, ops_in A (k v)) -> ops_in A (Op o k)
| oi_bind m k : ops_in A m -> (forall v, ops_in A (k v)) -> ops_in A (Bind m k)
| oi_catch b h : ops_in A b -> ops_in A h -> ops_in A (Catch b h).

Lemma ops_in_weaken (A B : op -> Prop) (p : prog) : (forall o, A o -> B o) -> ops_in A p -> ops_in B p.
Proof. intros H. induction 1; constructor; auto. Qed.

Lemma ops_in_then (A : op -> Prop) a b : ops_in A a -> ops_in A b -> ops_in A (a ;; b).
Proof. intros Ha Hb. unfold pthen. constructor; auto. Qed.

Lemma ops_in_op_ (A : op -> Prop) o : A o -> ops_in A (op_ o).
Proof. intros H. unfold op_. constructor; [exact H|]. intros v. constructor. Qed.

Lemma ops_in_skip (A : op -> Prop) : ops_in A skip.
Proof. constructor. Qed.

Lemma ops_in_seqs (A : op -> Prop) l : Forall (ops_in A) l -> ops_in A (seqs l).
Proof. induction 1; simpl; [constructor|]. now apply ops_in_then. Qed.

Lemma ops_in_seqs_map {X} (A : op -> Prop) (f : X -> prog) l : (forall x, ops_in A (f x)) -> ops_in A (seqs (map f l)).
Proof. intros H. apply ops_in_seqs. apply Forall_forall. intros p Hp. apply in_map_iff in Hp. destruct Hp as [x [<- _]]. apply H. Qed.

Section RunInv.
  Variables (pw : lock -> bool) (t : tid).
  Variable A : op -> Prop.
  Variable I : world -> Prop.
  Variable P : ev -> Prop.

  Definition op_ok : Prop :=
    forall o w, A o -> I w ->
      match do_op pw t o w with
      | RDone _ w' | RPanic w' | RBlock w' =>
          I w' /\ exists evs, w_trace w' = evs ++ w_trace w /\ Forall P evs
      end.

  Hypothesis OK : op_ok.

  Lemma run_ops_inv p :
    ops_in A p -> forall w out w', I w -> run pw t p w = (out, w') ->
    I w' /\ exists evs, w_trace w' = evs ++ w_trace w /\ Forall P evs.
  Proof.
    induction 1 as [v| | | |o k Ho Hk IH|m k Hm IHm Hk IHk|b h Hb IHb Hh IHh]; intros w out w' Hi R; simpl in R.
    - inversion R; subst. split; [exact Hi|]. exists []. split; [reflexivity|constructor].
    - inversion R; subst. split; [exact Hi|]. exists []. split; [reflexivity|constructor].
    - inversion R; subst. split; [exact Hi|]. exists []. split; [reflexivity|constructor].
    - inversion R; subst. split; [exact Hi|]. exists []. split; [reflexivity|constructor].
    - pose proof (OK o w Ho Hi) as H. destruct (do_op pw t o w) as [v w1|w1|w1].
      + destruct H as [Hi1 [e1 [T1 F1]]]. destruct (IH v w1 out w' Hi1 R) as [Hi' [e2 [T2 F2]]].
        split; [exact Hi'|]. exists (e2 ++ e1). split; [rewrite T2, T1; now rewrite app_assoc|].
        apply Forall_app. now split.
      + inversion R; subst. exact H.
      + inversion R; subst. exact H.
    - destruct (run pw t m w) as [o1 w1] eqn:R1. destruct (IHm w o1 w1 Hi R1) as [Hi1 [e1 [T1 F1]]].
      destruct o1; try (inversion R; subst; split; [exact Hi1|exists e1; now split]).
      destruct (IHk v w1 out w' Hi1 R) as [Hi' [e2 [T2 F2]]].
      split; [exact Hi'|]. exists (e2 ++ e1). split; [rewrite T2, T1; now rewrite app_assoc|].
      apply Forall_app. now split.
    - destruct (run pw t b w) as [o1 w1] eqn:R1. destruct (IHb w o1 w1 Hi R1) as [Hi1 [e1 [T1 F1]]].
      destruct o1; try (inversion R; subst; split; [exact Hi1|exists e1; now split]).
      destruct (run pw t h w1) as [o2 w2] eqn:R2. destruct (IHh w1 o2 w2 Hi1 R2) as [Hi2 [e2 [T2 F2]]].
      assert (X : I w2 /\ exists evs, w_trace w2 = evs ++ w_trace w /\ Forall P evs).
      { split; [exact Hi2|]. exists (e2 ++ e1). split; [rewrite T2, T1; now rewrite app_assoc|].
        apply Forall_app. now split. }
      destruct o2; inversion R; subst; exact X.
  Qed.
End RunInv.

(* ---------------------------------------------------------------- the algorithms only use these operations *)
Definition alg_op (o : op) : Prop :=
  match o with ORaw _ _ | OKilled _ | OKill _ => True | _ => False end.

(* the non-blocking part of the algorithms: try, release, kill *)
Definition nbalg (o : op) : Prop :=
  match o with ORaw k _ => rop_blocking k = false | OKilled _ | OKill _ => True | _ => False end.
Lemma nbalg_alg o : nbalg o -> alg_op o.
Proof. destruct o; simpl; tauto. Qed.
Lemma try_op_nb k m : rop_blocking (try_op k m) = false.
Proof. destruct k, m; reflexivity. Qed.
Lemma rel_op_nb k m : rop_blocking (rel_op k m) = false.
Proof. destruct k, m; reflexivity. Qed.

Lemma leaf_lock_ops m k l : ops_in alg_op (leaf_lock m k l).
Proof.
  unfold leaf_lock. constructor; [exact I|]. intros v. destruct (vtrue v); [constructor|].
  constructor; apply ops_in_op_; exact I.
Qed.
Lemma leaf_try_nb m k l : ops_in nbalg (leaf_try m k l).
Proof.
  unfold leaf_try. constructor; [exact I|]. intros v. destruct (vtrue v); [constructor|].
  constructor; [|apply ops_in_op_; exact I]. constructor; [apply try_op_nb|]. intros; constructor.
Qed.
Lemma leaf_unlock_nb m k l : ops_in nbalg (leaf_unlock m k l).
Proof. unfold leaf_unlock. constructor; apply ops_in_op_; [apply rel_op_nb|exact I]. Qed.
Lemma leaf_try_ops m k l : ops_in alg_op (leaf_try m k l).
Proof. eapply ops_in_weaken; [apply nbalg_alg|apply leaf_try_nb]. Qed.
Lemma leaf_unlock_ops m k l : ops_in alg_op (leaf_unlock m k l).
Proof. eapply ops_in_weaken; [apply nbalg_alg|apply leaf_unlock_nb]. Qed.

Lemma rawref_ind2 (P : rawref -> Prop) :
  (forall k l, P (RLeaf k l)) -> (forall u inner, Forall P inner -> P (ROwned u inner)) -> forall r, P r.
Proof.
  intros Hl Ho. fix IH 1. intros [k l|u inner]; [apply Hl|]. apply Ho.
  induction inner as [|x xs IHx]; constructor; [apply IH|exact IHx].
Qed.

Lemma rr_poison_nb r : ops_in nbalg (rr_poison r).
Proof.
  induction r as [k l|u inner IH] using rawref_ind2; simpl; [apply ops_in_op_; exact I|].
  apply ops_in_seqs. rewrite Forall_map. exact IH.
Qed.

Lemma rr_unlock_nb m r : ops_in nbalg (rr_unlock m r).
Proof.
  induction r as [k l|u inner IH] using rawref_ind2; simpl; [apply leaf_unlock_nb|].
  apply ops_in_seqs. rewrite Forall_map. exact IH.
Qed.

Lemma recover_nb m rs : ops_in nbalg (recover m rs).
Proof.
  unfold recover. constructor; apply ops_in_seqs_map; intros; [apply rr_unlock_nb|apply rr_poison_nb].
Qed.

Lemma rr_poison_ops r : ops_in alg_op (rr_poison r).
Proof. eapply ops_in_weaken; [apply nbalg_alg|apply rr_poison_nb]. Qed.
Lemma rr_unlock_ops m r : ops_in alg_op (rr_unlock m r).
Proof. eapply ops_in_weaken; [apply nbalg_alg|apply rr_unlock_nb]. Qed.
Lemma recover_ops m rs : ops_in alg_op (recover m rs).
Proof. eapply ops_in_weaken; [apply nbalg_alg|apply recover_nb]. Qed.

Lemma ordered_lock_from_ops m lk done todo :
  Forall (fun x => ops_in alg_op (lk x)) todo -> ops_in alg_op (ordered_lock_from m lk done todo).
Proof.
  intros H. revert done. induction H as [|x r Hx Hr IH]; intros done; simpl; [constructor|].
  apply ops_in_then; [|apply IH]. constructor; [exact Hx|apply recover_ops].
Qed.

Lemma ordered_try_from_ops m tr done todo :
  Forall (fun x => ops_in alg_op (tr x)) todo -> ops_in alg_op (ordered_try_from m tr done todo).
Proof.
  intros H. revert done. induction H as [|x r Hx Hr IH]; intros done; simpl; [constructor|].
  constructor; [constructor; [exact Hx|apply recover_ops]|].
  intros v. destruct (vtrue v); [apply IH|].
  apply ops_in_then; [|constructor]. constructor; [|apply recover_ops].
  apply ops_in_seqs_map. intros; apply rr_unlock_ops.
Qed.

Lemma retry_try_from_ops m tr done todo :
  Forall (fun x => ops_in alg_op (tr x)) todo -> ops_in alg_op (retry_try_from m tr done todo).
Proof.
  intros H. revert done. induction H as [|x r Hx Hr IH]; intros done; simpl; [constructor|].
  constructor; [constructor; [exact Hx|apply recover_ops]|].
  intros v. destruct (vtrue v); [apply IH|].
  apply ops_in_then; [|constructor]. constructor; apply recover_ops.
Qed.

Lemma ordered_try_from_nb m tr done todo :
  Forall (fun x => ops_in nbalg (tr x)) todo -> ops_in nbalg (ordered_try_from m tr done todo).
Proof.
  intros H. revert done. induction H as [|x r Hx Hr IH]; intros done; simpl; [constructor|].
  constructor; [constructor; [exact Hx|apply recover_nb]|].
  intros v. destruct (vtrue v); [apply IH|].
  apply ops_in_then; [|constructor]. constructor; [|apply recover_nb].
  apply ops_in_seqs_map. intros; apply rr_unlock_nb.
Qed.

Lemma retry_try_from_nb m tr done todo :
  Forall (fun x => ops_in nbalg (tr x)) todo -> ops_in nbalg (retry_try_from m tr done todo).
Proof.
  intros H. revert done. induction H as [|x r Hx Hr IH]; intros done; simpl; [constructor|].
  constructor; [constructor; [exact Hx|apply recover_nb]|].
  intros v. destruct (vtrue v); [apply IH|].
  apply ops_in_then; [|constructor]. constructor; apply recover_nb.
Qed.

Lemma rr_try_nb m r : ops_in nbalg (rr_try m r).
Proof.
  induction r as [k l|u inner IH] using rawref_ind2; simpl; [apply leaf_try_nb|].
  now apply ordered_try_from_nb.
Qed.

Lemma raw_try_nb m a : ops_in nbalg (raw_try m a).
Proof.
  destruct a as [k l|rs|rs|]; cbn [raw_try].
  - apply leaf_try_nb.
  - apply ordered_try_from_nb. apply Forall_forall. intros; apply rr_try_nb.
  - unfold retry_try. destruct rs; [constructor|]. apply retry_try_from_nb. apply Forall_forall. intros; apply rr_try_nb.
  - constructor.
Qed.

Lemma raw_unlock_nb m a : ops_in nbalg (raw_unlock m a).
Proof.
  destruct a as [k l|rs|rs|]; cbn [raw_unlock].
  - apply leaf_unlock_nb.
  - apply ops_in_seqs_map. intros; apply rr_unlock_nb.
  - apply ops_in_seqs_map. intros; apply rr_unlock_nb.
  - constructor.
Qed.

Lemma rr_lock_ops m r : ops_in alg_op (rr_lock m r).
Proof.
  induction r as [k l|u inner IH] using rawref_ind2; simpl; [apply leaf_lock_ops|].
  now apply ordered_lock_from_ops.
Qed.

Lemma rr_try_ops m r : ops_in alg_op (rr_try m r).
Proof.
  induction r as [k l|u inner IH] using rawref_ind2; simpl; [apply leaf_try_ops|].
  now apply ordered_try_from_ops.
Qed.

Lemma retry_handler_ops m locks first locked : ops_in alg_op (retry_handler m locks first locked).
Proof.
  unfold retry_handler. apply ops_in_then; [apply recover_ops|].
  destruct (Nat.leb locked first); [apply rr_unlock_ops|constructor].
Qed.

Lemma retry_inner_ops m locks again first :
  (forall i, ops_in alg_op (again i)) ->
  forall todo i locked, ops_in alg_op (retry_inner m locks again first i locked todo).
Proof.
  intros Ha. induction todo as [|x r IH]; intros i locked; simpl; [constructor|].
  destruct (Nat.eqb i first); [apply IH|].
  constructor; [constructor; [apply rr_try_ops|apply retry_handler_ops]|].
  intros v. destruct (vtrue v); [apply IH|].
  apply ops_in_then; [|apply Ha].
  constructor; [|apply retry_handler_ops].
  apply ops_in_then; [apply recover_ops|]. destruct (Nat.leb i first); [apply rr_unlock_ops|constructor].
Qed.

Lemma retry_outer_ops m locks fuel : forall first, ops_in alg_op (retry_outer m locks fuel first).
Proof.
  induction fuel as [|f IH]; intros first; simpl; [constructor|].
  apply ops_in_then.
  - constructor; [apply rr_lock_ops|apply retry_handler_ops].
  - apply retry_inner_ops. exact IH.
Qed.

Lemma raw_lock_ops fuel m a : ops_in alg_op (raw_lock fuel m a).
Proof.
  destruct a as [k l|rs|rs|]; cbn [raw_lock].
  - apply leaf_lock_ops.
  - apply ordered_lock_from_ops. apply Forall_forall. intros; apply rr_lock_ops.
  - unfold retry_lock. destruct rs; [constructor|apply retry_outer_ops].
  - constructor.
Qed.

Lemma raw_try_ops m a : ops_in alg_op (raw_try m a).
Proof.
  destruct a as [k l|rs|rs|]; cbn [raw_try].
  - apply leaf_try_ops.
  - apply ordered_try_from_ops. apply Forall_forall. intros; apply rr_try_ops.
  - unfold retry_try. destruct rs; [constructor|]. apply retry_try_from_ops. apply Forall_forall. intros; apply rr_try_ops.
  - constructor.
Qed.

Lemma raw_unlock_ops m a : ops_in alg_op (raw_unlock m a).
Proof.
  destruct a as [k l|rs|rs|]; cbn [raw_unlock].
  - apply leaf_unlock_ops.
  - apply ops_in_seqs_map. intros; apply rr_unlock_ops.
  - apply ops_in_seqs_map. intros; apply rr_unlock_ops.
  - constructor.
Qed.

(* guard drop additionally sets Poisonable flags *)
Definition drop_op (o : op) : Prop := match o with OPoison _ => True | _ => alg_op o end.

Lemma drop_items_ops m unw items : ops_in drop_op (drop_items m unw items).
Proof.
  revert unw. induction items as [|[k l|p] r IH]; intros unw; simpl; [constructor| |].
  - assert (L : ops_in drop_op (leaf_unlock m k l))
      by (eapply ops_in_weaken; [|apply leaf_unlock_ops]; intros o; destruct o; simpl; tauto).
    destruct unw; apply ops_in_then; auto; constructor; auto; constructor.
  - apply ops_in_then; [|apply IH]. destruct unw; [apply ops_in_op_; exact I|constructor].
Qed.

(* ---------------------------------------------------------------- programs that cannot wait *)
Definition nbop (o : op) : Prop := match o with ORaw k _ => rop_blocking k = false | _ => True end.
Definition nb_ev (e : ev) : Prop := match e with ERaw _ k _ _ => rop_blocking k = false | _ => True end.

Lemma nbalg_nbop o : nbalg o -> nbop o.
Proof. destruct o; simpl; tauto. Qed.

Lemma raw_apply_nb t k s pw : rop_blocking k = false -> raw_apply t k s pw <> ABlock.
Proof.
  destruct k; simpl; intros H; try discriminate H.
  - destruct (is_free s); discriminate.
  - destruct (writer_is s t); discriminate.
  - destruct (no_writer s && negb pw); discriminate.
  - destruct (memb t (readers s)); discriminate.
Qed.

Lemma run_nonblocking pw t p :
  ops_in nbop p -> forall w out w', run pw t p w = (out, w') ->
  out <> OBlocked /\ exists evs, w_trace w' = evs ++ w_trace w /\ Forall nb_ev evs.
Proof.
  induction 1 as [v| | | |o k Ho Hk IH|m k Hm IHm Hk IHk|b h Hb IHb Hh IHh]; intros w out w' R; simpl in R.
  - inversion R; subst. split; [discriminate|exists []; split; [reflexivity|constructor]].
  - inversion R; subst. split; [discriminate|exists []; split; [reflexivity|constructor]].
  - inversion R; subst. split; [discriminate|exists []; split; [reflexivity|constructor]].
  - inversion R; subst. split; [discriminate|exists []; split; [reflexivity|constructor]].
  - assert (D : match do_op pw t o w with
                | RDone _ w1 | RPanic w1 => exists evs, w_trace w1 = evs ++ w_trace w /\ Forall nb_ev evs
                | RBlock _ => False
                end).
    { destruct o; simpl in Ho; simpl;
        try (exists []; split; [reflexivity|constructor]);
        try (eexists [_]; split; [reflexivity|repeat constructor]).
      destruct (faulty w k0 l); [eexists [_]; split; [reflexivity|]; constructor; [exact Ho|constructor]|].
      pose proof (raw_apply_nb t k0 (w_raw w l) (pw l) Ho) as NB.
      destruct (raw_apply t k0 (w_raw w l) (pw l)); try contradiction;
        (eexists [_]; split; [reflexivity|]; constructor; [exact Ho|constructor]). }
    destruct (do_op pw t o w) as [v w1|w1|w1]; [| |destruct D].
    + destruct D as [e1 [T1 F1]]. destruct (IH v w1 out w' R) as [Hn [e2 [T2 F2]]].
      split; [exact Hn|]. exists (e2 ++ e1). split; [rewrite T2, T1; now rewrite app_assoc|apply Forall_app; now split].
    + inversion R; subst. split; [discriminate|exact D].
  - destruct (run pw t m w) as [o1 w1] eqn:R1. destruct (IHm w o1 w1 R1) as [Hn1 [e1 [T1 F1]]].
    destruct o1; try (inversion R; subst; split; [assumption||discriminate|exists e1; now split]).
    destruct (IHk v w1 out w' R) as [Hn [e2 [T2 F2]]].
    split; [exact Hn|]. exists (e2 ++ e1). split; [rewrite T2, T1; now rewrite app_assoc|apply Forall_app; now split].
  - destruct (run pw t b w) as [o1 w1] eqn:R1. destruct (IHb w o1 w1 R1) as [Hn1 [e1 [T1 F1]]].
    destruct o1; try (inversion R; subst; split; [assumption||discriminate|exists e1; now split]).
    destruct (run pw t h w1) as [o2 w2] eqn:R2. destruct (IHh w1 o2 w2 R2) as [Hn2 [e2 [T2 F2]]].
    assert (X : exists evs, w_trace w2 = evs ++ w_trace w /\ Forall nb_ev evs).
    { exists (e2 ++ e1). split; [rewrite T2, T1; now rewrite app_assoc|apply Forall_app; now split]. }
    destruct o2; inversion R; subst; (split; [assumption||discriminate|exact X]).
Qed.
