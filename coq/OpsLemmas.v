(* OpsLemmas.v — a syntactic predicate "every operation occurring in the program satisfies A" and the
   generic lemma lifting a per-operation invariant / event property to whole runs (for every world,
   faults and panics included). *)
From HL Require Import Base Model Shape Algo Api.

Inductive ops_in (A : op -> Prop) : prog -> Prop :=
| oi_ret v : ops_in A (Ret v)
| oi_throw : ops_in A Throw
| oi_abort : ops_in A Abort
| oi_fuel : ops_in A Fuel
| oi_op o k : A o -> (forall v, ops_in A (k v)) -> ops_in A (Op o k)
| oi_bind m k : ops_in A m -> (forall v, ops_in A (k v)) -> ops_in A (Bind m k)
| oi_catch b h : ops_in A b -> ops_in A h -> ops_in A (Catch b h).

Lemma ops_in_weaken (A B : op -> Prop) (p : prog) : (forall o, A o -> B o) -> ops_in A p -> ops_in B p.
Proof. intros H. induction 1; constructor; auto. Qed.

Lemma ops_in_then (A : op -> Prop) a b : ops_in A a -> ops_in A b -> ops_in A (a ;; b).
Proof. intros Ha Hb. unfold pthen. constructor; auto. Qed.

Lemma ops_in_op_ (A : op -> Prop) o : A o -> ops_in A (op_ o).
Proof. intros H. unfold op_. constructor; [exact H|]. intros v. constructor. Qed.

Lemma ops_in_skip (A : op -> Prop) : ops_in A skip.
Proof. constructor. Qed.

Lemma ops_in_seqs (A : op -> Prop) l : Forall (ops_in A) l -> ops_in A (seqs l).
Proof. induction 1; simpl; [constructor|]. now apply ops_in_then. Qed.

Lemma ops_in_seqs_map {X} (A : op -> Prop) (f : X -> prog) l : (forall x, ops_in A (f x)) -> ops_in A (seqs (map f l)).
Proof. intros H. apply ops_in_seqs. apply Forall_forall. intros p Hp. apply in_map_iff in Hp. destruct Hp as [x [<- _]]. apply H. Qed.

Section RunInv.
  Variables (pw : lock -> bool) (t : tid).
  Variable A : op -> Prop.
  Variable I : world -> Prop.
  Variable P : ev -> Prop.

  Definition op_ok : Prop :=
    forall o w, A o -> I w ->
      match do_op pw t o w with
      | RDone _ w' | RPanic w' | RBlock w' =>
          I w' /\ exists evs, w_trace w' = evs ++ w_trace w /\ Forall P evs
      end.

  Hypothesis OK : op_ok.

  Lemma run_ops_inv p :
    ops_in A p -> forall w out w', I w -> run pw t p w = (out, w') ->
    I w' /\ exists evs, w_trace w' = evs ++ w_trace w /\ Forall P evs.
  Proof.
    induction 1 as [v| | | |o k Ho Hk IH|m k Hm IHm Hk IHk|b h Hb IHb Hh IHh]; intros w out w' Hi R; simpl in R.
    - inversion R; subst. split; [exact Hi|]. exists []. split; [reflexivity|constructor].
    - inversion R; subst. split; [exact Hi|]. exists []. split; [reflexivity|constructor].
    - inversion R; subst. split; [exact Hi|]. exists []. split; [reflexivity|constructor].
    - inversion R; subst. split; [exact Hi|]. exists []. split; [reflexivity|constructor].
    - pose proof (OK o w Ho Hi) as H. destruct (do_op pw t o w) as [v w1|w1|w1].
      + destruct H as [Hi1 [e1 [T1 F1]]]. destruct (IH v w1 out w' Hi1 R) as [Hi' [e2 [T2 F2]]].
        split; [exact Hi'|]. exists (e2 ++ e1). split; [rewrite T2, T1; now rewrite app_assoc|].
        apply Forall_app. now split.
      + inversion R; subst. exact H.
      + inversion R; subst. exact H.
    - destruct (run pw t m w) as [o1 w1] eqn:R1. destruct (IHm w o1 w1 Hi R1) as [Hi1 [e1 [T1 F1]]].
      destruct o1; try (inversion R; subst; split; [exact Hi1|exists e1; now split]).
      destruct (IHk v w1 out w' Hi1 R) as [Hi' [e2 [T2 F2]]].
      split; [exact Hi'|]. exists (e2 ++ e1). split; [rewrite T2, T1; now rewrite app_assoc|].
      apply Forall_app. now split.
    - destruct (run pw t b w) as [o1 w1] eqn:R1. destruct (IHb w o1 w1 Hi R1) as [Hi1 [e1 [T1 F1]]].
      destruct o1; try (inversion R; subst; split; [exact Hi1|exists e1; now split]).
      destruct (run pw t h w1) as [o2 w2] eqn:R2. destruct (IHh w1 o2 w2 Hi1 R2) as [Hi2 [e2 [T2 F2]]].
      assert (X : I w2 /\ exists evs, w_trace w2 = evs ++ w_trace w /\ Forall P evs).
      { split; [exact Hi2|]. exists (e2 ++ e1). split; [rewrite T2, T1; now rewrite app_assoc|].
        apply Forall_app. now split. }
      destruct o2; inversion R; subst; exact X.
  Qed.
End RunInv.

(* ---------------------------------------------------------------- the algorithms only use these operations *)
Definition alg_op (o : op) : Prop :=
  match o with ORaw _ _ | OKilled _ | OKill _ => True | _ => False end.

Lemma leaf_lock_ops m k l : ops_in alg_op (leaf_lock m k l).
Proof.
  unfold leaf_lock. constructor; [exact I|]. intros v. destruct (vtrue v); [constructor|].
  constructor; apply ops_in_op_; exact I.
Qed.
Lemma leaf_try_ops m k l : ops_in alg_op (leaf_try m k l).
Proof.
  unfold leaf_try. constructor; [exact I|]. intros v. destruct (vtrue v); [constructor|].
  constructor; [|apply ops_in_op_; exact I]. constructor; [exact I|]. intros; constructor.
Qed.
Lemma leaf_unlock_ops m k l : ops_in alg_op (leaf_unlock m k l).
Proof. unfold leaf_unlock. constructor; apply ops_in_op_; exact I. Qed.

Lemma rawref_ind2 (P : rawref -> Prop) :
  (forall k l, P (RLeaf k l)) -> (forall u inner, Forall P inner -> P (ROwned u inner)) -> forall r, P r.
Proof.
  intros Hl Ho. fix IH 1. intros [k l|u inner]; [apply Hl|]. apply Ho.
  induction inner as [|x xs IHx]; constructor; [apply IH|exact IHx].
Qed.

Lemma rr_poison_ops r : ops_in alg_op (rr_poison r).
Proof.
  induction r as [k l|u inner IH] using rawref_ind2; simpl; [apply ops_in_op_; exact I|].
  apply ops_in_seqs. rewrite Forall_map. exact IH.
Qed.

Lemma rr_unlock_ops m r : ops_in alg_op (rr_unlock m r).
Proof.
  induction r as [k l|u inner IH] using rawref_ind2; simpl; [apply leaf_unlock_ops|].
  apply ops_in_seqs. rewrite Forall_map. exact IH.
Qed.

Lemma recover_ops m rs : ops_in alg_op (recover m rs).
Proof.
  unfold recover. constructor; apply ops_in_seqs_map; intros; [apply rr_unlock_ops|apply rr_poison_ops].
Qed.

Lemma ordered_lock_from_ops m lk done todo :
  Forall (fun x => ops_in alg_op (lk x)) todo -> ops_in alg_op (ordered_lock_from m lk done todo).
Proof.
  intros H. revert done. induction H as [|x r Hx Hr IH]; intros done; simpl; [constructor|].
  apply ops_in_then; [|apply IH]. constructor; [exact Hx|apply recover_ops].
Qed.

Lemma ordered_try_from_ops m tr done todo :
  Forall (fun x => ops_in alg_op (tr x)) todo -> ops_in alg_op (ordered_try_from m tr done todo).
Proof.
  intros H. revert done. induction H as [|x r Hx Hr IH]; intros done; simpl; [constructor|].
  constructor; [constructor; [exact Hx|apply recover_ops]|].
  intros v. destruct (vtrue v); [apply IH|].
  apply ops_in_then; [|constructor]. constructor; [|apply recover_ops].
  apply ops_in_seqs_map. intros; apply rr_unlock_ops.
Qed.

Lemma retry_try_from_ops m tr done todo :
  Forall (fun x => ops_in alg_op (tr x)) todo -> ops_in alg_op (retry_try_from m tr done todo).
Proof.
  intros H. revert done. induction H as [|x r Hx Hr IH]; intros done; simpl; [constructor|].
  constructor; [constructor; [exact Hx|apply recover_ops]|].
  intros v. destruct (vtrue v); [apply IH|].
  apply ops_in_then; [|constructor]. constructor; apply recover_ops.
Qed.

Lemma rr_lock_ops m r : ops_in alg_op (rr_lock m r).
Proof.
  induction r as [k l|u inner IH] using rawref_ind2; simpl; [apply leaf_lock_ops|].
  now apply ordered_lock_from_ops.
Qed.

Lemma rr_try_ops m r : ops_in alg_op (rr_try m r).
Proof.
  induction r as [k l|u inner IH] using rawref_ind2; simpl; [apply leaf_try_ops|].
  now apply ordered_try_from_ops.
Qed.

Lemma retry_handler_ops m locks first locked : ops_in alg_op (retry_handler m locks first locked).
Proof.
  unfold retry_handler. apply ops_in_then; [apply recover_ops|].
  destruct (Nat.leb locked first); [apply rr_unlock_ops|constructor].
Qed.

Lemma retry_inner_ops m locks again first :
  (forall i, ops_in alg_op (again i)) ->
  forall todo i locked, ops_in alg_op (retry_inner m locks again first i locked todo).
Proof.
  intros Ha. induction todo as [|x r IH]; intros i locked; simpl; [constructor|].
  destruct (Nat.eqb i first); [apply IH|].
  constructor; [constructor; [apply rr_try_ops|apply retry_handler_ops]|].
  intros v. destruct (vtrue v); [apply IH|].
  apply ops_in_then; [|apply Ha].
  constructor; [|apply retry_handler_ops].
  apply ops_in_then; [apply recover_ops|]. destruct (Nat.leb i first); [apply rr_unlock_ops|constructor].
Qed.

Lemma retry_outer_ops m locks fuel : forall first, ops_in alg_op (retry_outer m locks fuel first).
Proof.
  induction fuel as [|f IH]; intros first; simpl; [constructor|].
  apply ops_in_then.
  - constructor; [apply rr_lock_ops|apply retry_handler_ops].
  - apply retry_inner_ops. exact IH.
Qed.

Lemma raw_lock_ops fuel m a : ops_in alg_op (raw_lock fuel m a).
Proof.
  destruct a as [k l|rs|rs|]; cbn [raw_lock].
  - apply leaf_lock_ops.
  - apply ordered_lock_from_ops. apply Forall_forall. intros; apply rr_lock_ops.
  - unfold retry_lock. destruct rs; [constructor|apply retry_outer_ops].
  - constructor.
Qed.

Lemma raw_try_ops m a : ops_in alg_op (raw_try m a).
Proof.
  destruct a as [k l|rs|rs|]; cbn [raw_try].
  - apply leaf_try_ops.
  - apply ordered_try_from_ops. apply Forall_forall. intros; apply rr_try_ops.
  - unfold retry_try. destruct rs; [constructor|]. apply retry_try_from_ops. apply Forall_forall. intros; apply rr_try_ops.
  - constructor.
Qed.

Lemma raw_unlock_ops m a : ops_in alg_op (raw_unlock m a).
Proof.
  destruct a as [k l|rs|rs|]; cbn [raw_unlock].
  - apply leaf_unlock_ops.
  - apply ops_in_seqs_map. intros; apply rr_unlock_ops.
  - apply ops_in_seqs_map. intros; apply rr_unlock_ops.
  - constructor.
Qed.

(* guard drop additionally sets Poisonable flags *)
Definition drop_op (o : op) : Prop := match o with OPoison _ => True | _ => alg_op o end.

Lemma drop_items_ops m unw items : ops_in drop_op (drop_items m unw items).
Proof.
  revert unw. induction items as [|[k l|p] r IH]; intros unw; simpl; [constructor| |].
  - assert (L : ops_in drop_op (leaf_unlock m k l))
      by (eapply ops_in_weaken; [|apply leaf_unlock_ops]; intros o; destruct o; simpl; tauto).
    destruct unw; apply ops_in_then; auto; constructor; auto; constructor.
  - apply ops_in_then; [|apply IH]. destruct unw; [apply ops_in_op_; exact I|constructor].
Qed.
