(* Pf_C08.v — sorting collections agree on one arrangement-independent acquisition order. *)
From HL Require Import Base Model Shape Algo Api Lemmas ShapeLemmas SortLemmas ApiLemmas Check Monitors Pf_C07.

(* membership by address *)
Definition amem (am : addrmap) (r : rawref) (l : list rawref) : bool :=
  existsb (fun r' => Nat.eqb (raddr am r) (raddr am r')) l.

Definition lmem (l : lock) (ls : list lock) : bool := memb l ls.

Lemma NoDup_map_filter {A B} (f : A -> B) (p : A -> bool) l : NoDup (map f l) -> NoDup (map f (filter p l)).
Proof.
  induction l as [|x r IH]; simpl; intros ND; [constructor|].
  inversion ND as [|? ? Hn ND']; subst. destruct (p x); [|now apply IH].
  simpl. constructor; [|now apply IH].
  intros Hin. apply Hn. apply in_map_iff in Hin. destruct Hin as [y [Ey Hy]].
  apply filter_In in Hy. apply in_map_iff. exists y. tauto.
Qed.

Section Common.
  Variable am : addrmap.
  Variables R1 R2 : list rawref.
  Hypothesis S1 : StronglySorted (kle (raddr am)) R1.
  Hypothesis S2 : StronglySorted (kle (raddr am)) R2.
  Hypothesis N1 : NoDup (map (raddr am) R1).
  Hypothesis N2 : NoDup (map (raddr am) R2).
  (* one address, one object *)
  Hypothesis U1 : forall a b, In a R1 -> In b R2 -> raddr am a = raddr am b -> a = b.
  (* distinct objects guard distinct locks (an owned collection owns its locks exclusively) *)
  Hypothesis U2 : forall a b l, In a R1 -> In b R2 -> a <> b ->
                  In l (locks_of (rleaves a)) -> In l (locks_of (rleaves b)) -> False.

  Let L1 := locks_of (rsleaves R1).
  Let L2 := locks_of (rsleaves R2).
  Let C1 := filter (fun r => amem am r R2) R1.
  Let C2 := filter (fun r => amem am r R1) R2.

  Lemma amem_In12 r : In r R1 -> (amem am r R2 = true <-> In r R2).
  Proof.
    intros H1. unfold amem. rewrite existsb_exists. split.
    - intros [r' [H2 E]]. apply Nat.eqb_eq in E. now rewrite (U1 r r' H1 H2 E).
    - intros H2. exists r. split; [exact H2|apply Nat.eqb_refl].
  Qed.

  Lemma amem_In21 r : In r R2 -> (amem am r R1 = true <-> In r R1).
  Proof.
    intros H2. unfold amem. rewrite existsb_exists. split.
    - intros [r' [H1 E]]. apply Nat.eqb_eq in E. symmetry in E. now rewrite <- (U1 r' r H1 H2 E).
    - intros H1. exists r. split; [exact H1|apply Nat.eqb_refl].
  Qed.

  Lemma NoDup_filter {A} (p : A -> bool) l : NoDup l -> NoDup (filter p l).
  Proof.
    induction 1 as [|x r Hn ND IH]; simpl; [constructor|]. destruct (p x); [|exact IH].
    constructor; [|exact IH]. intros Hin. apply filter_In in Hin. tauto.
  Qed.

  Lemma common_refs_equal : C1 = C2.
  Proof.
    apply (sorted_perm_unique (raddr am)).
    - now apply filter_sorted.
    - now apply filter_sorted.
    - unfold C1. now apply NoDup_map_filter.
    - apply NoDup_Permutation.
      + apply NoDup_filter. eapply NoDup_map_inv'; eauto.
      + apply NoDup_filter. eapply NoDup_map_inv'; eauto.
      + intros x. unfold C1, C2. rewrite !filter_In. split.
        * intros [H1 H2]. pose proof (proj1 (amem_In12 x H1) H2) as H2'. split; [exact H2'|].
          now apply amem_In21.
        * intros [H2 H1]. pose proof (proj1 (amem_In21 x H2) H1) as H1'. split; [exact H1'|].
          now apply amem_In12.
  Qed.

  Lemma filter_all {A} (p : A -> bool) l : (forall x, In x l -> p x = true) -> filter p l = l.
  Proof.
    induction l as [|x r IH]; intros H; simpl; [reflexivity|].
    rewrite H by (now left). f_equal. apply IH. intros y Hy. apply H. now right.
  Qed.

  Lemma filter_none {A} (p : A -> bool) l : (forall x, In x l -> p x = false) -> filter p l = [].
  Proof.
    induction l as [|x r IH]; intros H; simpl; [reflexivity|].
    rewrite H by (now left). apply IH. intros y Hy. apply H. now right.
  Qed.

  Lemma in_L r R l : In r R -> In l (locks_of (rleaves r)) -> In l (locks_of (rsleaves R)).
  Proof.
    intros Hr Hl. unfold locks_of, rsleaves in *. apply in_map_iff in Hl. destruct Hl as [x [Ex Hx]].
    apply in_map_iff. exists x. split; [exact Ex|]. apply in_flat_map. now exists r.
  Qed.

  Lemma in_L_inv R l : In l (locks_of (rsleaves R)) -> exists r, In r R /\ In l (locks_of (rleaves r)).
  Proof.
    unfold locks_of, rsleaves. intros Hl. apply in_map_iff in Hl. destruct Hl as [x [Ex Hx]].
    apply in_flat_map in Hx. destruct Hx as [r [Hr Hx]]. exists r. split; [exact Hr|].
    apply in_map_iff. now exists x.
  Qed.

  (* restricting the acquisition sequence of R1 to the locks of R2 keeps exactly the common members *)
  Lemma restrict_1 : filter (fun l => lmem l L2) L1 = locks_of (rsleaves C1).
  Proof.
    unfold L1, C1. clear S1 N1 C2. 
    assert (H : forall R, (forall r, In r R -> In r R1) ->
              filter (fun l => lmem l L2) (locks_of (rsleaves R)) =
              locks_of (rsleaves (filter (fun r => amem am r R2) R))).
    { induction R as [|x r IH]; intros Hsub; [reflexivity|].
      rewrite rsleaves_cons, locks_of_app, filter_app. cbn [filter].
      assert (Hx : In x R1) by (apply Hsub; now left).
      rewrite IH by (intros y Hy; apply Hsub; now right).
      destruct (amem am x R2) eqn:E.
      - rewrite rsleaves_cons, locks_of_app. f_equal.
        apply filter_all. intros l Hl. apply memb_In. apply (in_L x R2); [|exact Hl].
        now apply amem_In12.
      - rewrite filter_none; [reflexivity|]. intros l Hl.
        destruct (lmem l L2) eqn:M; [|reflexivity]. exfalso.
        apply memb_In in M. destruct (in_L_inv R2 l M) as [b [Hb Hlb]].
        apply (U2 x b l Hx Hb); [|exact Hl|exact Hlb].
        intros ->. assert (amem am b R2 = true) by (now apply amem_In12). congruence. }
    apply H. auto.
  Qed.

  Lemma restrict_2 : filter (fun l => lmem l L1) L2 = locks_of (rsleaves C2).
  Proof.
    unfold L2, C2. clear S2 N2 C1.
    assert (H : forall R, (forall r, In r R -> In r R2) ->
              filter (fun l => lmem l L1) (locks_of (rsleaves R)) =
              locks_of (rsleaves (filter (fun r => amem am r R1) R))).
    { induction R as [|x r IH]; intros Hsub; [reflexivity|].
      rewrite rsleaves_cons, locks_of_app, filter_app. cbn [filter].
      assert (Hx : In x R2) by (apply Hsub; now left).
      rewrite IH by (intros y Hy; apply Hsub; now right).
      destruct (amem am x R1) eqn:E.
      - rewrite rsleaves_cons, locks_of_app. f_equal.
        apply filter_all. intros l Hl. apply memb_In. apply (in_L x R1); [|exact Hl].
        now apply amem_In21.
      - rewrite filter_none; [reflexivity|]. intros l Hl.
        destruct (lmem l L1) eqn:M; [|reflexivity]. exfalso.
        apply memb_In in M. destruct (in_L_inv R1 l M) as [a [Ha Hla]].
        apply (U2 a x l Ha Hx); [|exact Hla|exact Hl].
        intros ->. assert (amem am x R1 = true) by (now apply amem_In21). congruence. }
    apply H. auto.
  Qed.

  (* C08 core: the two sequences take the locks they have in common in the same relative order *)
  Theorem common_same_order :
    filter (fun l => lmem l L2) L1 = filter (fun l => lmem l L1) L2.
  Proof. rewrite restrict_1, restrict_2, common_refs_equal. reflexivity. Qed.
End Common.

(* ---------------------------------------------------------------- the model satisfies the monitor *)
Fixpoint sort_inner (s : shape) : option shape :=
  match s with
  | SBoxed x | SRefC x => Some x
  | SPoison _ s' => sort_inner s'
  | _ => None
  end.

Lemma sort_inner_alg am s x :
  sort_inner s = Some x -> alg_of am s = AlgOrdered (isort (raddr am) (get_ptrs am x)) /\ acquirable s = true.
Proof.
  induction s; simpl; intros H; try discriminate; try (inversion H; subst; split; reflexivity).
  destruct (IHs H) as [A B]. split; assumption.
Qed.

Lemma list_eqb_nat_refl l : list_eqb Nat.eqb l l = true.
Proof. induction l as [|x r IH]; simpl; [reflexivity|]. now rewrite Nat.eqb_refl, IH. Qed.

Record wf_C08 (sc : scen) (c1 c2 : nat) (m1 m2 : mode) (s1 s2 x1 x2 : shape) (t t2 : tid) : Prop := {
  wf8_hist : sc_hist sc = [(t, AKeyGet); (t, AAcquire c1 m1 FGuard); (t, AGuardUnlock);
                           (t2, AKeyGet); (t2, AAcquire c2 m2 FGuard); (t2, AGuardUnlock)];
  wf8_t : t2 <> t;
  wf8_c1 : nth_error (sc_colls sc) c1 = Some s1;
  wf8_c2 : nth_error (sc_colls sc) c2 = Some s2;
  wf8_s1 : sort_inner s1 = Some x1;
  wf8_s2 : sort_inner s2 = Some x2;
  wf8_nd1 : NoDup (leaves s1);
  wf8_nd2 : NoDup (leaves s2);
  wf8_pre : sc_pre sc = [];
  wf8_f1 : sc_f1 sc = [];
  wf8_fp : sc_fp sc = [];
  (* the universe: distinct addresses for distinct objects, owned units own their locks exclusively *)
  wf8_a1 : NoDup (map (raddr (e_am (sc_env sc))) (get_ptrs (e_am (sc_env sc)) x1));
  wf8_a2 : NoDup (map (raddr (e_am (sc_env sc))) (get_ptrs (e_am (sc_env sc)) x2));
  wf8_u1 : forall a b, In a (get_ptrs (e_am (sc_env sc)) x1) -> In b (get_ptrs (e_am (sc_env sc)) x2) ->
                       raddr (e_am (sc_env sc)) a = raddr (e_am (sc_env sc)) b -> a = b;
  wf8_u2 : forall a b l, In a (get_ptrs (e_am (sc_env sc)) x1) -> In b (get_ptrs (e_am (sc_env sc)) x2) -> a <> b ->
                         In l (locks_of (rleaves a)) -> In l (locks_of (rleaves b)) -> False
}.

Section Main.
  Variables (sc : scen) (c1 c2 : nat) (m1 m2 : mode) (s1 s2 x1 x2 : shape) (t t2 : tid).
  Hypothesis WF : wf_C08 sc c1 c2 m1 m2 s1 s2 x1 x2 t t2.

  Let e := sc_env sc.
  Let am := e_am e.
  Let nl := sc_nlocks sc.
  Let np := sc_npids sc.
  Let w0 := sc_world sc.
  Let R1 := isort (raddr am) (get_ptrs am x1).
  Let R2 := isort (raddr am) (get_ptrs am x2).

  Lemma raw0 : forall x, w_raw w0 x = raw_free.
  Proof. intros x. unfold w0, sc_world. cbn [w_raw]. rewrite (wf8_pre _ _ _ _ _ _ _ _ _ _ _ WF). reflexivity. Qed.

  Lemma hq0 : hq (mkh w0 (fun _ => tl0) false).
  Proof.
    split; [reflexivity|]. split; [|reflexivity].
    unfold w0, sc_world. repeat split; cbn; [apply (wf8_f1 _ _ _ _ _ _ _ _ _ _ _ WF)|apply (wf8_fp _ _ _ _ _ _ _ _ _ _ _ WF)].
  Qed.

  Theorem C08_main : mon_C08 sc (model_obs sc) = true.
  Proof.
    pose proof WF as [Hh Ht Hc1 Hc2 Hs1 Hs2 Hn1 Hn2 Hpre Hf1 Hfp Ha1 Ha2 Hu1 Hu2].
    fold e am in Ha1, Ha2, Hu1, Hu2.
    destruct (sort_inner_alg am s1 x1 Hs1) as [Alg1 Acq1].
    destruct (sort_inner_alg am s2 x2 Hs2) as [Alg2 Acq2].
    unfold model_obs. fold e nl np w0. rewrite Hh.
    set (h0 := mkh w0 (fun _ => tl0) false).
    pose proof hq0 as Q0. fold h0 in Q0.
    (* 1: t gets its key *)
    pose proof (step_keyget e nl np h0 t eq_refl) as St1.
    match type of St1 with _ = (?hh, [?oo]) => set (h1 := hh) in *; set (o1 := oo) in * end.
    rewrite (hrun_cons _ _ _ _ _ _ _ _ St1).
    assert (Q1 : hq h1) by (apply hq_keyget; exact Q0).
    assert (Raw1 : forall x, w_raw (h_w h1) x = raw_free) by (intros x; apply raw0).
    (* 2: t locks c1 *)
    assert (K1 : haskey (h_loc h1 t) = true).
    { unfold h1. cbn [h_loc]. rewrite upd_same. cbn [haskey tl0 h_loc h0]. reflexivity. }
    assert (Can1 : can_all m1 (kleaves s1) (w_raw (h_w h1)) = true) by (apply can_all_free; intros; apply Raw1).
    destruct (step_acquire_guard_ordered e nl np t m1 h1 c1 s1 Q1 K1 Hc1 Acq1 Hn1) as [w2 [St2 [E2 B2]]];
      [fold am; rewrite Alg1; exact I|exact Can1|].
    match type of St2 with _ = (?hh, [?oo]) => set (h2 := hh) in *; set (o2 := oo) in * end.
    rewrite (hrun_cons _ _ _ _ _ _ _ _ St2).
    assert (Q2 : hq h2) by (eapply hq_eff; eauto).
    (* 3: t unlocks *)
    assert (G2 : guard (h_loc h2 t) = Some (mkg m1 (gitems s1))) by (unfold h2; cbn [h_loc]; now rewrite upd_same).
    assert (NDg1 : NoDup (locks_of (gleaves (gitems s1)))) by (rewrite gleaves_gitems, <- leaves_kleaves; exact Hn1).
    assert (NDk1 : NoDup (locks_of (kleaves s1))) by (rewrite <- leaves_kleaves; exact Hn1).
    assert (H2 : held_all t m1 (gleaves (gitems s1)) (w_raw (h_w h2)) = true).
    { rewrite gleaves_gitems. unfold h2. cbn [h_w].
      rewrite (held_all_ext t m1 _ _ (acq_all t m1 (kleaves s1) (w_raw (h_w h1)))).
      - now apply held_after_acq.
      - intros x _. apply (eff_raw _ _ _ E2). }
    destruct (step_guard_unlock e nl np t m1 h2 (gitems s1) Q2 G2 NDg1 H2) as [w3 [St3 E3]].
    match type of St3 with _ = (?hh, [?oo]) => set (h3 := hh) in *; set (o3 := oo) in * end.
    rewrite (hrun_cons _ _ _ _ _ _ _ _ St3).
    assert (Q3 : hq h3) by (eapply hq_eff; eauto).
    assert (Raw3 : forall x, w_raw (h_w h3) x = raw_free).
    { intros x. unfold h3. cbn [h_w]. rewrite (eff_raw _ _ _ E3). rewrite gleaves_gitems.
      unfold h2. cbn [h_w].
      rewrite (rel_all_ext t m1 _ _ (acq_all t m1 (kleaves s1) (w_raw (h_w h1)))) by (apply (eff_raw _ _ _ E2)).
      rewrite rel_acq_all; [apply Raw1|exact NDk1|exact Can1]. }
    (* 4: t2 gets its key *)
    assert (Hs3 : h_stop h3 = false) by reflexivity.
    pose proof (step_keyget e nl np h3 t2 Hs3) as St4.
    match type of St4 with _ = (?hh, [?oo]) => set (h4 := hh) in *; set (o4 := oo) in * end.
    rewrite (hrun_cons _ _ _ _ _ _ _ _ St4).
    assert (Q4 : hq h4) by (apply hq_keyget; exact Q3).
    assert (Raw4 : forall x, w_raw (h_w h4) x = raw_free) by (intros x; apply Raw3).
    assert (KF : w_keyf (h_w h3) t2 = false).
    { unfold h3. cbn [h_w]. rewrite (eff_keyf _ _ _ E3). cbn [clear_trace w_keyf]. unfold h2. cbn [h_w].
      rewrite (eff_keyf _ _ _ E2). cbn [clear_trace w_keyf]. unfold h1. cbn [h_w set_keyf w_keyf clear_trace].
      rewrite upd_other by exact Ht. reflexivity. }
    assert (K4 : haskey (h_loc h4 t2) = true).
    { unfold h4. cbn [h_loc]. rewrite upd_same. cbn [haskey]. rewrite KF. apply orb_true_r. }
    (* 5: t2 locks c2 *)
    assert (Can2 : can_all m2 (kleaves s2) (w_raw (h_w h4)) = true) by (apply can_all_free; intros; apply Raw4).
    destruct (step_acquire_guard_ordered e nl np t2 m2 h4 c2 s2 Q4 K4 Hc2 Acq2 Hn2) as [w5 [St5 [E5 B5]]];
      [fold am; rewrite Alg2; exact I|exact Can2|].
    match type of St5 with _ = (?hh, [?oo]) => set (h5 := hh) in *; set (o5 := oo) in * end.
    rewrite (hrun_cons _ _ _ _ _ _ _ _ St5).
    assert (Q5 : hq h5) by (eapply hq_eff; eauto).
    (* 6: t2 unlocks *)
    assert (G5 : guard (h_loc h5 t2) = Some (mkg m2 (gitems s2))) by (unfold h5; cbn [h_loc]; now rewrite upd_same).
    assert (NDg2 : NoDup (locks_of (gleaves (gitems s2)))) by (rewrite gleaves_gitems, <- leaves_kleaves; exact Hn2).
    assert (NDk2 : NoDup (locks_of (kleaves s2))) by (rewrite <- leaves_kleaves; exact Hn2).
    assert (H5 : held_all t2 m2 (gleaves (gitems s2)) (w_raw (h_w h5)) = true).
    { rewrite gleaves_gitems. unfold h5. cbn [h_w].
      rewrite (held_all_ext t2 m2 _ _ (acq_all t2 m2 (kleaves s2) (w_raw (h_w h4)))).
      - now apply held_after_acq.
      - intros x _. apply (eff_raw _ _ _ E5). }
    destruct (step_guard_unlock e nl np t2 m2 h5 (gitems s2) Q5 G5 NDg2 H5) as [w6 [St6 E6]].
    match type of St6 with _ = (?hh, [?oo]) => set (h6 := hh) in *; set (o6 := oo) in * end.
    rewrite (hrun_cons _ _ _ _ _ _ _ _ St6).
    cbn [hrun snd app].
    (* the monitor *)
    unfold mon_C08. unfold o2, o5. cbn [co_ret co_evs rcode_eqb andb].
    rewrite B2, B5. fold am. rewrite Alg1, Alg2. cbn [alg_refs].
    rewrite (common_same_order am _ _ (isort_sorted _ _) (isort_sorted _ _)).
    - apply list_eqb_nat_refl.
    - eapply Permutation_NoDup; [apply Permutation_map; symmetry; apply isort_perm|exact Ha1].
    - eapply Permutation_NoDup; [apply Permutation_map; symmetry; apply isort_perm|exact Ha2].
    - intros a b Ha Hb. apply Hu1; [apply (Permutation_in _ (isort_perm (raddr am) _)); exact Ha|apply (Permutation_in _ (isort_perm (raddr am) _)); exact Hb].
    - intros a b l Ha Hb. apply Hu2; [apply (Permutation_in _ (isort_perm (raddr am) _)); exact Ha|apply (Permutation_in _ (isort_perm (raddr am) _)); exact Hb].
  Qed.
End Main.
