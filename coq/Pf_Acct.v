(* Pf_Acct.v — hold accounting: for EVERY program, world (faults included) and outcome, what a thread holds after a
   run is what it held before plus the successful acquisitions minus the successful releases recorded in the trace.
   Used to turn state facts (held once before, not held after) into trace facts (released exactly once). *)
From HL Require Import Base Model Shape Algo Api OpsLemmas Lemmas Check Monitors.

Definition hc (t : tid) (s : rawst) : nat := (if writer_is s t then 1 else 0) + count t (readers s).

Definition acquires_of (l : lock) (evs : list ev) : nat :=
  length (filter (fun e => match e with
                           | ERaw _ k l' (RUnit | RBool true) => is_acq_rop k && Nat.eqb l l'
                           | _ => false
                           end) evs).

Definition by_thread (t : tid) (e : ev) : Prop := match e with ERaw t' _ _ _ => t' = t | _ => True end.

Lemma releases_of_app l a b : releases_of l (a ++ b) = releases_of l a + releases_of l b.
Proof. unfold releases_of. now rewrite filter_app, app_length. Qed.
Lemma acquires_of_app l a b : acquires_of l (a ++ b) = acquires_of l a + acquires_of l b.
Proof. unfold acquires_of. now rewrite filter_app, app_length. Qed.

Lemma releases_of_rev l evs : releases_of l (rev evs) = releases_of l evs.
Proof.
  induction evs as [|e r IH]; [reflexivity|]. cbn [rev]. rewrite releases_of_app, IH.
  change (e :: r) with ([e] ++ r). rewrite releases_of_app. lia.
Qed.
Lemma acquires_of_rev l evs : acquires_of l (rev evs) = acquires_of l evs.
Proof.
  induction evs as [|e r IH]; [reflexivity|]. cbn [rev]. rewrite acquires_of_app, IH.
  change (e :: r) with ([e] ++ r). rewrite acquires_of_app. lia.
Qed.

Definition acct (t : tid) (w w' : world) : Prop :=
  exists evs, w_trace w' = evs ++ w_trace w /\ Forall (by_thread t) evs /\
              forall l, hc t (w_raw w' l) + releases_of l evs = hc t (w_raw w l) + acquires_of l evs.

Lemma acct_refl t w : acct t w w.
Proof. exists []. split; [reflexivity|]. split; [constructor|]. intros l. reflexivity. Qed.

Lemma acct_trans t a b c : acct t a b -> acct t b c -> acct t a c.
Proof.
  intros [e1 [T1 [F1 H1]]] [e2 [T2 [F2 H2]]]. exists (e2 ++ e1). split; [rewrite T2, T1; now rewrite app_assoc|].
  split; [apply Forall_app; now split|]. intros l. rewrite releases_of_app, acquires_of_app.
  specialize (H1 l). specialize (H2 l). lia.
Qed.

Lemma count_cons_self t r : count t (t :: r) = S (count t r).
Proof. simpl. now rewrite Nat.eqb_refl. Qed.

Lemma count_remove1_memb t r : memb t r = true -> S (count t (remove1 t r)) = count t r.
Proof.
  induction r as [|y r IH]; simpl; [discriminate|].
  destruct (Nat.eqb_spec t y) as [->|Hn]; simpl.
  - intros _. reflexivity.
  - intros H. destruct (Nat.eqb_spec t y); [congruence|]. now apply IH.
Qed.

(* one operation *)
Lemma acct_do_op pw t o w :
  match do_op pw t o w with RDone _ w' | RPanic w' | RBlock w' => acct t w w' end.
Proof.
  destruct o; cbn [do_op]; try apply acct_refl;
    try (eexists [_]; split; [reflexivity|]; split; [repeat constructor|]; intros x; reflexivity);
    try (exists []; split; [reflexivity|]; split; [constructor|]; intros x; reflexivity).
  destruct (faulty w k l).
  { eexists [_]. split; [reflexivity|]. split; [repeat constructor|]. intros x. reflexivity. }
  unfold raw_apply, is_free, no_writer, writer_is.
  destruct (w_raw w l) as [wr rd] eqn:Er. cbn [writer readers].
  destruct k; destruct wr as [u|]; cbn [is_none andb];
    try destruct rd as [|r0 rr]; cbn [is_nil andb];
    try destruct (pw l); cbn [negb andb];
    try destruct (Nat.eqb_spec u t) as [->|Hu];
    try destruct (memb t (r0 :: rr)) eqn:Mb; try destruct (memb t []) eqn:Mb0;
    (eexists [_]; split; [reflexivity|]; split; [repeat constructor|]; intros x;
     cbn [emit tick set_raw w_raw]; unfold releases_of, acquires_of, upd;
     cbn [filter length is_rel_rop is_acq_rop andb];
     destruct (Nat.eqb_spec x l) as [->|Hx]; cbn [length andb]; [|try lia; try reflexivity];
     rewrite ?Er; unfold hc, writer_is; cbn [writer readers];
     rewrite ?Nat.eqb_refl, ?count_cons_self;
     try (pose proof (count_remove1_memb t _ Mb)); try lia; try reflexivity;
     try (destruct (Nat.eqb_spec u t); [congruence|]; lia)).
Qed.

(* a whole run *)
Theorem run_acct pw t p : forall w out w', run pw t p w = (out, w') -> acct t w w'.
Proof.
  induction p as [v| | | |o k IH|m IHm k IHk|b IHb h IHh]; intros w out w' R; cbn [run] in R.
  - inversion R; subst. apply acct_refl.
  - inversion R; subst. apply acct_refl.
  - inversion R; subst. apply acct_refl.
  - inversion R; subst. apply acct_refl.
  - pose proof (acct_do_op pw t o w) as H. destruct (do_op pw t o w) as [v w1|w1|w1].
    + eapply acct_trans; [exact H|]. eapply IH. exact R.
    + inversion R; subst. exact H.
    + inversion R; subst. exact H.
  - destruct (run pw t m w) as [o1 w1] eqn:R1. pose proof (IHm _ _ _ R1) as H1.
    destruct o1; try (inversion R; subst; exact H1).
    eapply acct_trans; [exact H1|]. eapply IHk. exact R.
  - destruct (run pw t b w) as [o1 w1] eqn:R1. pose proof (IHb _ _ _ R1) as H1.
    destruct o1; try (inversion R; subst; exact H1).
    destruct (run pw t h w1) as [o2 w2] eqn:R2. pose proof (IHh _ _ _ R2) as H2.
    destruct o2; inversion R; subst; eapply acct_trans; eauto.
Qed.

(* every release event carries RUnit, RBad or RFault *)
Definition rel_res_ok (e : ev) : Prop :=
  match e with ERaw _ k _ r => is_rel_rop k = true -> r = RUnit \/ r = RBad \/ r = RFault | _ => True end.

Lemma run_rel_res pw t p w out w' :
  run pw t p w = (out, w') -> exists evs, w_trace w' = evs ++ w_trace w /\ Forall rel_res_ok evs.
Proof.
  intros R.
  destruct (run_ops_inv pw t (fun _ => True) (fun _ => True) rel_res_ok) with (p := p) (w := w) (out := out) (w' := w') as [_ H]; auto.
  - intros o w1 _ _. destruct o; simpl; try (split; [exact I|exists []; split; [reflexivity|constructor]]);
      try (split; [exact I|eexists [_]; split; [reflexivity|repeat constructor]]).
    destruct (faulty w1 k l); [split; [exact I|eexists [_]; split; [reflexivity|constructor; [|constructor]; simpl; intros Hk; auto]]|].
    unfold raw_apply.
    destruct k; simpl;
      repeat match goal with |- context [if ?b then _ else _] => destruct b end;
      (split; [exact I|eexists [_]; split; [reflexivity|constructor; [|constructor]; simpl; intros Hk; try discriminate Hk; auto]]).
  - clear. induction p; constructor; auto.
Qed.

Lemma hc_acq1 t k m s : can1 k m s = true -> hc t s = 0 -> hc t (acq1 t k m s) = 1.
Proof.
  unfold can1, acq1, hc. destruct s as [wr rd]. destruct (shared k m); cbn [writer readers]; intros C H.
  - unfold no_writer in C. cbn [writer] in C. destruct wr; [discriminate|]. unfold writer_is in *. cbn [writer] in *.
    rewrite count_cons_self. lia.
  - unfold writer_is. cbn [writer count]. now rewrite Nat.eqb_refl.
Qed.

