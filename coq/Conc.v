(* Conc.v — Level B: threads execute their API calls as the programs of Api.v, one scheduling point per
   raw lock operation and per data access; between two scheduling points a thread runs on (silent
   operations, call returns, start of the next call), exactly as a harness thread does between two grants. *)
From HL Require Import Base Model Shape Algo Api.

(* what the next step of a program is, without performing it (mirrors [step]) *)
Inductive nres := NRet (v : val) | NThrow | NAbort | NFuel | NOp (o : op).

Fixpoint nextop (p : prog) : nres :=
  match p with
  | Ret v => NRet v
  | Throw => NThrow
  | Abort => NAbort
  | Fuel => NFuel
  | Op o _ => NOp o
  | Bind m k => match nextop m with NRet v => nextop (k v) | r => r end
  | Catch b h => match nextop b with
                 | NThrow => match nextop h with NRet _ => NThrow | r => r end
                 | r => r
                 end
  end.

Definition is_sched (o : op) : bool :=
  match o with ORaw _ _ | ORead _ _ | OWrite _ _ => true | _ => false end.

Inductive bev := BE (e : ev) | BRet (t : tid) (r : rcode) (keyfree : bool) | BWait (t : tid) (l : lock) (held : list lock).

Record thr := mkthr {
  th_cur : option (apiop * prog);     (* the running call *)
  th_rest : list apiop;
  th_loc : tlocal;
  th_started : bool;
  th_over : bool                      (* finished, or cut by a stop code *)
}.

Record bstate := mkb { b_w : world; b_thr : list thr; b_evs : list bev (* newest first *); b_noted : list bool }.

Definition get_thr (ts : list thr) (t : tid) : thr := nth t ts (mkthr None [] tl0 true true).
Fixpoint set_nth {A} (l : list A) (n : nat) (x : A) : list A :=
  match l, n with
  | [], _ => []
  | _ :: r, 0 => x :: r
  | y :: r, S n' => y :: set_nth r n' x
  end.

(* the operation a thread is parked on *)
Definition parked (th : thr) : option op :=
  if th_over th || negb (th_started th) then None
  else match th_cur th with
       | Some (_, p) => match nextop p with NOp o => Some o | _ => None end
       | None => None
       end.

(* writer-preferring policy: some other thread is parked on an exclusive acquisition of l *)
Definition pendw (wp : bool) (ts : list thr) (t : tid) (l : lock) : bool :=
  wp && existsb (fun x => match parked (snd x) with
                          | Some (ORaw OLock l') => Nat.eqb l l' && negb (Nat.eqb (fst x) t)
                          | _ => false
                          end) (combine (seq 0 (length ts)) ts).

Definition grantable (wp : bool) (ts : list thr) (w : world) (t : tid) (o : op) : bool :=
  match o with
  | ORaw k l => match raw_apply t k (w_raw w l) (pendw wp ts t l) with ABlock => false | _ => true end
  | _ => true
  end.

Definition enabled (wp : bool) (s : bstate) (t : tid) : bool :=
  let th := get_thr (b_thr s) t in
  if th_over th then false
  else if negb (th_started th) then true
  else match parked th with Some o => grantable wp (b_thr s) (b_w s) t o | None => false end.

Definition wrap (evs : list ev) : list bev := map BE evs.

Definition held_by (nl : nat) (w : world) (t : tid) : list lock :=
  filter (fun l => writer_is (w_raw w l) t || memb t (readers (w_raw w l))) (seq 0 nl).

(* run on from a scheduling point until the next one is reached (or the thread's program ends) *)
(* [ra] ("release-atomic"): a release that directly follows another release of the same thread (no other raw
   operation or data access of that thread in between) is not a scheduling point: a run of releases is then one
   step, and the order of the releases inside it is invisible to the other threads.  [lr]: the last scheduling-point
   operation this thread performed was a release.  With ra = false this is the plain semantics. *)
Definition is_rel_op (o : op) : bool := match o with ORaw (OUnlock | OUnlockSh) _ => true | _ => false end.
Definition stops_here (ra lr : bool) (o : op) : bool := is_sched o && negb (ra && lr && is_rel_op o).

(* run on, without waiting, until the next scheduling point is reached or the program ends: a structural recursion
   (the big-step interpreter cut at the first operation that is a scheduling point) *)
Inductive ares := AFin (out : outcome) (w : world) | APark (p : prog) (w : world).

Fixpoint adv (ra lr : bool) (t : tid) (p : prog) (w : world) : ares :=
  match p with
  | Ret v => AFin (ODone v) w
  | Throw => AFin OPanic w
  | Abort => AFin OAbort w
  | Fuel => AFin OFuel w
  | Op o k =>
      if stops_here ra lr o then APark p w
      else match do_op nopw t o w with
           | RDone v w' => adv ra lr t (k v) w'
           | RPanic w' => AFin OPanic w'
           | RBlock w' => APark p w          (* not reached: only scheduling points can wait *)
           end
  | Bind m k =>
      match adv ra lr t m w with
      | AFin (ODone v) w' => adv ra lr t (k v) w'
      | AFin out w' => AFin out w'
      | APark m' w' => APark (Bind m' k) w'
      end
  | Catch b h =>
      match adv ra lr t b w with
      | AFin OPanic w' =>
          match adv ra lr t h w' with
          | AFin (ODone _) w'' => AFin OPanic w''
          | AFin out w'' => AFin out w''
          | APark h' w'' => APark (h' ;; Throw) w''
          end
      | AFin out w' => AFin out w'
      | APark b' w' => APark (Catch b' h) w'
      end
  end.

(* [pb] ("pause at call boundaries"): a thread whose call has run to its end is left parked, with the call's outcome
   pending behind an operation without effect, before the call returns: the boundary between two calls becomes a state
   of the system (real threads can be preempted there).  Used to state what a thread holds between calls; the
   implementation is compared with the model without it. *)
Definition bpause_op : op := OKilled 1.
Definition term_of (out : outcome) : prog :=
  match out with ODone v => Ret v | OPanic => Throw | OFuel => Fuel | OAbort | OBlocked => Abort end.

(* the calls that follow: each is started and run on; the thread stops at the first scheduling point, at the end of
   its program, or at a stop code *)
Fixpoint drain_calls (ra lr pb : bool) (e : env) (t : tid) (loc : tlocal) (rest : list apiop) (w : world) (evs : list bev)
  : thr * world * list bev :=
  match rest with
  | [] => (mkthr None [] loc true true, w, evs)
  | o :: r =>
      match api_prog e loc o with
      | None => drain_calls ra lr pb e t loc r w (BRet t RSkipped (negb (w_keyf w t)) :: evs)
      | Some p =>
          match adv ra lr t p (clear_trace w) with
          | APark p' w' => (mkthr (Some (o, p')) r loc true false, w', wrap (w_trace w') ++ evs)
          | AFin out w' =>
              if pb then (mkthr (Some (o, Op bpause_op (fun _ => term_of out))) r loc true false, w', wrap (w_trace w') ++ evs)
              else
              let (lc', rc) := api_fin e loc o out in
              let evs' := BRet t rc (negb (w_keyf w' t)) :: wrap (w_trace w') ++ evs in
              if stops rc then (mkthr None r lc' true true, w', evs')
              else drain_calls ra lr pb e t lc' r w' evs'
          end
      end
  end.

(* the running call [o] with remaining program [p]: run on, then the calls that follow; [pbnow]: pause at the end of
   this call (not when the thread has just been resumed from that very pause) *)
Definition settle (ra lr pbnow pb : bool) (e : env) (t : tid) (o : apiop) (loc : tlocal) (rest : list apiop) (p : prog)
           (w : world) (evs : list bev) : thr * world * list bev :=
  match adv ra lr t p (clear_trace w) with
  | APark p' w' => (mkthr (Some (o, p')) rest loc true false, w', wrap (w_trace w') ++ evs)
  | AFin out w' =>
      if pbnow then (mkthr (Some (o, Op bpause_op (fun _ => term_of out))) rest loc true false, w', wrap (w_trace w') ++ evs)
      else
      let (lc', rc) := api_fin e loc o out in
      let evs' := BRet t rc (negb (w_keyf w' t)) :: wrap (w_trace w') ++ evs in
      if stops rc then (mkthr None rest lc' true true, w', evs')
      else drain_calls ra lr pb e t lc' rest w' evs'
  end.


(* a thread found waiting (parked on a blocking acquisition that cannot be granted now) records, once per
   wait, what it holds *)
Definition waiting (wp : bool) (s : bstate) (t : tid) : option lock :=
  match parked (get_thr (b_thr s) t) with
  | Some (ORaw k l) => if rop_blocking k && negb (grantable wp (b_thr s) (b_w s) t (ORaw k l)) then Some l else None
  | _ => None
  end.

Fixpoint note_waits (wp : bool) (nl : nat) (s : bstate) (ts : list tid) : bstate :=
  match ts with
  | [] => s
  | t :: r =>
      match waiting wp s t with
      | Some l =>
          if nth t (b_noted s) false then note_waits wp nl s r
          else note_waits wp nl (mkb (b_w s) (b_thr s) (BWait t l (held_by nl (b_w s) t) :: b_evs s)
                                     (set_nth (b_noted s) t true)) r
      | None => note_waits wp nl s r
      end
  end.

(* one turn of thread t (which must be enabled).  With [yr] (and not [ra]) a thread that has just performed a release
   pauses: it is left parked on an operation without any effect (reading a kill flag) in front of the rest of its
   program, and runs on at its next turn. *)
Definition pause_op : op := OKilled 0.
Definition is_bpause (o : option op) : bool := match o with Some (OKilled 1) => true | _ => false end.
Definition turn_g (ra yr pb : bool) (wp : bool) (e : env) (nl : nat) (s : bstate) (t : tid) : bstate :=
  let th := get_thr (b_thr s) t in
  if negb (th_started th) then
    let '(th', w', evs') := drain_calls ra false pb e t (th_loc th) (th_rest th) (b_w s) (b_evs s) in
    mkb w' (set_nth (b_thr s) t th') evs' (set_nth (b_noted s) t false)
  else
    match th_cur th with
    | Some (o, p) =>
        let lr := match parked th with Some op => is_rel_op op | None => false end in
        match step (pendw wp (b_thr s) t) t p (clear_trace (b_w s)) with
        | SStep p' w1 =>
            if yr && negb ra && lr then
              mkb w1 (set_nth (b_thr s) t (mkthr (Some (o, Op pause_op (fun _ => p'))) (th_rest th) (th_loc th) true false))
                  (wrap (w_trace w1) ++ b_evs s) (set_nth (b_noted s) t false)
            else
              let '(th', w', evs') := settle ra lr (pb && negb (is_bpause (parked th))) pb e t o (th_loc th) (th_rest th) p' w1
                                             (wrap (w_trace w1) ++ b_evs s) in
              mkb w' (set_nth (b_thr s) t th') evs' (set_nth (b_noted s) t false)
        | _ => s
        end
    | None => s
    end.
Definition turn := turn_g false false false.

Fixpoint run_sched_g (ra yr pb : bool) (wp : bool) (e : env) (nl : nat) (s : bstate) (sched : list tid) : bstate * bool :=
  let s := note_waits wp nl s (seq 0 (length (b_thr s))) in
  match sched with
  | [] => (s, true)
  | t :: r => if enabled wp s t then run_sched_g ra yr pb wp e nl (turn_g ra yr pb wp e nl s t) r else (s, false)
  end.
Definition run_sched := run_sched_g false false false.

Inductive bstatus := BDone | BDeadlock | BSelfWait | BUnfinished | BBadSchedule.

Definition all_over (s : bstate) : bool := forallb th_over (b_thr s).
Definition any_enabled (wp : bool) (s : bstate) : bool :=
  existsb (enabled wp s) (seq 0 (length (b_thr s))).
Definition self_waiting (s : bstate) : bool :=
  existsb (fun x => match parked (snd x) with
                    | Some (ORaw _ l) => writer_is (w_raw (b_w s) l) (fst x) || memb (fst x) (readers (w_raw (b_w s) l))
                    | _ => false
                    end) (combine (seq 0 (length (b_thr s))) (b_thr s)).

Definition status_of (wp : bool) (s : bstate) (sched_ok : bool) : bstatus :=
  if negb sched_ok then BBadSchedule
  else if all_over s then BDone
  else if any_enabled wp s then BUnfinished
  else if self_waiting s then BSelfWait else BDeadlock.

Record bobs := mkbo { bo_status : bstatus; bo_evs : list bev; bo_holds : list rawst; bo_psn : list bool }.

(* bs_yr ("yield after release"): a thread that has just released a lock pauses before doing anything else — an extra
   scheduling point that lets the other threads observe the state between a release and what the releasing code does next
   (set a poison flag, drop its key, ...) *)
Record bscen := mkbs4 { bs_sc : scen; bs_wp : bool; bs_yr : bool; bs_progs : list (list apiop) }.
Definition mkbs (sc : scen) (wp : bool) (progs : list (list apiop)) : bscen := mkbs4 sc wp false progs.

Definition binit (b : bscen) : bstate :=
  mkb (sc_world (bs_sc b)) (map (fun ops => mkthr None ops tl0 false false) (bs_progs b)) []
      (map (fun _ => false) (bs_progs b)).

Definition model_bobs_g (ra : bool) (b : bscen) (sched : list tid) : bobs :=
  let sc := bs_sc b in
  let '(s, ok) := run_sched_g ra (bs_yr b) false (bs_wp b) (sc_env sc) (sc_nlocks sc) (binit b) sched in
  mkbo (status_of (bs_wp b) s ok) (rev (b_evs s)) (snapshot_holds (sc_nlocks sc) (b_w s))
       (snapshot_psn (sc_npids sc) (b_w s)).
Definition model_bobs := model_bobs_g false.

(* ---------------------------------------------------------------- the rank discipline, as a decidable test *)
Definition waits_b (wp : bool) (s : bstate) (t : tid) : option lock :=
  match parked (get_thr (b_thr s) t) with
  | Some (ORaw k l) => if rop_blocking k && negb (grantable wp (b_thr s) (b_w s) t (ORaw k l)) then Some l else None
  | _ => None
  end.

Definition live_b (s : bstate) (t : tid) : bool :=
  Nat.ltb t (length (b_thr s)) && negb (th_over (get_thr (b_thr s) t)).

Definition holds_b (w : world) (u : tid) (l : lock) : bool :=
  writer_is (w_raw w l) u || memb u (readers (w_raw w l)).

Definition stable_b (nl : nat) (wp : bool) (rk : lock -> nat) (N : nat) (s : bstate) : bool :=
  let tids := seq 0 (length (b_thr s)) in
  let locks := seq 0 nl in
  (* rank discipline and universe *)
  forallb (fun t => if live_b s t then
                      match waits_b wp s t with
                      | Some l => Nat.ltb l nl && forallb (fun l' => if holds_b (b_w s) t l' then Nat.ltb (rk l') (rk l) else true) locks
                      | None => true
                      end
                    else true) tids &&
  (* holders are live threads *)
  forallb (fun l => let r := w_raw (b_w s) l in
                    (match writer r with Some u => live_b s u | None => true end) &&
                    forallb (live_b s) (readers r)) locks &&
  (* started live threads are parked *)
  forallb (fun t => if live_b s t && th_started (get_thr (b_thr s) t)
                    then match parked (get_thr (b_thr s) t) with Some _ => true | None => false end
                    else true) tids.


(* rank of a lock: address of the top-level object it is reached through (itself, or the outermost owned
   collection containing it), then its position inside that object *)
Fixpoint units (am : addrmap) (s : shape) : list (uid * list lock) :=
  match s with
  | SLeaf _ _ => []
  | SSeq ss => flat_map (units am) ss
  | SOwned u s' => [(u, map snd (flat_map rleaves (get_ptrs am s')))]
  | SBoxed s' | SRefC s' | SRetry s' | SPoison _ s' => units am s'
  end.

Fixpoint index_of (l : lock) (ls : list lock) : nat :=
  match ls with [] => 0 | x :: r => if Nat.eqb l x then 0 else S (index_of l r) end.

Definition rk_of (sc : scen) (l : lock) : nat :=
  let am := e_am (sc_env sc) in
  (* the outermost owned collection containing l: the one with the most locks *)
  match fold_left (fun (best : option (uid * list lock)) x =>
                     if memb l (snd x)
                     then match best with
                          | Some b => if Nat.ltb (length (snd b)) (length (snd x)) then Some x else best
                          | None => Some x
                          end
                     else best) (flat_map (units am) (sc_colls sc)) None with
  | Some (u, ls) => uaddr am u * 16 + Nat.min (index_of l ls + 1) 15
  | None => laddr am l * 16
  end.

Definition bound_of (sc : scen) : nat := S (list_max (sc_laddr sc ++ sc_uaddr sc)) * 16 + 16.

(* the test holds in every state the schedule goes through *)
Fixpoint stable_along_g (ra yr : bool) (nl : nat) (wp : bool) (rk : lock -> nat) (N : nat) (e : env) (s : bstate) (sched : list tid) : bool :=
  let s := note_waits wp nl s (seq 0 (length (b_thr s))) in
  stable_b nl wp rk N s &&
  match sched with
  | [] => true
  | t :: r => if enabled wp s t then stable_along_g ra yr nl wp rk N e (turn_g ra yr false wp e nl s t) r else true
  end.
Definition stable_along := stable_along_g false false.

Definition model_stable_g (ra : bool) (b : bscen) (sched : list tid) : bool :=
  let sc := bs_sc b in
  stable_along_g ra (bs_yr b) (sc_nlocks sc) (bs_wp b) (rk_of sc) (bound_of sc) (sc_env sc) (binit b) sched.
Definition model_stable := model_stable_g false.

(* the schedule the harness actually follows: entries naming a thread that cannot move are skipped; when the
   list is exhausted the lowest enabled thread runs, until nobody can move *)
Definition first_enabled (wp : bool) (s : bstate) : option tid :=
  find (enabled wp s) (seq 0 (length (b_thr s))).

Fixpoint effective (fuel : nat) (wp : bool) (e : env) (nl : nat) (s : bstate) (pref : list tid) : list tid :=
  match fuel with
  | 0 => []
  | S f =>
      let s := note_waits wp nl s (seq 0 (length (b_thr s))) in
      match pref with
      | t :: r => if enabled wp s t then t :: effective f wp e nl (turn wp e nl s t) r
                  else effective f wp e nl s r
      | [] => match first_enabled wp s with
              | Some t => t :: effective f wp e nl (turn wp e nl s t) []
              | None => []
              end
      end
  end.

Definition effective_sched (b : bscen) (pref : list tid) : list tid :=
  effective 2000 (bs_wp b) (sc_env (bs_sc b)) (sc_nlocks (bs_sc b)) (binit b) pref.
