(* Prop_C07.v — C07: duplicate-lock detection is exact.
   For every declared structure (any size, nesting, arrangement, any assignment of distinct addresses to
   distinct locks / owned units) the checked constructors accept exactly the inputs in which no lock or
   owned unit is reachable twice; the monitor used on the implementation is that very statement. *)
From HL Require Import Base Model Shape Algo Lemmas ShapeLemmas SortLemmas Check Monitors Pf_C07.

Theorem C07_sorting_exact :
  forall am s, addr_inj am (trefs s) -> (try_new_sorting am s = true <-> NoDup (trefs s)).
Proof. exact try_new_sorting_exact. Qed.

Theorem C07_retry_exact :
  forall am s, addr_inj am (trefs s) -> (try_new_retry am s = true <-> NoDup (trefs s)).
Proof. exact try_new_retry_exact. Qed.

(* the model satisfies the monitor: what the check demands of the implementation is proved of the model *)
Theorem C07_monitor :
  forall sorting am s, addr_inj am (trefs s) -> mon_C07 s (model_try_new sorting am s) = true.
Proof.
  intros sorting am s Hi. unfold mon_C07, model_try_new.
  destruct (nodupb (trefs s)) eqn:E.
  - apply nodupb_NoDup in E. destruct sorting.
    + rewrite (proj2 (try_new_sorting_exact am s Hi) E). reflexivity.
    + rewrite (proj2 (try_new_retry_exact am s Hi) E). reflexivity.
  - assert (N : ~ NoDup (trefs s)) by (intros ND; apply nodupb_NoDup in ND; congruence).
    destruct sorting.
    + destruct (try_new_sorting am s) eqn:T; [|reflexivity].
      exfalso. apply N. now apply (try_new_sorting_exact am s Hi).
    + destruct (try_new_retry am s) eqn:T; [|reflexivity].
      exfalso. apply N. now apply (try_new_retry_exact am s Hi).
Qed.

Theorem C07_sorted_adjacent_test :
  forall (key : rawref -> nat) l, StronglySorted (kle key) l -> (adjdup key l = true <-> ~ NoDup (map key l)).
Proof. intros. now apply sorted_adjdup_iff. Qed.

Check C07_sorting_exact : forall am s, addr_inj am (trefs s) -> (try_new_sorting am s = true <-> NoDup (trefs s)).
Check C07_retry_exact : forall am s, addr_inj am (trefs s) -> (try_new_retry am s = true <-> NoDup (trefs s)).
Check C07_monitor : forall sorting am s, addr_inj am (trefs s) -> mon_C07 s (model_try_new sorting am s) = true.

(* non-vacuity: a non-adjacent duplicate hidden in a nested collection is found, its twin is accepted *)
Definition ex07_am : addrmap := mkam (fun l => 10 - l) (fun u => 20 + u).
Definition ex07_dup : shape :=
  SSeq [SLeaf KMutex 1; SBoxed (SSeq [SLeaf KRw 3; SLeaf KMutex 2]); SOwned 0 (SSeq [SLeaf KMutex 5]); SLeaf KMutex 2].
Definition ex07_ok : shape :=
  SSeq [SLeaf KMutex 1; SBoxed (SSeq [SLeaf KRw 3; SLeaf KMutex 2]); SOwned 0 (SSeq [SLeaf KMutex 5]); SLeaf KMutex 4].
Example C07_ex_dup : try_new_sorting ex07_am ex07_dup = false /\ try_new_retry ex07_am ex07_dup = false /\ nodupb (trefs ex07_dup) = false.
Proof. vm_compute. auto. Qed.
Example C07_ex_ok : try_new_sorting ex07_am ex07_ok = true /\ try_new_retry ex07_am ex07_ok = true /\ nodupb (trefs ex07_ok) = true.
Proof. vm_compute. auto. Qed.
Example C07_ex_inj : addr_inj ex07_am (trefs ex07_dup).
Proof.
  intros a b Ha Hb. simpl in Ha, Hb.
  repeat (destruct Ha as [<-|Ha]; [repeat (destruct Hb as [<-|Hb]; [simpl; intros; try reflexivity; try discriminate; try lia|]); try contradiction|]);
  contradiction.
Qed.

Print Assumptions C07_sorting_exact.
Print Assumptions C07_retry_exact.
Print Assumptions C07_monitor.
