(* Pf_C14.v — the key-carrier algebra: under the table conditions K1 and K4 no sequence of safe public API calls
   gives a thread two carriers; under K5 no hold ever gets detached from its guard. *)
From Coq Require Import List String Bool Arith Lia.
From HL Require Import ApiTable ApiModel.
Import ListNotations.
Open Scope string_scope.

(* what user code owns: keys in hand (owned or reborrowed), live guards, holds moved out of a guard *)
Record cst := mkc { c_keys : nat; c_guards : nat; c_loose : bool }.

Inductive cop :=
| OGet                                         (* ThreadKey::get(): yields a key iff none is alive (C06) *)
| OCall (owner name trait : string) (lent choice : bool)
                                               (* any safe public function of the table; a Keyable may be passed as
                                                  `&mut`; a result that can carry a key or a guard carries one of them *)
| OTake (c tr : string)                        (* mem::take / replace through a `&mut` to the hold-carrying part *)
| ODropKey | ODropGuard | ODropLoose.

Definition b2n (b : bool) : nat := if b then 1 else 0.

(* the resources a call consumes must be in the caller's hands (Rust's move / borrow checking, abstracted) and the
   function must be callable from safe code *)
Definition cstep (rows : list fnrow) (impls : list (string * string)) (s : cst) (o : cop) : option cst :=
  match o with
  | OGet => Some (if Nat.eqb (c_keys s + c_guards s) 0 then mkc 1 0 (c_loose s) else s)
  | OCall ow nm tr lent choice =>
      match find (fun g => String.eqb (fn_owner g) ow && String.eqb (fn_name g) nm && String.eqb (fn_trait g) tr) rows with
      | None => None
      | Some f =>
          if safe_public f && negb (String.eqb ow "ThreadKey" && String.eqb nm "get") &&
             Nat.leb (b2n (fn_key_val f || fn_keyable_val f)) (c_keys s) && Nat.leb (b2n (fn_guard_val f)) (c_guards s)
          then
            let consumed := b2n (fn_key_val f) + b2n (fn_keyable_val f && negb lent && negb (fn_returns_key f)) in
            let both := fn_returns_key f && fn_returns_guard f in
            let out_key := fn_returns_key f && negb (fn_keyable_val f) && (negb both || choice) in
            let out_guard := fn_returns_guard f && (negb both || negb choice) in
            Some (mkc (c_keys s - consumed + b2n out_key) (c_guards s - b2n (fn_guard_val f) + b2n out_guard) (c_loose s))
          else None
      end
  | OTake c tr =>
      if existsb (fun x => String.eqb (fst x) c && String.eqb (snd x) tr) impls &&
         existsb (fun x => String.eqb (fst x) c && String.eqb (snd x) tr) k5_routes && Nat.leb 1 (c_guards s)
      then Some (mkc (c_keys s) (c_guards s) true) else None
  | ODropKey => if Nat.leb 1 (c_keys s) then Some (mkc (c_keys s - 1) (c_guards s) (c_loose s)) else None
  | ODropGuard => if Nat.leb 1 (c_guards s) then Some (mkc (c_keys s) (c_guards s - 1) (c_loose s)) else None
  | ODropLoose => Some (mkc (c_keys s) (c_guards s) false)
  end.

Fixpoint crun (rows : list fnrow) (impls : list (string * string)) (s : cst) (ops : list cop) : option cst :=
  match ops with
  | [] => Some s
  | o :: r => match cstep rows impls s o with Some s' => crun rows impls s' r | None => None end
  end.

Section Algebra.
  Variables (rows : list fnrow) (impls : list (string * string)).

  (* K1 and K4 for an arbitrary table *)
  Definition K1 : Prop := forall f, In f rows -> safe_public f = true -> fn_returns_key f = true ->
    fn_key_val f = true \/ fn_keyable_val f = true \/ fn_guard_val f = true \/
    (fn_owner f = "ThreadKey" /\ fn_name f = "get").
  Definition K4 : Prop := forall f, In f rows -> safe_public f = true -> fn_returns_guard f = true -> fn_key_val f = true.
  Definition K5 : Prop := forall c tr, In (c, tr) k5_routes -> ~ In (c, tr) impls.

  Lemma cstep_linear s o s' :
    K1 -> K4 -> c_keys s + c_guards s <= 1 -> cstep rows impls s o = Some s' -> c_keys s' + c_guards s' <= 1.
  Proof.
    intros H1 H4 Hi. destruct o; cbn [cstep].
    - intros H. inversion H; subst. destruct (Nat.eqb_spec (c_keys s + c_guards s) 0); simpl; lia.
    - destruct (find _ rows) as [f|] eqn:F; [|discriminate].
      destruct (find_some _ _ F) as [Hin Hm].
      apply andb_true_iff in Hm. destruct Hm as [Hm _]. apply andb_true_iff in Hm. destruct Hm as [Ho Hn].
      apply String.eqb_eq in Ho. apply String.eqb_eq in Hn.
      destruct (safe_public f && negb (String.eqb owner "ThreadKey" && String.eqb name "get") &&
                Nat.leb (b2n (fn_key_val f || fn_keyable_val f)) (c_keys s) &&
                Nat.leb (b2n (fn_guard_val f)) (c_guards s)) eqn:E; [|discriminate].
      intros H. inversion H; subst s'; clear H. simpl.
      apply andb_true_iff in E. destruct E as [E Eg]. apply andb_true_iff in E. destruct E as [E Ek].
      apply andb_true_iff in E. destruct E as [Es Eget].
      apply Nat.leb_le in Eg. apply Nat.leb_le in Ek.
      specialize (H1 f Hin Es). specialize (H4 f Hin Es).
      assert (Hnotget : ~ (fn_owner f = "ThreadKey" /\ fn_name f = "get")).
      { intros [A B]. subst owner name. rewrite A, B in Eget. vm_compute in Eget. discriminate Eget. }
      destruct (fn_key_val f) eqn:A, (fn_keyable_val f) eqn:B, (fn_guard_val f) eqn:C,
               (fn_returns_key f) eqn:D, (fn_returns_guard f) eqn:G, lent, choice; simpl in *;
        try lia; try (specialize (H4 eq_refl); discriminate H4);
        try (destruct (H1 eq_refl) as [X|[X|[X|X]]]; try discriminate X; contradiction).
    - match goal with |- (if ?c then _ else _) = _ -> _ => destruct c end; [|discriminate]. intros H. inversion H; subst. simpl. lia.
    - destruct (Nat.leb 1 (c_keys s)); [|discriminate]. intros H. inversion H; subst. simpl. lia.
    - destruct (Nat.leb 1 (c_guards s)); [|discriminate]. intros H. inversion H; subst. simpl. lia.
    - intros H. inversion H; subst. simpl. lia.
  Qed.

  (* C14 core: no sequence of safe calls gives a thread two live key carriers *)
  Theorem key_linear ops : forall s s',
    K1 -> K4 -> c_keys s + c_guards s <= 1 -> crun rows impls s ops = Some s' -> c_keys s' + c_guards s' <= 1.
  Proof.
    induction ops as [|o r IH]; intros s s' H1 H4 Hi; simpl.
    - intros H. inversion H; subst. exact Hi.
    - destruct (cstep rows impls s o) as [s1|] eqn:E; [|discriminate].
      apply IH; auto. eapply cstep_linear; eauto.
  Qed.

  Lemma existsb_In_pair c tr l :
    existsb (fun x : string * string => String.eqb (fst x) c && String.eqb (snd x) tr) l = true -> In (c, tr) l.
  Proof.
    induction l as [|[a b] r IH]; simpl; [discriminate|]. intros H. apply orb_true_iff in H. destruct H as [H|H].
    - apply andb_true_iff in H. destruct H as [A B]. apply String.eqb_eq in A. apply String.eqb_eq in B. subst. now left.
    - right. now apply IH.
  Qed.

  (* ... and, with K5, holds never get detached from the guard that carries the key *)
  Theorem holds_stay_attached ops : forall s s',
    K5 -> c_loose s = false -> crun rows impls s ops = Some s' -> c_loose s' = false.
  Proof.
    induction ops as [|o r IH]; intros s s' H5 Hl; simpl.
    - intros H. inversion H; subst. exact Hl.
    - destruct (cstep rows impls s o) as [s1|] eqn:E; [|discriminate].
      apply IH; auto. destruct o; cbn [cstep] in E.
      + inversion E; subst. destruct (Nat.eqb (c_keys s + c_guards s) 0); simpl; auto.
      + destruct (find _ rows) as [f|]; [|discriminate]. match type of E with (if ?c then _ else _) = _ => destruct c end; inversion E; subst; auto.
      + match type of E with (if ?a && ?b && _ then _ else _) = _ => destruct a eqn:A; [destruct b eqn:B|] end;
          cbn [andb] in E; try discriminate E.
        exfalso. apply (H5 c tr); now apply existsb_In_pair.
      + destruct (Nat.leb 1 (c_keys s)); inversion E; subst; auto.
      + destruct (Nat.leb 1 (c_guards s)); inversion E; subst; auto.
      + inversion E; subst; auto.
  Qed.
End Algebra.

(* the boolean conditions evaluated on the generated table imply the hypotheses of the theorems *)
Lemma k1_sound : k1 = true -> K1 fns.
Proof.
  unfold k1, K1. rewrite forallb_forall. intros H f Hin Hs Hr. specialize (H f Hin). rewrite Hs, Hr in H. simpl in H.
  repeat (apply orb_true_iff in H; destruct H as [H|H]); auto.
  apply andb_true_iff in H. destruct H as [A B]. apply String.eqb_eq in A. apply String.eqb_eq in B. auto 6.
Qed.

Lemma k4_sound : k4 = true -> K4 fns.
Proof.
  unfold k4, K4. rewrite forallb_forall. intros H f Hin Hs Hr. specialize (H f Hin). rewrite Hs, Hr in H. exact H.
Qed.

Lemma k5_sound : k5 = true -> K5 trait_impls.
Proof.
  unfold k5, K5. rewrite forallb_forall. intros H c tr Hin Himp. specialize (H (c, tr) Hin).
  apply negb_true_iff in H. unfold has_impl in H. cbn [fst snd] in H.
  assert (X : existsb (fun x : string * string => String.eqb (fst x) c && String.eqb (snd x) tr) trait_impls = true).
  { apply existsb_exists. exists (c, tr). split; [exact Himp|]. cbn. now rewrite !String.eqb_refl. }
  congruence.
Qed.

(* ---------------------------------------------------------------- a key never crosses threads, however it is wrapped *)
Definition is_param_send (b : bound) : bool := match b with BParam MSend => true | _ => false end.

(* a type constructor that can be Send only if its argument is: no rule, a negative rule, or a rule demanding it *)
Definition send_needs_arg (rules : list autorule) (c : string) : bool :=
  match find_rule rules c MSend with
  | None => true
  | Some r => r_negative r || existsb is_param_send (r_bounds r)
  end.

Section KeyNeverSent.
  Variable rules : list autorule.
  Variable holders : list string.

  (* values of these types own a ThreadKey: a key holder applied to anything; `&mut` of, a tuple / array / Vec / Box
     containing, and any constructor that owns its argument applied to such a type *)
  Inductive owns_key : ty -> Prop :=
  | ok_holder c t : In c holders -> owns_key (TCon c t)
  | ok_mut t : owns_key t -> owns_key (TMutRef t)
  | ok_tuple ts t : In t ts -> owns_key t -> owns_key (TTuple ts)
  | ok_wrap c t : send_needs_arg rules c = true -> owns_key t -> owns_key (TCon c t).

  Lemma all_flags_complete rf : In rf all_flags.
  Proof. destruct rf as [[|] [|] [|] [|]]; vm_compute; tauto. Qed.

  (* the most permissive argument: a payload that is Send and Sync *)
  Lemma impl_auto_best rf m c t :
    impl_auto rules rf m (TCon c t) = true -> impl_auto rules rf m (TCon c (TPay true true)) = true.
  Proof.
    cbn [impl_auto]. destruct (find_rule rules c m) as [r|]; [|discriminate].
    intros H. apply andb_true_iff in H. destruct H as [N B]. rewrite N. cbn [andb].
    apply forallb_forall. intros b Hb. rewrite forallb_forall in B. specialize (B b Hb).
    destruct b as [m'| | |]; try exact B. destruct m'; reflexivity.
  Qed.

  Hypothesis holders_not_send :
    forallb (fun c => negb (existsb (fun rf => impl_auto rules rf MSend (TCon c (TPay true true))) all_flags)) holders = true.

  Theorem key_never_sent rf t : owns_key t -> impl_auto rules rf MSend t = false.
  Proof.
    induction 1 as [c t Hin|t _ IH|ts t Hin _ IH|c t Hw _ IH].
    - destruct (impl_auto rules rf MSend (TCon c t)) eqn:E; [|reflexivity]. exfalso.
      apply impl_auto_best in E. rewrite forallb_forall in holders_not_send. specialize (holders_not_send c Hin).
      apply negb_true_iff in holders_not_send.
      assert (X : existsb (fun rf0 => impl_auto rules rf0 MSend (TCon c (TPay true true))) all_flags = true).
      { apply existsb_exists. exists rf. split; [apply all_flags_complete|exact E]. }
      congruence.
    - cbn [impl_auto]. exact IH.
    - cbn [impl_auto]. destruct (forallb (impl_auto rules rf MSend) ts) eqn:E; [|reflexivity].
      rewrite forallb_forall in E. specialize (E t Hin). congruence.
    - cbn [impl_auto]. unfold send_needs_arg in Hw. destruct (find_rule rules c MSend) as [r|]; [|reflexivity].
      apply orb_true_iff in Hw. destruct Hw as [Hn|Hb]; [rewrite Hn; reflexivity|].
      apply existsb_exists in Hb. destruct Hb as [b [Hb1 Hb2]]. destruct b as [[|]| | |]; try discriminate.
      destruct (forallb _ (r_bounds r)) eqn:E; [|apply andb_false_r].
      rewrite forallb_forall in E. specialize (E _ Hb1). cbn beta iota in E. congruence.
  Qed.
End KeyNeverSent.

Lemma k9_holders_not_send : k9 = true ->
  forallb (fun c => negb (existsb (fun rf => impl_auto all_rules rf MSend (TCon c (TPay true true))) all_flags)) key_holders = true.
Proof.
  unfold k9. intros H. apply andb_true_iff in H. destruct H as [H _].
  apply forallb_forall. intros c Hc. rewrite forallb_forall in H. specialize (H c Hc).
  repeat (apply andb_true_iff in H; destruct H as [H _]). exact H.
Qed.
