(* Wp.v — a thread-local program logic for the rank discipline.
   [wp bl p H K Qr Qt QF]: from any world in which the executing thread t holds exactly the locks H (with modes) and its
   key flag is K — whatever the other threads hold, and however they interleave — program p, run one operation at a
   time, (i) attempts a blocking acquisition of l only while [bl H l] holds of the locks H in hand (C01: every lock in H
   has a lower rank than l; C09: a retrying acquisition holds nothing outside l's own unit), reads user data only
   under a hold and writes it only under the exclusive hold (C02), (ii) never
   aborts, never sets a kill flag, and (iii) ends returning v with holds H' and key flag K' such that Qr v H' K', or
   panicking with Qt H' K', or out of fuel with QF H' K'.  Faults are absent (no raw operation panics) and no kill
   flag is set: this is the setting of property C01.  The logic is a structural recursion over the program; its
   soundness is proved against the one-operation interpreter [step] and against [adv] (Conc.v). *)
From HL Require Import Base Model Shape Algo Api Conc.

Definition hold := (lock * bool)%type.            (* lock, exclusive? *)
Definition hold_eqb (a b : hold) : bool := Nat.eqb (fst a) (fst b) && Bool.eqb (snd a) (snd b).

Lemma hold_eqb_spec a b : reflect (a = b) (hold_eqb a b).
Proof.
  destruct a as [l x], b as [l' x']. unfold hold_eqb. cbn [fst snd].
  destruct (Nat.eqb_spec l l'); cbn [andb].
  - destruct (Bool.eqb x x') eqn:E; constructor.
    + apply eqb_prop in E. congruence.
    + intros X. inversion X; subst. now rewrite eqb_reflx in E.
  - constructor. congruence.
Qed.

Fixpoint rem1 (x : hold) (H : list hold) : list hold :=
  match H with [] => [] | y :: r => if hold_eqb x y then r else y :: rem1 x r end.
Fixpoint hcount (x : hold) (H : list hold) : nat :=
  match H with [] => 0 | y :: r => (if hold_eqb x y then 1 else 0) + hcount x r end.
Fixpoint cnt (x : nat) (l : list nat) : nat :=
  match l with [] => 0 | y :: r => (if Nat.eqb x y then 1 else 0) + cnt x r end.

Lemma hcount_rem1_same x H : hcount x (rem1 x H) = hcount x H - 1.
Proof.
  induction H as [|y r IH]; [reflexivity|]. cbn [rem1 hcount].
  destruct (hold_eqb x y) eqn:E; [lia|]. cbn [hcount]. rewrite E. exact IH.
Qed.
Lemma hcount_rem1_other x y H : x <> y -> hcount x (rem1 y H) = hcount x H.
Proof.
  intros N. induction H as [|z r IH]; [reflexivity|]. cbn [rem1 hcount].
  destruct (hold_eqb_spec y z) as [->|Nz].
  - destruct (hold_eqb_spec x z); [contradiction|]. reflexivity.
  - cbn [hcount]. now rewrite IH.
Qed.
Lemma hcount_in x H : hcount x H > 0 <-> In x H.
Proof.
  induction H as [|y r IH]; cbn [hcount In]; [split; [lia|tauto]|].
  destruct (hold_eqb_spec x y) as [->|N].
  - split; [now left|lia].
  - rewrite <- IH. split; [intros; right; lia|]. intros [E|G]; [congruence|lia].
Qed.
Lemma cnt_memb x l : memb x l = true <-> cnt x l > 0.
Proof.
  induction l as [|y r IH]; cbn [memb cnt]; [split; [discriminate|lia]|].
  destruct (Nat.eqb x y); cbn [orb]; [split; [lia|reflexivity]|]. rewrite IH. split; lia.
Qed.
Lemma cnt_remove1_same x l : cnt x (remove1 x l) = cnt x l - 1.
Proof.
  induction l as [|y r IH]; [reflexivity|]. cbn [remove1 cnt].
  destruct (Nat.eqb x y) eqn:E; [lia|]. cbn [cnt]. rewrite E. exact IH.
Qed.
Lemma cnt_remove1_other x y l : x <> y -> cnt x (remove1 y l) = cnt x l.
Proof.
  intros N. induction l as [|z r IH]; [reflexivity|]. cbn [remove1 cnt].
  destruct (Nat.eqb_spec y z) as [->|Nz].
  - destruct (Nat.eqb_spec x z); [contradiction|]. reflexivity.
  - cbn [cnt]. now rewrite IH.
Qed.
Lemma rem1_in x y H : In x (rem1 y H) -> In x H.
Proof.
  induction H as [|z r IH]; cbn [rem1]; [tauto|].
  destruct (hold_eqb y z); [intros; now right|]. intros [E|G]; [now left|right; auto].
Qed.

Definition rop_ex (k : rop) : bool := match k with OLock | OTry | OUnlock => true | _ => false end.

(* the condition of property C01: a blocking acquisition is requested above everything held *)
Definition rank_ok (nl : nat) (rk : lock -> nat) (H : list hold) (l : lock) : Prop :=
  l < nl /\ forall x, In x H -> rk (fst x) < rk l.

Section Logic.
(* what must hold of the locks in hand when a blocking acquisition of l is requested *)
Variable bl : list hold -> lock -> Prop.
(* whether the program may set a poison flag at all: [True] for the rank discipline; with [False] the judgement also says
   "no Poisonable is ever poisoned" (C10: executions without panics), and the world invariant [clean] keeps every flag clear *)
Variable pz : Prop.

Definition post := list hold -> bool -> Prop.

Fixpoint wp (p : prog) (H : list hold) (K : bool) (Qr : val -> post) (Qt QF : post) {struct p} : Prop :=
  match p with
  | Ret v => Qr v H K
  | Throw => Qt H K
  | Abort => False
  | Fuel => QF H K
  | Op o k =>
      match o with
      | ORaw r l =>
          match r with
          | OLock | OLockSh => bl H l /\ wp (k VUnit) ((l, rop_ex r) :: H) K Qr Qt QF
          | OTry | OTrySh => wp (k (VBool true)) ((l, rop_ex r) :: H) K Qr Qt QF /\ wp (k (VBool false)) H K Qr Qt QF
          | OUnlock | OUnlockSh => In (l, rop_ex r) H /\ wp (k VUnit) (rem1 (l, rop_ex r) H) K Qr Qt QF   (* only held locks are released *)
          end
      | OKilled _ => wp (k (VBool false)) H K Qr Qt QF
      | OKill _ => False
      | OKeyTry => wp (k (VBool (negb K))) H true Qr Qt QF
      | OKeyUnlock => wp (k VUnit) H false Qr Qt QF
      | OKeyProbe => wp (k (VBool (negb K))) H K Qr Qt QF
      | OPoisoned _ | OSeePoison _ => forall b, wp (k (VBool b)) H K Qr Qt QF
      | OPoison _ => pz /\ wp (k VUnit) H K Qr Qt QF
      | OClearPoison _ | OMark _ => wp (k VUnit) H K Qr Qt QF
      | OWrite _ l => In (l, true) H /\ wp (k VUnit) H K Qr Qt QF          (* user data is written under the exclusive hold *)
      | ORead _ l => (exists x, In (l, x) H) /\ forall n, wp (k (VNat n)) H K Qr Qt QF   (* and read under a hold *)
      end
  | Bind m k => wp m H K (fun v H' K' => wp (k v) H' K' Qr Qt QF) Qt QF
  | Catch b h => wp b H K Qr (fun H' K' => wp h H' K' (fun _ H'' K'' => Qt H'' K'') Qt QF) QF
  end.

(* consequence *)
Lemma wp_mono p : forall H K (Qr Qr' : val -> post) (Qt Qt' QF QF' : post),
  (forall v H K, Qr v H K -> Qr' v H K) -> (forall H K, Qt H K -> Qt' H K) -> (forall H K, QF H K -> QF' H K) ->
  wp p H K Qr Qt QF -> wp p H K Qr' Qt' QF'.
Proof.
  induction p as [v| | | |o k IH|m IHm k IHk|b IHb h IHh]; intros H K Qr Qr' Qt Qt' QF QF' Hr Ht Hf W; cbn [wp] in *.
  - now apply Hr.
  - now apply Ht.
  - exact W.
  - now apply Hf.
  - destruct o as [r l| | | | | | | | | | | |]; try (eapply IH; eassumption); try exact W;
      try (intros x; eapply IH; [..|apply W]; eassumption);
      try (destruct W as [W1 W2]; split; [exact W1|]; first [eapply IH; eassumption | intros x; eapply IH; [..|apply W2]; eassumption]).
    destruct r; try (destruct W as [W1 W2]; split; [exact W1 || (eapply IH; eassumption)|eapply IH; eassumption]);
      try (eapply IH; eassumption).
  - eapply IHm; [| exact Ht | exact Hf | exact W]. intros v H' K' W'. cbn beta in *. eapply IHk; eassumption.
  - eapply IHb; [exact Hr | | exact Hf | exact W]. intros H' K' W'. cbn beta in *.
    eapply IHh; [| exact Ht | exact Hf | exact W']. intros v0 H'' K''. apply Ht.
Qed.

(* ---------------------------------------------------------------- the thread's view of the world *)
Definition agree (t : tid) (w : world) (H : list hold) (K : bool) : Prop :=
  (forall l, hcount (l, true) H = if writer_is (w_raw w l) t then 1 else 0) /\
  (forall l, hcount (l, false) H = cnt t (readers (w_raw w l))) /\
  w_keyf w t = K.

Definition clean (w : world) : Prop :=
  w_f1 w = [] /\ w_fp w = [] /\ (forall l, w_kill w l = false) /\ (~ pz -> forall p, w_psn w p = false).

Lemma clean_not_faulty w k l : clean w -> faulty w k l = false.
Proof. intros [F1 [Fp _]]. unfold faulty. rewrite F1, Fp. reflexivity. Qed.

(* what an operation of thread t leaves untouched of another thread's view *)
Lemma raw_apply_other t u k s pw :
  u <> t ->
  match raw_apply t k s pw with
  | AOk s' | ABool _ s' => writer_is s' u = writer_is s u /\ cnt u (readers s') = cnt u (readers s)
  | _ => True
  end.
Proof.
  intros N. destruct s as [wr rd]. unfold raw_apply, is_free, no_writer, writer_is. cbn [writer readers].
  destruct k.
  - destruct wr; cbn [is_none andb]; [exact I|]. destruct rd; cbn [is_nil]; [|exact I].
    cbn [writer readers cnt]. destruct (Nat.eqb_spec t u); [congruence|]. split; reflexivity.
  - destruct wr; cbn [is_none andb]; [split; reflexivity|]. destruct rd; cbn [is_nil]; [|split; reflexivity].
    cbn [writer readers cnt]. destruct (Nat.eqb_spec t u); [congruence|]. split; reflexivity.
  - destruct wr as [x|]; [|exact I]. destruct (Nat.eqb_spec x t); [|exact I]. subst x. cbn [writer readers].
    destruct (Nat.eqb_spec t u); [congruence|]. split; reflexivity.
  - destruct wr; cbn [is_none andb]; [exact I|]. destruct (negb pw); [|exact I]. cbn [writer readers cnt].
    destruct (Nat.eqb_spec u t); [congruence|]. split; reflexivity.
  - destruct wr; cbn [is_none andb]; [split; reflexivity|]. destruct (negb pw); [|split; reflexivity]. cbn [writer readers cnt].
    destruct (Nat.eqb_spec u t); [congruence|]. split; reflexivity.
  - destruct (memb t rd); [|exact I]. cbn [writer readers]. split; [reflexivity|]. now apply cnt_remove1_other.
Qed.

(* agree only reads w_raw and w_keyf *)
Lemma agree_ext t w w' H K :
  (forall l, w_raw w' l = w_raw w l) -> w_keyf w' t = w_keyf w t -> agree t w H K -> agree t w' H K.
Proof.
  intros E1 E2 [A1 [A2 A3]]. split; [|split].
  - intros l. rewrite E1. apply A1.
  - intros l. rewrite E1. apply A2.
  - now rewrite E2.
Qed.

Lemma do_op_other pw t u o w H K :
  u <> t -> agree u w H K ->
  match do_op pw t o w with
  | RDone _ w' | RPanic w' | RBlock w' => agree u w' H K
  end.
Proof.
  intros N A. destruct o as [k l| | | | | | | | | | | |]; cbn [do_op];
    try (eapply agree_ext; [| |exact A]; intros; reflexivity).
  - destruct (faulty w k l); [eapply agree_ext; [| |exact A]; intros; reflexivity|].
    pose proof (raw_apply_other t u k (w_raw w l) (pw l) N) as R.
    destruct (raw_apply t k (w_raw w l) (pw l)) as [s'|b s'| |];
      try (eapply agree_ext; [| |exact A]; intros; reflexivity).
    + destruct R as [R1 R2]. destruct A as [A1 [A2 A3]]. split; [|split]; [| |exact A3].
      * intros l0. cbn [emit tick set_raw w_raw]. unfold upd. destruct (Nat.eqb_spec l0 l) as [->|]; [rewrite R1|]; apply A1.
      * intros l0. cbn [emit tick set_raw w_raw]. unfold upd. destruct (Nat.eqb_spec l0 l) as [->|]; [rewrite R2|]; apply A2.
    + destruct R as [R1 R2]. destruct A as [A1 [A2 A3]]. split; [|split]; [| |exact A3].
      * intros l0. cbn [emit tick set_raw w_raw]. unfold upd. destruct (Nat.eqb_spec l0 l) as [->|]; [rewrite R1|]; apply A1.
      * intros l0. cbn [emit tick set_raw w_raw]. unfold upd. destruct (Nat.eqb_spec l0 l) as [->|]; [rewrite R2|]; apply A2.
  - (* OKeyTry *) eapply agree_ext; [| |exact A]; [intros; reflexivity|]. cbn [set_keyf w_keyf]. now apply upd_other.
  - (* OKeyUnlock *) eapply agree_ext; [| |exact A]; [intros; reflexivity|]. cbn [set_keyf w_keyf]. now apply upd_other.
Qed.


Lemma rem1_absent x H : hcount x H = 0 -> rem1 x H = H.
Proof.
  induction H as [|y r IH]; [reflexivity|]. cbn [hcount rem1]. destruct (hold_eqb x y); [lia|]. intros E. now rewrite IH.
Qed.

Lemma hcount_cons_other x y H : x <> y -> hcount x (y :: H) = hcount x H.
Proof. intros N. cbn [hcount]. destruct (hold_eqb_spec x y); [contradiction|reflexivity]. Qed.
Lemma hcount_cons_same x H : hcount x (x :: H) = S (hcount x H).
Proof. cbn [hcount]. destruct (hold_eqb_spec x x); [reflexivity|contradiction]. Qed.

Lemma agree_set_raw t w l s' e H H' K :
  agree t w H K ->
  hcount (l, true) H' = (if writer_is s' t then 1 else 0) ->
  hcount (l, false) H' = cnt t (readers s') ->
  (forall l0 b, l0 <> l -> hcount (l0, b) H' = hcount (l0, b) H) ->
  agree t (emit (tick (set_raw w l s')) e) H' K.
Proof.
  intros [A1 [A2 A3]] E1 E2 E3. split; [|split]; [| |exact A3].
  - intros l0. cbn [emit tick set_raw w_raw]. unfold upd. destruct (Nat.eqb_spec l0 l) as [->|N]; [exact E1|].
    rewrite E3 by exact N. apply A1.
  - intros l0. cbn [emit tick set_raw w_raw]. unfold upd. destruct (Nat.eqb_spec l0 l) as [->|N]; [exact E2|].
    rewrite E3 by exact N. apply A2.
Qed.

Lemma clean_ext w w' : w_f1 w' = w_f1 w -> w_fp w' = w_fp w -> (forall l, w_kill w' l = w_kill w l) ->
  (forall p, w_psn w' p = w_psn w p) -> clean w -> clean w'.
Proof.
  intros E1 E2 E3 E4 [C1 [C2 [C3 C4]]]. split; [congruence|]. split; [congruence|]. split; [intros l; rewrite E3; apply C3|].
  intros Z p. rewrite E4. now apply C4.
Qed.

Ltac other_hold := let X := fresh in intros ? ? X; (rewrite hcount_cons_other by (intros E; inversion E; congruence)) || idtac; try reflexivity.

(* one operation of the thread itself *)
Lemma wp_do_op pw t o k w H K Qr Qt QF :
  wp (Op o k) H K Qr Qt QF -> agree t w H K -> clean w ->
  match do_op pw t o w with
  | RDone v w' => exists H' K', agree t w' H' K' /\ clean w' /\ wp (k v) H' K' Qr Qt QF
  | RPanic _ => False
  | RBlock w' => agree t w' H K /\ clean w'
  end.
Proof.
  intros W A C. pose proof A as [A1 [A2 A3]].
  destruct o as [r l| | | | | | | | | | | |]; cbn [wp do_op] in *.
  - rewrite (clean_not_faulty w r l C).
    specialize (A1 l). specialize (A2 l). destruct (w_raw w l) as [wr rd] eqn:S.
    unfold raw_apply, is_free, no_writer, writer_is in *. cbn [writer readers] in *.
    destruct r.
    + (* OLock *) destruct W as [_ W]. destruct wr as [x|]; cbn [is_none andb].
      { split; [eapply agree_ext; [| |exact A]; intros; reflexivity|eapply clean_ext; [| | | |exact C]; intros; reflexivity]. }
      destruct rd as [|y rd]; cbn [is_nil].
      2:{ split; [eapply agree_ext; [| |exact A]; intros; reflexivity|eapply clean_ext; [| | | |exact C]; intros; reflexivity]. }
      exists ((l, true) :: H), K. split; [|split; [eapply clean_ext; [| | | |exact C]; intros; reflexivity|exact W]].
      eapply agree_set_raw; [exact A| | |].
      * rewrite hcount_cons_same, A1. unfold writer_is. cbn [writer]. now rewrite Nat.eqb_refl.
      * rewrite hcount_cons_other by congruence. rewrite A2. reflexivity.
      * intros l0 b N. apply hcount_cons_other. congruence.
    + (* OTry *) destruct W as [Wt Wf]. destruct wr as [x|]; cbn [is_none andb].
      { exists H, K. split; [|split; [eapply clean_ext; [| | | |exact C]; intros; reflexivity|exact Wf]].
        eapply agree_set_raw; [exact A| | |]; unfold writer_is; cbn [writer readers]; auto. }
      destruct rd as [|y rd]; cbn [is_nil].
      2:{ exists H, K. split; [|split; [eapply clean_ext; [| | | |exact C]; intros; reflexivity|exact Wf]].
          eapply agree_set_raw; [exact A| | |]; unfold writer_is; cbn [writer readers]; auto. }
      exists ((l, true) :: H), K. split; [|split; [eapply clean_ext; [| | | |exact C]; intros; reflexivity|exact Wt]].
      eapply agree_set_raw; [exact A| | |].
      * rewrite hcount_cons_same, A1. unfold writer_is. cbn [writer]. now rewrite Nat.eqb_refl.
      * rewrite hcount_cons_other by congruence. rewrite A2. reflexivity.
      * intros l0 b N. apply hcount_cons_other. congruence.
    + (* OUnlock *) destruct W as [Hin W]. apply hcount_in in Hin. cbn [rop_ex] in Hin.
      destruct wr as [x|]; [destruct (Nat.eqb_spec x t) as [->|Nx]|]; try lia.
      exists (rem1 (l, true) H), K. split; [|split; [eapply clean_ext; [| | | |exact C]; intros; reflexivity|exact W]].
      eapply agree_set_raw; [exact A| | |].
      * rewrite hcount_rem1_same, A1. unfold writer_is. cbn [writer]. reflexivity.
      * rewrite hcount_rem1_other by congruence. rewrite A2. reflexivity.
      * intros l0 b N. apply hcount_rem1_other. congruence.
    + (* OLockSh *) destruct W as [_ W]. destruct wr as [x|]; cbn [is_none andb].
      { split; [eapply agree_ext; [| |exact A]; intros; reflexivity|eapply clean_ext; [| | | |exact C]; intros; reflexivity]. }
      destruct (negb (pw l)).
      2:{ split; [eapply agree_ext; [| |exact A]; intros; reflexivity|eapply clean_ext; [| | | |exact C]; intros; reflexivity]. }
      exists ((l, false) :: H), K. split; [|split; [eapply clean_ext; [| | | |exact C]; intros; reflexivity|exact W]].
      eapply agree_set_raw; [exact A| | |].
      * rewrite hcount_cons_other by congruence. rewrite A1. reflexivity.
      * rewrite hcount_cons_same, A2. cbn [readers cnt]. now rewrite Nat.eqb_refl.
      * intros l0 b N. apply hcount_cons_other. congruence.
    + (* OTrySh *) destruct W as [Wt Wf]. destruct wr as [x|]; cbn [is_none andb].
      { exists H, K. split; [|split; [eapply clean_ext; [| | | |exact C]; intros; reflexivity|exact Wf]].
        eapply agree_set_raw; [exact A| | |]; unfold writer_is; cbn [writer readers]; auto. }
      destruct (negb (pw l)).
      2:{ exists H, K. split; [|split; [eapply clean_ext; [| | | |exact C]; intros; reflexivity|exact Wf]].
          eapply agree_set_raw; [exact A| | |]; unfold writer_is; cbn [writer readers]; auto. }
      exists ((l, false) :: H), K. split; [|split; [eapply clean_ext; [| | | |exact C]; intros; reflexivity|exact Wt]].
      eapply agree_set_raw; [exact A| | |].
      * rewrite hcount_cons_other by congruence. rewrite A1. reflexivity.
      * rewrite hcount_cons_same, A2. cbn [readers cnt]. now rewrite Nat.eqb_refl.
      * intros l0 b N. apply hcount_cons_other. congruence.
    + (* OUnlockSh *) destruct W as [Hin W]. apply hcount_in in Hin. cbn [rop_ex] in Hin. rewrite A2 in Hin.
      assert (M : memb t rd = true) by (apply cnt_memb; exact Hin). rewrite M.
      exists (rem1 (l, false) H), K. split; [|split; [eapply clean_ext; [| | | |exact C]; intros; reflexivity|exact W]].
      eapply agree_set_raw; [exact A| | |].
      * rewrite hcount_rem1_other by congruence. rewrite A1. reflexivity.
      * rewrite hcount_rem1_same, A2. cbn [readers]. now rewrite cnt_remove1_same.
      * intros l0 b N. apply hcount_rem1_other. congruence.
  - (* OKilled *) pose proof C as [C1 [C2 [C3 C4]]]. rewrite C3. exists H, K. split; [exact A|]. split; [exact C|exact W].
  - contradiction.
  - exists H, K. split; [eapply agree_ext; [| |exact A]; intros; reflexivity|]. split; [eapply clean_ext; [| | | |exact C]; intros; reflexivity|apply W].
  - (* OPoison: only where the logic permits it *)
    exists H, K. split; [eapply agree_ext; [| |exact A]; intros; reflexivity|]. destruct W as [Z W]. split; [|exact W].
    destruct C as [C1 [C2 [C3 C4]]]. split; [exact C1|]. split; [exact C2|]. split; [exact C3|]. intros NZ. contradiction.
  - (* OClearPoison *)
    exists H, K. split; [eapply agree_ext; [| |exact A]; intros; reflexivity|]. split; [|exact W].
    destruct C as [C1 [C2 [C3 C4]]]. split; [exact C1|]. split; [exact C2|]. split; [exact C3|]. intros NZ p0.
    cbn [set_psn w_psn]. unfold upd. destruct (Nat.eqb p0 p); [reflexivity|now apply C4].
  - exists H, K. split; [eapply agree_ext; [| |exact A]; intros; reflexivity|]. split; [eapply clean_ext; [| | | |exact C]; intros; reflexivity|apply W].
  - (* ORead *) exists H, K. split; [eapply agree_ext; [| |exact A]; intros; reflexivity|]. split; [eapply clean_ext; [| | | |exact C]; intros; reflexivity|apply (proj2 W)].
  - (* OWrite *) exists H, K. split; [eapply agree_ext; [| |exact A]; intros; reflexivity|]. split; [eapply clean_ext; [| | | |exact C]; intros; reflexivity|apply (proj2 W)].
  - (* OKeyTry *) exists H, true. rewrite A3. split; [|split; [eapply clean_ext; [| | | |exact C]; intros; reflexivity|exact W]].
    split; [exact (proj1 A)|]. split; [exact (proj1 (proj2 A))|]. cbn [set_keyf w_keyf]. apply upd_same.
  - (* OKeyUnlock *) exists H, false. split; [|split; [eapply clean_ext; [| | | |exact C]; intros; reflexivity|exact W]].
    split; [exact (proj1 A)|]. split; [exact (proj1 (proj2 A))|]. cbn [set_keyf w_keyf]. apply upd_same.
  - (* OKeyProbe *) exists H, K. rewrite A3. split; [eapply agree_ext; [| |exact A]; intros; reflexivity|]. split; [eapply clean_ext; [| | | |exact C]; intros; reflexivity|exact W].
  - exists H, K. split; [eapply agree_ext; [| |exact A]; intros; reflexivity|]. split; [eapply clean_ext; [| | | |exact C]; intros; reflexivity|apply W].
Qed.


Definition out_post (Qr : val -> post) (Qt QF : post) (out : outcome) (H : list hold) (K : bool) : Prop :=
  match out with
  | ODone v => Qr v H K
  | OPanic => Qt H K
  | OFuel => QF H K
  | OAbort | OBlocked => False
  end.

(* ---------------------------------------------------------------- soundness: one operation at a time *)
Lemma wp_step pw t p : forall w H K Qr Qt QF,
  wp p H K Qr Qt QF -> agree t w H K -> clean w ->
  match step pw t p w with
  | SRet v => Qr v H K
  | SThrow => Qt H K
  | SAbort => False
  | SFuel => QF H K
  | SStep p' w' => exists H' K', agree t w' H' K' /\ clean w' /\ wp p' H' K' Qr Qt QF
  | SBlock w' => agree t w' H K /\ clean w'
  end.
Proof.
  induction p as [v| | | |o k IH|m IHm k IHk|b IHb h IHh]; intros w H K Qr Qt QF W A C; cbn [step].
  - exact W.
  - exact W.
  - exact W.
  - exact W.
  - pose proof (wp_do_op pw t o k w H K Qr Qt QF W A C) as D.
    destruct (do_op pw t o w) as [v w'|w'|w']; [exact D|contradiction|exact D].
  - cbn [wp] in W. pose proof (IHm w H K _ _ _ W A C) as D.
    destruct (step pw t m w) as [v| | | |m' w'|w']; try exact D.
    apply (IHk v w H K Qr Qt QF D A C).
  - cbn [wp] in W. pose proof (IHb w H K _ _ _ W A C) as D.
    destruct (step pw t b w) as [v| | | |b' w'|w']; try exact D.
    pose proof (IHh w H K _ _ _ D A C) as E.
    destruct (step pw t h w) as [v| | | |h' w'|w']; try exact E.
Qed.

Lemma step_other pw t u p : forall w H K,
  u <> t -> agree u w H K ->
  match step pw t p w with
  | SStep _ w' | SBlock w' => agree u w' H K
  | _ => True
  end.
Proof.
  induction p as [v| | | |o k IH|m IHm k IHk|b IHb h IHh]; intros w H K N A; cbn [step]; try exact I.
  - pose proof (do_op_other pw t u o w H K N A) as D. destruct (do_op pw t o w); exact D.
  - pose proof (IHm w H K N A) as D. destruct (step pw t m w) as [v| | | |m' w'|w']; try exact D. apply IHk; assumption.
  - pose proof (IHb w H K N A) as D. destruct (step pw t b w) as [v| | | |b' w'|w']; try exact D.
    pose proof (IHh w H K N A) as E. destruct (step pw t h w) as [v| | | |h' w'|w']; try exact E; exact I.
Qed.

(* what the program is about to do *)
Lemma wp_nextop p : forall H K Qr Qt QF,
  wp p H K Qr Qt QF ->
  match nextop p with
  | NRet v => Qr v H K
  | NThrow => Qt H K
  | NAbort => False
  | NFuel => QF H K
  | NOp (ORaw k l) => (rop_blocking k = true -> bl H l) /\
                      (match k with OUnlock | OUnlockSh => In (l, rop_ex k) H | _ => True end)
  | NOp (ORead _ l) => exists x, In (l, x) H
  | NOp (OWrite _ l) => In (l, true) H
  | NOp _ => True
  end.
Proof.
  induction p as [v| | | |o k IH|m IHm k IHk|b IHb h IHh]; intros H K Qr Qt QF W; cbn [nextop]; try exact W.
  - destruct o as [r l| | | | | | | | | | | |]; try exact I; cbn [wp] in W; try exact (proj1 W).
    destruct r; (split; [intros B; try discriminate B; exact (proj1 W)|try exact I; exact (proj1 W)]).
  - cbn [wp] in W. pose proof (IHm H K _ _ _ W) as D.
    destruct (nextop m) as [v| | | |o]; try exact D. apply (IHk v H K Qr Qt QF D).
  - cbn [wp] in W. pose proof (IHb H K _ _ _ W) as D.
    destruct (nextop b) as [v| | | |o]; try exact D.
    pose proof (IHh H K _ _ _ D) as E. destruct (nextop h) as [v| | | |o]; try exact E.
Qed.

(* ---------------------------------------------------------------- soundness: running on to the next scheduling point *)
Lemma wp_adv t p : forall w H K Qr Qt QF,
  wp p H K Qr Qt QF -> agree t w H K -> clean w ->
  match adv false false t p w with
  | AFin out w' => exists H' K', agree t w' H' K' /\ clean w' /\ out_post Qr Qt QF out H' K'
  | APark p' w' => exists H' K', agree t w' H' K' /\ clean w' /\ wp p' H' K' Qr Qt QF /\
                                 exists o, nextop p' = NOp o /\ is_sched o = true
  end.
Proof.
  induction p as [v| | | |o k IH|m IHm k IHk|b IHb h IHh]; intros w H K Qr Qt QF W A C; cbn [adv].
  - exists H, K. auto.
  - exists H, K. auto.
  - contradiction.
  - exists H, K. auto.
  - unfold stops_here. cbn [andb negb]. rewrite andb_true_r.
    destruct (is_sched o) eqn:S.
    + exists H, K. split; [exact A|]. split; [exact C|]. split; [exact W|]. exists o. split; [reflexivity|exact S].
    + pose proof (wp_do_op nopw t o k w H K Qr Qt QF W A C) as D.
      destruct (do_op nopw t o w) as [v w'|w'|w'] eqn:E; [|contradiction|].
      * destruct D as [H' [K' [A' [C' W']]]]. apply (IH v w' H' K' Qr Qt QF W' A' C').
      * (* a silent operation never waits *)
        destruct o; cbn [is_sched] in S; try discriminate S; cbn [do_op] in E; discriminate E.
  - cbn [wp] in W. pose proof (IHm w H K _ _ _ W A C) as D.
    destruct (adv false false t m w) as [out w'|m' w'].
    + destruct D as [H' [K' [A' [C' P']]]]. destruct out as [v| | | |]; cbn [out_post] in P';
        try (exists H', K'; split; [exact A'|split; [exact C'|exact P']]); try contradiction.
      apply (IHk v w' H' K' Qr Qt QF P' A' C').
    + destruct D as [H' [K' [A' [C' [W' [o [N S]]]]]]]. exists H', K'. split; [exact A'|]. split; [exact C'|].
      split; [exact W'|]. exists o. split; [cbn [nextop]; rewrite N; reflexivity|exact S].
  - cbn [wp] in W. pose proof (IHb w H K _ _ _ W A C) as D.
    destruct (adv false false t b w) as [out w'|b' w'].
    + destruct D as [H' [K' [A' [C' P']]]]. destruct out as [v| | | |]; cbn [out_post] in P';
        try (exists H', K'; split; [exact A'|split; [exact C'|exact P']]); try contradiction.
      pose proof (IHh w' H' K' _ _ _ P' A' C') as E.
      destruct (adv false false t h w') as [out2 w''|h' w''].
      * destruct E as [H2 [K2 [A2 [C2 P2]]]]. destruct out2 as [v| | | |]; cbn [out_post] in P2;
          try (exists H2, K2; split; [exact A2|split; [exact C2|exact P2]]); try contradiction.
      * destruct E as [H2 [K2 [A2 [C2 [W2 [o [N S]]]]]]]. exists H2, K2. split; [exact A2|]. split; [exact C2|].
        split; [exact W2|]. exists o. split; [cbn [nextop pthen]; rewrite N; reflexivity|exact S].
    + destruct D as [H' [K' [A' [C' [W' [o [N S]]]]]]]. exists H', K'. split; [exact A'|]. split; [exact C'|].
      split; [exact W'|]. exists o. split; [cbn [nextop]; rewrite N; reflexivity|exact S].
Qed.

Lemma adv_other t u p : forall w H K,
  u <> t -> agree u w H K ->
  match adv false false t p w with AFin _ w' | APark _ w' => agree u w' H K end.
Proof.
  induction p as [v| | | |o k IH|m IHm k IHk|b IHb h IHh]; intros w H K N A; cbn [adv]; try exact A.
  - destruct (stops_here false false o); [exact A|].
    pose proof (do_op_other nopw t u o w H K N A) as D. destruct (do_op nopw t o w); try exact D; [apply IH; assumption|exact A].
  - pose proof (IHm w H K N A) as D. destruct (adv false false t m w) as [out w'|m' w']; [|exact D].
    destruct out; try exact D. apply IHk; assumption.
  - pose proof (IHb w H K N A) as D. destruct (adv false false t b w) as [out w'|b' w']; [|exact D].
    destruct out; try exact D. pose proof (IHh w' H K N D) as E.
    destruct (adv false false t h w') as [out2 w''|h' w'']; [|exact E]. destruct out2; exact E.
Qed.


End Logic.

(* ---------------------------------------------------------------- exclusive means exclusive (any program, any world) *)
Definition xwf (s : rawst) : Prop := writer s <> None -> readers s = [].
Definition rawwf (w : world) : Prop := forall l, xwf (w_raw w l).

Lemma raw_apply_xwf t k s pw : xwf s ->
  match raw_apply t k s pw with AOk s' | ABool _ s' => xwf s' | _ => True end.
Proof.
  intros W. destruct s as [wr rd]. unfold xwf, raw_apply, is_free, no_writer, writer_is in *. cbn [writer readers] in *.
  destruct k.
  - destruct wr; cbn [is_none andb]; [exact I|]. destruct rd; cbn [is_nil]; [|exact I]. cbn [writer readers]. auto.
  - destruct wr; cbn [is_none andb]; [exact W|]. destruct rd; cbn [is_nil]; [|exact W]. cbn [writer readers]. auto.
  - destruct wr as [x|]; [|exact I]. destruct (Nat.eqb x t); [|exact I]. cbn [writer readers]. congruence.
  - destruct wr; cbn [is_none andb]; [exact I|]. destruct (negb pw); [|exact I]. cbn [writer readers]. congruence.
  - destruct wr; cbn [is_none andb]; [exact W|]. destruct (negb pw); [|exact W]. cbn [writer readers]. congruence.
  - destruct (memb t rd); [|exact I]. cbn [writer readers]. intros N. rewrite (W N). reflexivity.
Qed.

Lemma rawwf_ext w w' : (forall l, w_raw w' l = w_raw w l) -> rawwf w -> rawwf w'.
Proof. intros E R l. rewrite E. apply R. Qed.

Lemma do_op_rawwf pw t o w : rawwf w ->
  match do_op pw t o w with RDone _ w' | RPanic w' | RBlock w' => rawwf w' end.
Proof.
  intros R. destruct o as [k l| | | | | | | | | | | |]; cbn [do_op]; try (eapply rawwf_ext; [|exact R]; intros; reflexivity).
  destruct (faulty w k l); [eapply rawwf_ext; [|exact R]; intros; reflexivity|].
  pose proof (raw_apply_xwf t k (w_raw w l) (pw l) (R l)) as X.
  destruct (raw_apply t k (w_raw w l) (pw l)) as [s'|bb s'| |]; try (eapply rawwf_ext; [|exact R]; intros; reflexivity);
    intros l0; cbn [emit tick set_raw w_raw]; unfold upd; destruct (Nat.eqb l0 l); [exact X|apply R|exact X|apply R].
Qed.

Lemma step_rawwf pw t p : forall w, rawwf w ->
  match step pw t p w with SStep _ w' | SBlock w' => rawwf w' | _ => True end.
Proof.
  induction p as [v| | | |o k IH|m IHm k IHk|b IHb h IHh]; intros w R; cbn [step]; try exact I.
  - pose proof (do_op_rawwf pw t o w R) as D. destruct (do_op pw t o w); exact D.
  - pose proof (IHm w R) as D. destruct (step pw t m w); try exact D. apply IHk. exact R.
  - pose proof (IHb w R) as D. destruct (step pw t b w); try exact D.
    pose proof (IHh w R) as E. destruct (step pw t h w); try exact E; exact I.
Qed.

Lemma adv_rawwf ra lr t p : forall w, rawwf w ->
  match adv ra lr t p w with AFin _ w' | APark _ w' => rawwf w' end.
Proof.
  induction p as [v| | | |o k IH|m IHm k IHk|b IHb h IHh]; intros w R; cbn [adv]; try exact R.
  - destruct (stops_here ra lr o); [exact R|].
    pose proof (do_op_rawwf nopw t o w R) as D. destruct (do_op nopw t o w); try exact D; [apply IH; exact D|exact R].
  - pose proof (IHm w R) as D. destruct (adv ra lr t m w) as [out w'|m' w']; [|exact D]. destruct out; try exact D. apply IHk. exact D.
  - pose proof (IHb w R) as D. destruct (adv ra lr t b w) as [out w'|b' w']; [|exact D]. destruct out; try exact D.
    pose proof (IHh w' D) as E. destruct (adv ra lr t h w') as [out2 w''|h' w'']; [|exact E]. destruct out2; exact E.
Qed.
