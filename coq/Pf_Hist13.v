(* Pf_Hist13.v — C13 over whole histories: in EVERY fault-free history every try / scoped try is refused exactly when
   a leaf of its root is unavailable in the hold table the previous call left. *)
From HL Require Import Base Model Shape Algo Api OpsLemmas Lemmas ShapeLemmas ApiLemmas QuietLemmas Pf_Calls Check Monitors
  Pf_C06 Pf_C13 Pf_Acct Pf_Hist Pf_Hist5 Pf_Hist4.

Lemma step_C13h sc h ms t o h' co :
  wf_hist sc -> wf4 sc -> qinv sc h ms -> In (t, o) (sc_hist sc) ->
  hstep (sc_env sc) (sc_nlocks sc) (sc_npids sc) h (t, o) = (h', [co]) ->
  judge_C13h sc ms (snapshot_holds (sc_nlocks sc) (h_w h)) t o co = true.
Proof.
  intros W W4 Q Hin St.
  destruct (hstep_cases sc (sc_nlocks sc) (sc_npids sc) h ms t o W Q Hin) as [[Hp E]|[p [out [w' [Hp [Rn [CO E]]]]]]];
    rewrite E in St; inversion St; subst h' co; clear St E.
  - unfold judge_C13h. cbn [co_ret]. destruct o as [| | |c m f| | | | | | | | |]; try reflexivity. destruct f; reflexivity.
  - destruct o as [| | |c m f| | | | | | | | |]; try reflexivity.
    set (lc := h_loc h t) in *. set (rc := snd (api_fin (sc_env sc) lc (AAcquire c m f) out)) in *.
    set (w := clear_trace (h_w h)) in *.
    pose proof (acq_haskey _ _ _ _ _ _ Hp) as Hk.
    destruct (wh_colls _ W t c m f Hin) as [s [Hn [Ha ND]]].
    assert (Hs : shape_of sc c = s) by (unfold shape_of; now rewrite Hn).
    assert (Hk4 : forall k l, In (k, l) (kleaves s) -> l < sc_nlocks sc /\ (m = Sh -> k = KRw)).
    { intros k l Hl. apply (W4 t c m f Hin k l). now rewrite Hs. }
    assert (Av : forallb (fun l => leaf_avail m (nth l (snapshot_holds (sc_nlocks sc) (h_w h)) raw_free)) (leaves (shape_of sc c)) =
                 can_all m (kleaves s) (w_raw w)).
    { rewrite Hs. rewrite (can_all_leaf_avail sc m s Hk4 w). apply forallb_ext_in'. intros l _.
      first [reflexivity | f_equal; f_equal; apply snapshot_holds_ext; intros x; reflexivity]. }
    unfold judge_C13h. cbn [co_ret]. fold lc rc. rewrite Av.
    destruct f as [| |lent body|lent body]; try reflexivity.
    + (* FTry *)
      cbn [api_prog] in Hp. unfold coll in Hp. change (e_colls (sc_env sc)) with (sc_colls sc) in Hp. rewrite Hn, Hk in Hp.
      injection Hp as <-.
      destruct (run_raw_try t m (e_am (sc_env sc)) s w (quiet_clear _ (qi_quiet _ _ _ Q)) Ha ND) as [w1 [R1 E1]].
      destruct (can_all m (kleaves s) (w_raw w)) eqn:Cn.
      * destruct (run_see_all t (gpoisons (gitems s)) w1) as [w2 [R2 _]].
        destruct (run_poison_result_any t s w2) as [n [R3 Hn3]].
        assert (Rb : run nopw t (Bind (raw_try m (alg_of (e_am (sc_env sc)) s))
                         (fun v => if vtrue v then see_all (gpoisons (gitems s)) ;; poison_result s else Ret (VNat 1))) w
                     = (ODone (VNat n), w2)).
        { rewrite (run_bind_done _ _ _ _ _ _ _ R1). cbn [vtrue]. rewrite (run_then_done _ _ _ _ _ VUnit w2) by exact R2. exact R3. }
        pose proof (run_with_key_done nopw t true false _ _ _ _ Rb) as Rk'. cbn iota in Rk'.
        cbn [sc_env e_am] in Rk'. rewrite Rk' in Rn. inversion Rn; subst out w'.
        unfold rc. destruct Hn3 as [-> | ->]; cbn; destruct (coll (sc_env sc) c); reflexivity.
      * assert (Rb : run nopw t (Bind (raw_try m (alg_of (e_am (sc_env sc)) s))
                         (fun v => if vtrue v then see_all (gpoisons (gitems s)) ;; poison_result s else Ret (VNat 1))) w
                     = (ODone (VNat 1), w1)).
        { rewrite (run_bind_done _ _ _ _ _ _ _ R1). reflexivity. }
        pose proof (run_with_key_done nopw t true false _ _ _ _ Rb) as Rk'. cbn iota in Rk'.
        cbn [sc_env e_am] in Rk'. rewrite Rk' in Rn. inversion Rn; subst out w'. reflexivity.
    + (* FScopedTry *)
      cbn [api_prog] in Hp. unfold coll in Hp. change (e_colls (sc_env sc)) with (sc_colls sc) in Hp. rewrite Hn, Hk in Hp.
      injection Hp as <-.
      destruct (run_raw_try t m (e_am (sc_env sc)) s w (quiet_clear _ (qi_quiet _ _ _ Q)) Ha ND) as [w1 [R1 E1]].
      cbn [sc_env e_am e_fuel] in R1.
      pose proof (run_with_key_done nopw t (negb lent) false _ _ _ _ R1) as Rk'. cbn iota in Rk'.
      rewrite (run_bind_done _ _ _ _ _ _ _ Rk') in Rn. cbn [vtrue] in Rn.
      destruct (can_all m (kleaves s) (w_raw w)) eqn:Cn.
      * assert (Qw1 : quiet w1) by (eapply eff_quiet; [exact E1|apply quiet_clear, (qi_quiet _ _ _ Q)]).
        assert (Ep : effp w1 w1 (acq_all t m (kleaves s) (w_raw w)) (w_psn w1)).
        { constructor; auto. - apply (eff_raw _ _ _ E1). - exists []. split; [reflexivity|constructor]. }
        destruct (run_scoped_rest_quiet t m (e_am (sc_env sc)) s lent body Ha ND skip w1 VUnit w1 (w_raw w) Qw1 eq_refl Ep
                    (fun x => eq_refl) Cn) as [w2 [R2 _]].
        cbn [sc_env e_am e_fuel] in R2. rewrite R2 in Rn. inversion Rn; subst out w'.
        unfold rc. destruct (existsb is_cpanic body); reflexivity.
      * cbn [run] in Rn. inversion Rn; subst out w'. reflexivity.
Qed.

Lemma mfold_C13h sc :
  wf_hist sc -> wf4 sc ->
  forall hist, (forall x, In x hist -> In x (sc_hist sc)) ->
  forall h ms, qinv sc h ms ->
  mfold (judge_C13h sc) ms (snapshot_holds (sc_nlocks sc) (h_w h)) hist
        (snd (hrun (sc_env sc) (sc_nlocks sc) (sc_npids sc) h hist)) = true.
Proof.
  intros W W4. induction hist as [|[t o] r IH]; intros Hsub h ms Q; [reflexivity|].
  destruct (qstep sc (sc_nlocks sc) (sc_npids sc) h ms t o W Q (Hsub _ (or_introl eq_refl)))
    as [h' [co [St [Ht [_ [_ [Hh [Hs' Q']]]]]]]].
  pose proof (step_C13h sc h ms t o h' co W W4 Q (Hsub _ (or_introl eq_refl)) St) as J.
  rewrite (hrun_cons _ _ _ h (t, o) r h' [co] St). cbn [app mfold].
  rewrite Ht, Nat.eqb_refl, J. cbn [andb].
  destruct (stop_code (co_ret co)) eqn:Sc; [reflexivity|].
  rewrite Hh. apply IH; [|now apply Q'].
  intros x Hx. apply Hsub. now right.
Qed.

Theorem C13_all_histories sc : wf_hist sc -> wf4 sc -> mon_C13h sc (model_obs sc) = true.
Proof.
  intros W W4. unfold mon_C13h, run_monitor, model_obs, pre_holds.
  apply (mfold_C13h sc W W4 (sc_hist sc) (fun x H => H) _ _ (qinv_init sc W)).
Qed.

Corollary C13_all_histories_dec sc : wf_histb sc && wf4b sc = true -> mon_C13h sc (model_obs sc) = true.
Proof.
  intros H. apply andb_true_iff in H. destruct H as [A B].
  apply C13_all_histories; [now apply wf_histb_ok|now apply wf4b_ok].
Qed.
