(* Prop_C16.v — C16 (partial: an ownership ledger, not a memory model): values are dropped exactly once and
   round-trip unchanged. *)
From HL Require Import Base Values.

Lemma drop_vals_count vs : forall d i,
  drop_vals d vs i = d i + count_occ Nat.eq_dec (map fst vs) i.
Proof.
  induction vs as [|[j v] r IH]; intros d i; simpl; [lia|].
  rewrite IH. unfold upd. destruct (Nat.eq_dec j i) as [->|Hn].
  - rewrite Nat.eqb_refl. lia.
  - destruct (Nat.eqb_spec i j); [congruence|lia].
Qed.

Lemma count_nodup l i : NoDup l -> count_occ Nat.eq_dec l i = if in_dec Nat.eq_dec i l then 1 else 0.
Proof.
  intros ND. destruct (in_dec Nat.eq_dec i l) as [Hin|Hn].
  - apply NoDup_count_occ' with (decA := Nat.eq_dec) in Hin; [exact Hin|exact ND].
  - now apply count_occ_not_In.
Qed.

(* plain drop of a boxed collection (also the path of a checked constructor that rejects its input): every value
   dropped exactly once, the heap cell and the lock cache freed exactly once, nothing used after it was freed *)
Theorem C16_boxed_drop_exactly_once :
  forall vs, NoDup (map fst vs) ->
  let l := fst (vrun l0 (boxed_new vs ++ boxed_drop)) in
  l_err l = false /\ l_cell_frees l = 1 /\ l_locks_frees l = 1 /\ l_cell l = None /\
  forall i, l_drops l i = if in_dec Nat.eq_dec i (map fst vs) then 1 else 0.
Proof.
  intros vs ND. cbn. repeat split. intros i. rewrite drop_vals_count. cbn. now apply count_nodup.
Qed.

(* into_child / into_inner of a boxed collection: exactly the stored values come back, nothing is dropped by the
   call, the cell and the cache are freed once (drop_in_place + mem::forget); dropping what came back drops each once *)
Theorem C16_boxed_into_child_roundtrip :
  forall vs, NoDup (map fst vs) ->
  let r := vrun l0 (boxed_new vs ++ boxed_into_child) in
  snd r = vs /\ l_err (fst r) = false /\ l_cell_frees (fst r) = 1 /\ l_locks_frees (fst r) = 1 /\
  (forall i, l_drops (fst r) i = 0) /\
  forall i, l_drops (fst (vrun (fst r) [VDropVals (snd r)])) i = if in_dec Nat.eq_dec i (map fst vs) then 1 else 0.
Proof.
  intros vs ND. cbn. rewrite app_nil_r. repeat split. intros i. rewrite drop_vals_count. cbn. now apply count_nodup.
Qed.

(* why into_child must mem::forget(self): letting the destructor run afterwards frees twice *)
Theorem C16_into_child_without_forget_is_wrong :
  forall vs, l_err (fst (vrun l0 (boxed_new vs ++ boxed_into_child ++ boxed_drop))) = true.
Proof. intros vs. cbn. reflexivity. Qed.

(* the monitor that is run on the implementation's drop counters and returned values holds of the model, for every
   kind, path, size 0..6 and written position (finite domain, decided by evaluation) *)
Definition all_kinds := [VKBoxed; VKOwned; VKRetry; VKRef].
Definition all_paths := [PDrop; PIntoInner; PIntoChild; PLockThenIntoInner; PGetMut; PIntoIter; PIntoIterPartial; PFromIter;
                         PExtend; PTryNewReject; PTryNewAccept; PRefColl; PDefault; PNestedIntoInner; PPoisonableIntoInner; PDropUnw].
Definition all_wpos := None :: map Some (seq 0 7).

Definition c16_all : bool :=
  forallb (fun k => forallb (fun p => forallb (fun n => forallb (fun w =>
    let r := vmodel k p n w in
    mon_C16 k p n w (fst r) (drops_list (snd r)) && negb (l_err (snd r)))
    all_wpos) (seq 0 7)) all_paths) all_kinds.

Theorem C16_monitor_sizes_0_to_6 : c16_all = true.
Proof. vm_compute. reflexivity. Qed.

Theorem C16_monitor :
  forall k p n w, n <= 6 -> In w all_wpos ->
  mon_C16 k p n w (fst (vmodel k p n w)) (drops_list (snd (vmodel k p n w))) = true.
Proof.
  intros k p n w Hn Hw. pose proof C16_monitor_sizes_0_to_6 as H. unfold c16_all in H.
  rewrite forallb_forall in H. assert (Hk : In k all_kinds) by (destruct k; simpl; tauto).
  specialize (H k Hk). rewrite forallb_forall in H.
  assert (Hp : In p all_paths) by (destruct p; simpl; tauto).
  specialize (H p Hp). rewrite forallb_forall in H.
  assert (Hs : In n (seq 0 7)) by (apply in_seq; lia).
  specialize (H n Hs). rewrite forallb_forall in H. specialize (H w Hw).
  apply andb_true_iff in H. apply H.
Qed.

Print Assumptions C16_boxed_drop_exactly_once.
Print Assumptions C16_boxed_into_child_roundtrip.
Print Assumptions C16_into_child_without_forget_is_wrong.
Print Assumptions C16_monitor.
