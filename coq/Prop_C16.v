(* Prop_C16.v — C16 (an ownership model, not a memory model): values are dropped exactly once and round-trip unchanged.
   First the boxed collection's ledger (Values.v), then every declared structure of any nesting and size (VTree.v). *)
From HL Require Import Base Values VTree Pf_C16.

Lemma drop_vals_count vs : forall d i,
  drop_vals d vs i = d i + count_occ Nat.eq_dec (map fst vs) i.
Proof.
  induction vs as [|[j v] r IH]; intros d i; simpl; [lia|].
  rewrite IH. unfold upd. destruct (Nat.eq_dec j i) as [->|Hn].
  - rewrite Nat.eqb_refl. lia.
  - destruct (Nat.eqb_spec i j); [congruence|lia].
Qed.

Lemma count_nodup l i : NoDup l -> count_occ Nat.eq_dec l i = if in_dec Nat.eq_dec i l then 1 else 0.
Proof.
  intros ND. destruct (in_dec Nat.eq_dec i l) as [Hin|Hn].
  - apply NoDup_count_occ' with (decA := Nat.eq_dec) in Hin; [exact Hin|exact ND].
  - now apply count_occ_not_In.
Qed.

(* plain drop of a boxed collection (also the path of a checked constructor that rejects its input): every value
   dropped exactly once, the heap cell and the lock cache freed exactly once, nothing used after it was freed *)
Theorem C16_boxed_drop_exactly_once :
  forall vs, NoDup (map fst vs) ->
  let l := fst (vrun l0 (boxed_new vs ++ boxed_drop)) in
  l_err l = false /\ l_cell_frees l = 1 /\ l_locks_frees l = 1 /\ l_cell l = None /\
  forall i, l_drops l i = if in_dec Nat.eq_dec i (map fst vs) then 1 else 0.
Proof.
  intros vs ND. cbn. repeat split. intros i. rewrite drop_vals_count. cbn. now apply count_nodup.
Qed.

(* into_child / into_inner of a boxed collection: exactly the stored values come back, nothing is dropped by the
   call, the cell and the cache are freed once (drop_in_place + mem::forget); dropping what came back drops each once *)
Theorem C16_boxed_into_child_roundtrip :
  forall vs, NoDup (map fst vs) ->
  let r := vrun l0 (boxed_new vs ++ boxed_into_child) in
  snd r = vs /\ l_err (fst r) = false /\ l_cell_frees (fst r) = 1 /\ l_locks_frees (fst r) = 1 /\
  (forall i, l_drops (fst r) i = 0) /\
  forall i, l_drops (fst (vrun (fst r) [VDropVals (snd r)])) i = if in_dec Nat.eq_dec i (map fst vs) then 1 else 0.
Proof.
  intros vs ND. cbn. rewrite app_nil_r. repeat split. intros i. rewrite drop_vals_count. cbn. now apply count_nodup.
Qed.

(* why into_child must mem::forget(self): letting the destructor run afterwards frees twice *)
Theorem C16_into_child_without_forget_is_wrong :
  forall vs, l_err (fst (vrun l0 (boxed_new vs ++ boxed_into_child ++ boxed_drop))) = true.
Proof. intros vs. cbn. reflexivity. Qed.

(* the monitor that is run on the implementation's drop counters and returned values holds of the model, for every
   kind, path, size 0..6 and written position (finite domain, decided by evaluation) *)
Definition all_kinds := [VKBoxed; VKOwned; VKRetry; VKRef].
Definition all_paths := [PDrop; PIntoInner; PIntoChild; PLockThenIntoInner; PGetMut; PIntoIter; PIntoIterPartial; PFromIter;
                         PExtend; PTryNewReject; PTryNewAccept; PRefColl; PDefault; PNestedIntoInner; PPoisonableIntoInner; PDropUnw].
Definition all_wpos := None :: map Some (seq 0 7).

Definition c16_all : bool :=
  forallb (fun k => forallb (fun p => forallb (fun n => forallb (fun w =>
    let r := vmodel k p n w in
    mon_C16 k p n w (fst r) (drops_list (snd r)) && negb (l_err (snd r)))
    all_wpos) (seq 0 7)) all_paths) all_kinds.

Theorem C16_monitor_sizes_0_to_6 : c16_all = true.
Proof. vm_compute. reflexivity. Qed.

Theorem C16_monitor :
  forall k p n w, n <= 6 -> In w all_wpos ->
  mon_C16 k p n w (fst (vmodel k p n w)) (drops_list (snd (vmodel k p n w))) = true.
Proof.
  intros k p n w Hn Hw. pose proof C16_monitor_sizes_0_to_6 as H. unfold c16_all in H.
  rewrite forallb_forall in H. assert (Hk : In k all_kinds) by (destruct k; simpl; tauto).
  specialize (H k Hk). rewrite forallb_forall in H.
  assert (Hp : In p all_paths) by (destruct p; simpl; tauto).
  specialize (H p Hp). rewrite forallb_forall in H.
  assert (Hs : In n (seq 0 7)) by (apply in_seq; lia).
  specialize (H n Hs). rewrite forallb_forall in H. specialize (H w Hw).
  apply andb_true_iff in H. apply H.
Qed.

(* ================================================================ every declared structure (VTree.v, Pf_C16.v) *)

(* [T; N]::into_inner / get_mut / guard / data_mut: the MaybeUninit loop writes every slot exactly once before
   assume_init reads it, for every N *)
Theorem C16_array_loop_is_identity : forall (A : Type) (xs : list A), arr_collect xs = Some xs.
Proof. exact @arr_collect_id. Qed.

(* into_inner of ANY structure (locks, Poisonable wrappers, Vec / Box<[T]> / array / tuple, boxed / owned / retrying
   collections, nested to any depth, any sizes): it returns the structure-preserving image of the stored payloads — which
   flattens to exactly the stored payloads in declared order — runs no destructor, frees the heap cell and the lock cache
   of every boxed collection on the way exactly once; dropping what came back drops every payload once per occurrence *)
Theorem C16_into_inner_every_structure :
  forall t,
    fst (into_inner t) = Some (spec t) /\
    tokvals (flat (spec t)) = vals t /\
    (forall i, count_ev (is_drop i) (snd (into_inner t)) = 0) /\
    (forall c, count_ev (is_cell c) (snd (into_inner t)) = occ c (cells t) /\
               count_ev (is_cache c) (snd (into_inner t)) = occ c (cells t)) /\
    (forall i, count_ev (is_drop i) (drop_i (spec t)) = occ i (ids t)).
Proof.
  intros t. split; [apply into_inner_spec|]. split; [apply flat_spec_vals|]. split; [apply into_inner_no_drop|].
  split; [apply into_inner_cells|apply drop_i_spec].
Qed.

Theorem C16_get_mut_every_structure : forall t, get_mut t = Some (spec t).
Proof. exact get_mut_spec. Qed.

(* plain drop (also: a checked constructor rejecting its input, drop by unwinding) of ANY structure *)
Theorem C16_drop_every_structure :
  forall t, (forall i, count_ev (is_drop i) (drop_t t) = occ i (ids t)) /\
            (forall c, count_ev (is_cell c) (drop_t t) = occ c (cells t) /\ count_ev (is_cache c) (drop_t t) = occ c (cells t)).
Proof. intros t. split; [apply drop_t_drops|apply drop_t_cells]. Qed.

(* a write under the lock at position p changes the p-th payload of the declared order and nothing else *)
Theorem C16_write_position : forall p t, vals (bump p 0 t) = bump_vals p 0 (vals t).
Proof. intros p t. apply vals_bump. Qed.

(* the monitor evaluated on the implementation's observation holds of the model, for EVERY structure, path and write
   position (no size bound): every payload dropped exactly once, the returned values are the stored ones at their
   declared positions carrying the last write; and each boxed cell is freed exactly once *)
Theorem C16_every_structure :
  forall p t w n toks evs,
    wf_vt n t = true -> tmodel p t w = (Some toks, evs) ->
    mon_T16 p t w toks (drops_of evs n) = true /\
    forall c, count_ev (is_cell c) evs = (if memb c (cells t) then 1 else 0) /\
              count_ev (is_cache c) evs = (if memb c (cells t) then 1 else 0).
Proof.
  intros p t w n toks evs Hwf H. split; [now apply mon_T16_model|].
  intros c. eapply tmodel_cells; [|exact H].
  unfold wf_vt in Hwf. apply andb_true_iff in Hwf. destruct Hwf as [Hwf _]. apply andb_true_iff in Hwf. apply Hwf.
Qed.

(* no path of the model runs into the undefined case (an array slot read before it was written) *)
Theorem C16_model_defined : forall p t w, exists toks evs, tmodel p t w = (Some toks, evs).
Proof. exact tmodel_defined. Qed.

Theorem C16_into_child_needs_forget :
  forall c t, count_ev (is_cell c) (into_child_ev KBoxed c ++ drop_t (TColl KBoxed c t)) >= 2.
Proof. exact into_child_without_forget_double_free. Qed.

(* non-vacuity: a nested structure with boxed collections at two levels, a poisoned wrapper and an array *)
Definition ex_t16 : vt :=
  TColl KBoxed 0 (TCont CTup [TColl KBoxed 1 (TCont CVec [TLock (0, 0); TLock (1, 0)]);
                              TColl KRetry 0 (TCont CArr [TLock (2, 0); TLock (3, 0)]);
                              TPoison true (TColl KOwned 0 (TCont CBox [TLock (4, 0)]))]).
Example C16_example_wf : wf_vt 32 ex_t16 = true.
Proof. vm_compute. reflexivity. Qed.
Example C16_example_run :
  fst (tmodel QIntoInner ex_t16 (Some 3)) =
  Some [KV (0, 0); KV (1, 0); KV (2, 0); KV (3, 1); KRes true; KV (4, 0)].
Proof. vm_compute. reflexivity. Qed.

Check C16_every_structure :
  forall p t w n toks evs,
    wf_vt n t = true -> tmodel p t w = (Some toks, evs) ->
    mon_T16 p t w toks (drops_of evs n) = true /\
    forall c, count_ev (is_cell c) evs = (if memb c (cells t) then 1 else 0) /\
              count_ev (is_cache c) evs = (if memb c (cells t) then 1 else 0).

Print Assumptions C16_boxed_drop_exactly_once.
Print Assumptions C16_boxed_into_child_roundtrip.
Print Assumptions C16_into_child_without_forget_is_wrong.
Print Assumptions C16_monitor.
Print Assumptions C16_array_loop_is_identity.
Print Assumptions C16_into_inner_every_structure.
Print Assumptions C16_get_mut_every_structure.
Print Assumptions C16_drop_every_structure.
Print Assumptions C16_write_position.
Print Assumptions C16_every_structure.
Print Assumptions C16_model_defined.
Print Assumptions C16_into_child_needs_forget.
