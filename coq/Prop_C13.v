(* Prop_C13.v — placeholder until the proof file exists *)
From HL Require Import Base Model Shape Algo Api Check Monitors.
Theorem C13_try_exact : True. Proof. exact I. Qed.
